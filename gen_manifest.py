#!/usr/bin/env python3
# Regenerates MANIFEST.json from props.json (per-property claim texts) and the
# list of properties the pdsa binary implements.
import json, subprocess, sys, os
here = os.path.dirname(os.path.abspath(__file__))
props = [json.loads(l) for l in open(os.path.join(here, 'properties.jsonl'))]
claims = json.load(open(os.path.join(here, 'claims.json')))
ENV = "GOFLAGS=-mod=mod GOPROXY=off GOSUMDB=off GOTOOLCHAIN=local"
checks, na = [], []
for p in props:
    pid = p['id']
    c = claims.get(pid)
    if not c or not c.get('implemented'):
        na.append({"property_id": pid, "reason": (c or {}).get('na_reason', 'static check not built yet in this round; see DESIGN.md section 5 for the planned structural clauses')})
        continue
    checks.append({
        "property_id": pid,
        "quick_cmd": f"/verif/run.sh {pid} quick",
        "thorough_cmd": f"/verif/run.sh {pid} thorough",
        "evidence_file": f"/verif/evidence/{pid}.json",
        "replay_cmd_template": f"/verif/run.sh {pid} quick  # re-derives the violation written to {{path}}",
        "engine": "pdsa",
        "level_claimed": {
            "category": "other",
            "text": c['text'],
            "design_ref": f"DESIGN.md section 5, {pid}",
        },
        "level_note": c['note'],
        "technique": c['technique'],
    })
m = {
    "version": 1,
    "setup_cmd": f"cd /verif/pdsa && env -u GOWORK {ENV} go build -o /verif/bin/pdsa .",
    "hooks": {
        "guard": "verif",
        "enable": "none needed: pure static analysis of /repo's working tree, no instrumentation (no hook commits)",
        "baseline_off_cmd": f"cd /repo && env {ENV} go test -vet=off -count=1 -timeout 25m $(go list ./... | grep -v -e /pkg/dashboard -e /cmd/pd-server -e '/tests')",
        "source_commits": [],
        "add_only": True,
    },
    "engines": [{
        "name": "pdsa",
        "path": "/verif/pdsa",
        "serves_properties": [c['property_id'] for c in checks],
        "kind_free_text": "repository-specific static analyser: go/packages type-checked program + go/ssa; rule engines: ownership (who-may-write/call), lockset incl. atomic read-modify-write, must-precede as CFG x event-automaton product reachability, etcd txn shape, table/exhaustiveness evaluation, guard atoms, id-kind inference, slice-length congruence, snapshot-rollback, filter-set obligations",
    }],
    "checks": checks,
    "notes": "Every check loads /repo's current working tree (no pd code is executed), prints one line per non-OK obligation, writes /verif/evidence/<id>.json. exit 0 = all obligations discharged (KNOWN-FINDING lines for entries of /verif/known_findings.json), exit 1 + VIOLATION line = an obligation failed, exit 2 (no VIOLATION line) = a rule subject could not be resolved (check needs maintenance). thorough = quick + plugin/tools packages + in-memory mutant sensitivity self-test (/verif/mutants).",
    "not_applicable": na,
}
json.dump(m, open(os.path.join(here, 'MANIFEST.json'), 'w'), indent=1)
print(len(checks), 'checks;', len(na), 'not applicable')
