#!/bin/sh
# usage: run.sh <property id> <quick|thorough>
# Rebuilds the analyser if needed and analyses /repo's current working tree.
export GOFLAGS=-mod=mod GOPROXY=off GOSUMDB=off GOTOOLCHAIN=local
unset GOWORK
cd /verif/pdsa || exit 2
if [ ! -x /verif/bin/pdsa ] || [ -n "$(find . -name '*.go' -newer /verif/bin/pdsa 2>/dev/null | head -1)" ]; then
  mkdir -p /verif/bin
  go build -o /verif/bin/pdsa . || exit 2
fi
cd /verif
exec /verif/bin/pdsa check -prop "$1" -tier "${2:-${VERIF_TIER:-quick}}" -repo /repo -verif /verif
