package main

// E7: id-kind inference. Unification-based inference of what a uint64 denotes
// (peer id / store id / region id) over every function of server/...; the
// kinds are seeded at the kvproto boundary only (Peer.Id, Peer.StoreId,
// Store.Id, Region.Id, *.StoreId, *.RegionId and their getters). A violation
// is a statement that would unify two classes carrying different seeds.

import (
	"fmt"
	"go/token"
	"go/types"
	"sort"
	"strings"

	"golang.org/x/tools/go/ssa"
)

type kind uint8

const (
	kNone kind = iota
	kPeer
	kStore
	kRegion
)

func (k kind) String() string { return [...]string{"-", "peer-id", "store-id", "region-id"}[k] }

type kNode struct {
	parent *kNode
	kind   kind
	seed   string // where the kind came from
	rank   int
}

func (n *kNode) find() *kNode {
	for n.parent != nil {
		if n.parent.parent != nil {
			n.parent = n.parent.parent
		}
		n = n.parent
	}
	return n
}

type kConflict struct {
	Pos    token.Pos
	Fn     *ssa.Function
	A, B   kind
	SeedA  string
	SeedB  string
	Detail string
}

type kindInfer struct {
	P         *Prog
	nodes     map[interface{}]*kNode
	conflicts []kConflict
	curFn     *ssa.Function
	curPos    token.Pos
	curDesc   string
	nFuncs    int
	implCache map[string][]*ssa.Function
	fresh     map[*ssa.Function]bool // functions returning freshly allocated (kindless) ids
}

type slotKey struct {
	v    interface{}
	slot byte // 's' scalar, 'k' map key, 'e' element
}
type resKey struct {
	fn  interface{}
	idx int
}

func isU64(t types.Type) bool {
	b, ok := t.Underlying().(*types.Basic)
	return ok && b.Kind() == types.Uint64
}

// slotsOf: which kind slots a value of type t carries.
func slotsOf(t types.Type) string {
	switch u := t.Underlying().(type) {
	case *types.Basic:
		if u.Kind() == types.Uint64 {
			return "s"
		}
	case *types.Map:
		s := ""
		if isU64(u.Key()) {
			s += "k"
		}
		if isU64(u.Elem()) {
			s += "e"
		}
		return s
	case *types.Slice:
		if isU64(u.Elem()) {
			return "e"
		}
	case *types.Array:
		if isU64(u.Elem()) {
			return "e"
		}
	case *types.Pointer:
		// pointer to array of ids (varargs backing store)
		if a, ok := u.Elem().Underlying().(*types.Array); ok && isU64(a.Elem()) {
			return "e"
		}
	}
	return ""
}

func (ki *kindInfer) node(key interface{}) *kNode {
	n := ki.nodes[key]
	if n == nil {
		n = &kNode{}
		ki.nodes[key] = n
	}
	return n
}

func (ki *kindInfer) seed(key interface{}, k kind, why string) {
	n := ki.node(key).find()
	if n.kind != kNone && n.kind != k {
		ki.conflicts = append(ki.conflicts, kConflict{ki.curPos, ki.curFn, n.kind, k, n.seed, why, ki.curDesc})
		return
	}
	if n.kind == kNone {
		n.kind, n.seed = k, why
	}
}

func (ki *kindInfer) union(a, b interface{}) {
	x, y := ki.node(a).find(), ki.node(b).find()
	if x == y {
		return
	}
	if x.kind != kNone && y.kind != kNone && x.kind != y.kind {
		ki.conflicts = append(ki.conflicts, kConflict{ki.curPos, ki.curFn, x.kind, y.kind, x.seed, y.seed, ki.curDesc})
		return // conflicting classes are not merged: one conflict cannot cascade
	}
	if x.rank < y.rank {
		x, y = y, x
	}
	y.parent = x
	if x.rank == y.rank {
		x.rank++
	}
	if x.kind == kNone {
		x.kind, x.seed = y.kind, y.seed
	}
}

// unifyVals: two values of (assignment-compatible) types share all slots.
func (ki *kindInfer) unifyVals(a, b ssa.Value) {
	if a == nil || b == nil {
		return
	}
	if _, ok := a.(*ssa.Const); ok {
		return
	}
	if _, ok := b.(*ssa.Const); ok {
		return
	}
	sa, sb := slotsOf(a.Type()), slotsOf(b.Type())
	for i := 0; i < len(sa); i++ {
		if strings.IndexByte(sb, sa[i]) >= 0 {
			ki.union(slotKey{a, sa[i]}, slotKey{b, sa[i]})
		}
	}
}

func (ki *kindInfer) unifyValKey(a ssa.Value, key interface{}) {
	if a == nil {
		return
	}
	if _, ok := a.(*ssa.Const); ok {
		return
	}
	for _, s := range []byte(slotsOf(a.Type())) {
		ki.union(slotKey{a, s}, slotKey{key, s})
	}
}

// scalar of a with slot s of container c
func (ki *kindInfer) unifyScalarSlot(a ssa.Value, c ssa.Value, slot byte) {
	if a == nil || c == nil {
		return
	}
	if _, ok := a.(*ssa.Const); ok {
		return
	}
	if !isU64(a.Type()) || strings.IndexByte(slotsOf(c.Type()), slot) < 0 {
		return
	}
	ki.union(slotKey{a, 's'}, slotKey{c, slot})
}

const kvprotoPrefix = "github.com/pingcap/kvproto/pkg/"

// seedOfField: kvproto struct fields with a fixed meaning.
func seedOfField(f *types.Var, owner *types.Named) kind {
	if f == nil || owner == nil || owner.Obj().Pkg() == nil || !strings.HasPrefix(owner.Obj().Pkg().Path(), kvprotoPrefix) {
		return kNone
	}
	tn := owner.Obj().Name()
	switch f.Name() {
	case "StoreId":
		return kStore
	case "RegionId":
		return kRegion
	case "Id":
		switch tn {
		case "Peer":
			return kPeer
		case "Store":
			return kStore
		case "Region":
			return kRegion
		}
	}
	return kNone
}

func seedOfGetter(fn *ssa.Function) kind {
	if fn == nil || fn.Signature.Recv() == nil {
		return kNone
	}
	n := namedOf(fn.Signature.Recv().Type())
	if n == nil || n.Obj().Pkg() == nil || !strings.HasPrefix(n.Obj().Pkg().Path(), kvprotoPrefix) {
		return kNone
	}
	switch fn.Name() {
	case "GetStoreId":
		return kStore
	case "GetRegionId":
		return kRegion
	case "GetId":
		switch n.Obj().Name() {
		case "Peer":
			return kPeer
		case "Store":
			return kStore
		case "Region":
			return kRegion
		}
	}
	return kNone
}

func inScope(fn *ssa.Function) bool {
	return strings.HasPrefix(fnPkgPath(fn), modPath+"/server")
}

// addrTarget: the node key and slot denoted by an address.
func (ki *kindInfer) addrTarget(addr ssa.Value) (key interface{}, elemOfContainer ssa.Value) {
	switch a := addr.(type) {
	case *ssa.FieldAddr:
		f := fieldOfAddr(a)
		if k := seedOfField(f, namedOf(a.X.Type())); k != kNone && isU64(f.Type()) {
			ki.seed(slotKey{f, 's'}, k, fmt.Sprintf("field %s.%s", namedOf(a.X.Type()).Obj().Name(), f.Name()))
		}
		return f, nil
	case *ssa.IndexAddr:
		return nil, a.X
	case *ssa.Alloc:
		return a, nil
	case *ssa.Global:
		return a, nil
	case *ssa.FreeVar:
		return a, nil
	case *ssa.Parameter:
		return a, nil
	}
	return nil, nil
}

func runKindInference(P *Prog) *kindInfer {
	ki := &kindInfer{P: P, nodes: map[interface{}]*kNode{}, implCache: map[string][]*ssa.Function{}, fresh: map[*ssa.Function]bool{}}
	ki.computeFresh()
	for _, fn := range P.Funcs {
		if !inScope(fn) || P.isScaffold(fn) {
			continue
		}
		ki.nFuncs++
		ki.curFn = fn
		for _, b := range fn.Blocks {
			for _, ins := range b.Instrs {
				ki.curPos = ins.Pos()
				ki.curDesc = ins.String()
				ki.visit(fn, ins)
			}
		}
	}
	return ki
}

func (ki *kindInfer) visit(fn *ssa.Function, ins ssa.Instruction) {
	switch x := ins.(type) {
	case *ssa.Phi:
		for _, e := range x.Edges {
			ki.unifyVals(x, e)
		}
	case *ssa.ChangeType:
		ki.unifyVals(x, x.X)
	case *ssa.Convert:
		if isU64(x.Type()) && isU64(x.X.Type()) {
			ki.unifyVals(x, x.X)
		}
	case *ssa.MakeInterface, *ssa.TypeAssert:
		// kinds do not travel through interfaces
	case *ssa.BinOp:
		if (x.Op == token.EQL || x.Op == token.NEQ) && isU64(x.X.Type()) && isU64(x.Y.Type()) {
			ki.unifyVals(x.X, x.Y)
		}
	case *ssa.Store:
		key, cont := ki.addrTarget(x.Addr)
		if key != nil {
			ki.unifyValKey(x.Val, key)
		} else if cont != nil {
			ki.unifyScalarSlot(x.Val, cont, 'e')
		}
	case *ssa.UnOp:
		if x.Op == token.MUL {
			key, cont := ki.addrTarget(x.X)
			if key != nil {
				ki.unifyValKey(x, key)
			} else if cont != nil {
				ki.unifyScalarSlot(x, cont, 'e')
			}
		}
	case *ssa.Field:
		f := fieldOfField(x)
		if k := seedOfField(f, namedOf(x.X.Type())); k != kNone && isU64(f.Type()) {
			ki.seed(slotKey{f, 's'}, k, "field "+f.Name())
		}
		ki.unifyValKey(x, f)
	case *ssa.FieldAddr:
		// address of an array/slice field used as container: tie container slots to the field
		// (handled when loaded)
	case *ssa.IndexAddr:
		// container identity flows: &a[i] of *[n]uint64
	case *ssa.Index:
		ki.unifyScalarSlot(x, x.X, 'e')
	case *ssa.Slice:
		ki.unifyVals(x, x.X)
		if strings.Contains(slotsOf(x.Type()), "e") && strings.Contains(slotsOf(x.X.Type()), "e") {
			ki.union(slotKey{x, 'e'}, slotKey{x.X, 'e'})
		}
	case *ssa.MapUpdate:
		ki.unifyScalarSlot(x.Key, x.Map, 'k')
		ki.unifyScalarSlot(x.Value, x.Map, 'e')
	case *ssa.Lookup:
		if _, ok := x.X.Type().Underlying().(*types.Map); ok {
			ki.unifyScalarSlot(x.Index, x.X, 'k')
			if x.CommaOk {
				// result is a tuple: handled at Extract
			} else {
				ki.unifyScalarSlot(x, x.X, 'e')
			}
		}
	case *ssa.Extract:
		switch t := x.Tuple.(type) {
		case *ssa.Lookup:
			if x.Index == 0 {
				ki.unifyScalarSlot(x, t.X, 'e')
			}
		case *ssa.Next:
			if r, ok := t.Iter.(*ssa.Range); ok {
				if x.Index == 1 {
					ki.unifyScalarSlot(x, r.X, 'k')
				}
				if x.Index == 2 {
					ki.unifyScalarSlot(x, r.X, 'e')
				}
			}
		case *ssa.Call:
			ki.callResult(x, t, x.Index)
		}
	case *ssa.Return:
		for i, r := range x.Results {
			if i == 0 && ki.fresh[origin(fn)] {
				continue
			}
			ki.unifyValKey(r, resKey{origin(fn), i})
		}
	case *ssa.MakeClosure:
		if g, ok := x.Fn.(*ssa.Function); ok {
			for i, b := range x.Bindings {
				if i < len(g.FreeVars) {
					ki.unifyValKey(b, g.FreeVars[i])
				}
			}
		}
	case ssa.CallInstruction:
		ki.call(x)
	}
}

func (ki *kindInfer) callResult(dst ssa.Value, c *ssa.Call, idx int) {
	cc := c.Common()
	if cc.IsInvoke() {
		for _, impl := range ki.impls(cc) {
			if ki.fresh[origin(impl)] && idx <= 0 {
				continue
			}
			ki.unifyValKey(dst, resKey{origin(impl), idx})
		}
		return
	}
	callee := cc.StaticCallee()
	if callee == nil {
		return
	}
	if ki.fresh[origin(callee)] && idx <= 0 {
		return
	}
	if k := seedOfGetter(callee); k != kNone && idx <= 0 {
		ki.seed(slotKey{dst, 's'}, k, fmt.Sprintf("%s.%s()", namedOf(callee.Signature.Recv().Type()).Obj().Name(), callee.Name()))
		return
	}
	if inScope(callee) && callee.Blocks != nil {
		if idx < 0 {
			idx = 0
		}
		ki.unifyValKey(dst, resKey{origin(callee), idx})
	}
}

func (ki *kindInfer) call(ci ssa.CallInstruction) {
	cc := ci.Common()
	if b, ok := cc.Value.(*ssa.Builtin); ok {
		switch b.Name() {
		case "append":
			if v := ci.Value(); v != nil && len(cc.Args) == 2 {
				ki.unifyVals(v, cc.Args[0])
				ki.unifyVals(v, cc.Args[1])
			}
		case "delete":
			if len(cc.Args) == 2 {
				ki.unifyScalarSlot(cc.Args[1], cc.Args[0], 'k')
			}
		case "copy":
			if len(cc.Args) == 2 {
				ki.unifyVals(cc.Args[0], cc.Args[1])
			}
		}
		return
	}
	var callees []*ssa.Function
	if cc.IsInvoke() {
		callees = ki.impls(cc)
	} else if callee := cc.StaticCallee(); callee != nil {
		callees = []*ssa.Function{callee}
	}
	for _, callee := range callees {
		if !inScope(callee) || callee.Blocks == nil {
			continue
		}
		params := callee.Params
		args := cc.Args
		if cc.IsInvoke() && len(params) > 0 {
			params = params[1:] // receiver
		}
		for i, a := range args {
			if i >= len(params) {
				break
			}
			p := params[i]
			// a parameter the body never reads constrains nothing
			if p.Referrers() == nil || len(*p.Referrers()) == 0 {
				continue
			}
			ki.unifyVals(a, p)
		}
	}
	if v := ci.Value(); v != nil {
		if _, isTuple := v.Type().(*types.Tuple); !isTuple {
			ki.callResult(v, v, -1)
		}
	}
}

// impls: in-scope concrete methods an interface invoke may reach.
func (ki *kindInfer) impls(cc *ssa.CallCommon) []*ssa.Function {
	it, ok := cc.Value.Type().Underlying().(*types.Interface)
	if !ok {
		return nil
	}
	key := cc.Value.Type().String() + "." + cc.Method.Name()
	if v, ok := ki.implCache[key]; ok {
		return v
	}
	var out []*ssa.Function
	for _, fn := range ki.P.Funcs {
		if fn.Name() != cc.Method.Name() || fn.Signature.Recv() == nil || fn.Parent() != nil || !inScope(fn) || fn.Synthetic != "" {
			continue
		}
		if ki.P.isScaffold(fn) {
			continue
		}
		recv := fn.Signature.Recv().Type()
		if types.Implements(recv, it) || types.Implements(types.NewPointer(recv), it) {
			out = append(out, fn)
		}
	}
	ki.implCache[key] = out
	return out
}

func (ki *kindInfer) report() []kConflict {
	sort.SliceStable(ki.conflicts, func(i, j int) bool { return ki.conflicts[i].Pos < ki.conflicts[j].Pos })
	// one report per (function, position)
	var out []kConflict
	seen := map[string]bool{}
	for _, c := range ki.conflicts {
		k := fmt.Sprintf("%s|%d", fnName(c.Fn), c.Pos)
		if seen[k] {
			continue
		}
		seen[k] = true
		out = append(out, c)
	}
	return out
}

// kindOf: inferred kind of a node key (nil if unknown).
func (ki *kindInfer) kindOfField(f *types.Var) kind {
	if n, ok := ki.nodes[slotKey{f, 's'}]; ok {
		return n.find().kind
	}
	return kNone
}

func (ki *kindInfer) kindOfFieldSlot(f *types.Var, slot byte) kind {
	if n, ok := ki.nodes[slotKey{f, slot}]; ok {
		return n.find().kind
	}
	return kNone
}

// computeFresh: the id allocator's Alloc and every function that just hands
// its result on return fresh ids, which have no kind until they are used.
func (ki *kindInfer) computeFresh() {
	allocI, ok := ki.P.IMethod("server/id", "Allocator", "Alloc").(imCallee)
	if !ok {
		return
	}
	for _, fn := range ki.P.Funcs {
		if fn.Name() == "Alloc" && fn.Signature.Recv() != nil {
			recv := fn.Signature.Recv().Type()
			if types.Implements(recv, allocI.it) || types.Implements(types.NewPointer(recv), allocI.it) {
				ki.fresh[fn] = true
			}
		}
	}
	isFreshCall := func(v ssa.Value) bool {
		c, _ := callOf(v)
		if c == nil {
			return false
		}
		if allocI.Match(c.Common()) {
			return true
		}
		if c.Call.IsInvoke() {
			impls := ki.impls(c.Common())
			if len(impls) == 0 {
				return false
			}
			for _, f := range impls {
				if !ki.fresh[f] {
					return false
				}
			}
			return true
		}
		f := c.Call.StaticCallee()
		return f != nil && ki.fresh[origin(f)]
	}
	for changed := true; changed; {
		changed = false
		for _, fn := range ki.P.Funcs {
			if ki.fresh[fn] || fn.Blocks == nil || fn.Signature.Results().Len() == 0 || !isU64(fn.Signature.Results().At(0).Type()) {
				continue
			}
			all, any := true, false
			for _, b := range fn.Blocks {
				for _, ins := range b.Instrs {
					if r, ok := ins.(*ssa.Return); ok {
						v := retVal(r, 0)
						if isFreshCall(v) {
							any = true
						} else if k, isC := constInt(v); isC && k == 0 {
							// error path returns 0
						} else {
							all = false
						}
					}
				}
			}
			if all && any {
				ki.fresh[fn] = true
				ki.implCache = map[string][]*ssa.Function{}
				changed = true
			}
		}
	}
}
