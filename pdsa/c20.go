package main

import (
	"fmt"
	"go/types"

	"golang.org/x/tools/go/ssa"
)

func ruleBootstrapTxn(c *Ctx) {
	P := c.P
	rule := c.Prop + "/bootstrap-txn"
	boot := P.Method("server", "Server", "bootstrapCluster")
	c.saw(fnName(boot))
	var sites []*TxnSite
	for _, s := range P.txnSites() {
		if s.Fn == boot {
			sites = append(sites, s)
		}
	}
	c.Check(len(sites) >= 4, rule, "puts in "+fnName(boot), "cluster meta, bootstrap time, first store and first region are all written here", P.pos(boot.Pos()), fmt.Sprintf("found %d etcd writes", len(sites)))
	if len(sites) == 0 {
		return
	}
	rootKey := sites[0].Key
	var then ssa.CallInstruction
	for i, s := range sites {
		construct := fmt.Sprintf("%s #%d in %s key=%s", s.Kind, i+1, fnName(boot), s.KeyAtoms)
		if s.Then == nil {
			c.Viol(rule, construct, "part of the single guarded transaction", P.instrPos(s.Op), "does not flow into a Then(...)")
			continue
		}
		if then == nil {
			then = s.Then
		}
		c.Check(s.Then == then, rule, construct+" (same txn)", "all bootstrap writes are the Then of one transaction", P.instrPos(s.Op), "flows into a different transaction")
		okCR := s.hasCreateRevisionZero(P, rootKey) // on every control-flow alternative of the If argument
		c.Check(s.HasIf && okCR, rule, construct+" (guard)", "If(CreateRevision(clusterRootPath) == 0): exactly one bootstrap can be applied", P.instrPos(s.Op), "guard missing or on a different key")
	}
	// the first put is the cluster root key itself (the guard key is written by the txn)
	c.Check(sites[0].KeyAtoms.Funcs[P.Method("server", "Server", "GetClusterRootPath")], rule, "guard key", "the guarded key (cluster root) is one of the keys written", P.instrPos(sites[0].Op), "")
	// payload provenance: store and region values derive from the request
	var req ssa.Value
	if len(boot.Params) >= 2 {
		req = boot.Params[1]
	}
	nFromReq := 0
	for _, s := range sites {
		if len(s.Op.Call.Args) > 1 && derivesFrom(s.Op.Call.Args[1], same(req), 8) {
			nFromReq++
		}
	}
	c.Check(nFromReq >= 2, rule, "store and region payload", "the first store and first region written come from this very request", P.pos(boot.Pos()), fmt.Sprintf("%d puts derive from the request", nFromReq))
	// each record is filed under its own id and holds its own payload: the store key is made from the id of the
	// request's store and written with that store, the region key from the id of the request's region
	{
		pbm := "github.com/pingcap/kvproto/pkg/"
		getStore := F(P.Method(pbm+"pdpb", "BootstrapRequest", "GetStore"))
		getRegion := F(P.Method(pbm+"pdpb", "BootstrapRequest", "GetRegion"))
		for _, kind := range []struct {
			what   string
			mk     *ssa.Function
			id     Callee
			source Callee
			other  Callee
		}{
			{"store", P.Func("server", "makeStoreKey"), F(P.Method(pbm+"metapb", "Store", "GetId")), getStore, getRegion},
			{"region", P.Func("server", "makeRegionKey"), F(P.Method(pbm+"metapb", "Region", "GetId")), getRegion, getStore},
		} {
			nk := 0
			for _, ci := range callsIn(boot, false, F(kind.mk)) {
				a := callArgs(ci.Common())
				if len(a) < 2 {
					continue
				}
				nk++
				okID := valueIsCallTo(a[1], kind.id) && derivesFrom(a[1], resultOfCall(kind.source), 6) && !derivesFrom(a[1], resultOfCall(kind.other), 6)
				c.Check(okID, rule, "id in the first "+kind.what+"'s key in "+fnName(boot), "the "+kind.what+" record is filed under the id of the request's "+kind.what, P.instrPos(ci.(ssa.Instruction)), "the key is not made from "+kind.what+".GetId() of the request")
			}
			for _, st := range sites {
				if !st.KeyAtoms.Funcs[kind.mk] || len(st.Op.Call.Args) < 2 {
					continue
				}
				v := st.Op.Call.Args[1]
				okVal := derivesFrom(v, resultOfCall(kind.source), 8) && !derivesFrom(v, resultOfCall(kind.other), 8)
				c.Check(okVal, rule, "value under the first "+kind.what+"'s key in "+fnName(boot), "what is written under the "+kind.what+" key is the request's "+kind.what, P.instrPos(st.Op), "the value does not derive from the request's "+kind.what+" (or also from the other payload)")
			}
			if nk == 0 {
				c.Undec(rule, "key of the first "+kind.what+" in "+fnName(boot), "made by "+kind.mk.Name(), P.pos(boot.Pos()), "no call found")
			}
		}
		// the list of writes only grows: no re-slice drops a write that was already queued
		truncated, where := false, P.pos(boot.Pos())
		for _, b := range boot.Blocks {
			for _, ins := range b.Instrs {
				sl, ok := ins.(*ssa.Slice)
				if !ok {
					continue
				}
				lowOK := sl.Low == nil
				if z, isC := constInt(sl.Low); sl.Low != nil && isC && z == 0 {
					lowOK = true
				}
				highOK := sl.High == nil
				if hc, isCall := sl.High.(*ssa.Call); isCall {
					if b, isB := hc.Call.Value.(*ssa.Builtin); isB && b.Name() == "len" && len(hc.Call.Args) == 1 && hc.Call.Args[0] == sl.X {
						highOK = true // ops[:len(ops)] (also the full-slice form): every queued write is kept
					}
				}
				if lowOK && highOK {
					continue
				}
				t, isSl := sl.Type().Underlying().(*types.Slice)
				if !isSl {
					continue
				}
				if nn := namedOf(t.Elem()); nn != nil && nn.Obj().Name() == "Op" && nn.Obj().Pkg() != nil && nn.Obj().Pkg().Path() == clientv3Path {
					truncated, where = true, P.instrPos(sl)
				}
			}
		}
		c.Check(!truncated, rule, "list of bootstrap writes in "+fnName(boot), "the queued writes are only appended to (no re-slice with bounds drops one)", where, "a bounded re-slice of the []clientv3.Op list")
	}
	commit := sites[0].Commit
	if commit == nil {
		c.Undec(rule, "Commit", "found", "", "")
		return
	}
	evs := sites[0].committedEvents()
	start := F(P.Method("server/cluster", "RaftCluster", "Start"))
	c.need(rule, boot, "call cluster.Start", instrCallMatcher(start), evs, all, "the cluster starts only after the transaction was applied")
	c.need(rule, boot, "successful return", func(x ssa.Instruction) bool { r, ok := x.(*ssa.Return); return ok && retIsNilErr(r) }, evs, all, "success is answered only after the transaction was applied")
	c.need(rule, boot, "other storage writes", func(x ssa.Instruction) bool {
		ci, ok := x.(ssa.CallInstruction)
		if !ok {
			return false
		}
		f := ci.Common().StaticCallee()
		if f == nil || f.Signature.Recv() == nil {
			return false
		}
		n := namedOf(f.Signature.Recv().Type())
		return n != nil && n.Obj() == P.named("server/core", "Storage").Obj()
	}, evs, all, "a refused bootstrap changes nothing: storage is touched only after the transaction was applied")
	check := F(P.Func("server", "checkBootstrapRequest"))
	okCheck := newOkEv(boot, "ok(checkBootstrapRequest)", callMatcher(check))
	c.need(rule, boot, "Commit", func(x ssa.Instruction) bool { return x == ssa.Instruction(commit) }, []Ev{okCheck}, all, "the payload is validated before the transaction")

	// payload atoms
	cb := P.Func("server", "checkBootstrapRequest")
	pb := "github.com/pingcap/kvproto/pkg/"
	storeGetID := F(P.Method(pb+"metapb", "Store", "GetId"))
	regionGetID := F(P.Method(pb+"metapb", "Region", "GetId"))
	peerGetID := F(P.Method(pb+"metapb", "Peer", "GetId"))
	peerGetStore := F(P.Method(pb+"metapb", "Peer", "GetStoreId"))
	getStart := F(P.Method(pb+"metapb", "Region", "GetStartKey"))
	getEnd := F(P.Method(pb+"metapb", "Region", "GetEndKey"))
	getPeers := F(P.Method(pb+"metapb", "Region", "GetPeers"))
	ar := c.Prop + "/bootstrap-payload"
	c.needOnSuccess(ar, cb, []Ev{
		guardRel("store != nil", "!=", resultOfCall(F(P.Method(pb+"pdpb", "BootstrapRequest", "GetStore"))), isNilConst),
		guardRel("region != nil", "!=", resultOfCall(F(P.Method(pb+"pdpb", "BootstrapRequest", "GetRegion"))), isNilConst),
		guardRel("store id != 0", "!=", resultOfCall(storeGetID), isConstInt(0)),
		guardRel("region id != 0", "!=", resultOfCall(regionGetID), isConstInt(0)),
		guardRel("peer id != 0", "!=", resultOfCall(peerGetID), isConstInt(0)),
		guardRel("len(start key) == 0", "<= ==", lenOf(resultOfCall(getStart)), isConstInt(0)),
		guardRel("len(end key) == 0", "<= ==", lenOf(resultOfCall(getEnd)), isConstInt(0)),
		guardRel("len(peers) == 1", "==", lenOf(resultOfCall(getPeers)), isConstInt(1)),
		guardRel("peer.StoreId == store.Id", "==", resultOfCall(peerGetStore), resultOfCall(storeGetID)),
	}, all, "a bootstrap payload is accepted only if store and region are present with non-zero ids, the range is the whole key space and the single peer lives on that store with a non-zero id")

	// the RPC refuses when a cluster is already running
	h := P.Method("server", "Server", "Bootstrap")
	getRC := F(P.Method("server", "Server", "GetRaftCluster"))
	validate := F(P.Method("server", "Server", "validateRequest"))
	c.need(c.Prop+"/bootstrap-rpc", h, "call bootstrapCluster", instrCallMatcher(F(boot)), []Ev{
		newOkEv(h, "ok(validateRequest)", callMatcher(validate)),
		guardRel("GetRaftCluster() == nil", "==", resultOfCall(getRC), isNilConst),
	}, all, "bootstrap is attempted only by the validated leader and only when no cluster is running")
	// nobody else bootstraps
	c.onlyCalledFrom(c.Prop+"/bootstrap-rpc", boot, map[string]string{fnName(h): "the gRPC Bootstrap handler"})
}

func ruleClusterID(c *Ctx) {
	P := c.P
	rule := c.Prop + "/cluster-id"
	fn := P.Func("server", "initOrGetClusterID")
	c.saw(fnName(fn))
	var site *TxnSite
	for _, s := range P.txnSites() {
		if s.Fn == fn && s.Kind == "put" {
			site = s
		}
	}
	if site == nil {
		undecidedf("no put in initOrGetClusterID")
	}
	c.Check(site.hasCreateRevisionZero(P, site.Key), rule, "put of cluster id in "+fnName(fn), "If(CreateRevision(key) == 0): only the first member's value is stored", P.instrPos(site.Op), "")
	// Else(Get(key)) present
	hasElse := false
	for _, b := range fn.Blocks {
		for _, ins := range b.Instrs {
			if cl, ok := ins.(*ssa.Call); ok && cl.Call.IsInvoke() && cl.Call.Method.Name() == "Else" {
				hasElse = true
			}
		}
	}
	c.Check(hasElse, rule, "Else(OpGet) in "+fnName(fn), "losers read the committed value in the same transaction", P.pos(fn.Pos()), "")
	if site.Commit == nil {
		c.Undec(rule, "Commit", "found", "", "")
		return
	}
	evs := site.committedEvents()
	parse := F(P.Func("pkg/typeutil", "BytesToUint64"))
	putVal := site.Op.Call.Args[1]
	// the generated id is what was put, and it is returned only under Succeeded
	c.need(rule, fn, "return of the generated id", func(x ssa.Instruction) bool {
		r, ok := x.(*ssa.Return)
		if !ok || !retIsNilErr(r) {
			return false
		}
		v := retVal(r, 0)
		return !valueIsCallTo(v, parse)
	}, evs, all, "the locally generated id is returned only if this member's transaction was applied")
	for _, b := range fn.Blocks {
		for _, ins := range b.Instrs {
			if r, ok := ins.(*ssa.Return); ok && retIsNilErr(r) {
				v := retVal(r, 0)
				if !valueIsCallTo(v, parse) {
					c.Check(derivesFrom(putVal, same(v), 8), rule, "generated id in "+fnName(fn), "the id returned on success is the id that was stored", P.instrPos(r), "returned id is not the stored one")
				}
			}
		}
	}
	// otherwise the stored value is parsed
	c.Check(len(callsIn(fn, false, parse)) > 0, rule, "loser path in "+fnName(fn), "a member that lost the race returns the parsed stored id", P.pos(fn.Pos()), "")
	// the key has no other writer; Server.clusterID is assigned only at initialisation
	idPath := P.obj("server", "pdClusterIDPath")
	for fd, info := range P.usesOfObject(idPath) {
		f := P.ssaOfDecl(info, fd)
		if f == nil || P.isScaffold(f) {
			continue
		}
		writes := false
		for _, s := range P.txnSites() {
			if s.Fn == f {
				writes = true
			}
		}
		c.Check(!writes, rule, "use of pdClusterIDPath in "+fnName(f), "the cluster-id key is written only through initOrGetClusterID", P.pos(f.Pos()), "direct writer")
	}
	clusterID := P.Field("server", "Server", "clusterID")
	initID := P.Method("server", "Server", "initClusterID")
	c.onlyWrittenBy(rule, clusterID, map[string]string{fnName(initID): "reads the stored id or races to create it"})
	c.onlyCalledFrom(rule, initID, map[string]string{fnName(P.Method("server", "Server", "startServer")): "server start"})
	// initClusterID prefers an existing key
	get := F(P.Func("pkg/etcdutil", "EtcdKVGet"))
	c.need(rule, initID, "call initOrGetClusterID", instrCallMatcher(F(fn)), []Ev{newOkEv(initID, "ok(EtcdKVGet)", callMatcher(get)), guardRel("no stored id", "== <=", lenOf(anyVal), isConstInt(0))}, all,
		"a new id is generated only when reading the key succeeded and found nothing")
}

// rulePutConfigIdentity: a cluster configuration is stored only if the id *it
// carries* is this cluster's id.
func rulePutConfigIdentity(c *Ctx) {
	P := c.P
	rule := c.Prop + "/cluster-id"
	fn := P.Method("server/cluster", "RaftCluster", "PutConfig")
	put := F(P.Method("server/cluster", "RaftCluster", "putMetaLocked"))
	getID := F(P.Method("github.com/pingcap/kvproto/pkg/metapb", "Cluster", "GetId"))
	cid := P.Field("server/cluster", "RaftCluster", "clusterID")
	var param ssa.Value
	if len(fn.Params) >= 2 {
		param = fn.Params[1]
	}
	ofParam := func(v ssa.Value) bool {
		cl, _ := callOf(v)
		return cl != nil && getID.Match(cl.Common()) && param != nil && sameVal(callRecv(cl.Common()), param)
	}
	c.need(rule, fn, "call putMetaLocked", instrCallMatcher(put), []Ev{guardRel("meta.GetId() == clusterID", "==", ofParam, loadOfField(cid))}, all,
		"the configuration is stored only when the id carried by the *submitted* configuration equals this cluster's id")
}

func init() {
	register("C20", "A cluster is bootstrapped exactly once and keeps one identity", func(c *Ctx) {
		c.Group("C20/key-format", "(shared with C17) what the bootstrap transaction writes is what the storage layer reads: store and region keys use the same zero-padded id format", func() { ruleKeyFormats(c) })
		c.Group("C20/bootstrap-txn", "the four bootstrap writes are the Then of one transaction guarded by CreateRevision(clusterRoot)==0; start/response/storage only after it was applied; payload validated first and taken from the request", func() { ruleBootstrapTxn(c) })
		c.Group("C20/cluster-id", "cluster id: create-if-absent put with Else(Get); generated id returned only if applied; no other writer; assigned once at start", func() { ruleClusterID(c); rulePutConfigIdentity(c) })
		c.Group("C20/not-leader-refused", "(shared with C03) requests carrying another cluster id are refused (validateRequest, Tso, Sync)", func() { ruleHandlersValidate(c) })
	})
}
