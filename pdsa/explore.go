package main

// E3: must-precede with outcome edges, decided by exhaustive reachability over
// the product of a function's CFG (go/ssa basic blocks) with small event
// automata. Each event keeps a few bits of path state; a requirement is a
// boolean formula over "event holds" evaluated at every target instruction in
// every reachable product state. This is exact for disjunctions at joins
// (unlike a set-intersection must-analysis) and treats goto/loops as cycles.

import (
	"fmt"
	"go/token"
	"go/types"
	"strings"

	"golang.org/x/tools/go/ssa"
)

// Ev is a path event automaton with at most 4 bits of local state.
type Ev interface {
	Name() string
	Instr(st uint8, ins ssa.Instruction) uint8
	Edge(st uint8, from *ssa.BasicBlock, succ int) uint8
	Holds(st uint8) bool
}

const (
	bEST  uint8 = 1 // event established on this path
	bPEND uint8 = 2 // a matching call executed; its outcome not yet tested
)

// condOverride: while the explorer takes the edges out of an If whose condition
// is a boolean φ (ok := a && b; ...; if ok), the φ is resolved to the operand
// selected on the path being explored; event automata read conditions through
// ifCond and so see the operand's own comparison.
type condRes struct {
	v    ssa.Value
	flip bool
}

var condOverride = map[*ssa.If]condRes{}

// pathResolve maps a value to the φ operand it is on the path being explored
// (identity outside an exploration). stInfeasible, returned by an event's Edge,
// tells the explorer that the edge contradicts what the path already
// established (err != nil was taken for the very value now tested == nil).
var pathResolve func(ssa.Value) ssa.Value

const (
	stInfeasible uint8 = 0xff
	bFAIL        uint8 = 4 // the latest matching call's error was tested and found non-nil
	bLOST        uint8 = 8 // settled events: a matching call ran while the previous one's error was still untested
)

func resolved(v ssa.Value) ssa.Value {
	if pathResolve != nil {
		return pathResolve(v)
	}
	return v
}

// nilTest: the edge (iff, succ0) asserts `tested == nil` (isNil) or `tested != nil`.
func nilTest(iff *ssa.If, succ0 bool) (tested ssa.Value, isNil bool, ok bool) {
	cond, pos := ifCond(iff, succ0)
	b, isB := cond.(*ssa.BinOp)
	if !isB || (b.Op != token.EQL && b.Op != token.NEQ) {
		return nil, false, false
	}
	if isNilConst(b.Y) {
		tested = b.X
	} else if isNilConst(b.X) {
		tested = b.Y
	} else {
		return nil, false, false
	}
	return tested, (b.Op == token.EQL) == pos, true
}

func ifCond(iff *ssa.If, succ0 bool) (ssa.Value, bool) {
	if r, ok := condOverride[iff]; ok {
		return normCond(r.v, succ0 != r.flip)
	}
	return normCond(iff.Cond, succ0)
}

// impliedConds: what the truth value pos of cond implies, cond itself first. A boolean local built with a short
// -circuit operator (`ready := a || b`) is a φ of constants and one computed operand: the φ being false (for ||;
// true for &&) means the computed operand was evaluated and has that value.
func impliedConds(cond ssa.Value, pos bool, depth int) []condAt {
	out := []condAt{{cond, pos}}
	if depth <= 0 {
		return out
	}
	switch x := cond.(type) {
	case *ssa.UnOp:
		if x.Op == token.NOT {
			out = append(out, impliedConds(x.X, !pos, depth-1)...)
		}
	case *ssa.Phi:
		var computed []ssa.Value
		for _, e := range x.Edges {
			if b, isC := constBool(e); isC {
				if b == pos {
					return out // the constant edge explains the value: nothing follows
				}
				continue
			}
			computed = append(computed, e)
		}
		if len(computed) == 1 {
			out = append(out, impliedConds(computed[0], pos, depth-1)...)
		}
	}
	return out
}

type condAt struct {
	v   ssa.Value
	pos bool
}

// ---------- ok(call): success edge of the error test of a matching call ----------

type okEv struct {
	name     string
	isCall   func(*ssa.Call) bool
	carriers map[ssa.Value]bool // values that may hold the call's error result
	cells    map[*ssa.Alloc]bool
	fcells   map[*types.Var]bool // struct fields the result is parked in (b.err = f(); if b.err != nil)
	want     bool                // for bool results: the value that counts as success
	boolMode bool
	sticky   bool // a later matching call does not reset an established event
	reset    func(ssa.Instruction) bool
	single   *ssa.Call // the only matching call instruction of the function, if there is exactly one
}

// sameCallFailed: v, as resolved on this path, is the error of the function's
// only matching call, whose latest result this path has already found non-nil.
func (e *okEv) sameCallFailed(st uint8, v ssa.Value) bool {
	if st&bFAIL == 0 || e.single == nil || e.boolMode {
		return false
	}
	v = resolved(v)
	if x, ok := v.(*ssa.Extract); ok {
		v = x.Tuple
	}
	c, ok := v.(*ssa.Call)
	return ok && c == e.single
}

// newOkEv: event "a call matching isCall returned a nil error" (error mode).
func newOkEv(fn *ssa.Function, name string, isCall func(*ssa.Call) bool) *okEv {
	e := &okEv{name: name, isCall: isCall}
	e.init(fn)
	return e
}

// newBoolEv: event "a call matching isCall returned want" (bool mode).
func newBoolEv(fn *ssa.Function, name string, want bool, isCall func(*ssa.Call) bool) *okEv {
	e := &okEv{name: name, isCall: isCall, boolMode: true, want: want}
	e.init(fn)
	return e
}

func (e *okEv) init(fn *ssa.Function) {
	e.carriers = map[ssa.Value]bool{}
	e.cells = map[*ssa.Alloc]bool{}
	e.fcells = map[*types.Var]bool{}
	nCalls := 0
	for _, b := range fn.Blocks {
		for _, ins := range b.Instrs {
			c, ok := ins.(*ssa.Call)
			if !ok || !e.isCall(c) {
				continue
			}
			nCalls++
			e.single = c
			var rs []ssa.Value
			if e.boolMode {
				rs = boolResults(c)
			} else {
				rs = errResults(c)
			}
			for _, r := range rs {
				e.carriers[r] = true
			}
		}
	}
	if nCalls != 1 {
		e.single = nil
	}
	// close over phis, local cells and value-preserving conversions
	for changed := true; changed; {
		changed = false
		for _, b := range fn.Blocks {
			for _, ins := range b.Instrs {
				switch x := ins.(type) {
				case *ssa.Phi:
					if e.carriers[x] {
						continue
					}
					for _, op := range x.Edges {
						if e.carriers[op] {
							e.carriers[x] = true
							changed = true
							break
						}
					}
				case *ssa.Store:
					if a, ok := x.Addr.(*ssa.Alloc); ok && e.carriers[x.Val] && !e.cells[a] {
						e.cells[a] = true
						changed = true
					}
					if f := fieldOfAddr(x.Addr); f != nil && e.carriers[x.Val] && !e.fcells[f] {
						e.fcells[f] = true
						changed = true
					}
				case *ssa.UnOp:
					if x.Op == token.MUL {
						if a, ok := x.X.(*ssa.Alloc); ok && e.cells[a] && !e.carriers[x] {
							e.carriers[x] = true
							changed = true
						}
						if f := fieldOfAddr(x.X); f != nil && e.fcells[f] && !e.carriers[x] {
							e.carriers[x] = true
							changed = true
						}
					}
				case *ssa.MakeInterface:
					if e.carriers[x.X] && !e.carriers[x] {
						e.carriers[x] = true
						changed = true
					}
				case *ssa.ChangeInterface:
					if e.carriers[x.X] && !e.carriers[x] {
						e.carriers[x] = true
						changed = true
					}
				}
			}
		}
	}
}

func (e *okEv) Name() string { return e.name }

func (e *okEv) Instr(st uint8, ins ssa.Instruction) uint8 {
	if e.reset != nil && e.reset(ins) {
		return 0
	}
	switch x := ins.(type) {
	case *ssa.Call:
		if e.isCall(x) {
			if e.sticky && st&bEST != 0 {
				return st
			}
			return bPEND
		}
	case *ssa.Store:
		if a, ok := x.Addr.(*ssa.Alloc); ok && e.cells[a] && !e.carriers[x.Val] {
			return st &^ bPEND
		}
		if f := fieldOfAddr(x.Addr); f != nil && e.fcells[f] && !e.carriers[x.Val] {
			return st &^ bPEND
		}
	}
	return st
}

func (e *okEv) Edge(st uint8, from *ssa.BasicBlock, succ int) uint8 {
	iff, isIf := from.Instrs[len(from.Instrs)-1].(*ssa.If)
	if isIf && !e.boolMode && st&bFAIL != 0 {
		if tested, isNil, ok := nilTest(iff, succ == 0); ok && isNil && e.carriers[tested] && e.sameCallFailed(st, tested) {
			return stInfeasible
		}
	}
	if st&bPEND != 0 {
		if isIf {
			if e.boolMode {
				cond, pos := ifCond(iff, succ == 0)
				if e.carriers[cond] && pos == e.want {
					st |= bEST
				}
			} else if tested, isNil, ok := nilTest(iff, succ == 0); ok && e.carriers[tested] {
				if isNil {
					st |= bEST
				} else {
					st |= bFAIL
				}
			}
		}
		// a phi in the successor that selects a non-carrier on this edge ends
		// the pending outcome
		to := from.Succs[succ]
		idx := predIndex(to, from, succ)
		for _, ins := range to.Instrs {
			phi, ok := ins.(*ssa.Phi)
			if !ok {
				break
			}
			if e.carriers[phi] && idx >= 0 && !e.carriers[phi.Edges[idx]] {
				st &^= bPEND
			}
		}
	}
	return st
}

func (e *okEv) Holds(st uint8) bool { return st&bEST != 0 }

// predIndex: index of `from` among to.Preds (for phi operand selection). When
// from appears twice (both If edges to the same block) use succ parity.
func predIndex(to, from *ssa.BasicBlock, succ int) int {
	first := -1
	n := 0
	for i, p := range to.Preds {
		if p == from {
			if first < 0 {
				first = i
			}
			n++
		}
	}
	if n <= 1 {
		return first
	}
	// duplicated predecessor: Preds order follows Succs order
	k := 0
	for i, p := range to.Preds {
		if p == from {
			if k == succ {
				return i
			}
			k++
		}
	}
	return first
}

// ---------- guard(cond, edge) ----------

type guardEv struct {
	name       string
	match      func(cond ssa.Value, pos bool) bool // cond already stripped of NOTs; pos: truth on this edge
	invalidate func(ins ssa.Instruction) bool
}

func (g *guardEv) Name() string { return g.name }
func (g *guardEv) Instr(st uint8, ins ssa.Instruction) uint8 {
	if g.invalidate != nil && g.invalidate(ins) {
		return st &^ bEST
	}
	return st
}
func (g *guardEv) Edge(st uint8, from *ssa.BasicBlock, succ int) uint8 {
	if iff, ok := from.Instrs[len(from.Instrs)-1].(*ssa.If); ok {
		cond, pos := normCond(iff.Cond, succ == 0)
		if g.match(cond, pos) {
			st |= bEST
		} else if _, resolved := condOverride[iff]; resolved {
			if cond, pos = ifCond(iff, succ == 0); g.match(cond, pos) {
				st |= bEST
			}
		}
	}
	return st
}
func (g *guardEv) Holds(st uint8) bool { return st&bEST != 0 }

// guardRel: the edge implies a comparison "x op y" with op in ops.
func guardRel(name, ops string, xp, yp valPred) *guardEv {
	return &guardEv{name: name, match: func(cond ssa.Value, pos bool) bool {
		r, ok := relOf(cond, pos)
		return ok && matchRel(r, ops, xp, yp)
	}}
}

// guardCall: the edge implies "call to fn returned want" (bool-valued call used
// directly as a condition).
func guardCall(name string, want bool, isCall func(*ssa.Call) bool) *guardEv {
	return &guardEv{name: name, match: func(cond ssa.Value, pos bool) bool {
		c, ok := cond.(*ssa.Call)
		return ok && pos == want && isCall(c)
	}}
}

// ---------- called(c) ----------

type calledEv struct {
	name  string
	match func(ins ssa.Instruction) bool
	reset func(ins ssa.Instruction) bool
}

func (c *calledEv) Name() string { return c.name }
func (c *calledEv) Instr(st uint8, ins ssa.Instruction) uint8 {
	if c.match(ins) {
		return st | bEST
	}
	if c.reset != nil && c.reset(ins) {
		return st &^ bEST
	}
	return st
}
func (c *calledEv) Edge(st uint8, _ *ssa.BasicBlock, _ int) uint8 { return st }
func (c *calledEv) Holds(st uint8) bool                           { return st&bEST != 0 }

// ---------- exploration ----------

type pstate struct {
	blk int
	st  uint64
	phi uint64 // per tracked boolean φ: 1 + index of the operand selected on this path (0: not yet executed)
	// facts: per value that is nil-tested by more than one If of the function, what an earlier test on this path
	// found (0 unknown, 1 nil, 2 non-nil); reset when the value is computed again
	facts uint64
}

type Exploration struct {
	fn     *ssa.Function
	evs    []Ev
	phis   []*ssa.Phi // boolean φs that (transitively) feed an If condition
	parent map[pstate]pstate
	// states in which each instruction is reached (state before the instruction)
	at map[ssa.Instruction][]uint64
	// atSel[ins][i]: the φ operands selected on the path of at[ins][i]
	atSel   map[ssa.Instruction][]uint64
	phiSlot map[*ssa.Phi]int
	P       *Prog
}

func getSt(st uint64, i int) uint8 { return uint8(st>>(4*uint(i))) & 0xf }
func setSt(st uint64, i int, v uint8) uint64 {
	return st&^(0xf<<(4*uint(i))) | uint64(v&0xf)<<(4*uint(i))
}

// explore runs the product reachability. record selects the instructions for
// which reaching states are kept.
func explore(P *Prog, fn *ssa.Function, init uint64, evs []Ev, record func(ssa.Instruction) bool) *Exploration {
	if len(evs) > 16 {
		panic("too many events")
	}
	ex := &Exploration{fn: fn, evs: evs, parent: map[pstate]pstate{}, at: map[ssa.Instruction][]uint64{}, atSel: map[ssa.Instruction][]uint64{}, P: P}
	if len(fn.Blocks) == 0 {
		return ex
	}
	type atKey struct {
		ins ssa.Instruction
		st  uint64
		sel uint64
	}
	seenAt := map[atKey]bool{}
	ex.phis = condPhis(fn)
	phiSlot := map[*ssa.Phi]int{}
	for i, p := range ex.phis {
		phiSlot[p] = i
	}
	ex.phiSlot = phiSlot
	// resolve a condition through the φ operands selected on this path
	resolve := func(v ssa.Value, sel uint64) (ssa.Value, bool) {
		flip := false
		for i := 0; i < 8; i++ {
			var pos bool
			v, pos = normCond(v, true)
			if !pos {
				flip = !flip
			}
			phi, ok := v.(*ssa.Phi)
			if !ok {
				break
			}
			slot, tracked := phiSlot[phi]
			if !tracked {
				break
			}
			k := int(getSt(sel, slot))
			if k == 0 || k > len(phi.Edges) {
				break
			}
			v = phi.Edges[k-1]
			if q, isPhi := v.(*ssa.Phi); isPhi && q.Block() == phi.Block() {
				break // parallel φ of the same block: the operand is the previous iteration's value
			}
		}
		return v, flip
	}
	// a φ whose operand is another tracked φ must be forgotten when that operand is recomputed
	users := map[*ssa.Phi][]int{}
	for i, p := range ex.phis {
		for _, e := range p.Edges {
			if q, ok := e.(*ssa.Phi); ok && q.Block() != p.Block() {
				if _, tracked := phiSlot[q]; tracked {
					users[q] = append(users[q], i)
				}
			}
		}
	}
	// values nil-tested more than once
	factSlot := map[ssa.Value]int{}
	condFact := map[ssa.Value]bool{} // slots holding the truth of an If condition itself (1 false, 2 true)
	{
		cnt := map[ssa.Value]int{}
		for _, b := range fn.Blocks {
			if iff, ok := b.Instrs[len(b.Instrs)-1].(*ssa.If); ok && len(b.Succs) == 2 {
				if bo, isB := iff.Cond.(*ssa.BinOp); isB && (bo.Op == token.EQL || bo.Op == token.NEQ) {
					switch {
					case isNilConst(bo.Y):
						cnt[bo.X]++
					case isNilConst(bo.X):
						cnt[bo.Y]++
					}
				}
			}
		}
		for _, b := range fn.Blocks {
			if iff, ok := b.Instrs[len(b.Instrs)-1].(*ssa.If); ok && len(b.Succs) == 2 {
				if bo, isB := iff.Cond.(*ssa.BinOp); isB && (bo.Op == token.EQL || bo.Op == token.NEQ) {
					for _, v := range []ssa.Value{bo.X, bo.Y} {
						if cnt[v] >= 2 && len(factSlot) < 16 {
							if _, have := factSlot[v]; !have {
								factSlot[v] = len(factSlot)
							}
						}
					}
				}
			}
		}
		// a boolean value that is the condition of more than one If (a hoisted `isX := …` tested twice)
		ccnt := map[ssa.Value]int{}
		for _, b := range fn.Blocks {
			if iff, ok := b.Instrs[len(b.Instrs)-1].(*ssa.If); ok && len(b.Succs) == 2 {
				if _, isC := iff.Cond.(*ssa.Const); !isC {
					ccnt[iff.Cond]++
				}
			}
		}
		for _, b := range fn.Blocks {
			if iff, ok := b.Instrs[len(b.Instrs)-1].(*ssa.If); ok && len(b.Succs) == 2 && ccnt[iff.Cond] >= 2 && len(factSlot) < 16 {
				if _, have := factSlot[iff.Cond]; !have {
					factSlot[iff.Cond] = len(factSlot)
					condFact[iff.Cond] = true
				}
			}
		}
	}
	rawNilTest := func(iff *ssa.If) (ssa.Value, bool, bool) { // tested value, "successor 0 is the nil edge"
		bo, isB := iff.Cond.(*ssa.BinOp)
		if !isB || (bo.Op != token.EQL && bo.Op != token.NEQ) {
			return nil, false, false
		}
		var t ssa.Value
		switch {
		case isNilConst(bo.Y):
			t = bo.X
		case isNilConst(bo.X):
			t = bo.Y
		default:
			return nil, false, false
		}
		return t, bo.Op == token.EQL, true
	}
	start := pstate{0, init, 0, 0}
	ex.parent[start] = pstate{-1, 0, 0, 0}
	work := []pstate{start}
	for len(work) > 0 {
		cur := work[len(work)-1]
		work = work[:len(work)-1]
		b := fn.Blocks[cur.blk]
		st := cur.st
		sel := cur.phi
		pathResolve = func(v ssa.Value) ssa.Value {
			for i := 0; i < 8; i++ {
				phi, ok := v.(*ssa.Phi)
				if !ok {
					break
				}
				slot, tracked := phiSlot[phi]
				if !tracked {
					break
				}
				k := int(getSt(sel, slot))
				if k == 0 || k > len(phi.Edges) {
					break
				}
				nv := phi.Edges[k-1]
				if q, isPhi := nv.(*ssa.Phi); isPhi && q.Block() == phi.Block() {
					break
				}
				v = nv
			}
			return v
		}
		for _, ins := range b.Instrs {
			if record(ins) {
				k := atKey{ins, st, cur.phi}
				if !seenAt[k] {
					seenAt[k] = true
					ex.at[ins] = append(ex.at[ins], st)
					ex.atSel[ins] = append(ex.atSel[ins], cur.phi)
				}
			}
			for i, e := range evs {
				o := getSt(st, i)
				n := e.Instr(o, ins)
				if n != o {
					st = setSt(st, i, n)
				}
			}
		}
		facts := cur.facts
		if len(factSlot) > 0 {
			for _, ins := range b.Instrs {
				if v, isV := ins.(ssa.Value); isV {
					if slot, ok := factSlot[v]; ok {
						facts = setSt(facts, slot, 0)
					}
				}
			}
		}
		var iff *ssa.If
		feasible := [2]bool{true, true}
		if x, ok := b.Instrs[len(b.Instrs)-1].(*ssa.If); ok && len(b.Succs) == 2 && condFact[x.Cond] {
			switch getSt(facts, factSlot[x.Cond]) {
			case 1:
				feasible[0] = false
			case 2:
				feasible[1] = false
			}
		}
		if x, ok := b.Instrs[len(b.Instrs)-1].(*ssa.If); ok && len(b.Succs) == 2 && len(factSlot) > 0 {
			if t, nil0, isT := rawNilTest(x); isT {
				if slot, have := factSlot[t]; have {
					switch getSt(facts, slot) {
					case 1: // known nil
						if nil0 {
							feasible[1] = false
						} else {
							feasible[0] = false
						}
					case 2: // known non-nil
						if nil0 {
							feasible[0] = false
						} else {
							feasible[1] = false
						}
					}
				}
			}
		}
		if len(b.Succs) == 2 && len(ex.phis) > 0 {
			if x, ok := b.Instrs[len(b.Instrs)-1].(*ssa.If); ok {
				if v, flip := resolve(x.Cond, cur.phi); v != x.Cond {
					iff = x
					if cb, isConst := constBool(v); isConst {
						taken := cb != flip
						feasible[0], feasible[1] = taken, !taken
					} else {
						condOverride[iff] = condRes{v, flip}
					}
				}
			}
		}
		if x, ok := b.Instrs[len(b.Instrs)-1].(*ssa.If); ok && len(b.Succs) == 2 {
			// a nil test of a value that, on this path, is a known non-nil value or the nil constant
			if tested, isNil0, isTest := nilTest(x, true); isTest {
				r := pathResolve(tested)
				if knownNonNil(r) || provedNonNilOnEdge(tested, sel, phiSlot) {
					if isNil0 {
						feasible[0] = false
					} else {
						feasible[1] = false
					}
				} else if isNilConst(r) {
					if isNil0 {
						feasible[1] = false
					} else {
						feasible[0] = false
					}
				}
			}
		}
		if x, ok := b.Instrs[len(b.Instrs)-1].(*ssa.If); ok && len(b.Succs) == 2 {
			// an index compared with the length of a slice that is nil on this path (a range over a result variable
			// that holds nil here): `i < len(nil)` is false for every index that cannot be negative
			cv, pos := normCond(x.Cond, true)
			if bo, isCmp := cv.(*ssa.BinOp); isCmp && bo.Op == token.LSS {
				if sl := lenArg(bo.Y); sl != nil && isNilConst(pathResolve(sl)) {
					if lb, okB := lowerBound(bo.X, 4, map[ssa.Value]bool{}); okB && lb >= 0 {
						if pos {
							feasible[0] = false
						} else {
							feasible[1] = false
						}
					}
				}
			}
		}
		if x, ok := b.Instrs[len(b.Instrs)-1].(*ssa.If); ok && len(b.Succs) == 2 {
			// a comparison of integer constants once φs are resolved (for i := 0; i < 2; …: the first test is 0 < 2)
			cv, pos := normCond(x.Cond, true)
			if bo, isCmp := cv.(*ssa.BinOp); isCmp {
				if l, okL := constInt(pathResolve(bo.X)); okL {
					if r, okR := constInt(pathResolve(bo.Y)); okR {
						var truth, known bool
						switch bo.Op {
						case token.LSS:
							truth, known = l < r, true
						case token.LEQ:
							truth, known = l <= r, true
						case token.GTR:
							truth, known = l > r, true
						case token.GEQ:
							truth, known = l >= r, true
						case token.EQL:
							truth, known = l == r, true
						case token.NEQ:
							truth, known = l != r, true
						}
						if known {
							if truth == pos {
								feasible[1] = false
							} else {
								feasible[0] = false
							}
						}
					}
				}
			}
		}
		for si, succ := range b.Succs {
			if len(b.Succs) == 2 && !feasible[si] {
				continue
			}
			nst := st
			contradiction := false
			for i, e := range evs {
				o := getSt(nst, i)
				n := e.Edge(o, b, si)
				if n == stInfeasible {
					contradiction = true
					break
				}
				if n != o {
					nst = setSt(nst, i, n)
				}
			}
			if contradiction {
				continue
			}
			nphi := cur.phi
			if len(ex.phis) > 0 {
				idx := predIndex(succ, b, si)
				for _, ins := range succ.Instrs {
					phi, ok := ins.(*ssa.Phi)
					if !ok {
						break
					}
					for _, u := range users[phi] {
						nphi = setSt(nphi, u, 0)
					}
				}
				for _, ins := range succ.Instrs {
					phi, ok := ins.(*ssa.Phi)
					if !ok {
						break
					}
					if slot, tracked := phiSlot[phi]; tracked && idx >= 0 && idx < 15 {
						nphi = setSt(nphi, slot, uint8(idx+1))
					}
				}
			}
			nfacts := facts
			if x, ok := b.Instrs[len(b.Instrs)-1].(*ssa.If); ok && len(b.Succs) == 2 && condFact[x.Cond] {
				if si == 0 {
					nfacts = setSt(nfacts, factSlot[x.Cond], 2)
				} else {
					nfacts = setSt(nfacts, factSlot[x.Cond], 1)
				}
			}
			if x, ok := b.Instrs[len(b.Instrs)-1].(*ssa.If); ok && len(b.Succs) == 2 && len(factSlot) > 0 {
				if t, nil0, isT := rawNilTest(x); isT {
					if slot, have := factSlot[t]; have {
						if (si == 0) == nil0 {
							nfacts = setSt(nfacts, slot, 1)
						} else {
							nfacts = setSt(nfacts, slot, 2)
						}
					}
				}
			}
			nx := pstate{succ.Index, nst, nphi, nfacts}
			if _, ok := ex.parent[nx]; !ok {
				ex.parent[nx] = cur
				work = append(work, nx)
			}
		}
		if iff != nil {
			delete(condOverride, iff)
		}
		pathResolve = nil
	}
	return ex
}

// condPhis: the boolean φs of fn whose value (possibly negated, possibly
// through further φs) is tested by an If; at most 16 are tracked.
// trackPhis lets a rule ask for path-resolution of further φs of a function
// (e.g. a slice variable that is one of two lists depending on the path).
var trackPhis = map[*ssa.Function][]*ssa.Phi{}

func condPhis(fn *ssa.Function) []*ssa.Phi {
	var out []*ssa.Phi
	seen := map[*ssa.Phi]bool{}
	for _, p := range trackPhis[fn] {
		if !seen[p] && len(out) < 16 && len(p.Edges) <= 14 {
			seen[p] = true
			out = append(out, p)
		}
	}
	var add func(v ssa.Value, depth int)
	add = func(v ssa.Value, depth int) {
		v, _ = normCond(v, true)
		phi, ok := v.(*ssa.Phi)
		if !ok || seen[phi] || depth > 4 || len(out) >= 16 || len(phi.Edges) > 14 {
			return
		}
		seen[phi] = true
		out = append(out, phi)
		for _, e := range phi.Edges {
			add(e, depth+1)
		}
	}
	for _, b := range fn.Blocks {
		if iff, ok := b.Instrs[len(b.Instrs)-1].(*ssa.If); ok {
			add(iff.Cond, 0)
		}
	}
	// a returned boolean φ (return a && b): which operand is returned is decided by the path
	for _, b := range fn.Blocks {
		if r, ok := b.Instrs[len(b.Instrs)-1].(*ssa.Return); ok {
			for _, v := range r.Results {
				if bt, isB := v.Type().Underlying().(*types.Basic); isB && bt.Info()&types.IsBoolean != 0 {
					add(v, 0)
				}
			}
		}
	}
	// a returned error/pointer φ (named results, `return x, err`): nil or not is decided by the path
	for _, b := range fn.Blocks {
		if r, ok := b.Instrs[len(b.Instrs)-1].(*ssa.Return); ok {
			for _, v := range r.Results {
				if _, isPhi := v.(*ssa.Phi); isPhi {
					switch v.Type().Underlying().(type) {
					case *types.Interface, *types.Pointer:
						add(v, 0)
					}
				}
			}
		}
	}
	// loop counters compared with a constant (for i := 0; i < 2; i++): the first test is decided
	for _, b := range fn.Blocks {
		if iff, ok := b.Instrs[len(b.Instrs)-1].(*ssa.If); ok {
			c, _ := normCond(iff.Cond, true)
			if bo, ok := c.(*ssa.BinOp); ok {
				for _, pair := range [][2]ssa.Value{{bo.X, bo.Y}, {bo.Y, bo.X}} {
					phi, isPhi := pair[0].(*ssa.Phi)
					if _, isC := constInt(pair[1]); !isPhi || !isC {
						continue
					}
					for _, e := range phi.Edges {
						if _, ok := constInt(e); ok {
							add(phi, 0)
							break
						}
					}
				}
			}
		}
	}
	// φs compared with nil (err := φ(callErr, nil); if err != nil): the test is
	// correlated with the test that selected the operand
	for _, b := range fn.Blocks {
		if iff, ok := b.Instrs[len(b.Instrs)-1].(*ssa.If); ok {
			c, _ := normCond(iff.Cond, true)
			if bo, ok := c.(*ssa.BinOp); ok && (bo.Op == token.EQL || bo.Op == token.NEQ) {
				if isNilConst(bo.Y) {
					add(bo.X, 0)
				} else if isNilConst(bo.X) {
					add(bo.Y, 0)
				}
			}
			// a slice variable whose length bounds a loop and that is nil on some path
			if bo, ok := c.(*ssa.BinOp); ok && bo.Op == token.LSS {
				if sl := lenArg(bo.Y); sl != nil {
					if phi, isPhi := sl.(*ssa.Phi); isPhi {
						for _, e := range phi.Edges {
							if isNilConst(e) {
								add(sl, 0)
								break
							}
						}
					}
				}
			}
		}
	}
	return out
}

// lenArg: v is len(x) of a slice: x.
func lenArg(v ssa.Value) ssa.Value {
	cl, ok := v.(*ssa.Call)
	if !ok || len(cl.Call.Args) != 1 {
		return nil
	}
	if b, isB := cl.Call.Value.(*ssa.Builtin); !isB || b.Name() != "len" {
		return nil
	}
	if _, isSl := cl.Call.Args[0].Type().Underlying().(*types.Slice); !isSl {
		return nil
	}
	return cl.Call.Args[0]
}

// lowerBound: a constant the integer v is never below: constants, φs of such values (an operand that adds a
// non-negative constant to the φ itself only moves upwards), sums with constants.
func lowerBound(v ssa.Value, depth int, busy map[ssa.Value]bool) (int64, bool) {
	if depth < 0 {
		return 0, false
	}
	if k, ok := constInt(v); ok {
		return k, true
	}
	switch x := v.(type) {
	case *ssa.BinOp:
		if x.Op == token.ADD {
			if k, ok := constInt(x.Y); ok {
				if busy[x.X] {
					if k >= 0 {
						return 1 << 40, true // above the φ's own bound: ignored by the minimum
					}
					return 0, false
				}
				if lb, okL := lowerBound(x.X, depth-1, busy); okL {
					return lb + k, true
				}
			}
		}
	case *ssa.Phi:
		if busy[x] {
			return 0, false
		}
		busy[x] = true
		defer delete(busy, x)
		min, have := int64(1<<40), false
		for _, e := range x.Edges {
			lb, ok := lowerBound(e, depth-1, busy)
			if !ok {
				return 0, false
			}
			if lb < min {
				min = lb
			}
			have = true
		}
		if have && min < 1<<40 {
			return min, true
		}
	}
	return 0, false
}

// resolveAt: v as the φ operand selected on the path described by sel.
func (ex *Exploration) resolveAt(v ssa.Value, sel uint64) ssa.Value {
	for i := 0; i < 8; i++ {
		phi, ok := v.(*ssa.Phi)
		if !ok {
			break
		}
		slot, tracked := ex.phiSlot[phi]
		if !tracked {
			break
		}
		k := int(getSt(sel, slot))
		if k == 0 || k > len(phi.Edges) {
			break
		}
		nv := phi.Edges[k-1]
		if q, isPhi := nv.(*ssa.Phi); isPhi && q.Block() == phi.Block() {
			break
		}
		v = nv
	}
	return v
}

// holdsVec decodes which events hold in a product state.
func (ex *Exploration) holdsVec(st uint64) []bool {
	out := make([]bool, len(ex.evs))
	for i, e := range ex.evs {
		out[i] = e.Holds(getSt(st, i))
	}
	return out
}

func (ex *Exploration) describe(st uint64) string {
	var parts []string
	for i, e := range ex.evs {
		m := "✗"
		if e.Holds(getSt(st, i)) {
			m = "✓"
		}
		parts = append(parts, m+e.Name())
	}
	return strings.Join(parts, " ")
}

// trace reconstructs one block path from the entry to (blk, st).
func (ex *Exploration) trace(cur pstate) string {
	var lines []string
	n := 0
	for cur.blk >= 0 && n < 200 {
		b := ex.fn.Blocks[cur.blk]
		lines = append([]string{fmt.Sprintf("b%d(%s)", b.Index, ex.blockLine(b))}, lines...)
		p, ok := ex.parent[cur]
		if !ok {
			break
		}
		cur = p
		n++
	}
	if len(lines) > 14 {
		lines = append(lines[:6], append([]string{"…"}, lines[len(lines)-7:]...)...)
	}
	return strings.Join(lines, "→")
}

func (ex *Exploration) blockLine(b *ssa.BasicBlock) string {
	for _, ins := range b.Instrs {
		if ins.Pos().IsValid() {
			p := ex.P.Fset.Position(ins.Pos())
			return fmt.Sprintf("L%d", p.Line)
		}
	}
	return b.Comment
}

// Requirement check: every target instruction must, in every reaching product
// state, satisfy formula(holds). Returns one failure description per failing
// target (empty = all fine) and the number of targets found.
type pathFail struct {
	Ins   ssa.Instruction
	State string
	Trace string
}

func requireAt(P *Prog, fn *ssa.Function, init uint64, evs []Ev, isTarget func(ssa.Instruction) bool, formula func(h []bool) bool) (targets []ssa.Instruction, fails []pathFail) {
	ex := explore(P, fn, init, evs, isTarget)
	// keep deterministic order: walk blocks
	for _, b := range fn.Blocks {
		for _, ins := range b.Instrs {
			sts, ok := ex.at[ins]
			if !ok {
				if isTarget(ins) {
					// unreachable target: vacuously fine, but still a target
					targets = append(targets, ins)
				}
				continue
			}
			targets = append(targets, ins)
			for _, st := range sts {
				if !formula(ex.holdsVec(st)) {
					fails = append(fails, pathFail{ins, ex.describe(st), ex.findTrace(b.Index, st, ins)})
					break
				}
			}
		}
	}
	return
}

// findTrace finds a block-entry state of blk from which running the block's
// instructions reaches `ins` with product state st, and returns its trace.
func (ex *Exploration) findTrace(blk int, st uint64, target ssa.Instruction) string {
	for ps := range ex.parent {
		if ps.blk != blk {
			continue
		}
		cur := ps.st
		for _, ins := range ex.fn.Blocks[blk].Instrs {
			if ins == target {
				if cur == st {
					return ex.trace(ps)
				}
				break
			}
			for i, e := range ex.evs {
				cur = setSt(cur, i, e.Instr(getSt(cur, i), ins))
			}
		}
	}
	return fmt.Sprintf("b%d", blk)
}

// ---------- small constructors used by the property rules ----------

func callMatcher(fns ...Callee) func(*ssa.Call) bool {
	return func(c *ssa.Call) bool {
		for _, fn := range fns {
			if fn.Match(c.Common()) {
				return true
			}
		}
		return false
	}
}

func instrCallMatcher(fns ...Callee) func(ssa.Instruction) bool {
	return func(ins ssa.Instruction) bool { return isCallTo(ins, fns...) }
}

// isStoreToField: ins stores to field f (any base object).
func isStoreToField(ins ssa.Instruction, f *types.Var) bool {
	st, ok := ins.(*ssa.Store)
	return ok && fieldOfAddr(st.Addr) == f
}

func all(h []bool) bool {
	for _, b := range h {
		if !b {
			return false
		}
	}
	return true
}
func anyOf(h []bool) bool {
	for _, b := range h {
		if b {
			return true
		}
	}
	return false
}

// provedNonNilOnEdge: the tested value is a φ whose operand selected on this
// path arrives from a predecessor block that is only reached after that very
// operand was found non-nil (`if err != nil { res = err; goto done }; …
// done: if res != nil`): the second test is decided. This is the shape a result
// variable takes when a helper with early error returns is written — or
// expanded — in place.
func provedNonNilOnEdge(tested ssa.Value, sel uint64, phiSlot map[*ssa.Phi]int) bool {
	for i := 0; i < 4; i++ {
		phi, ok := tested.(*ssa.Phi)
		if !ok {
			return false
		}
		slot, tracked := phiSlot[phi]
		if !tracked {
			return false
		}
		k := int(getSt(sel, slot))
		if k == 0 || k > len(phi.Edges) || k > len(phi.Block().Preds) {
			return false
		}
		v := phi.Edges[k-1]
		pred := phi.Block().Preds[k-1]
		if _, again := v.(*ssa.Phi); !again {
			// is pred dominated by the non-nil successor of a test of v?
			for _, b := range phi.Parent().Blocks {
				iff, isIf := b.Instrs[len(b.Instrs)-1].(*ssa.If)
				if !isIf || len(b.Succs) != 2 {
					continue
				}
				if t, isNil0, isTest := nilTest(iff, true); isTest && t == v {
					nn := b.Succs[1]
					if !isNil0 {
						nn = b.Succs[0]
					}
					if len(nn.Preds) == 1 && nn.Dominates(pred) {
						return true
					}
				}
			}
			return false
		}
		tested = v
	}
	return false
}

// pathAlternatives: the values v can have when control is at instruction at —
// like valueAlternatives, but φ operands are taken only from the paths that
// actually reach `at` (an operand that a result variable holds only on a path
// that returns earlier is not an alternative there).
func pathAlternatives(P *Prog, fn *ssa.Function, v ssa.Value, at ssa.Instruction, depth int) []ssa.Value {
	var phis []*ssa.Phi
	seen := map[ssa.Value]bool{}
	var collect func(x ssa.Value, d int)
	collect = func(x ssa.Value, d int) {
		if x == nil || seen[x] || d < 0 {
			return
		}
		seen[x] = true
		if phi, ok := strip(x).(*ssa.Phi); ok {
			phis = append(phis, phi)
			for _, e := range phi.Edges {
				collect(e, d-1)
			}
		}
	}
	collect(v, depth)
	if len(phis) == 0 {
		return valueAlternatives(v, depth)
	}
	old := trackPhis[fn]
	trackPhis[fn] = append(append([]*ssa.Phi{}, old...), phis...)
	defer func() { trackPhis[fn] = old }()
	ex := explore(P, fn, 0, nil, func(x ssa.Instruction) bool { return x == at })
	var out []ssa.Value
	have := map[ssa.Value]bool{}
	for _, sel := range ex.atSel[at] {
		r := ex.resolveAt(strip(v), sel)
		for _, a := range valueAlternatives(r, depth) { // what could not be resolved stays a φ: all its operands
			if !have[a] {
				have[a] = true
				out = append(out, a)
			}
		}
	}
	if len(out) == 0 {
		return valueAlternatives(v, depth)
	}
	return out
}
