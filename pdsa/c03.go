package main

import (
	"fmt"
	"go/token"
	"go/types"
	"sort"
	"strings"

	"golang.org/x/tools/go/ssa"
)

// leaderOnlyClasses: key classes that may only be written under the leader
// comparator. A class is recognised by a constant fragment of the key (the
// helper that builds the key may be renamed or inlined freely).
type keyClass struct {
	name   string
	frag   string // substring of a constant key fragment
	kinds  string // "put delete" subset the rule applies to
	reason string
}

var leaderOnlyClasses = []keyClass{
	{"time window", "timestamp", "put delete", "extending the TSO window is a leader-only write"},
	{"id window", "alloc_id", "put delete", "extending the id window is a leader-only write"},
	{"member leader priority", "leader_priority", "put delete", "priority is administered by the leader"},
	{"dc-location removal", "dc-location", "delete", "the leader prunes dc-location info of removed members"},
	{"encryption keys", "encryption_keys", "put delete", "data keys are rotated by the leader only"},
}

func classifyKey(k *keyAtoms, kind string) *keyClass {
	for i := range leaderOnlyClasses {
		cl := &leaderOnlyClasses[i]
		if !strings.Contains(cl.kinds, kind) {
			continue
		}
		for s := range k.Consts {
			if strings.Contains(s, cl.frag) {
				return cl
			}
		}
	}
	return nil
}

// ruleLeaderOnlyKeys: E4 table — every etcd write whose key belongs to a
// leader-only class is conditional on the leader record, and the function
// reports success only if the transaction was applied.
func ruleLeaderOnlyKeys(c *Ctx, onlyClass string) {
	P := c.P
	rule := c.Prop + "/leader-guarded-write"
	n := 0
	for _, s := range P.txnSites() {
		cl := classifyKey(s.KeyAtoms, s.Kind)
		if cl == nil {
			if onlyClass == "" {
				c.Info(rule, fmt.Sprintf("%s in %s key=%s", s.Kind, fnName(s.Fn), s.KeyAtoms), "not a leader-only key class", P.instrPos(s.Op), "origin="+s.Origin)
			}
			continue
		}
		if onlyClass != "" && cl.name != onlyClass {
			continue
		}
		n++
		c.saw(fnName(s.Fn))
		construct := fmt.Sprintf("%s of %s key in %s", s.Kind, cl.name, fnName(s.Fn))
		g, why := s.leaderGuarded(P)
		c.Check(g, rule, construct, "the transaction's If contains the leader comparator (LeaderTxn or Value(<root>/leader) == me): "+cl.reason, P.instrPos(s.Op), why)
		if s.Commit == nil {
			c.Undec(rule, construct+" (commit)", "Commit found", P.instrPos(s.Op), "builder chain not recovered")
			continue
		}
		c.need(c.Prop+"/leader-guarded-write-outcome", s.Fn, "successful return after "+s.Kind+" of "+cl.name+" key", func(ins ssa.Instruction) bool {
			r, ok := ins.(*ssa.Return)
			return ok && retIsNilErr(r)
		}, s.committedEvents(), all, "success is reported only when Commit returned nil and resp.Succeeded (a rejected write is never taken for applied)")
	}
	if onlyClass == "" {
		c.Floor(rule, 6, "leader-guarded write sites (time window, id window, priority put+delete, dc-location delete, encryption keys)")
	} else if n == 0 {
		c.Undec(rule, "writes of "+onlyClass, "at least one site", "", "none found")
	}
}

// ruleCampaignShape: a campaign writes the leader key only if it does not
// exist, bound to the campaigner's lease; a lost campaign closes the lease.
func ruleCampaignShape(c *Ctx) {
	P := c.P
	rule := c.Prop + "/campaign"
	leaderKey := P.Field("server/election", "Leadership", "leaderKey")
	closeFn := F(P.Method("server/election", "lease", "Close"))
	n := 0
	for _, s := range P.txnSites() {
		if s.Kind != "put" || !s.KeyAtoms.Fields[leaderKey] {
			continue
		}
		n++
		c.saw(fnName(s.Fn))
		construct := "put of leader key in " + fnName(s.Fn)
		c.Check(s.Lease, rule, construct+" (lease)", "the leader record is attached to the campaigner's lease (WithLease)", P.instrPos(s.Op), "no WithLease option")
		c.Check(s.hasCreateRevisionZero(P, s.Key), rule, construct+" (create-if-absent)", "If contains CreateRevision(leaderKey) == 0: a campaign succeeds only when no live leader record exists", P.instrPos(s.Op), fmt.Sprint(len(s.Cmps), " comparators, none is CreateRevision(leaderKey)=0"))
		// the conditions the caller attaches to its campaign (a local allocator's "I am the designated next leader")
		// are part of the transaction
		for _, p := range s.Fn.Params {
			sl, isSl := p.Type().Underlying().(*types.Slice)
			if !isSl {
				continue
			}
			if nn := namedOf(sl.Elem()); nn == nil || nn.Obj().Name() != "Cmp" {
				continue
			}
			inIf := s.If != nil && len(s.If.Call.Args) == 1 && sliceTakes(s.If.Call.Args[0], p, 8)
			c.Check(inIf, rule, construct+" (caller's conditions)", "the comparators handed to the campaign are evaluated by its transaction", P.instrPos(s.Op), "the If does not take the caller's comparators")
		}
		if s.Commit != nil {
			evs := s.committedEvents()
			c.need(rule, s.Fn, "successful return of campaign", func(ins ssa.Instruction) bool {
				r, ok := ins.(*ssa.Return)
				return ok && retIsNilErr(r)
			}, evs, all, "campaign reports success only if the transaction was applied")
			// failure after the lease was granted closes it
			commit := s.Commit
			committed := &calledEv{name: "Commit executed", match: func(ins ssa.Instruction) bool { return ins == ssa.Instruction(commit) }}
			closed := &calledEv{name: "lease.Close()", match: instrCallMatcher(closeFn)}
			c.need(rule, s.Fn, "failing return after Commit", func(ins ssa.Instruction) bool {
				r, ok := ins.(*ssa.Return)
				return ok && errReturn(r)
			}, []Ev{committed, closed}, func(h []bool) bool { return !h[0] || h[1] }, "a lost campaign closes (revokes) the lease it was granted")
		}
	}
	if n == 0 {
		c.Undec(rule, "leader key put", "found", "", "no put of Leadership.leaderKey")
	}
	// Check(): lease exists and is not expired
	check := P.Method("server/election", "Leadership", "Check")
	isExp := F(P.Method("server/election", "lease", "IsExpired"))
	c.saw(fnName(check))
	found, _ := guardControlsReturn(check, func(cond ssa.Value, pos bool) bool {
		cl, ok := cond.(*ssa.Call)
		return ok && isExp.Match(cl.Common())
	}, func(*ssa.Return) bool { return true })
	hasCall := len(callsIn(check, false, isExp)) > 0
	c.Check(found || hasCall, rule, "Leadership.Check", "depends on lease.IsExpired()", P.pos(check.Pos()), "")
	c.trueOnlyIf(rule, check, []namedAtom{{"!lease.IsExpired()", func(cond ssa.Value, pos bool) bool {
		cl, ok := cond.(*ssa.Call)
		return ok && !pos && isExp.Match(cl.Common())
	}}})
	// IsExpired compares now with expireTime
	ie := P.Method("server/election", "lease", "IsExpired")
	okAfter := false
	for _, b := range ie.Blocks {
		for _, ins := range b.Instrs {
			if cl, ok := ins.(*ssa.Call); ok && isStdMethod(cl, "time", "Time", "After") {
				okAfter = true
			}
		}
	}
	c.Check(okAfter, rule, "lease.IsExpired", "compares the current time with the lease's expire time", P.pos(ie.Pos()), "")
	// Close() clears expireTime before revoking (a resigned lease is expired at once)
	cl := P.Method("server/election", "lease", "Close")
	expField := P.Field("server/election", "lease", "expireTime")
	stored := false
	for _, b := range cl.Blocks {
		for _, ins := range b.Instrs {
			if ci, ok := ins.(*ssa.Call); ok {
				if f := ci.Call.StaticCallee(); f != nil && f.Name() == "Store" && len(ci.Call.Args) > 0 && fieldOfAddr(ci.Call.Args[0]) == expField {
					stored = true
				}
			}
		}
	}
	c.Check(stored, rule, "lease.Close", "resets expireTime so that Check() is false immediately after resign", P.pos(cl.Pos()), "")
	// …and does so before the lease is revoked in etcd: once the revoke is applied a
	// successor can win the campaign, so the local lease must already read expired.
	isRevoke := func(ins ssa.Instruction) bool {
		ci, ok := ins.(ssa.CallInstruction)
		return ok && ci.Common().IsInvoke() && (ci.Common().Method.Name() == "Revoke" || ci.Common().Method.Name() == "Close")
	}
	expired := &calledEv{name: "expireTime reset", match: func(ins ssa.Instruction) bool {
		ci, ok := ins.(*ssa.Call)
		if !ok {
			return false
		}
		f := ci.Call.StaticCallee()
		return f != nil && f.Name() == "Store" && len(ci.Call.Args) > 0 && fieldOfAddr(ci.Call.Args[0]) == expField
	}}
	c.need(rule, cl, "Revoke/Close of the etcd lease", isRevoke, []Ev{expired}, all, "the local expiry is reset before the lease is revoked (no window in which a resigned holder still passes Check())")
}

// pdServerHandlers: the methods of *server.Server that implement pdpb.PDServer.
func pdServerHandlers(P *Prog) []*ssa.Function {
	it, ok := P.named("github.com/pingcap/kvproto/pkg/pdpb", "PDServer").Underlying().(*types.Interface)
	if !ok {
		undecidedf("pdpb.PDServer is not an interface")
	}
	var out []*ssa.Function
	for i := 0; i < it.NumMethods(); i++ {
		if fn := P.methodOpt("server", "Server", it.Method(i).Name()); fn != nil {
			out = append(out, fn)
		}
	}
	sort.Slice(out, func(i, j int) bool { return out[i].Name() < out[j].Name() })
	return out
}

// ruleHandlersValidate: a non-leader (or closed server, or a request for a
// different cluster) is refused before any cluster/storage/id-allocator state
// is touched.
func ruleHandlersValidate(c *Ctx) {
	P := c.P
	rule := c.Prop + "/not-leader-refused"
	validate := P.Method("server", "Server", "validateRequest")
	validateInt := P.Method("server", "Server", "validateInternalRequest")
	rcNamed := P.named("server/cluster", "RaftCluster")
	stNamed := P.named("server/core", "Storage")
	amNamed := P.named("server/tso", "AllocatorManager")
	allocI := P.IMethod("server/id", "Allocator", "Alloc")
	bootstrap := F(P.Method("server", "Server", "bootstrapCluster"))
	handleTSO := F(P.Method("server/tso", "AllocatorManager", "HandleTSORequest"))
	clusterID := P.Field("server", "Server", "clusterID")
	isGuardedTarget := func(ins ssa.Instruction) bool {
		ci, ok := ins.(ssa.CallInstruction)
		if !ok {
			return false
		}
		cc := ci.Common()
		if allocI.Match(cc) || bootstrap.Match(cc) {
			return true
		}
		if f := cc.StaticCallee(); f != nil && f.Signature.Recv() != nil {
			n := namedOf(f.Signature.Recv().Type())
			if n != nil && (n.Obj() == rcNamed.Obj() || n.Obj() == stNamed.Obj() || n.Obj() == amNamed.Obj()) {
				return true
			}
		}
		return false
	}
	exempt := map[string]string{
		"Tso":         "lease-checked inside the allocator (getTS / GenerateTSO rules); handler must compare the cluster id",
		"GetMembers":  "discovery RPC: reads membership only, must be answerable by any member",
		"SyncRegions": "served to followers; RegionSyncer.Sync compares the cluster id before anything is sent",
	}
	nValidated := 0
	for _, h := range pdServerHandlers(P) {
		c.saw(fnName(h))
		okV := newOkEv(h, "ok(validateRequest)", callMatcher(F(validate), F(validateInt)))
		if why, ex := exempt[h.Name()]; ex {
			switch h.Name() {
			case "Tso":
				g := guardRel("header.ClusterId == s.clusterID", "==", anyVal, loadOfField(clusterID))
				closed := guardCall("!IsClosed()", false, callMatcher(F(P.Method("server", "Server", "IsClosed"))))
				c.need(rule, h, "call HandleTSORequest", instrCallMatcher(handleTSO), []Ev{g, closed}, all, "dominated by the cluster-id comparison and the not-closed test ("+why+")")
			case "SyncRegions":
				sync := P.Method("server/region_syncer", "RegionSyncer", "Sync")
				hist := F(P.Method("server/region_syncer", "RegionSyncer", "syncHistoryRegion"))
				clusterIDm := P.IMethod("server/region_syncer", "Server", "ClusterID")
				g := guardRel("request cluster id == server cluster id", "==", anyVal, resultOfCall(clusterIDm))
				c.need(rule, sync, "call syncHistoryRegion", instrCallMatcher(hist), []Ev{g}, all, "dominated by the cluster-id comparison ("+why+")")
			default:
				c.Info(rule, "handler "+h.Name(), "exempt", P.pos(h.Pos()), why)
			}
			continue
		}
		targets, fails := requireAt(P, h, 0, []Ev{okV}, isGuardedTarget, all)
		if len(targets) == 0 {
			c.Info(rule, "handler "+h.Name(), "no cluster/storage/id access", P.pos(h.Pos()), "")
			continue
		}
		construct := "handler " + h.Name()
		req := "every call on RaftCluster / Storage / id allocator / bootstrapCluster is dominated by ok(validateRequest) (or validateInternalRequest)"
		if len(fails) > 0 {
			c.Viol(rule, construct, req, P.instrPos(fails[0].Ins), fmt.Sprintf("%d of %d guarded calls reachable without validation; first: %s via %s", len(fails), len(targets), fails[0].State, fails[0].Trace))
		} else {
			c.OK(rule, construct, req, P.pos(h.Pos()))
			nValidated++
		}
	}
	c.Floor(rule, 22, "handlers that touch cluster state only after validateRequest")
	// validateRequest: acceptance requires every test to have passed (a dominance
	// requirement on the accepting return, so that a test weakened by an extra
	// conjunct — "header != nil && id != clusterID" — is not mistaken for the test)
	isClosed := F(P.Method("server", "Server", "IsClosed"))
	isLeader := F(P.Method("server/member", "Member", "IsLeader"))
	getCID := F(P.Method("github.com/pingcap/kvproto/pkg/pdpb", "RequestHeader", "GetClusterId"))
	accept := func(x ssa.Instruction) bool { r, ok := x.(*ssa.Return); return ok && retIsNilErr(r) }
	c.need(c.Prop+"/validate-atoms", validate, "accepting return", accept, []Ev{
		guardCall("!IsClosed()", false, callMatcher(isClosed)),
		guardCall("member.IsLeader()", true, callMatcher(isLeader)),
		guardRel("header.ClusterId == s.clusterID", "==", resultOfCall(getCID), loadOfField(clusterID)),
	}, all, "a request is accepted only if the server is open, this member is the leader (lease checked) and the request carries this cluster's id")
	// Member.IsLeader depends on the lease check
	ml := P.Method("server/member", "Member", "IsLeader")
	check := F(P.Method("server/election", "Leadership", "Check"))
	c.Check(len(callsIn(ml, false, check)) > 0, c.Prop+"/validate-atoms", "Member.IsLeader", "depends on leadership.Check() (lease not expired)", P.pos(ml.Pos()), "")
	// SyncMaxTS / GetDCLocationInfo use validateInternalRequest; the latter's leader-only mode compares the sender with the leader
	c.atomRejects(c.Prop+"/validate-atoms", validateInt, "IsClosed() ⇒ error", func(cond ssa.Value, pos bool) bool {
		cl, ok := cond.(*ssa.Call)
		return ok && pos && isClosed.Match(cl.Common())
	}, errReturn)
}

// ruleLeaseBeforeWrites: the lease is tested before an allocator writes or saves.
func ruleLeaseBeforeWrites(c *Ctx) {
	P := c.P
	rule := c.Prop + "/lease-before-write"
	const tso = "server/tso"
	check := F(P.Method("server/election", "Leadership", "Check"))
	g := func() Ev { return guardCall("leadership.Check()", true, callMatcher(check)) }
	reset := P.Method(tso, "timestampOracle", "resetUserTimestamp")
	save := F(P.Method(tso, "timestampOracle", "saveTimestamp"))
	phys := P.Field(tso, "tsoObject", "physical")
	c.need(rule, reset, "saveTimestamp / physical write", func(ins ssa.Instruction) bool {
		return isCallTo(ins, save) || isStoreToField(ins, phys)
	}, []Ev{g()}, all, "a user reset saves or writes only after leadership.Check() was true")
	upd := P.Method(tso, "AllocatorManager", "updateAllocator")
	c.need(rule, upd, "call UpdateTSO", instrCallMatcher(P.IMethod(tso, "Allocator", "UpdateTSO")), []Ev{g()}, all, "the periodic update runs only while leadership.Check() is true")
}

// ruleStepUpDown: the leader starts serving only after every leader-only
// resource was (re)initialised under the new lease and steps down when the
// lease is gone.
func ruleStepUpDown(c *Ctx) {
	P := c.P
	rule := c.Prop + "/serve-after-init"
	camp := P.Method("server", "Server", "campaignLeader")
	enable := F(P.Method("server/member", "Member", "EnableLeader"))
	mk := func(name string, cal Callee) Ev {
		e := newOkEv(camp, "ok("+name+")", callMatcher(cal))
		e.sticky = true
		return e
	}
	evs := []Ev{
		mk("CampaignLeader", F(P.Method("server/member", "Member", "CampaignLeader"))),
		mk("Initialize", P.IMethod("server/tso", "Allocator", "Initialize")),
		mk("reloadConfigFromKV", F(P.Method("server", "Server", "reloadConfigFromKV"))),
		mk("createRaftCluster", F(P.Method("server", "Server", "createRaftCluster"))),
		mk("idAllocator.Rebase", P.IMethod("server/id", "Allocator", "Rebase")),
	}
	c.need(rule, camp, "call EnableLeader", instrCallMatcher(enable), evs, all, "dominated by ok(CampaignLeader) ∧ ok(Initialize) ∧ ok(reloadConfigFromKV) ∧ ok(createRaftCluster) ∧ ok(Rebase)")
	// step-down: the serve loop returns when !IsLeader() or the etcd leader is someone else
	isLeader := F(P.Method("server/member", "Member", "IsLeader"))
	straight := func(match func(cond ssa.Value, pos bool) bool) bool {
		for _, b := range camp.Blocks {
			iff, ok := b.Instrs[len(b.Instrs)-1].(*ssa.If)
			if !ok {
				continue
			}
			for si := 0; si < 2; si++ {
				cond, pos := normCond(iff.Cond, si == 0)
				if match(cond, pos) && edgeLeadsStraightTo(b, si, func(*ssa.Return) bool { return true }) {
					return true
				}
			}
		}
		return false
	}
	c.Check(straight(func(cond ssa.Value, pos bool) bool {
		cl, ok := cond.(*ssa.Call)
		return ok && !pos && isLeader.Match(cl.Common())
	}), c.Prop+"/step-down", "!member.IsLeader() in "+fnName(camp), "the serve loop returns (and the deferred resets run) as soon as the lease check fails", P.pos(camp.Pos()), "")
	getEtcd := F(P.Method("server/member", "Member", "GetEtcdLeader"))
	c.Check(straight(relMatcher("!=", resultOfCall(getEtcd), anyVal)), c.Prop+"/step-down", "etcdLeader != self in "+fnName(camp), "the serve loop returns when the etcd leader moved", P.pos(camp.Pos()), "")
	// the local allocator: enabled only after Initialize (and WriteTSO when a max ts was handed over)
	cal := P.Method("server/tso", "AllocatorManager", "campaignAllocatorLeader")
	enableAL := F(P.Method("server/tso", "LocalTSOAllocator", "EnableAllocatorLeader"))
	e1 := newOkEv(cal, "ok(CampaignAllocatorLeader)", callMatcher(F(P.Method("server/tso", "LocalTSOAllocator", "CampaignAllocatorLeader"))))
	e1.sticky = true
	e2 := newOkEv(cal, "ok(Initialize)", callMatcher(F(P.Method("server/tso", "LocalTSOAllocator", "Initialize")), P.IMethod("server/tso", "Allocator", "Initialize")))
	e2.sticky = true
	c.need(rule, cal, "call EnableAllocatorLeader", instrCallMatcher(enableAL), []Ev{e1, e2}, all, "dominated by ok(CampaignAllocatorLeader) ∧ ok(Initialize)")
}

func init() {
	register("C03", "Only the current leaseholder serves or persists leader-only state", func(c *Ctx) {
		c.Group("C03/campaign", "campaign = create-if-absent put of the leader key bound to the lease; a lost campaign closes the lease; Check() depends on lease expiry", func() { ruleCampaignShape(c); ruleLeaseExpiryConservative(c) })
		c.Group("C03/leader-guarded-write", "every etcd write of a leader-only key class (time window, id window, member priority, dc-location removal, encryption keys) is conditional on the leader record and reports success only when applied", func() {
			ruleLeaderOnlyKeys(c, "")
			// the one leader-only write whose transaction does not compare the leader record
			ruleSuffixLeaderOnly(c, "C03/leader-guarded-write")
		})
		c.Group("C03/not-leader-refused", "every PDServer handler refuses (validateRequest: closed, not leader, other cluster) before touching cluster, storage or id-allocator state", func() { ruleHandlersValidate(c) })
		c.Group("C03/getTS", "(shared with C01) the lease is checked before and after a timestamp is generated", func() { ruleGetTS(c) })
		c.Group("C03/global-generate", "(shared with C01) the global path re-checks the lease after its last write", func() { ruleGlobalGenerate(c) })
		c.Group("C03/lease-before-write", "user resets and periodic updates test the lease before they save or write", func() { ruleLeaseBeforeWrites(c) })
		c.Group("C03/serve-after-init", "the leader serves only after every leader-only resource was re-initialised; it steps down when the lease check fails", func() { ruleStepUpDown(c) })
		c.Group("C03/id-window", "(shared with C04) the id window is adopted in memory only after the leader-guarded window transaction was applied: a deposed leader cannot hand out ids from a window it was refused", func() { ruleIDAllocator(c) })
		c.Group("C03/window-txn", "(shared with C02) the time-window transaction is leader-guarded and only an applied write is remembered", func() { ruleSaveTimestampShape(c) })
		c.Group("C03/reset-on-failure", "(shared with C02) losing the window or the campaign resets allocator and leadership", func() { ruleResetOnFailure(c); ruleResetGroupUnconditional(c) })
	})
}

// ruleLeaseExpiryConservative: the local view of the lease must never outlive
// etcd's. etcd counts the TTL from the moment it handled the request, so the
// local expiry is "a clock reading taken before the request was sent + TTL".
// A reading taken after the answer arrived lets Check() stay true for the
// round-trip time after etcd already expired the lease and another member won.
func ruleLeaseExpiryConservative(c *Ctx) {
	P := c.P
	rule := c.Prop + "/campaign"
	const ev3 = "go.etcd.io/etcd/clientv3"
	grant := P.IMethod(ev3, "Lease", "Grant")
	keep := P.IMethod(ev3, "Lease", "KeepAliveOnce")
	isStd := func(v ssa.Value, pkg, name string) *ssa.Call {
		cl, ok := strip(v).(*ssa.Call)
		if !ok {
			return nil
		}
		f := cl.Call.StaticCallee()
		if f == nil || f.Pkg == nil || f.Pkg.Pkg.Path() != pkg || f.Name() != name {
			return nil
		}
		return cl
	}
	isTTL := func(v ssa.Value) bool {
		u, ok := v.(*ssa.UnOp)
		if !ok || u.Op != token.MUL {
			return false
		}
		f := fieldOfAddr(u.X)
		return f != nil && f.Name() == "TTL"
	}
	n := 0
	for _, fn := range P.Funcs {
		if P.isScaffold(fn) || fnPkgPath(fn) != modPath+"/server/election" {
			continue
		}
		reqs := callsIn(fn, false, grant, keep)
		if len(reqs) == 0 {
			continue
		}
		c.saw(fnName(fn))
		adds := 0
		for _, b := range fn.Blocks {
			for _, ins := range b.Instrs {
				add := func() *ssa.Call {
					if v, ok := ins.(ssa.Value); ok {
						return isStd(v, "time", "Add")
					}
					return nil
				}()
				if add == nil || len(add.Call.Args) != 2 || !derivesFrom(add.Call.Args[1], isTTL, 6) {
					continue
				}
				adds++
				n++
				// the base of the expiry: clock readings it can come from
				var nows []*ssa.Call
				derivesFrom(add.Call.Args[0], func(v ssa.Value) bool {
					if cl := isStd(v, "time", "Now"); cl != nil {
						nows = append(nows, cl)
					}
					return false
				}, 6)
				ok, why := len(nows) > 0, "the base of the expiry is not a clock reading of this function"
				for _, now := range nows {
					for _, rq := range reqs {
						if !instrReaches(now, rq.(ssa.Instruction)) || instrReaches(rq.(ssa.Instruction), now) {
							ok, why = false, "the clock is read at "+P.instrPos(now)+", which is not before the request at "+P.instrPos(rq.(ssa.Instruction))
						}
					}
				}
				c.Check(ok, rule, fmt.Sprintf("expiry #%d computed in %s", adds, fnName(fn)), "reading of the clock taken before the lease request was sent + granted TTL (the local lease never outlives etcd's)", P.instrPos(add), why)
			}
		}
		if adds == 0 {
			c.Undec(rule, "expiry computed from the TTL in "+fnName(fn), "found", P.pos(fn.Pos()), "")
		}
	}
	if n < 2 {
		c.Undec(rule, "lease requests whose answer sets the expiry (Grant, KeepAliveOnce)", "2", "", fmt.Sprint(n))
	}
}

// sliceTakes: the slice v is p itself, or was built by appending p's elements
// (append(x, p...)) somewhere along its construction.
func sliceTakes(v ssa.Value, p ssa.Value, depth int) bool {
	if v == nil || depth < 0 {
		return false
	}
	if sameVal(v, p) {
		return true
	}
	switch x := strip(v).(type) {
	case *ssa.Call:
		if b, ok := x.Call.Value.(*ssa.Builtin); ok && b.Name() == "append" && len(x.Call.Args) == 2 {
			return sliceTakes(x.Call.Args[1], p, depth-1) || sliceTakes(x.Call.Args[0], p, depth-1)
		}
		for _, r := range sliceHelperReturns(x) {
			if sliceTakes(r, p, depth-1) {
				return true
			}
		}
	case *ssa.Slice:
		return sliceTakes(x.X, p, depth-1)
	case *ssa.Phi:
		for _, e := range x.Edges {
			if e != v && sliceTakes(e, p, depth-1) {
				return true
			}
		}
	case *ssa.UnOp:
		if x.Op == token.MUL {
			if a, ok := x.X.(*ssa.Alloc); ok {
				for _, r := range *a.Referrers() {
					if st, isSt := r.(*ssa.Store); isSt && st.Addr == ssa.Value(a) && sliceTakes(st.Val, p, depth-1) {
						return true
					}
				}
			}
		}
	}
	return false
}
