package main

import (
	"fmt"
	"go/ast"
	"go/constant"
	"go/token"
	"go/types"
	"math/bits"

	"golang.org/x/tools/go/ssa"
)

// storesToField lists the Store instructions to field f in fn.
func storesToField(fn *ssa.Function, f *types.Var) []*ssa.Store {
	var out []*ssa.Store
	for _, b := range fn.Blocks {
		for _, ins := range b.Instrs {
			if s, ok := ins.(*ssa.Store); ok && fieldOfAddr(s.Addr) == f {
				out = append(out, s)
			}
		}
	}
	return out
}

func isGlobalLoad(v ssa.Value, g types.Object) bool {
	u, ok := strip(v).(*ssa.UnOp)
	if !ok || u.Op != token.MUL {
		return false
	}
	gl, ok := u.X.(*ssa.Global)
	return ok && gl.Object() == g
}

// callWithArgs: v is a call to fn whose explicit args satisfy the predicates.
func callWithArgs(fn Callee, preds ...valPred) valPred {
	return func(v ssa.Value) bool {
		c, _ := callOf(v)
		if c == nil || !fn.Match(c.Common()) {
			return false
		}
		args := callArgs(c.Common())
		if len(args) < len(preds) {
			return false
		}
		for i, p := range preds {
			if !p(args[i]) {
				return false
			}
		}
		return true
	}
}

// constOperands collects (operator, constant operand value) pairs of binary
// expressions in a function body, evaluated through go/types.
func constOperands(info *types.Info, fd *ast.FuncDecl) map[token.Token][]constant.Value {
	out := map[token.Token][]constant.Value{}
	ast.Inspect(fd.Body, func(n ast.Node) bool {
		be, ok := n.(*ast.BinaryExpr)
		if !ok {
			return true
		}
		if v, ok := constValueOf(info, be.Y); ok {
			out[be.Op] = append(out[be.Op], v)
		}
		return true
	})
	return out
}

func constIntObj(o types.Object) (int64, bool) {
	c, ok := o.(*types.Const)
	if !ok {
		return 0, false
	}
	return constant.Int64Val(constant.ToInt(c.Val()))
}

func init() {
	register("C01", "Timestamps are unique and strictly increasing", func(c *Ctx) {
		P := c.P
		const tso = "server/tso"
		c.Group("C01/tso-lock", "every access to the in-memory TSO (physical, logical, updateTime) holds the TSO mutex, W for writes", func() {
			lock := P.Field(tso, "tsoObject", "RWMutex")
			n := 0
			for _, f := range []string{"physical", "logical", "updateTime"} {
				n += guardedBy(c, "C01/tso-lock", P.Field(tso, "tsoObject", f), lock, nil)
			}
			if n < 8 {
				c.Undec("C01/tso-lock", "accesses", "at least 8 guarded access classes", "", fmt.Sprintf("only %d found", n))
			}
		})

		c.Group("C01/monotone-write", "every write of the TSO's physical time is a reset to zero, or is dominated by 'new physical strictly after current', or by 'not before' plus 'logical strictly greater'; logical is zeroed/advanced together with it", func() { ruleMonotoneWrite(c) })

		c.Group("C01/generate-range", "generateTSO advances the logical part by exactly the requested count and returns the value read after the advance", func() { ruleGenerateReturnsHighest(c) })
		c.Group("C01/sync-above-window", "(shared with C02) a new leader starts at least the guard above the loaded window", func() { ruleSyncAboveWindow(c) })
		c.Group("C01/getTS", "every successful return of getTS is dominated by logical < maxLogical and by a leadership check made after the timestamp was generated; count==0 is rejected", func() { ruleGetTS(c) })

		c.Group("C01/global-generate", "a global timestamp is returned only after SyncMaxTS succeeded, the estimate passed the overflow pre-check, and leadership was re-checked after the last write to any allocator", func() { ruleGlobalGenerate(c) })

		c.Group("C01/bit-width", "the 18-bit logical field is the same constant in the allocator, tsoutil and every compose/parse literal", func() {
			maxLogical, ok := constIntObj(P.obj(tso, "maxLogical"))
			if !ok || maxLogical <= 0 || maxLogical&(maxLogical-1) != 0 {
				c.Viol("C01/bit-width", "tso.maxLogical", "a power of two", "", fmt.Sprint(maxLogical))
				return
			}
			width := int64(bits.TrailingZeros64(uint64(maxLogical)))
			c.Check(width == 18, "C01/bit-width", "log2(tso.maxLogical)", "== 18 (the logical part fits its 18-bit field)", P.pos(P.obj(tso, "maxLogical").Pos()), fmt.Sprintf("got %d", width))
			shift, _ := constIntObj(P.obj("pkg/tsoutil", "physicalShiftBits"))
			c.Check(shift == width, "C01/bit-width", "tsoutil.physicalShiftBits", "== log2(maxLogical)", P.pos(P.obj("pkg/tsoutil", "physicalShiftBits").Pos()), fmt.Sprintf("got %d want %d", shift, width))
			lb, _ := constIntObj(P.obj("pkg/tsoutil", "logicalBits"))
			c.Check(lb == maxLogical-1, "C01/bit-width", "tsoutil.logicalBits", "== maxLogical-1", P.pos(P.obj("pkg/tsoutil", "logicalBits").Pos()), fmt.Sprintf("got %d", lb))
			for _, name := range []string{"ComposeTS", "ParseTS"} {
				fn := P.Func("pkg/tsoutil", name)
				fd := P.declOf(fn)
				if fd == nil {
					undecidedf("no syntax for %s", name)
				}
				ops := constOperands(P.typesInfo(fn), fd)
				okShift, okMask := false, false
				for _, tk := range []token.Token{token.SHL, token.SHR} {
					for _, v := range ops[tk] {
						if i, ok := constant.Int64Val(constant.ToInt(v)); ok {
							okShift = i == width
							if !okShift {
								c.Viol("C01/bit-width", "shift literal in tsoutil."+name, "== 18", P.pos(fn.Pos()), fmt.Sprintf("got %d", i))
							}
						}
					}
				}
				for _, v := range ops[token.AND] {
					if i, ok := constant.Int64Val(constant.ToInt(v)); ok {
						okMask = i == maxLogical-1
						if !okMask {
							c.Viol("C01/bit-width", "mask literal in tsoutil."+name, "== maxLogical-1", P.pos(fn.Pos()), fmt.Sprintf("got %#x", i))
						}
					}
				}
				c.Check(okShift && okMask, "C01/bit-width", "shift+mask in tsoutil."+name, "shift by 18 and mask 0x3FFFF both present", P.pos(fn.Pos()), "")
			}
			// CompareTimestamp orders by physical then logical (comparator well-formedness)
			cmp := P.Func("pkg/tsoutil", "CompareTimestamp")
			getP := F(P.Method("github.com/pingcap/kvproto/pkg/pdpb", "Timestamp", "GetPhysical"))
			getL := F(P.Method("github.com/pingcap/kvproto/pkg/pdpb", "Timestamp", "GetLogical"))
			for _, a := range []struct {
				name string
				m    func(ssa.Value, bool) bool
			}{
				{"physical >", relMatcher(">", resultOfCall(getP), resultOfCall(getP))},
				{"physical == ∧ logical >", relMatcher(">", resultOfCall(getL), resultOfCall(getL))},
				{"logical ==", relMatcher("==", resultOfCall(getL), resultOfCall(getL))},
			} {
				found, _ := guardControlsReturn(cmp, a.m, func(*ssa.Return) bool { return true })
				c.Check(found, "C01/bit-width", "CompareTimestamp atom "+a.name, "comparison present", P.pos(cmp.Pos()), "")
			}
			// …and the table: evaluated under each of the nine orderings of (physical, logical) the result is the sign
			// of the physical difference, or of the logical one when the physical parts are equal (ordeval.go)
			okTab, tabDetail := len(cmp.Params) == 2, ""
			for _, po := range []int{-1, 0, 1} {
				for _, lo := range []int{-1, 0, 1} {
					want := po
					if po == 0 {
						want = lo
					}
					pOrd, lOrd := po, lo
					got, okE := ordEval(cmp, nil, ordAssume{cmp: func(x, y ssa.Value) (int, bool) {
						side := func(v ssa.Value) (string, int) {
							cl, _ := callOf(v)
							if cl == nil || len(cl.Call.Args) != 1 || len(cmp.Params) != 2 {
								return "", -1
							}
							k := ""
							switch {
							case getP.Match(cl.Common()):
								k = "p"
							case getL.Match(cl.Common()):
								k = "l"
							}
							switch {
							case sameVal(cl.Call.Args[0], cmp.Params[0]):
								return k, 0
							case sameVal(cl.Call.Args[0], cmp.Params[1]):
								return k, 1
							}
							return k, -1
						}
						kx, sx := side(x)
						ky, sy := side(y)
						if kx == "" || kx != ky || sx < 0 || sy < 0 || sx == sy {
							return 0, false
						}
						o := pOrd
						if kx == "l" {
							o = lOrd
						}
						if sx == 1 {
							o = -o
						}
						return o, true
					}}, 2)
					if !okE || got.kind != 'i' || int(got.i) != want {
						okTab = false
						tabDetail = fmt.Sprintf("physical ordered %d, logical ordered %d: result %d (evaluated: %v), want %d", po, lo, got.i, okE, want)
					}
				}
			}
			c.Check(okTab, "C01/bit-width", "CompareTimestamp order", "physical part first, logical part second: all nine orderings give the documented sign", P.pos(cmp.Pos()), tabDetail)
		})

		c.Group("C01/save-before-advance", "(shared with C02) order across restarts and hand-overs rests on the stored window: memory never advances past a window that was not stored first", func() { ruleSaveBeforeAdvance(c) })
		c.Group("C01/overflow-carry", "(shared with C05) the global estimate's logical part is set back only together with an advance of its physical part", func() { ruleOverflowCarry(c); ruleOverflowVetted(c) })
		c.Group("C01/window-txn", "(shared with C02/C03) the window is written by one leader-guarded transaction and remembered only when applied", func() { ruleSaveTimestampShape(c) })
		c.Group("C01/client", "client-side batch expansion: response count must equal the batch size; the first logical is derived with the same suffix-aware shift used to fan out; the fallback detector panics on tsLessEqual and otherwise stores the new highest", func() {
			proc := P.Method("client", "client", "processTSORequests")
			cas := P.Method("client", "client", "compareAndSwapTS")
			addL := F(P.Func("client", "addLogical"))
			finish := F(P.Method("client", "client", "finishTSORequest"))
			getCount := F(P.Method("github.com/pingcap/kvproto/pkg/pdpb", "TsoResponse", "GetCount"))
			// count mismatch rejected before any timestamp is handed out
			c.need("C01/client", proc, "successful fan-out (finishTSORequest with nil error)", func(x ssa.Instruction) bool {
				ci, ok := x.(ssa.CallInstruction)
				if !ok || !finish.Match(ci.Common()) {
					return false
				}
				args := callArgs(ci.Common())
				return len(args) == 5 && isNilConst(args[4])
			}, []Ev{guardRel("resp.Count==count", "==", resultOfCall(getCount), anyVal)}, all, "dominated by resp.GetCount() == batch size")
			// first logical comes from addLogical and is what both the detector and the fan-out receive
			for _, ci := range callsIn(proc, false, finish) {
				args := callArgs(ci.Common())
				if len(args) == 5 && isNilConst(args[4]) {
					c.Check(valueIsCallTo(args[2], addL), "C01/client", "firstLogical passed to finishTSORequest", "computed by addLogical (suffix-aware shift)", P.instrPos(ci), "")
				}
			}
			for _, ci := range callsIn(proc, false, F(cas)) {
				args := callArgs(ci.Common())
				c.Check(len(args) == 5 && valueIsCallTo(args[2], addL), "C01/client", "firstLogical passed to compareAndSwapTS", "computed by addLogical (suffix-aware shift)", P.instrPos(ci), "")
			}
			// detector: stores dominated by !tsLessEqual; panic on tsLessEqual
			fLP := P.Field("client", "lastTSO", "physical")
			fLL := P.Field("client", "lastTSO", "logical")
			le := F(P.Func("client", "tsLessEqual"))
			for _, f := range []*types.Var{fLP, fLL} {
				f := f
				c.need("C01/client", cas, "update of lastTSO."+f.Name(), func(x ssa.Instruction) bool {
					s, ok := x.(*ssa.Store)
					return ok && fieldOfAddr(s.Addr) == f && !isFreshBase(s.Addr)
				}, []Ev{guardCall("!tsLessEqual(new first, last highest)", false, callMatcher(le))}, all, "the remembered highest is advanced only when the new range starts strictly after it")
			}
			// tsLessEqual shape: physical equal → logical <=, else physical <
			tl := P.Func("client", "tsLessEqual")
			f1, _ := guardControlsReturn(tl, relMatcher("==", anyVal, anyVal), func(*ssa.Return) bool { return true })
			hasLE, hasLT := false, false
			for _, b := range tl.Blocks {
				for _, ins := range b.Instrs {
					if bo, ok := ins.(*ssa.BinOp); ok {
						if bo.Op == token.LEQ {
							hasLE = true
						}
						if bo.Op == token.LSS {
							hasLT = true
						}
					}
				}
			}
			c.Check(f1 && hasLE && hasLT, "C01/client", "tsLessEqual", "physical == ⇒ logical <=, otherwise physical <", P.pos(tl.Pos()), "")
			ruleRequestRecycling(c)
		})
	})
}

func ruleGetTS(c *Ctx) {
	P := c.P
	const tso = "server/tso"
	rule := c.Prop + "/getTS"

	getTS := P.Method(tso, "timestampOracle", "getTS")
	gen := F(P.Method(tso, "timestampOracle", "generateTSO"))
	check := F(P.Method("server/election", "Leadership", "Check"))
	maxLogical, ok := constIntObj(P.obj(tso, "maxLogical"))
	if !ok {
		undecidedf("maxLogical is not an integer constant")
	}
	fLogical := P.Field("github.com/pingcap/kvproto/pkg/pdpb", "Timestamp", "Logical")
	getLogical := F(P.Method("github.com/pingcap/kvproto/pkg/pdpb", "Timestamp", "GetLogical"))
	logicalVal := orPred(loadOfField(fLogical), resultOfCall(getLogical), func(v ssa.Value) bool {
		// the logical part as generateTSO returned it, before it is put into the response
		ex, ok := strip(v).(*ssa.Extract)
		return ok && ex.Index == 1 && valueIsCallTo(ex.Tuple, gen)
	})
	gOverflow := guardRel("logical<maxLogical", "<", logicalVal, isConstInt(maxLogical))
	gOverflow.invalidate = instrCallMatcher(gen)
	lead := newBoolEv(getTS, "leadership.Check() after generateTSO", true, callMatcher(check))
	lead.reset = instrCallMatcher(gen)
	generated := &calledEv{name: "generateTSO called", match: instrCallMatcher(gen)}
	c.need(rule, getTS, "successful return", func(x ssa.Instruction) bool {
		r, ok := x.(*ssa.Return)
		return ok && retIsNilErr(r)
	}, []Ev{gOverflow, lead, generated}, all, "generateTSO called; then logical < maxLogical (false edge of >=) and leadership.Check() true, both evaluated after the last generateTSO")
	var countParam ssa.Value
	for _, p := range getTS.Params {
		if p.Name() == "count" {
			countParam = p
		}
	}
	if countParam == nil && len(getTS.Params) >= 3 {
		countParam = getTS.Params[2]
	}
	c.atomRejects(rule, getTS, "count == 0 ⇒ error", relMatcher("==", same(countParam), isConstInt(0)), errReturn)
}

func ruleGlobalGenerate(c *Ctx) {
	P := c.P
	const tso = "server/tso"
	rule := c.Prop + "/global-generate"

	gen := P.Method(tso, "GlobalTSOAllocator", "GenerateTSO")
	check := F(P.Method("server/election", "Leadership", "Check"))
	syncMax := F(P.Method(tso, "GlobalTSOAllocator", "SyncMaxTS"))
	reset := F(P.Method(tso, "timestampOracle", "resetUserTimestamp"))
	getTS := F(P.Method(tso, "timestampOracle", "getTS"))
	estimate := P.Method(tso, "GlobalTSOAllocator", "estimateMaxTS")
	precheck := F(P.Method(tso, "GlobalTSOAllocator", "precheckLogical"))
	lead := newBoolEv(gen, "leadership.Check() after last SyncMaxTS/reset", true, callMatcher(check))
	lead.reset = instrCallMatcher(syncMax, reset)
	synced := newOkEv(gen, "ok(SyncMaxTS)", callMatcher(syncMax))
	c.need(rule, gen, "successful return (synchronised path)", func(x ssa.Instruction) bool {
		r, ok := x.(*ssa.Return)
		return ok && retIsNilErr(r)
	}, []Ev{lead, synced}, all, "ok(SyncMaxTS) and a true leadership.Check() evaluated after the last SyncMaxTS / resetUserTimestamp")
	// what is returned on the synchronised path is the maximum that was written everywhere, made unique: the global
	// oracle took it over (a failed take-over is not answered with success), its logical part was differentiated
	// with the cluster's suffix width after the last synchronisation, and that width is reported with it
	pb := "github.com/pingcap/kvproto/pkg/pdpb"
	logicalF := P.Field(pb, "Timestamp", "Logical")
	bitsF := P.Field(pb, "Timestamp", "SuffixBits")
	isDiffV, _ := differentiated(P)
	tookOver := &perRoundSettled{settledEv: newSettledEv(gen, "resetUserTimestamp", callMatcher(reset)), newRound: instrCallMatcher(syncMax)}
	diffd := &calledEv{name: "Logical = differentiateLogical(Logical, suffixBits)", match: func(x ssa.Instruction) bool {
		st, ok := x.(*ssa.Store)
		return ok && fieldOfAddr(st.Addr) == logicalF && isDiffV(st.Val)
	}, reset: instrCallMatcher(syncMax)}
	widthSet := &calledEv{name: "SuffixBits = suffixBits", match: func(x ssa.Instruction) bool {
		st, ok := x.(*ssa.Store)
		return ok && fieldOfAddr(st.Addr) == bitsF
	}, reset: instrCallMatcher(syncMax)}
	c.need(rule, gen, "successful return (what is returned)", func(x ssa.Instruction) bool {
		r, ok := x.(*ssa.Return)
		return ok && retIsNilErr(r)
	}, []Ev{tookOver, diffd, widthSet}, all, "the global oracle took the synchronised maximum over without error; its logical part was differentiated after the last SyncMaxTS and the suffix width is reported")
	// the setting phase writes the current estimate: the cell handed to SyncMaxTS was loaded from the estimate since
	// the previous SyncMaxTS; and when the answer is larger than the estimate, the estimate is raised to it *plus the
	// requested count* before the second round
	var cell ssa.Value
	for _, ci := range callsIn(gen, false, syncMax) {
		if a := callArgs(ci.Common()); len(a) >= 3 {
			cell = a[2]
		}
	}
	estV := func(v ssa.Value) bool {
		u, ok := v.(*ssa.UnOp)
		if !ok || u.Op != token.MUL {
			return false
		}
		return derivesFrom(u.X, func(w ssa.Value) bool {
			ex, ok := w.(*ssa.Extract)
			return ok && ex.Index == 0 && valueIsCallTo(ex.Tuple, F(estimate))
		}, 4)
	}
	if cell != nil {
		loaded := &calledEv{name: "*cell = *estimate", match: func(x ssa.Instruction) bool {
			st, ok := x.(*ssa.Store)
			return ok && sameVal(st.Addr, cell) && estV(st.Val)
		}, reset: instrCallMatcher(syncMax)}
		c.need(rule, gen, "call SyncMaxTS", instrCallMatcher(syncMax), []Ev{loaded}, all, "every setting round writes the current estimate (copied into the cell handed to SyncMaxTS since the previous round)")
	}
	cmpTS := F(P.Func("pkg/tsoutil", "CompareTimestamp"))
	var countP ssa.Value
	if len(gen.Params) >= 2 {
		countP = gen.Params[1]
	}
	c.mustFollowEdge(rule, gen, "the collected maximum is larger than the estimate", func(cond ssa.Value, pos bool) bool {
		r, ok := relOf(cond, pos)
		return ok && matchRel(r, ">", func(v ssa.Value) bool {
			cl, _ := callOf(v)
			if cl == nil || !cmpTS.Match(cl.Common()) || cell == nil {
				return false
			}
			a := callArgs(cl.Common())
			return len(a) == 2 && sameVal(a[0], cell) // the answer of the round against the estimate
		}, isConstInt(0))
	}, "estimate.Logical += count", func(x ssa.Instruction) bool {
		st, ok := x.(*ssa.Store)
		if !ok || fieldOfAddr(st.Addr) != logicalF {
			return false
		}
		bo, ok := strip(st.Val).(*ssa.BinOp)
		return ok && bo.Op == token.ADD && countP != nil && (derivesFrom(bo.X, same(countP), 3) || derivesFrom(bo.Y, same(countP), 3))
	}, nil, "the second round asks for the collected maximum plus the requested count: the values returned lie above every local timestamp seen")
	// a round's answer is accepted only if it did not exceed what was asked for — or the round was the second one,
	// sent with skipCheck: at a successful return the last SyncMaxTS answer was compared with the estimate and found
	// not larger, or skipCheck was set
	if cell != nil {
		var skipV ssa.Value
		for _, ci := range callsIn(gen, false, syncMax) {
			if a := callArgs(ci.Common()); len(a) >= 4 {
				skipV = a[3]
			}
		}
		notLarger := guardRel("answer <= estimate", "<= ==", func(v ssa.Value) bool {
			cl, _ := callOf(v)
			if cl == nil || !cmpTS.Match(cl.Common()) {
				return false
			}
			a := callArgs(cl.Common())
			return len(a) == 2 && sameVal(a[0], cell)
		}, isConstInt(0))
		notLarger.invalidate = instrCallMatcher(syncMax)
		skipSet := &guardEv{name: "skipCheck", match: func(cond ssa.Value, pos bool) bool { return pos && skipV != nil && cond == skipV }}
		c.need(rule, gen, "successful return (answer accepted)", func(x ssa.Instruction) bool {
			r, ok := x.(*ssa.Return)
			return ok && retIsNilErr(r)
		}, []Ev{notLarger, skipSet}, anyOf, "the answer of the last round was found not larger than the estimate, or that round was the validated second one (skipCheck)")
	}
	// when the raised estimate's logical part would overflow, the carry follows (physical advanced, logical restarted)
	physF := P.Field(pb, "Timestamp", "Physical")
	c.mustFollowEdge(rule, gen, "precheckLogical refused the raised estimate", func(cond ssa.Value, pos bool) bool {
		cl, ok := cond.(*ssa.Call)
		return ok && !pos && precheck.Match(cl.Common())
	}, "estimate.Physical advanced", func(x ssa.Instruction) bool {
		st, ok := x.(*ssa.Store)
		return ok && fieldOfAddr(st.Addr) == physF
	}, errorExit, "an estimate whose logical part does not fit is carried into the physical part before it is sent")
	// the non-synchronised path delegates to getTS (covered above): the only other non-error exit
	n := len(callsIn(gen, false, getTS))
	c.Check(n >= 1, rule, "delegation to getTS in "+fnName(gen), "without dc-locations the request is served by getTS", P.pos(gen.Pos()), "")
	// the first leadership check dominates everything
	c.need(rule, gen, "first use of the allocator state", instrCallMatcher(getTS, F(estimate)),
		[]Ev{guardCall("leadership.Check()", true, callMatcher(check))}, all, "nothing is generated unless leadership.Check() was true on entry")
	// estimateMaxTS hands out an estimate only if precheckLogical accepted it
	c.need(rule, estimate, "return of an estimate", func(x ssa.Instruction) bool {
		r, ok := x.(*ssa.Return)
		if !ok || len(r.Results) != 3 || !retIsNilErr(r) {
			return false
		}
		b, isC := constBool(retVal(r, 1))
		return isC && !b
	}, []Ev{guardCall("precheckLogical", true, callMatcher(precheck))}, all, "an estimate is returned for use only on the true edge of precheckLogical")
	// precheckLogical rejects differentiated logical >= maxLogical
	maxLogical, _ := constIntObj(P.obj(tso, "maxLogical"))
	isDiff, _ := differentiated(P)
	pre := P.Method(tso, "GlobalTSOAllocator", "precheckLogical")
	c.atomRejects(rule, pre, "differentiateLogical(logical) >= maxLogical ⇒ false",
		relMatcher(">=", isDiff, isConstInt(maxLogical)), boolReturn(false))
}

// differentiated: "the logical part made unique by the dc suffix", raw<<bits + suffix,
// whether computed by the helper method of the reference tree or written in
// place (a helper turned into a plain function is expanded by inline.go).
// widthOf gives the shift width of such a value.
func differentiated(P *Prog) (isDiff valPred, widthOf func(v ssa.Value) ssa.Value) {
	const tso = "server/tso"
	helper := P.methodOpt(tso, "timestampOracle", "differentiateLogical")
	if helper == nil {
		helper = P.renamedFunc(tso, "timestampOracle", "differentiateLogical")
	}
	shape := func(v ssa.Value) *ssa.BinOp {
		add, ok := strip(v).(*ssa.BinOp)
		if !ok || add.Op != token.ADD {
			return nil
		}
		sh, ok := strip(add.X).(*ssa.BinOp)
		if !ok || sh.Op != token.SHL {
			return nil
		}
		return sh
	}
	isDiff = func(v ssa.Value) bool {
		if helper != nil && valueIsCallTo(v, F(helper)) {
			return true
		}
		return shape(v) != nil
	}
	widthOf = func(v ssa.Value) ssa.Value {
		if helper != nil {
			if cl, _ := callOf(v); cl != nil && F(helper).Match(cl.Common()) {
				if a := callArgs(cl.Common()); len(a) == 2 {
					return a[1]
				}
			}
		}
		if sh := shape(v); sh != nil {
			w := sh.Y
			if cv, ok := w.(*ssa.Convert); ok { // shift counts are converted to an unsigned type by the compiler front end
				w = cv.X
			}
			return w
		}
		return nil
	}
	return
}

func constStringObj(o types.Object) (string, bool) {
	c, ok := o.(*types.Const)
	if !ok || c.Val().Kind() != constant.String {
		return "", false
	}
	return constant.StringVal(c.Val()), true
}

// ruleRequestRecycling: a tsoRequest goes back to the pool only after its
// completion was received from req.done. A request recycled while it is still
// queued (or in flight) is handed to the next caller and completed twice: the
// second owner reads the timestamp of the first.
func ruleRequestRecycling(c *Ctx) {
	P := c.P
	rule := "C01/client"
	done := P.Field("client", "tsoRequest", "done")
	pool := P.pkg("client").Types.Scope().Lookup("tsoReqPool")
	if pool == nil {
		c.Undec(rule, "client.tsoReqPool", "found", "", "")
		return
	}
	n := 0
	for _, fn := range P.Funcs {
		if P.isScaffold(fn) || fnPkgPath(fn) != modPath+"/client" {
			continue
		}
		// blocks in which a completion has been received: a direct receive, or the branch of a select
		// taken when the req.done case fired
		var recvBlocks []*ssa.BasicBlock
		recvAt := map[*ssa.BasicBlock]int{}
		for _, b := range fn.Blocks {
			for i, ins := range b.Instrs {
				switch t := ins.(type) {
				case *ssa.UnOp:
					if t.Op == token.ARROW && isLoadOf(t.X, done) {
						recvBlocks = append(recvBlocks, b)
						recvAt[b] = i
					}
				case *ssa.If:
					bo, ok := t.Cond.(*ssa.BinOp)
					if !ok || bo.Op != token.EQL {
						continue
					}
					ex, ok := bo.X.(*ssa.Extract)
					if !ok || ex.Index != 0 {
						continue
					}
					sel, ok := ex.Tuple.(*ssa.Select)
					k, isC := constInt(bo.Y)
					if !ok || !isC || int(k) >= len(sel.States) {
						continue
					}
					st := sel.States[k]
					if st.Dir == types.RecvOnly && isLoadOf(st.Chan, done) && len(b.Succs[0].Preds) == 1 {
						recvBlocks = append(recvBlocks, b.Succs[0])
						recvAt[b.Succs[0]] = -1
					}
				}
			}
		}
		k := 0
		for _, b := range fn.Blocks {
			for i, ins := range b.Instrs {
				ci, ok := ins.(ssa.CallInstruction)
				if !ok {
					continue
				}
				f := ci.Common().StaticCallee()
				if f == nil || f.Name() != "Put" || f.Pkg == nil || f.Pkg.Pkg.Path() != "sync" || len(ci.Common().Args) == 0 {
					continue
				}
				g, isG := strip(ci.Common().Args[0]).(*ssa.Global)
				if !isG || g.Object() != pool {
					continue
				}
				k++
				n++
				ok = false
				for _, rb := range recvBlocks {
					if rb == b && recvAt[rb] < i || rb != b && rb.Dominates(b) {
						ok = true
					}
				}
				c.saw(fnName(fn))
				c.Check(ok, rule, fmt.Sprintf("tsoReqPool.Put #%d in %s", k, fnName(fn)), "a request is recycled (also by a deferred Put) only on a path that received its completion from req.done", P.instrPos(ins), "no receive from req.done dominates this Put")
			}
		}
	}
	if n == 0 {
		c.Undec(rule, "tsoReqPool.Put sites", "at least 1", "", "0")
	}
}

// ruleGenerateReturnsHighest: a request for count values owns the count
// consecutive values *ending* at the returned one. generateTSO therefore
// advances the logical part by exactly its count argument and returns the
// value read after that advance; returning the value from before the advance
// (or advancing by something else) makes consecutive ranges overlap.
func ruleGenerateReturnsHighest(c *Ctx) {
	P := c.P
	const tso = "server/tso"
	rule := c.Prop + "/generate-range"
	fn := P.Method(tso, "timestampOracle", "generateTSO")
	logical := P.Field(tso, "tsoObject", "logical")
	c.saw(fnName(fn))
	var count ssa.Value
	for _, p := range fn.Params {
		if p.Name() == "count" {
			count = p
		}
	}
	if count == nil && len(fn.Params) >= 2 {
		count = fn.Params[1]
	}
	var adv *ssa.Store
	n := 0
	for _, st := range storesToField(fn, logical) {
		n++
		if bo, ok := strip(st.Val).(*ssa.BinOp); ok && bo.Op == token.ADD {
			x, y := strip(bo.X), strip(bo.Y)
			if (isLoadOf(x, logical) && y == count) || (isLoadOf(y, logical) && x == count) {
				adv = st
			}
		}
	}
	c.Check(adv != nil && n == 1, rule, "advance of logical in "+fnName(fn), "the logical part is advanced once, by exactly the requested count", P.pos(fn.Pos()), fmt.Sprintf("%d stores to logical, advance by count found: %v", n, adv != nil))
	if adv == nil {
		return
	}
	after := func(v ssa.Value) bool {
		v = strip(v)
		if v == strip(adv.Val) {
			return true
		}
		if !isLoadOf(v, logical) {
			return false
		}
		ins, ok := v.(ssa.Instruction)
		if !ok {
			return false
		}
		if ins.Block() == adv.Block() {
			for _, x := range ins.Block().Instrs {
				if x == ssa.Instruction(adv) {
					return true
				}
				if x == ins {
					return false
				}
			}
		}
		return adv.Block().Dominates(ins.Block())
	}
	before := func(v ssa.Value) bool {
		return isLoadOf(v, logical) && !after(v) && strip(v) != strip(adv.Val.(*ssa.BinOp).X) && strip(v) != strip(adv.Val.(*ssa.BinOp).Y)
	}
	k := 0
	seenAlt := map[ssa.Value]bool{}
	for _, b := range fn.Blocks {
		r, ok := b.Instrs[len(b.Instrs)-1].(*ssa.Return)
		if !ok || len(r.Results) < 2 {
			continue
		}
		for _, alt := range valueAlternatives(retVal(r, 1), 4) {
			if isConstInt(0)(alt) || seenAlt[strip(alt)] {
				continue // uninitialised oracle
			}
			seenAlt[strip(alt)] = true
			k++
			okAfter := derivesFrom(alt, after, 6)
			// the operand of the advance itself is a pre-advance load; any other pre-advance load feeding the result is wrong
			usesBefore := derivesFrom(alt, func(v ssa.Value) bool {
				if !isLoadOf(v, logical) || after(v) {
					return false
				}
				// reached otherwise than through the advance's own addition?
				return !derivesFrom(adv.Val, same(v), 2) || strip(alt) == strip(v)
			}, 6) && !okAfter
			_ = before
			c.Check(okAfter && !usesBefore, rule, fmt.Sprintf("returned logical #%d of %s", k, fnName(fn)), "the value read after the advance (the highest value of the granted range)", P.instrPos(r), "")
		}
	}
	if k == 0 {
		c.Undec(rule, "returns of "+fnName(fn), "a returned logical value", "", "")
	}
	// the physical part returned with it is read in the same critical section (a separate read lets an
	// advance of the physical time slip in between: old physical with a freshly reset logical)
	physical := P.Field(tso, "tsoObject", "physical")
	mu := P.Field(tso, "tsoObject", "RWMutex")
	okPhys, nPhys := true, 0
	seenP := map[ssa.Value]bool{}
	for _, b := range fn.Blocks {
		r, ok := b.Instrs[len(b.Instrs)-1].(*ssa.Return)
		if !ok || len(r.Results) < 2 {
			continue
		}
		for _, alt := range valueAlternatives(retVal(r, 0), 4) {
			if isConstInt(0)(alt) || seenP[strip(alt)] {
				continue
			}
			seenP[strip(alt)] = true
			nPhys++
			direct := false
			derivesFrom(alt, func(v ssa.Value) bool {
				if isLoadOf(v, physical) {
					if ins, isI := v.(ssa.Instruction); isI {
						if held, _ := heldAt(P, ins, mu, true); held {
							direct = true
						}
					}
				}
				return false
			}, 8)
			if !direct {
				okPhys = false
			}
		}
	}
	c.Check(okPhys && nPhys > 0, rule, "returned physical of "+fnName(fn), "read from the TSO in generateTSO itself while it holds the write lock under which the logical part is advanced", P.pos(fn.Pos()), "")
}

// ruleMonotoneWrite: (C01, shared with C05) every write of the in-memory
// physical time is a reset to zero or is dominated by "strictly after the
// current one" (or "not before" plus a larger logical part), measured with the
// millisecond-truncating difference the timestamps are composed with.
func ruleMonotoneWrite(c *Ctx) {
	P := c.P
	const tso = "server/tso"
	rule := c.Prop + "/monotone-write"
	fPhys := func() *types.Var { return P.Field(tso, "tsoObject", "physical") }
	fLog := func() *types.Var { return P.Field(tso, "tsoObject", "logical") }
	phys, logi := fPhys(), fLog()
	sub := F(P.Func("pkg/typeutil", "SubTSOPhysicalByWallClock"))
	zero := P.obj("pkg/typeutil", "ZeroTime")
	nW := 0
	for name, accs := range P.writersOf(phys) {
		_ = name
		for _, a := range accs {
			fn := a.Fn
			for i, st := range storesToField(fn, phys) {
				nW++
				construct := fmt.Sprintf("write of physical in %s #%d", fnName(fn), i+1)
				if isGlobalLoad(st.Val, zero) {
					// reset: logical must be zeroed too, in the same critical section
					ok := false
					for _, ls := range storesToField(fn, logi) {
						if z, isC := constInt(ls.Val); isC && z == 0 {
							ok = true
						}
					}
					c.Check(ok, rule, construct, "a reset to ZeroTime also zeroes logical", P.instrPos(st), "no logical = 0 store in the same function")
					continue
				}
				// (the written value may arrive through a result variable whose every operand is the one value)
				newV := st.Val
				if alts := valueAlternatives(newV, 3); len(alts) > 0 {
					one := true
					for _, a := range alts[1:] {
						if !sameVal(a, alts[0]) {
							one = false
						}
					}
					if one {
						newV = alts[0]
					}
				}
				diff := callWithArgs(sub, same(newV), loadOfField(phys))
				gGT := guardRel("Δphys>0", ">", diff, isConstInt(0))
				gGE := guardRel("Δphys>=0", ">= >", diff, isConstInt(0))
				gNE := guardRel("Δphys!=0", "!= >", diff, isConstInt(0))
				// logical difference: (new logical) - load(logical) > 0
				ldiff := func(v ssa.Value) bool {
					b, ok := strip(v).(*ssa.BinOp)
					return ok && b.Op == token.SUB && isLoadOf(b.Y, logi)
				}
				gLD := guardRel("Δlogical>0", ">", ldiff, isConstInt(0))
				_, fails := requireAt(P, fn, 0, []Ev{gGT, gGE, gNE, gLD}, func(x ssa.Instruction) bool { return x == st }, func(h []bool) bool {
					return h[0] || (h[1] && (h[2] || h[3]))
				})
				if len(fails) > 0 {
					c.Viol(rule, construct, "dominated by Sub(new,current) > 0, or by >= 0 ∧ (≠ 0 ∨ new logical > current logical)", P.instrPos(st), fails[0].State+" via "+fails[0].Trace)
				} else {
					c.OK(rule, construct, "dominated by Sub(new,current) > 0, or by >= 0 ∧ (≠ 0 ∨ new logical > current logical)", P.instrPos(st))
				}
				// pairing: after the physical write, every exit has written logical
				physW := &calledEv{name: "physical written", match: func(x ssa.Instruction) bool { return x == st }}
				logW := &calledEv{name: "logical written after", match: func(x ssa.Instruction) bool { return isStoreToField(x, logi) }, reset: func(x ssa.Instruction) bool { return x == st }}
				c.need(c.Prop+"/logical-follows-physical", fn, "return", func(x ssa.Instruction) bool { _, ok := x.(*ssa.Return); return ok },
					[]Ev{physW, logW}, func(h []bool) bool { return !h[0] || h[1] }, "a physical advance is always followed by a (re)write of logical before the lock is released")
			}
		}
	}
	if nW < 3 {
		c.Undec(rule, "writes of physical", "at least 3 writes found (advance, user reset, zero reset)", "", fmt.Sprintf("found %d", nW))
	}
	// writes of logical: constant 0 (only after a physical write), an increment of itself, or the guarded user reset
	for _, accs := range P.writersOf(logi) {
		for _, a := range accs {
			fn := a.Fn
			for i, st := range storesToField(fn, logi) {
				construct := fmt.Sprintf("write of logical in %s #%d", fnName(fn), i+1)
				if z, isC := constInt(st.Val); isC && z == 0 {
					physW := &calledEv{name: "physical written", match: func(x ssa.Instruction) bool { return isStoreToField(x, phys) }}
					_, fails := requireAt(P, fn, 0, []Ev{physW}, func(x ssa.Instruction) bool { return x == st }, all)
					c.Check(len(fails) == 0, c.Prop+"/logical-write", construct, "logical is zeroed only right after physical was written (advance or reset)", P.instrPos(st), "logical = 0 reachable without a physical write")
					continue
				}
				if b, ok := strip(st.Val).(*ssa.BinOp); ok && b.Op == token.ADD && (isLoadOf(b.X, logi) || isLoadOf(b.Y, logi)) {
					c.OK(c.Prop+"/logical-write", construct, "logical advances by adding the requested count to itself", P.instrPos(st))
					continue
				}
				// any other write must sit under the same guards as a physical write in the same function
				ok := len(storesToField(fn, phys)) > 0
				c.Check(ok, c.Prop+"/logical-write", construct, "another value is written only together with a guarded physical write", P.instrPos(st), "logical overwritten without a physical write in the same function")
			}
		}
	}
}

// perRoundSettled: a settledEv that starts afresh with every round of a retry
// loop (a failure in an earlier round was answered by trying again).
type perRoundSettled struct {
	*settledEv
	newRound func(ssa.Instruction) bool
}

func (p *perRoundSettled) Instr(st uint8, ins ssa.Instruction) uint8 {
	if p.newRound(ins) {
		return 0
	}
	return p.settledEv.Instr(st, ins)
}
