package main

import (
	"fmt"
	"go/token"
	"go/types"
	"strings"

	"golang.org/x/tools/go/ssa"
)

const opk = "server/schedule/operator"

func ruleBuilderState(c *Ctx) {
	P := c.P
	rule := c.Prop + "/planner-state"
	steps := P.Field(opk, "Builder", "steps")
	curLeader := P.Field(opk, "Builder", "currentLeaderStoreID")
	curPeers := P.Field(opk, "Builder", "currentPeers")
	// who appends steps / moves the tracked leader
	for name, accs := range P.writersOf(steps) {
		ok := strings.Contains(name, ").exec")
		c.Check(ok, rule, "writer "+name+" of Builder.steps", "steps are emitted only by the exec* helpers, which update the simulated region state with them", P.instrPos(accs[0].Ins), "")
	}
	originLeaderF := P.Field(opk, "Builder", "originLeaderStoreID")
	for name, accs := range P.writersOf(curLeader) {
		for _, a := range accs {
			for _, st := range storesToField(a.Fn, curLeader) {
				ok := strings.Contains(name, ").execTransferLeader") || isLoadOf(st.Val, originLeaderF)
				c.Check(ok, rule, "write of Builder.currentLeaderStoreID in "+name, "the tracked leader moves only with an emitted TransferLeader step, or is initialised from the origin leader", P.instrPos(st), "")
			}
		}
	}
	setPM := F(P.Method(opk, "peersMap", "Set"))
	getStore := F(P.Method("github.com/pingcap/kvproto/pkg/metapb", "Peer", "GetStoreId"))
	isRet := func(x ssa.Instruction) bool { _, ok := x.(*ssa.Return); return ok }
	stepAppended := func() Ev {
		return &calledEv{name: "step appended", match: func(x ssa.Instruction) bool { return isStoreToField(x, steps) }}
	}
	peersUpdated := func() Ev {
		return &calledEv{name: "currentPeers updated", match: func(x ssa.Instruction) bool {
			if ci, ok := x.(ssa.CallInstruction); ok {
				if setPM.Match(ci.Common()) && len(ci.Common().Args) > 0 && isLoadOf(ci.Common().Args[0], curPeers) {
					return true
				}
				if b, ok := ci.Common().Value.(*ssa.Builtin); ok && b.Name() == "delete" && isLoadOf(ci.Common().Args[0], curPeers) {
					return true
				}
			}
			return false
		}}
	}
	pendingDeleted := func(field string) Ev {
		f := P.Field(opk, "Builder", field)
		return &calledEv{name: "delete(" + field + ", peer.StoreId)", match: func(x ssa.Instruction) bool {
			cl, ok := x.(*ssa.Call)
			if !ok {
				return false
			}
			b, isB := cl.Call.Value.(*ssa.Builtin)
			return isB && b.Name() == "delete" && isLoadOf(cl.Call.Args[0], f) && valueIsCallTo(cl.Call.Args[1], getStore)
		}}
	}
	for _, sp := range []struct {
		fn      string
		pending string
	}{{"execPromoteLearner", "toPromote"}, {"execDemoteFollower", "toDemote"}, {"execAddPeer", "toAdd"}, {"execRemovePeer", "toRemove"}} {
		fn := P.Method(opk, "Builder", sp.fn)
		c.need(rule, fn, "return", isRet, []Ev{stepAppended(), peersUpdated(), pendingDeleted(sp.pending)}, all,
			"the helper emits its step, applies it to the simulated peers and consumes the pending task of the same store, on every path")
	}
	tl := P.Method(opk, "Builder", "execTransferLeader")
	c.need(rule, tl, "return", isRet, []Ev{stepAppended(), &calledEv{name: "currentLeaderStoreID = id", match: func(x ssa.Instruction) bool { return isStoreToField(x, curLeader) }}}, all,
		"a TransferLeader step and the tracked leader move together")
	// TransferLeader step: from the tracked leader to the requested store
	okTL := false
	for _, b := range tl.Blocks {
		for _, ins := range b.Instrs {
			if st, ok := ins.(*ssa.Store); ok && fieldOfAddr(st.Addr) == P.Field(opk, "TransferLeader", "FromStore") && isLoadOf(st.Val, curLeader) {
				okTL = true
			}
		}
	}
	c.Check(okTL, rule, "TransferLeader.FromStore in "+fnName(tl), "is the currently tracked leader", P.pos(tl.Pos()), "")
}

func ruleLeaderCandidates(c *Ctx) {
	P := c.P
	rule := c.Prop + "/leader-candidates"
	allow := P.Method(opk, "Builder", "allowLeader")
	target := P.Field(opk, "Builder", "targetLeaderStoreID")
	set := P.Method(opk, "Builder", "setTargetLeaderIfNotExist")
	c.need(rule, set, "choice of the target leader", func(x ssa.Instruction) bool { return isStoreToField(x, target) },
		[]Ev{guardCall("allowLeader(peer)", true, callMatcher(F(allow)))}, all, "a store becomes target leader only if allowLeader accepted its peer")
	// allowLeader: learners / demoting voters never; the current leader always; otherwise the store must exist
	getRole := F(P.Method("github.com/pingcap/kvproto/pkg/metapb", "Peer", "GetRole"))
	for _, r := range []struct {
		name string
		val  int64
	}{{"Learner", 1}, {"DemotingVoter", 3}} {
		v, ok := constIntObj(P.obj("github.com/pingcap/kvproto/pkg/metapb", "PeerRole_"+r.name))
		c.Check(ok && v == r.val, rule, "PeerRole_"+r.name, "constant value as in the protocol", "", "")
		c.atomRejects(rule, allow, "role == "+r.name+" ⇒ false", relMatcher("==", resultOfCall(getRole), isConstInt(v)), boolReturn(false))
	}
	c.atomRejects(rule, allow, "store == nil ⇒ false", relMatcher("==", resultOfCall(P.IMethod("server/schedule/opt", "Cluster", "GetStore")), isNilConst), boolReturn(false))
	sets := P.filterSetsIn(allow)
	okF := false
	for _, fn := range []*ssa.Function{allow} {
		for _, b := range fn.Blocks {
			for _, ins := range b.Instrs {
				if al, ok := ins.(*ssa.Alloc); ok {
					el, _ := P.resolveFilterValue(al, 1)
					for _, e := range el {
						if e.Kind == "StoreStateFilter" && e.Flags["TransferLeader"] {
							okF = true
						}
					}
				}
			}
		}
	}
	_ = sets
	c.Check(okF, rule, "store state in "+fnName(allow), "the candidate's store passes StoreStateFilter{TransferLeader}", P.pos(allow.Pos()), "")
	// every leader the non-joint planner picks passed allowLeader and is neither the removed nor the demoted store
	lbr := P.Field(opk, "stepPlan", "leaderBeforeRemove")
	lba := P.Field(opk, "stepPlan", "leaderBeforeAdd")
	fRemove := P.Field(opk, "stepPlan", "remove")
	fDemote := P.Field(opk, "stepPlan", "demote")
	getStore := F(P.Method("github.com/pingcap/kvproto/pkg/metapb", "Peer", "GetStoreId"))
	n := 0
	for _, fn := range P.Funcs {
		if P.isScaffold(fn) || fnPkgPath(fn) != modPath+"/"+opk {
			continue
		}
		for _, f := range []*types.Var{lbr, lba} {
			for i, st := range storesToField(fn, f) {
				if k, isC := constInt(st.Val); isC && k == 0 {
					continue
				}
				n++
				c.saw(fnName(fn))
				construct := fmt.Sprintf("%s chosen in %s #%d", f.Name(), fnName(fn), i+1)
				evs := []Ev{guardCall("allowLeader", true, callMatcher(F(allow)))}
				req := "dominated by allowLeader(...) == true"
				if f == lbr {
					// which of remove/demote does this plan carry? (set in this function, or fields of a plan parameter)
					for _, x := range []*types.Var{fRemove, fDemote} {
						x := x
						relevant := false
						var storedVal ssa.Value
						for _, s2 := range storesToField(fn, x) {
							if sameVal(baseOf(s2.Addr), baseOf(st.Addr)) {
								relevant = true
								storedVal = s2.Val
							}
						}
						if isParamBase(baseOf(st.Addr), fn) {
							relevant = true
						}
						if !relevant {
							continue
						}
						evs = append(evs, guardRel("leader != "+x.Name()+".StoreId", "!=", same(st.Val), func(v ssa.Value) bool {
							cl, _ := callOf(v)
							if cl == nil || !getStore.Match(cl.Common()) || len(cl.Call.Args) != 1 {
								return false
							}
							a := cl.Call.Args[0]
							return isLoadOf(a, x) || (storedVal != nil && sameVal(a, storedVal))
						}))
						req += " ∧ leader != " + x.Name() + "'s store"
					}
				}
				_, fails := requireAt(P, fn, 0, evs, func(ins ssa.Instruction) bool { return ins == st }, all)
				c.Check(len(fails) == 0, rule, construct, req+" (the peer that is leader at that moment is never removed or demoted, and only eligible peers lead)", P.instrPos(st), failDesc(fails))
			}
		}
	}
	if n < 5 {
		c.Undec(rule, "leader choices of the step planner", "at least 5", "", fmt.Sprint(n))
	}
	// the non-joint executor moves the leader away before it demotes/removes
	nj := P.Method(opk, "Builder", "buildStepsWithoutJointConsensus")
	consulted := &calledEv{name: "plan.leaderBeforeRemove consulted", match: func(x ssa.Instruction) bool {
		fa, ok := x.(*ssa.FieldAddr)
		if ok && fieldOfAddr(fa) == lbr {
			return true
		}
		fl, ok := x.(*ssa.Field)
		return ok && fieldOfField(fl) == lbr
	}}
	c.need(rule, nj, "demote / remove", instrCallMatcher(F(P.Method(opk, "Builder", "execDemoteFollower")), F(P.Method(opk, "Builder", "execRemovePeer"))), []Ev{consulted}, all,
		"the planned leader hand-over (leaderBeforeRemove) is executed before the peer is demoted or removed")
}

func baseOf(addr ssa.Value) ssa.Value {
	if fa, ok := addr.(*ssa.FieldAddr); ok {
		return fa.X
	}
	return addr
}

func isParamBase(v ssa.Value, fn *ssa.Function) bool {
	// by-value struct parameters are spilled to an Alloc initialised from the parameter
	if a, ok := v.(*ssa.Alloc); ok {
		for _, r := range *a.Referrers() {
			if st, ok := r.(*ssa.Store); ok && st.Addr == a {
				if _, isP := st.Val.(*ssa.Parameter); isP {
					return true
				}
			}
		}
	}
	_, isP := v.(*ssa.Parameter)
	return isP
}

// ruleReplacePlans: a replace plan never adds a peer on the store it removes
// one from (two peers on one store).
func ruleReplacePlans(c *Ctx) {
	P := c.P
	rule := c.Prop + "/replace-plans"
	pr := P.Method(opk, "Builder", "planReplace")
	c.saw(fnName(pr))
	fAdd := P.Field(opk, "stepPlan", "add")
	fRemove := P.Field(opk, "stepPlan", "remove")
	toAdd := P.Field(opk, "Builder", "toAdd")
	toRemove := P.Field(opk, "Builder", "toRemove")
	isLearner := F(P.Func("server/core", "IsLearner"))
	keyOf := func(v ssa.Value, m *types.Var) ssa.Value {
		l, ok := strip(v).(*ssa.Lookup)
		if ok && isLoadOf(l.X, m) {
			return l.Index
		}
		return nil
	}
	n := 0
	for _, b := range pr.Blocks {
		for _, ins := range b.Instrs {
			al, ok := ins.(*ssa.Alloc)
			if !ok || namedOf(al.Type()) == nil || namedOf(al.Type()).Obj().Name() != "stepPlan" {
				continue
			}
			var addV, rmV ssa.Value
			var at ssa.Instruction
			for _, r := range *al.Referrers() {
				fa, ok := r.(*ssa.FieldAddr)
				if !ok {
					continue
				}
				for _, rr := range *fa.Referrers() {
					if st, ok := rr.(*ssa.Store); ok && st.Addr == fa {
						switch fieldOfAddr(fa) {
						case fAdd:
							addV, at = st.Val, st
						case fRemove:
							rmV = st.Val
						}
					}
				}
			}
			if addV == nil || rmV == nil {
				continue
			}
			n++
			ka, kr := keyOf(addV, toAdd), keyOf(rmV, toRemove)
			construct := fmt.Sprintf("plan with add+remove in %s #%d", fnName(pr), n)
			if ka == nil || kr == nil {
				c.Viol(rule, construct, "add comes from toAdd[j], remove from toRemove[k]", P.instrPos(at), "provenance of add/remove not recognised")
				continue
			}
			distinct := guardRel("j != k", "!=", orPred(same(ka), same(kr)), orPred(same(ka), same(kr)))
			sameKind := guardRel("IsLearner(remove) == IsLearner(add)", "==", resultOfCall(isLearner), resultOfCall(isLearner))
			_, fails := requireAt(P, pr, 0, []Ev{distinct, sameKind}, func(x ssa.Instruction) bool { return x == at }, anyOf)
			c.Check(len(fails) == 0, rule, construct, "the added and the removed peer are on different stores (j != k), or have the same kind so that one store can never be in both pending sets", P.instrPos(at), failDesc(fails))
		}
	}
	if n < 3 {
		c.Undec(rule, "add+remove plans", "at least 3", "", fmt.Sprint(n))
	}
}

// ruleJointOrdering: in a joint-consensus plan the membership change that
// demotes voters is entered/left without a leader transfer in between only if
// the leader at that moment stays a voter.
func ruleJointOrdering(c *Ctx) {
	P := c.P
	rule := c.Prop + "/joint-ordering"
	jc := P.Method(opk, "Builder", "buildStepsWithJointConsensus")
	change := F(P.Method(opk, "Builder", "execChangePeerV2"))
	transfer := F(P.Method(opk, "Builder", "execTransferLeader"))
	isLearner := F(P.Func("server/core", "IsLearner"))
	originPeers := P.Field(opk, "Builder", "originPeers")
	targetPeers := P.Field(opk, "Builder", "targetPeers")
	originLeader := P.Field(opk, "Builder", "originLeaderStoreID")
	targetLeader := P.Field(opk, "Builder", "targetLeaderStoreID")
	lookupIn := func(m, key *types.Var) valPred {
		return func(v ssa.Value) bool {
			for _, a := range valueAlternatives(v, 2) {
				var l *ssa.Lookup
				switch x := strip(a).(type) {
				case *ssa.Lookup:
					l = x
				case *ssa.Extract:
					l, _ = x.Tuple.(*ssa.Lookup)
				}
				if l != nil && isLoadOf(l.X, m) && isLoadOf(l.Index, key) {
					return true
				}
			}
			return false
		}
	}
	notLearner := func(name string, m, key *types.Var) Ev {
		return &guardEv{name: name, match: func(cond ssa.Value, pos bool) bool {
			cl, ok := cond.(*ssa.Call)
			return ok && !pos && isLearner.Match(cl.Common()) && len(cl.Call.Args) == 1 && lookupIn(m, key)(cl.Call.Args[0])
		}}
	}
	g1 := notLearner("target leader is a voter in the origin peers", originPeers, targetLeader)
	g2 := notLearner("origin leader stays a voter in the target peers", targetPeers, originLeader)
	g0 := guardRel("no origin leader", "==", loadOfField(originLeader), isConstInt(0))
	n := 0
	for _, ci := range callsIn(jc, false, change) {
		a := callArgs(ci.Common())
		if len(a) != 2 {
			continue
		}
		if b, isC := constBool(a[1]); !isC || b {
			continue // transfers the leader inside the joint state: no precondition
		}
		n++
		_, fails := requireAt(P, jc, 0, []Ev{g1, g2, g0}, func(x ssa.Instruction) bool { return x == ci.(ssa.Instruction) }, anyOf)
		c.Check(len(fails) == 0, rule, fmt.Sprintf("execChangePeerV2(_, false) in %s #%d", fnName(jc), n),
			"entering and leaving the joint state without an inner leader transfer is chosen only when the leader of that moment stays a voter: the target leader is a voter among the origin peers (leader moved first), or the origin leader is absent or stays a voter among the target peers", P.instrPos(ci), failDesc(fails))
	}
	if n < 2 {
		c.Undec(rule, "execChangePeerV2(_, false) sites", "2", "", fmt.Sprint(n))
	}
	// the third form transfers inside the joint state
	hasInner := false
	for _, ci := range callsIn(jc, false, change) {
		if a := callArgs(ci.Common()); len(a) == 2 {
			if b, isC := constBool(a[1]); isC && b {
				hasInner = true
			}
		}
	}
	c.Check(hasInner, rule, "inner transfer form in "+fnName(jc), "when both the origin leader is demoted and the target leader promoted, leadership moves inside the joint state", P.pos(jc.Pos()), "")
	// execChangePeerV2: Enter (optional), then transfer (optional), then Leave, in that order
	cp := P.Method(opk, "Builder", "execChangePeerV2")
	steps := P.Field(opk, "Builder", "steps")
	var appends []*ssa.Store
	for _, b := range cp.Blocks {
		for _, ins := range b.Instrs {
			if st, ok := ins.(*ssa.Store); ok && fieldOfAddr(st.Addr) == steps {
				appends = append(appends, st)
			}
		}
	}
	okOrder := false
	if len(appends) == 2 {
		tr := callsIn(cp, false, transfer)
		if len(tr) == 1 {
			okOrder = instrBeforeOrDom(appends[0], tr[0].(ssa.Instruction)) && instrBeforeOrDom(tr[0].(ssa.Instruction), appends[1])
		}
	}
	c.Check(okOrder, rule, "step order in "+fnName(cp), "enter joint state, then (optional) leader transfer, then leave", P.pos(cp.Pos()), "")
	// no valid leader ⇒ no operator
	c.atomRejects(rule, jc, "targetLeaderStoreID == 0 ⇒ error", relMatcher("==", loadOfField(targetLeader), isConstInt(0)), errReturn)
	// removals come last, after the membership change
	rm := F(P.Method(opk, "Builder", "execRemovePeer"))
	c.need(rule, jc, "removal of old peers", instrCallMatcher(rm), []Ev{&calledEv{name: "membership change executed", match: instrCallMatcher(change)}}, all,
		"old peers are removed (as learners) only after the joint membership change")
}

func instrBeforeOrDom(a, b ssa.Instruction) bool {
	if a.Block() == b.Block() {
		for _, ins := range a.Block().Instrs {
			if ins == a {
				return true
			}
			if ins == b {
				return false
			}
		}
	}
	// a's block can reach b's block and not vice versa within the acyclic function body
	seen := map[*ssa.BasicBlock]bool{}
	var reach func(x *ssa.BasicBlock) bool
	reach = func(x *ssa.BasicBlock) bool {
		if x == b.Block() {
			return true
		}
		if seen[x] {
			return false
		}
		seen[x] = true
		for _, s := range x.Succs {
			if reach(s) {
				return true
			}
		}
		return false
	}
	return reach(a.Block())
}

// ruleStepPreconditionsMatchPlanner: the planner emits steps whose own
// precondition must hold when their turn comes, so a precondition may refuse
// only what the planner never produces. TransferLeader: the target peer is
// missing or a learner — an incoming voter of a joint state is a legal target.
// And the merge helper prepares the source only when the two regions really
// differ: isRegionMatch answers true only if every peer of one region has a
// peer of the same learner-ness on the same store in the other.
func ruleStepPreconditionsMatchPlanner(c *Ctx) {
	P := c.P
	rule := c.Prop + "/step-safety"
	cs := P.Method(opk, "TransferLeader", "CheckSafety")
	getSP := F(P.Method("server/core", "RegionInfo", "GetStorePeer"))
	isLearner := F(P.Func("server/core", "IsLearner"))
	missing := guardRel("no peer on the target store", "==", resultOfCall(getSP), isNilConst)
	learner := guardCall("the target peer is a learner", true, callMatcher(isLearner))
	c.need(rule, cs, "refusal", func(x ssa.Instruction) bool {
		r, ok := x.(*ssa.Return)
		return ok && errReturn(r)
	}, []Ev{missing, learner}, anyOf, "a leader transfer is refused only because the target peer is missing or a learner")
	// isRegionMatch
	rm := P.Func(opk, "isRegionMatch")
	getPeers := F(P.Method("server/core", "RegionInfo", "GetPeers"))
	c.saw(fnName(rm))
	ranges := false
	for _, b := range rm.Blocks {
		for _, ins := range b.Instrs {
			if u, ok := ins.(*ssa.UnOp); ok && u.Op == token.MUL {
				if ia, ok := u.X.(*ssa.IndexAddr); ok && valueIsCallTo(ia.X, getPeers) {
					ranges = true
				}
			}
		}
	}
	c.Check(ranges, rule, "peer loop in "+fnName(rm), "every peer of the region (voters and learners) is compared", P.pos(rm.Pos()), "")
	c.atomRejects(rule, rm, "no peer on the same store ⇒ false", relMatcher("==", resultOfCall(getSP), isNilConst), boolReturn(false))
	c.atomRejects(rule, rm, "learner-ness differs ⇒ false", relMatcher("!=", resultOfCall(isLearner), resultOfCall(isLearner)), boolReturn(false))
}

// ruleLeaderRoleRules: with placement rules, a store accepts the leader only
// through a rule whose role is leader or voter (a follower or learner rule
// grants no leadership) and whose label constraints it satisfies.
func ruleLeaderRoleRules(c *Ctx) {
	P := c.P
	rule := c.Prop + "/leader-candidates"
	allow := P.Method(opk, "Builder", "allowLeader")
	role := P.Field("server/schedule/placement", "Rule", "Role")
	lead, ok1 := constStringObj(P.obj("server/schedule/placement", "Leader"))
	voter, ok2 := constStringObj(P.obj("server/schedule/placement", "Voter"))
	if !ok1 || !ok2 {
		undecidedf("placement.Leader / placement.Voter are not string constants")
	}
	match := F(P.Func("server/schedule/placement", "MatchLabelConstraints"))
	rules := P.Field(opk, "Builder", "rules")
	c.need(rule, allow, "acceptance under placement rules", func(x ssa.Instruction) bool {
		r, ok := x.(*ssa.Return)
		if !ok || len(r.Results) != 1 {
			return false
		}
		b, isC := constBool(retVal(r, 0))
		return isC && b
	}, []Ev{
		guardRel("rule role == leader", "==", loadOfField(role), isConstStr(lead)),
		guardRel("rule role == voter", "==", loadOfField(role), isConstStr(voter)),
		guardCall("the store satisfies the rule's label constraints", true, callMatcher(match)),
		guardRel("no placement rules", "==", lenOf(loadOfField(rules)), isConstInt(0)),
		guardRel("the store already holds the leader", "==", anyVal, loadOfField(P.Field(opk, "Builder", "currentLeaderStoreID"))),
		&guardEv{name: "cluster limits ignored (forced)", match: func(cond ssa.Value, pos bool) bool { _, isP := cond.(*ssa.Parameter); return isP && pos }},
	}, func(h []bool) bool { return h[3] || h[4] || h[5] || ((h[0] || h[1]) && h[2]) },
		"accepted only without rules, for the current leader's store, when forced, or through a leader/voter rule whose constraints the store satisfies")
}

// ruleForceFlagOwnership: allowLeader(peer, force) skips the "store accepts
// leaders" test when force is set. The flag is raised only by the explicit
// builder option and by the leave-joint-state operator (which must hand the
// leadership somewhere); planning itself never falls back to forcing.
func ruleForceFlagOwnership(c *Ctx) {
	P := c.P
	f := P.Field(opk, "Builder", "forceTargetLeader")
	c.onlyWrittenBy(c.Prop+"/leader-candidates", f, map[string]string{
		"(*server/schedule/operator.Builder).EnableForceTargetLeader": "the explicit option",
		"server/schedule/operator.CreateLeaveJointStateOperator":      "leaving a joint state must place the leader somewhere",
	})
}

// rulePlannedPeerIdentity: steps that change the role of an *existing* peer
// (promote, demote) address it by its peer id; a target given by store and role
// only carries id 0. Whatever is recorded in toPromote/toDemote is either the
// target peer whose id was found equal to the origin's, or a peer built with the
// origin's id.
func rulePlannedPeerIdentity(c *Ctx) {
	P := c.P
	rule := c.Prop + "/prepare"
	pb := P.Method(opk, "Builder", "prepareBuild")
	peerID := P.Field("github.com/pingcap/kvproto/pkg/metapb", "Peer", "Id")
	getID := F(P.Method("github.com/pingcap/kvproto/pkg/metapb", "Peer", "GetId"))
	set := F(P.Method(opk, "peersMap", "Set"))
	same := guardRel("target id == origin id", "==", resultOfCall(getID), resultOfCall(getID))
	adopted := &calledEv{name: "target rebuilt with the origin's peer id", match: func(x ssa.Instruction) bool {
		st, ok := x.(*ssa.Store)
		return ok && fieldOfAddr(st.Addr) == peerID && valueIsCallTo(st.Val, getID)
	}, reset: func(x ssa.Instruction) bool {
		// a new origin peer: the loop over originPeers starts its next iteration
		n, ok := x.(*ssa.Next)
		return ok && n != nil
	}}
	same.invalidate = func(x ssa.Instruction) bool { _, ok := x.(*ssa.Next); return ok }
	n := 0
	for _, fld := range []string{"toPromote", "toDemote"} {
		f := P.Field(opk, "Builder", fld)
		for _, ci := range callsIn(pb, false, set) {
			recv := callRecv(ci.Common())
			if recv == nil || !isLoadOf(recv, f) {
				continue
			}
			n++
			target := ci.(ssa.Instruction)
			// the recorded value is the variable the adoption assigns: φ(target peer, peer rebuilt with the origin's id)
			okVal := false
			if a := callArgs(ci.Common()); len(a) == 1 {
				if phi, isPhi := a[0].(*ssa.Phi); isPhi {
					for _, e := range phi.Edges {
						if al, isAlloc := e.(*ssa.Alloc); isAlloc {
							for _, r := range *al.Referrers() {
								if fa, ok := r.(*ssa.FieldAddr); ok && fieldOfAddr(fa) == peerID {
									for _, rr := range *fa.Referrers() {
										if st, ok := rr.(*ssa.Store); ok && valueIsCallTo(st.Val, getID) {
											okVal = true
										}
									}
								}
							}
						}
					}
				}
			}
			c.Check(okVal, rule, fmt.Sprintf("value of %s.Set in %s", fld, fnName(pb)), "the peer recorded is the one the id adoption produced", P.instrPos(ci), "")
			c.need(rule, pb, fmt.Sprintf("%s.Set in %s", fld, fnName(pb)), func(x ssa.Instruction) bool { return x == target },
				[]Ev{same, adopted}, anyOf, "a role change of an existing peer is recorded with that peer's id (equal ids, or the target rebuilt with the origin's id)")
		}
	}
	if n < 2 {
		c.Undec(rule, "toPromote/toDemote.Set in "+fnName(pb), "at least 2", P.pos(pb.Pos()), fmt.Sprint(n))
	}
}

func rulePrepareBuild(c *Ctx) {
	P := c.P
	rule := c.Prop + "/prepare"
	pb := P.Method(opk, "Builder", "prepareBuild")
	allow := F(P.Method(opk, "Builder", "allowLeader"))
	target := P.Field(opk, "Builder", "targetLeaderStoreID")
	isLearner := F(P.Func("server/core", "IsLearner"))
	c.atomRejects(rule, pb, "no voter among the target peers ⇒ error", relMatcher("==", anyVal, isConstInt(0)), errReturn)
	c.atomRejects(rule, pb, "requested leader not allowed ⇒ error", func(cond ssa.Value, pos bool) bool {
		cl, ok := cond.(*ssa.Call)
		return ok && !pos && allow.Match(cl.Common())
	}, errReturn)
	// a requested leader that is absent or a learner in the target is dropped
	okDrop := false
	for _, st := range storesToField(pb, target) {
		if k, isC := constInt(st.Val); isC && k == 0 {
			okDrop = true
		}
	}
	c.Check(okDrop && len(callsIn(pb, false, isLearner)) > 0, rule, "target leader sanitised in "+fnName(pb), "a requested leader that is missing from, or a learner in, the target peers is not kept", P.pos(pb.Pos()), "")
	// Build: steps are generated only after prepareBuild succeeded; an operator only after step generation succeeded
	bd := P.Method(opk, "Builder", "Build")
	okPrep := newOkEv(bd, "ok(prepareBuild)", callMatcher(F(pb)))
	okPrep.sticky = true
	jc := F(P.Method(opk, "Builder", "buildStepsWithJointConsensus"))
	nj := F(P.Method(opk, "Builder", "buildStepsWithoutJointConsensus"))
	c.need(rule, bd, "step generation", instrCallMatcher(jc, nj), []Ev{okPrep}, all, "steps are planned only from a validated request")
	newOp := F(P.Func(opk, "NewOperator"))
	c.need(rule, bd, "NewOperator", instrCallMatcher(newOp), []Ev{okPrep, newSettledEv(bd, "buildSteps", callMatcher(jc, nj))}, all, "an operator is produced only if step generation succeeded")
	// the operator records the region id and epoch captured together by NewBuilder
	nb := P.Func(opk, "NewBuilder")
	rid, rep := P.Field(opk, "Builder", "regionID"), P.Field(opk, "Builder", "regionEpoch")
	var region ssa.Value
	for _, p := range nb.Params {
		if nn := namedOf(p.Type()); nn != nil && nn.Obj().Name() == "RegionInfo" {
			region = p
		}
	}
	okBoth := 0
	for _, f := range []*types.Var{rid, rep} {
		for _, st := range storesToField(nb, f) {
			if cl, _ := callOf(st.Val); cl != nil && len(cl.Call.Args) == 1 && cl.Call.Args[0] == region {
				okBoth++
			}
		}
	}
	c.Check(okBoth == 2, rule, "region id and epoch in "+fnName(nb), "captured from the same region the plan is computed for", P.pos(nb.Pos()), "")
}

func ruleStepSafety(c *Ctx) {
	P := c.P
	rule := c.Prop + "/step-safety"
	it, _ := P.named(opk, "OpStep").Underlying().(*types.Interface)
	pkg := P.pkg(opk)
	trivialOK := map[string]string{"MergeRegion": "merge is validated by the merge checker", "SplitRegion": "split has no placement precondition"}
	n := 0
	for _, name := range pkg.Types.Scope().Names() {
		tn, ok := pkg.Types.Scope().Lookup(name).(*types.TypeName)
		if !ok || tn.IsAlias() {
			continue
		}
		if _, isI := tn.Type().Underlying().(*types.Interface); isI {
			continue
		}
		if !(types.Implements(tn.Type(), it) || types.Implements(types.NewPointer(tn.Type()), it)) {
			continue
		}
		n++
		fn := P.methodOpt(opk, name, "CheckSafety")
		if fn == nil {
			c.Viol(rule, "step "+name, "implements CheckSafety", "", "no CheckSafety")
			continue
		}
		nontrivial := false
		for _, b := range fn.Blocks {
			if r, ok := b.Instrs[len(b.Instrs)-1].(*ssa.Return); ok && errReturn(r) {
				nontrivial = true
			}
		}
		if why, ok := trivialOK[name]; ok {
			c.Info(rule, "step "+name, "CheckSafety intentionally trivial", P.pos(fn.Pos()), why)
			continue
		}
		c.Check(nontrivial, rule, "CheckSafety of step "+name, "can reject (has a precondition)", P.pos(fn.Pos()), "always returns nil")
	}
	if n < 10 {
		c.Undec(rule, "OpStep implementations", "at least 10", "", fmt.Sprint(n))
	}
	// the preconditions that protect the leader
	for _, sp := range []struct{ typ, what string }{{"RemovePeer", "cannot remove leader peer"}, {"DemoteFollower", "cannot demote leader peer"}, {"ChangePeerV2Leave", "cannot demote leader peer"}} {
		fn := P.Method(opk, sp.typ, "CheckSafety")
		getLeader := F(P.Method("server/core", "RegionInfo", "GetLeader"))
		okL := false
		for _, f := range withCallees(fn, 1) {
			if len(callsIn(f, false, getLeader)) > 0 {
				okL = true
			}
		}
		c.Check(okL, rule, sp.typ+".CheckSafety", "tests the step against the current leader ("+sp.what+")", P.pos(fn.Pos()), "")
	}
	tl := P.Method(opk, "TransferLeader", "CheckSafety")
	isL := F(P.Func("server/core", "IsLearner"))
	c.Check(len(callsIn(tl, false, isL)) > 0, rule, "TransferLeader.CheckSafety", "refuses a learner as new leader", P.pos(tl.Pos()), "")
}

// rulePlanPriority: without joint consensus the planner applies one change at
// a time; the voter count stays at or above min(original, target) only because
// a change that lowers it (demote, remove) is considered after every change
// that keeps or raises it (replace, promote) has nothing left to do.
func rulePlanPriority(c *Ctx) {
	P := c.P
	rule := c.Prop + "/plan-priority"
	const opk = "server/schedule/operator"
	pp := P.Method(opk, "Builder", "peerPlan")
	plan := func(m string) Callee { return F(P.Method(opk, "Builder", m)) }
	isEmpty := F(P.Method(opk, "stepPlan", "IsEmpty"))
	exhausted := func(m string) Ev {
		p := plan(m)
		return guardCall(m+" has nothing to do", true, func(cl *ssa.Call) bool {
			if !isEmpty.Match(cl.Common()) {
				return false
			}
			recv := callRecv(cl.Common())
			return recv != nil && derivesFrom(recv, resultOfCall(p), 4)
		})
	}
	req := "a voter is demoted or removed only when no replace and no promotion is pending (promotions first keeps the voter count from dipping)"
	// table-driven form: an ordered array of the planner methods tried in a loop that returns the first
	// non-empty plan — the priority is the order of the table
	order := map[string]int{}
	var table *ssa.Alloc
	for _, b := range pp.Blocks {
		for _, ins := range b.Instrs {
			st, ok := ins.(*ssa.Store)
			if !ok {
				continue
			}
			ia, ok := st.Addr.(*ssa.IndexAddr)
			if !ok {
				continue
			}
			al, ok := ia.X.(*ssa.Alloc)
			idx, isC := constInt(ia.Index)
			mc, isMC := st.Val.(*ssa.MakeClosure)
			if !ok || !isC || !isMC {
				continue
			}
			for _, m := range []string{"planReplace", "planPromotePeer", "planDemotePeer", "planRemovePeer", "planAddPeer"} {
				if g, ok := mc.Fn.(*ssa.Function); ok && isBoundOf(g, P.Method(opk, "Builder", m)) {
					order[m] = int(idx)
					table = al
				}
			}
		}
	}
	for _, lowering := range []string{"planDemotePeer", "planRemovePeer"} {
		if len(callsIn(pp, false, plan(lowering))) == 0 && table != nil {
			_, hasR := order["planReplace"]
			_, hasP := order["planPromotePeer"]
			li, hasL := order[lowering]
			okOrder := hasR && hasP && hasL && order["planReplace"] < li && order["planPromotePeer"] < li
			// the table is walked in order and the first non-empty plan is returned
			firstWins := false
			for _, b := range pp.Blocks {
				for _, ins := range b.Instrs {
					cl, ok := ins.(*ssa.Call)
					if !ok || cl.Call.IsInvoke() || cl.Call.StaticCallee() != nil || !loopsContain(pp, b) {
						continue
					}
					if !derivesFrom(cl.Call.Value, func(v ssa.Value) bool {
						if ia, ok := v.(*ssa.IndexAddr); ok {
							if ia.X == ssa.Value(table) {
								return true
							}
							// a slice literal: the backing array sliced whole
							if sl, isSl := ia.X.(*ssa.Slice); isSl && sl.X == ssa.Value(table) && sl.Low == nil {
								return true
							}
						}
						if ix, ok := v.(*ssa.Index); ok {
							if u, ok := ix.X.(*ssa.UnOp); ok && u.Op == token.MUL && u.X == ssa.Value(table) {
								return true
							}
						}
						return false
					}, 3) {
						continue
					}
					res := cl
					found, _ := guardControlsReturn(pp, func(cond ssa.Value, pos bool) bool {
						e, ok := cond.(*ssa.Call)
						return ok && !pos && isEmpty.Match(e.Common()) && derivesFrom(callRecv(e.Common()), same(res), 4)
					}, func(r *ssa.Return) bool { return true })
					firstWins = firstWins || found
				}
			}
			c.Check(okOrder && firstWins, rule, "position of "+lowering+" in the planner table of "+fnName(pp), req+" — in the table form: replace and promote come earlier in the table, and the loop returns the first non-empty plan", P.pos(pp.Pos()), "")
			continue
		}
		c.need(rule, pp, "call "+lowering, instrCallMatcher(plan(lowering)), []Ev{exhausted("planReplace"), exhausted("planPromotePeer")}, all, req)
	}
}

func init() {
	register("C08", "Generated operator steps are safe and reach the requested placement", func(c *Ctx) {
		c.Group("C08/planner-state", "steps are emitted only by the exec helpers, each of which applies its step to the simulated region state and consumes the pending task, on every path", func() { ruleBuilderState(c); rulePlanCompletes(c) })
		c.Group("C08/leader-candidates", "target leaders and planned hand-over leaders passed allowLeader and are never the store being removed/demoted; allowLeader rejects learners, demoting voters and unknown stores; hand-over precedes demote/remove", func() { ruleLeaderCandidates(c); ruleForceFlagOwnership(c); ruleLeaderRoleRules(c) })
		c.Group("C08/plan-priority", "one-at-a-time planning considers demote/remove only after replace and promote are exhausted", func() { rulePlanPriority(c) })
		c.Group("C08/replace-plans", "a replace plan never adds on the store it removes from", func() { ruleReplacePlans(c) })
		c.Group("C08/joint-ordering", "joint consensus: enter/leave without inner transfer only when the leader of that moment stays a voter; enter → transfer → leave; removals last", func() { ruleJointOrdering(c) })
		c.Group("C08/prepare", "requests without voters or with a disallowed leader are rejected; steps only from a validated request; an operator only after successful planning", func() { rulePrepareBuild(c); rulePlannedPeerIdentity(c) })
		c.Group("C08/step-safety", "every step kind has a precondition check (leader protection) and a send case", func() { ruleStepSafety(c); ruleStepSwitchExhaustive(c); ruleStepPreconditionsMatchPlanner(c) })
		c.Group("C08/id-kind", "(shared with C09) store ids and peer ids are not mixed in the planner", func() { ruleIDKinds(c, "server/schedule/operator", "server/schedule") })
	})
}

// rulePlanCompletes: the one-at-a-time planner reports success only when
// nothing is left to do: every nil-error return of
// buildStepsWithoutJointConsensus follows the exit test of its loop — all four
// pending sets empty, tested after the last planning call. Leaving the loop on
// an empty plan would return a truncated operator that finishes successfully
// short of the requested placement. And leaving a joint state promotes exactly
// the incoming voters and demotes exactly the demoting voters.
func rulePlanCompletes(c *Ctx) {
	P := c.P
	const op = "server/schedule/operator"
	rule := c.Prop + "/planner-state"
	fn := P.Method(op, "Builder", "buildStepsWithoutJointConsensus")
	var evs []Ev
	// a new planning round starts: what the loop test said before it no longer counts
	touches := instrCallMatcher(F(P.Method(op, "Builder", "peerPlan")))
	for _, f := range []string{"toAdd", "toRemove", "toPromote", "toDemote"} {
		g := guardRel("len(b."+f+") == 0", "== <=", lenOf(loadOfField(P.Field(op, "Builder", f))), isConstInt(0))
		g.invalidate = touches
		evs = append(evs, g)
	}
	c.need(rule, fn, "successful return", func(x ssa.Instruction) bool { r, ok := x.(*ssa.Return); return ok && retIsNilErr(r) }, evs, all,
		"planning succeeds only when no pending addition, removal, promotion or demotion is left (an empty plan with work left is an error)")
	// leave-joint: who is promoted, who is demoted
	lj := P.Func(op, "CreateLeaveJointStateOperator")
	getRole := F(P.Method("github.com/pingcap/kvproto/pkg/metapb", "Peer", "GetRole"))
	set := F(P.Method(op, "peersMap", "Set"))
	for _, spec := range []struct {
		field string
		role  int64
		name  string
	}{{"toPromote", 2, "IncomingVoter"}, {"toDemote", 3, "DemotingVoter"}} {
		f := P.Field(op, "Builder", spec.field)
		c.need(rule, lj, "peer filed under "+spec.field, func(x ssa.Instruction) bool {
			cl, ok := x.(*ssa.Call)
			return ok && set.Match(cl.Common()) && len(cl.Call.Args) == 2 && isLoadOf(cl.Call.Args[0], f)
		}, []Ev{guardRel("role == "+spec.name, "==", resultOfCall(getRole), isConstInt(spec.role))}, all,
			"leaving the joint state "+map[string]string{"toPromote": "promotes", "toDemote": "demotes"}[spec.field]+" exactly the peers whose role is "+spec.name+" (a plain learner or voter is not part of the leave step)")
	}
}
