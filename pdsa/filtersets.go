package main

// E10: filter-set obligations. Every selection call (FilterTarget /
// FilterSource on StoreCandidates, filter.Target / Source,
// SelectTargetStores / SelectSourceStores) takes a []filter.Filter; its
// elements are resolved to constructors or StoreStateFilter literals with
// their constant flags.

import (
	"fmt"
	"go/token"
	"go/types"
	"sort"
	"strings"

	"golang.org/x/tools/go/ssa"
)

const filterPkg = "server/schedule/filter"

type FilterElem struct {
	Kind  string          // constructor name (NewExcludedFilter, …) or "StoreStateFilter"
	Call  *ssa.Call       // constructor call, nil for a literal
	Flags map[string]bool // StoreStateFilter: fields set to constant true
	Val   ssa.Value
}

type FilterSet struct {
	Site    ssa.CallInstruction
	Fn      *ssa.Function
	Mode    string // target | source
	Callee  string
	Elems   []FilterElem
	Unknown []ssa.Value
}

func (fs *FilterSet) has(kind string) *FilterElem {
	for i := range fs.Elems {
		if fs.Elems[i].Kind == kind {
			return &fs.Elems[i]
		}
	}
	return nil
}

func (fs *FilterSet) stateFilters() []*FilterElem {
	var out []*FilterElem
	for i := range fs.Elems {
		if fs.Elems[i].Kind == "StoreStateFilter" {
			out = append(out, &fs.Elems[i])
		}
	}
	return out
}

func (fs *FilterSet) String() string {
	var parts []string
	for _, e := range fs.Elems {
		s := e.Kind
		if len(e.Flags) > 0 {
			var fl []string
			for f := range e.Flags {
				fl = append(fl, f)
			}
			sort.Strings(fl)
			s += "{" + strings.Join(fl, ",") + "}"
		}
		parts = append(parts, s)
	}
	if len(fs.Unknown) > 0 {
		parts = append(parts, fmt.Sprintf("+%d unresolved", len(fs.Unknown)))
	}
	return strings.Join(parts, " ")
}

func isFilterSlice(t types.Type) bool {
	s, ok := t.Underlying().(*types.Slice)
	if !ok {
		return false
	}
	n := namedOf(s.Elem())
	return n != nil && n.Obj().Name() == "Filter" && n.Obj().Pkg() != nil && n.Obj().Pkg().Path() == modPath+"/"+filterPkg
}

// resolveFilterValue: what a Filter-typed value is.
func (P *Prog) resolveFilterValue(v ssa.Value, depth int) (elems []FilterElem, unknown []ssa.Value) {
	if depth < 0 {
		return nil, []ssa.Value{v}
	}
	switch x := v.(type) {
	case *ssa.MakeInterface:
		return P.resolveFilterValue(x.X, depth)
	case *ssa.ChangeInterface:
		return P.resolveFilterValue(x.X, depth)
	case *ssa.Alloc:
		n := namedOf(x.Type())
		if n != nil && n.Obj().Name() == "StoreStateFilter" {
			e := FilterElem{Kind: "StoreStateFilter", Flags: map[string]bool{}, Val: x}
			for _, r := range *x.Referrers() {
				fa, ok := r.(*ssa.FieldAddr)
				if !ok {
					continue
				}
				for _, rr := range *fa.Referrers() {
					if st, ok := rr.(*ssa.Store); ok && st.Addr == fa {
						if b, ok := constBool(st.Val); ok && b {
							e.Flags[fieldOfAddr(fa).Name()] = true
						}
					}
				}
			}
			return []FilterElem{e}, nil
		}
		if n != nil {
			return []FilterElem{{Kind: n.Obj().Name(), Val: x}}, nil
		}
	case *ssa.Call:
		callee := x.Call.StaticCallee()
		if callee != nil && strings.HasPrefix(callee.Name(), "New") && fnPkgPath(callee) == modPath+"/"+filterPkg {
			return []FilterElem{{Kind: callee.Name(), Call: x, Val: x}}, nil
		}
		// a module helper returning a Filter: look at what it returns
		if callee != nil && callee.Blocks != nil && strings.HasPrefix(fnPkgPath(callee), modPath) {
			for _, b := range callee.Blocks {
				for _, ins := range b.Instrs {
					if r, ok := ins.(*ssa.Return); ok && len(r.Results) == 1 {
						e, u := P.resolveFilterValue(retVal(r, 0), depth-1)
						elems = append(elems, e...)
						unknown = append(unknown, u...)
					}
				}
			}
			if len(elems) > 0 {
				return elems, nil
			}
		}
	case *ssa.Phi:
		for _, e := range x.Edges {
			if e == v {
				continue
			}
			el, u := P.resolveFilterValue(e, depth-1)
			elems = append(elems, el...)
			unknown = append(unknown, u...)
		}
		return
	case *ssa.UnOp:
		if x.Op == token.MUL {
			if a, ok := x.X.(*ssa.Alloc); ok {
				for _, r := range *a.Referrers() {
					if st, ok := r.(*ssa.Store); ok && st.Addr == a {
						el, u := P.resolveFilterValue(st.Val, depth-1)
						elems = append(elems, el...)
						unknown = append(unknown, u...)
					}
				}
				return
			}
		}
	}
	return nil, []ssa.Value{v}
}

// resolveFilterSlice: elements of a []Filter value, following struct fields to
// the stores that initialise them.
func (P *Prog) resolveFilterSlice(v ssa.Value, depth int) (elems []FilterElem, unknown []ssa.Value) {
	vals, unk := sliceElems(v, map[ssa.Value]bool{})
	for _, e := range vals {
		el, u := P.resolveFilterValue(e, 3)
		elems = append(elems, el...)
		unknown = append(unknown, u...)
	}
	for _, u := range unk {
		if f := loadedField(u); f != nil && isFilterSlice(f.Type()) && depth > 0 {
			for _, acc := range P.accessesOf(f) {
				fa, ok := acc.Ins.(*ssa.FieldAddr)
				if !ok {
					continue
				}
				for _, r := range *fa.Referrers() {
					if st, ok := r.(*ssa.Store); ok && st.Addr == fa {
						el, uu := P.resolveFilterSlice(st.Val, depth-1)
						elems = append(elems, el...)
						unknown = append(unknown, uu...)
					}
				}
			}
			continue
		}
		unknown = append(unknown, u)
	}
	return
}

// filterSetsIn enumerates the selection calls of fn.
func (P *Prog) filterSetsIn(fn *ssa.Function) []*FilterSet {
	var out []*FilterSet
	for _, b := range fn.Blocks {
		for _, ins := range b.Instrs {
			ci, ok := ins.(ssa.CallInstruction)
			if !ok {
				continue
			}
			callee := ci.Common().StaticCallee()
			if callee == nil || fnPkgPath(callee) != modPath+"/"+filterPkg {
				continue
			}
			mode := ""
			switch callee.Name() {
			case "FilterTarget", "Target", "SelectTargetStores":
				mode = "target"
			case "FilterSource", "Source", "SelectSourceStores":
				mode = "source"
			default:
				continue
			}
			var arg ssa.Value
			for _, a := range ci.Common().Args {
				if isFilterSlice(a.Type()) {
					arg = a
				}
			}
			if arg == nil {
				continue
			}
			fs := &FilterSet{Site: ci, Fn: fn, Mode: mode, Callee: callee.Name()}
			fs.Elems, fs.Unknown = P.resolveFilterSlice(arg, 2)
			out = append(out, fs)
		}
	}
	return out
}
