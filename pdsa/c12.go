package main

import (
	"fmt"
	"go/token"
	"go/types"
	"sort"
	"strings"

	"golang.org/x/tools/go/ssa"
)

// cmpChain: the sequence of (compared key, operator, returned constant) of a
// comparator written as an if/switch chain: follow the false edges from the
// entry; on each true edge the function must return a constant.
type cmpStep struct {
	Key string
	Op  token.Token
	Ret int64
	Pos token.Pos
}

func comparatorChain(fn *ssa.Function, keyOf func(v ssa.Value) string, start *ssa.BasicBlock) []cmpStep {
	var out []cmpStep
	b := start
	for i := 0; i < 20 && b != nil; i++ {
		iff, ok := b.Instrs[len(b.Instrs)-1].(*ssa.If)
		if !ok {
			break
		}
		bo, ok := iff.Cond.(*ssa.BinOp)
		if !ok {
			break
		}
		kx, ky := keyOf(bo.X), keyOf(bo.Y)
		if kx == "" || kx != ky {
			break
		}
		ret := int64(-99)
		tb := b.Succs[0]
		if r, ok := tb.Instrs[len(tb.Instrs)-1].(*ssa.Return); ok && len(r.Results) == 1 {
			if k, ok := constInt(retVal(r, 0)); ok {
				ret = k
			}
		}
		out = append(out, cmpStep{kx, bo.Op, ret, bo.Pos()})
		b = b.Succs[1]
	}
	return out
}

func ruleFitComparators(c *Ctx) {
	P := c.P
	rule := c.Prop + "/comparator"
	cmp := P.Func(plc, "compareRuleFit")
	c.saw(fnName(cmp))
	fPeers := P.Field(plc, "RuleFit", "Peers")
	fDiff := P.Field(plc, "RuleFit", "PeersWithDifferentRole")
	fIso := P.Field(plc, "RuleFit", "IsolationScore")
	keyOf := func(v ssa.Value) string {
		v = strip(v)
		if cl, ok := v.(*ssa.Call); ok {
			if b, ok := cl.Call.Value.(*ssa.Builtin); ok && b.Name() == "len" {
				if isLoadOf(cl.Call.Args[0], fPeers) {
					return "len(Peers)"
				}
				if isLoadOf(cl.Call.Args[0], fDiff) {
					return "len(PeersWithDifferentRole)"
				}
			}
		}
		if isLoadOf(v, fIso) {
			return "IsolationScore"
		}
		return ""
	}
	chain := comparatorChain(cmp, keyOf, cmp.Blocks[0])
	var got []string
	for _, s := range chain {
		got = append(got, fmt.Sprintf("%s %s → %d", s.Key, s.Op, s.Ret))
	}
	// documented order: more peers, then fewer role mismatches, then higher isolation; a is first operand
	type want struct {
		key    string
		better token.Token // operator (a op b) under which a is better (+1)
	}
	wants := []want{{"len(Peers)", token.GTR}, {"len(PeersWithDifferentRole)", token.LSS}, {"IsolationScore", token.GTR}}
	ok := len(chain) == 6
	detail := strings.Join(got, "; ")
	if ok {
		for i, w := range wants {
			a, b := chain[2*i], chain[2*i+1]
			if a.Key != w.key || b.Key != w.key {
				ok = false
				detail = fmt.Sprintf("key #%d is %s/%s, want %s — chain: %s", i+1, a.Key, b.Key, w.key, strings.Join(got, "; "))
				break
			}
			// normalise the operand order: keyOf(X) is a's field when X derives from parameter a
			sign := func(s cmpStep) int64 {
				if s.Op == w.better {
					return 1
				}
				if s.Op == mirrorOp(w.better) {
					return -1
				}
				return 0
			}
			if sign(a) != a.Ret || sign(b) != b.Ret || a.Ret == b.Ret || a.Ret*b.Ret != -1 {
				ok = false
				detail = fmt.Sprintf("comparison on %s is not antisymmetric/oriented as documented — chain: %s", w.key, strings.Join(got, "; "))
				break
			}
		}
	}
	// operands: X side is parameter a, Y side parameter b, everywhere
	if ok {
		for _, b := range cmp.Blocks {
			if iff, isIf := b.Instrs[len(b.Instrs)-1].(*ssa.If); isIf {
				if bo, isB := iff.Cond.(*ssa.BinOp); isB {
					if !derivesFrom(bo.X, func(v ssa.Value) bool { return v == ssa.Value(cmp.Params[0]) }, 4) || !derivesFrom(bo.Y, func(v ssa.Value) bool { return v == ssa.Value(cmp.Params[1]) }, 4) {
						ok = false
						detail = "a comparison does not compare a's field with b's field"
					}
				}
			}
		}
	}
	// decided by evaluating the comparator under every ordering of its three keys (ordeval.go): whatever the
	// shape — a switch of comparisons, a helper whose result is negated, early returns — the table that must
	// come out is: the first key that differs decides; more peers / fewer mismatches / higher isolation wins
	keys := []string{"len(Peers)", "len(PeersWithDifferentRole)", "IsolationScore"}
	better := map[string]int{"len(Peers)": 1, "len(PeersWithDifferentRole)": -1, "IsolationScore": 1} // sign of (a − b) that is good for a
	sideOf := func(v ssa.Value) int {
		switch {
		case len(cmp.Params) == 2 && derivesFrom(v, same(cmp.Params[0]), 5):
			return 0
		case len(cmp.Params) == 2 && derivesFrom(v, same(cmp.Params[1]), 5):
			return 1
		}
		return -1
	}
	tableOK, tableDetail := true, ""
	var ords [3]int
	var rec func(i int)
	rec = func(i int) {
		if i < 3 {
			for _, o := range []int{-1, 0, 1} {
				ords[i] = o
				rec(i + 1)
			}
			return
		}
		want := 0
		for k := 0; k < 3; k++ {
			if ords[k] != 0 {
				want = ords[k] * better[keys[k]]
				break
			}
		}
		cur := ords
		for _, sameObj := range []bool{false, true} {
			if sameObj && cur != [3]int{} {
				continue
			}
			got, okE := ordEval(cmp, nil, ordAssume{val: identityOfParams(cmp, sameObj), cmp: func(x, y ssa.Value) (int, bool) {
				kx, ky := keyOf(x), keyOf(y)
				if kx == "" || kx != ky {
					return 0, false
				}
				sx, sy := sideOf(x), sideOf(y)
				for k, name := range keys {
					if name == kx {
						if sx == 0 && sy == 1 {
							return cur[k], true
						}
						if sx == 1 && sy == 0 {
							return -cur[k], true
						}
					}
				}
				return 0, false
			}}, 3)
			if !okE || got.kind != 'i' || int(got.i) != want {
				if tableOK {
					tableDetail = fmt.Sprintf("with (peers, mismatches, isolation) of a vs b ordered %v the result is %v (evaluated: %v), want %d", cur, got.i, okE, want)
				}
				tableOK = false
			}
		}
	}
	rec(0)
	_ = ok
	c.Check(tableOK, rule, "compareRuleFit", "orders by (more peers, fewer role mismatches, higher isolation score): all 27 orderings of the three keys give the documented sign, equal keys give 0", P.pos(cmp.Pos()), tableDetail+" — chain: "+detail)

	// CompareRegionFit: rule fits in index order (first difference decides), then fewer orphans
	crf := P.Func(plc, "CompareRegionFit")
	c.saw(fnName(crf))
	fOrph := P.Field(plc, "RegionFit", "OrphanPeers")
	okLoop := false
	for _, l := range loopsOf(crf) {
		for b := range l.blocks {
			for _, ins := range b.Instrs {
				if cl, isC := ins.(*ssa.Call); isC && F(cmp).Match(cl.Common()) {
					// same index on both sides, result != 0 returned
					okLoop = true
				}
			}
		}
	}
	retCmp := false
	for _, b := range crf.Blocks {
		if r, isR := b.Instrs[len(b.Instrs)-1].(*ssa.Return); isR {
			// (directly, or through a result variable: one of the values the return can have)
			for _, alt := range valueAlternatives(retVal(r, 0), 3) {
				if valueIsCallTo(alt, F(cmp)) {
					retCmp = true
				}
			}
			if phi, isPhi := r.Results[0].(*ssa.Phi); isPhi {
				trackPhis[crf] = append(trackPhis[crf], phi)
			}
		}
	}
	found, _ := guardControlsReturn(crf, relMatcher("!=", resultOfCall(F(cmp)), isConstInt(0)), func(*ssa.Return) bool { return true })
	c.Check(okLoop && retCmp && found, rule, "CompareRegionFit rule loop", "rule fits are compared in order and the first difference is returned", P.pos(crf.Pos()), "")
	c.need(rule, crf, "return of a rule comparison", func(x ssa.Instruction) bool {
		r, ok := x.(*ssa.Return)
		return ok && valueIsCallTo(resolved(retVal(r, 0)), F(cmp))
	}, []Ev{guardRel("the comparison of this pair != 0", "!=", resultOfCall(F(cmp)), isConstInt(0))}, all, "a pair's comparison is returned only when it is a difference: equal pairs pass on to the next rule")
	// the tail, evaluated with no rule fits to compare: fewer orphans wins
	fFits := P.Field(plc, "RegionFit", "RuleFits")
	okTail, tailDetail := true, ""
	for _, o := range []int{-1, 0, 1} {
		ord := o
		for _, sameObj := range []bool{false, true} {
			if sameObj && ord != 0 {
				continue
			}
			got, okE := ordEval(crf, nil, ordAssume{
				val: identityOfParams(crf, sameObj),
				cmp: func(x, y ssa.Value) (int, bool) {
					isOrph := func(v ssa.Value) bool { return lenOf(loadOfField(fOrph))(v) }
					if !isOrph(x) || !isOrph(y) || len(crf.Params) != 2 {
						return 0, false
					}
					if derivesFrom(x, same(crf.Params[0]), 5) && derivesFrom(y, same(crf.Params[1]), 5) {
						return ord, true
					}
					if derivesFrom(x, same(crf.Params[1]), 5) && derivesFrom(y, same(crf.Params[0]), 5) {
						return -ord, true
					}
					return 0, false
				},
				known: func(v ssa.Value) (int64, bool) {
					if lenOf(loadOfField(fFits))(v) {
						return 0, true
					}
					return 0, false
				}}, 3)
			if !okE || got.kind != 'i' || int(got.i) != -ord {
				okTail = false
				tailDetail = fmt.Sprintf("with a's orphans vs b's ordered %d the result is %d (evaluated: %v), want %d", ord, got.i, okE, -ord)
			}
		}
	}
	c.Check(okTail, rule, "CompareRegionFit orphans", "finally fewer orphans is better (< → 1, > → −1, = → 0)", P.pos(crf.Pos()), tailDetail)
}

func ruleFitSearchDiscipline(c *Ctx) {
	P := c.P
	rule := c.Prop + "/search-state"
	sel := P.Field(plc, "fitPeer", "selected")
	enum := enumPeersFn(P)
	c.onlyWrittenBy(rule, sel, map[string]string{fnName(outer(enum)): "the enumeration marks and unmarks candidates"})
	// every iteration marks, recurses, unmarks
	okIter := false
	for _, l := range loopsOf(enum) {
		setTrue := func(x ssa.Instruction) bool {
			st, ok := x.(*ssa.Store)
			if !ok || fieldOfAddr(st.Addr) != sel {
				return false
			}
			b, isC := constBool(st.Val)
			return isC && b
		}
		setFalse := func(x ssa.Instruction) bool {
			st, ok := x.(*ssa.Store)
			if !ok || fieldOfAddr(st.Addr) != sel {
				return false
			}
			b, isC := constBool(st.Val)
			return isC && !b
		}
		if everyIterationCalls(l, setTrue) && everyIterationCalls(l, setFalse) {
			okIter = true
		}
	}
	c.Check(okIter, rule, "mark/unmark in "+fnName(enum), "each candidate is marked selected for the recursive search below it and unmarked afterwards, in every iteration", P.pos(enum.Pos()), "")
	// order inside the body: true before the recursive call, false after
	rec := F(enum)
	marked := &calledEv{name: "selected = true", match: func(x ssa.Instruction) bool {
		st, ok := x.(*ssa.Store)
		if !ok || fieldOfAddr(st.Addr) != sel {
			return false
		}
		b, isC := constBool(st.Val)
		return isC && b
	}, reset: func(x ssa.Instruction) bool {
		st, ok := x.(*ssa.Store)
		if !ok || fieldOfAddr(st.Addr) != sel {
			return false
		}
		b, isC := constBool(st.Val)
		return isC && !b
	}}
	c.need(rule, enum, "recursive enumeration", func(x ssa.Instruction) bool {
		cl, ok := x.(*ssa.Call)
		return ok && rec.Match(cl.Common()) && loopsContain(enum, cl.Block())
	}, []Ev{marked}, all, "the recursion runs with the current candidate marked as selected")
	// orphans = exactly the unselected peers
	uo := P.Method(plc, "fitWorker", "updateOrphanPeers")
	orph := P.Field(plc, "RegionFit", "OrphanPeers")
	c.need(rule, uo, "append to OrphanPeers", func(x ssa.Instruction) bool {
		cl, ok := x.(*ssa.Call)
		if !ok {
			return false
		}
		b, isB := cl.Call.Value.(*ssa.Builtin)
		// the list may be built in the field itself or in a local that is stored into it afterwards
		return isB && b.Name() == "append" && types.Identical(cl.Type(), orph.Type())
	}, []Ev{&guardEv{name: "!p.selected", match: func(cond ssa.Value, pos bool) bool { return !pos && isLoadOf(cond, sel) }}}, all, "a peer is listed as orphan only if no rule selected it")
	isEmptied := func(v ssa.Value) bool {
		sl, ok := v.(*ssa.Slice)
		if !ok {
			return false
		}
		k, isC := constInt(sl.High)
		return isC && k == 0
	}
	// either the field itself is emptied (x = x[:0]) before the appends, or what is stored into it was
	// built from an emptied list in a local
	allFromEmpty, someEmptied, nSt := true, false, 0
	for _, st := range storesToField(uo, orph) {
		nSt++
		if isEmptied(st.Val) {
			someEmptied = true
		}
		if !derivesFrom(st.Val, isEmptied, 8) {
			allFromEmpty = false
		}
	}
	okReset := nSt > 0 && (someEmptied || allFromEmpty)
	c.Check(okReset, rule, "orphan list in "+fnName(uo), "rebuilt from empty each time", P.pos(uo.Pos()), "")
	// a better fit for rule i invalidates the fits of all later rules before they are searched again
	cb := P.Method(plc, "fitWorker", "compareBest")
	fits := P.Field(plc, "RegionFit", "RuleFits")
	fitRule := F(P.Method(plc, "fitWorker", "fitRule"))
	cmpF := F(P.Func(plc, "compareRuleFit"))
	better := guardRel("cmp == 1", "==", func(v ssa.Value) bool {
		for _, a := range valueAlternatives(v, 2) {
			if valueIsCallTo(a, cmpF) {
				return true
			}
		}
		return false
	}, isConstInt(1))
	// the reset loop: a loop whose body stores nil into RuleFits[i]; running it (even zero times,
	// when no later rule exists) is the event
	resetHeaders := map[*ssa.BasicBlock]bool{}
	for _, l := range loopsOf(cb) {
		for b := range l.blocks {
			for _, ins := range b.Instrs {
				if st, ok := ins.(*ssa.Store); ok && isNilConst(st.Val) {
					if ia, ok := st.Addr.(*ssa.IndexAddr); ok {
						x := ia.X
						if sl, isSl := x.(*ssa.Slice); isSl { // the tail taken first: later := RuleFits[index+1:]
							x = sl.X
						}
						if isLoadOf(x, fits) {
							resetHeaders[l.header] = true
						}
					}
				}
			}
		}
	}
	// … and it starts with the rule right after the improved one: the index the nil is stored at is a loop variable
	// initialised with index+1 (index+2 leaves the next rule's stale fit to be compared against)
	for _, l := range loopsOf(cb) {
		if !resetHeaders[l.header] {
			continue
		}
		for b := range l.blocks {
			for _, ins := range b.Instrs {
				st, ok := ins.(*ssa.Store)
				if !ok || !isNilConst(st.Val) {
					continue
				}
				ia, ok := st.Addr.(*ssa.IndexAddr)
				if !ok {
					continue
				}
				isParamPlusOne := func(e ssa.Value) bool {
					bo, isAdd := strip(e).(*ssa.BinOp)
					if !isAdd || bo.Op != token.ADD {
						return false
					}
					for _, pair := range [][2]ssa.Value{{bo.X, bo.Y}, {bo.Y, bo.X}} {
						if k, isC := constInt(pair[1]); isC && k == 1 {
							if _, isParam := pair[0].(*ssa.Parameter); isParam {
								return true
							}
						}
					}
					return false
				}
				if sl, isSl := ia.X.(*ssa.Slice); isSl && isLoadOf(sl.X, fits) {
					// the tail taken first and cleared whole: it must begin at index+1
					c.Check(sl.Low != nil && isParamPlusOne(sl.Low), rule, "first rule cleared by the reset loop of "+fnName(cb), "the reset starts at index+1, the rule right after the one that improved", P.instrPos(st), "the cleared tail does not begin at index+1")
					continue
				}
				if !isLoadOf(ia.X, fits) {
					continue
				}
				phi, isPhi := strip(ia.Index).(*ssa.Phi)
				if !isPhi || phi.Block() != l.header {
					continue // another loop shape: not judged
				}
				okStart, got := true, ""
				for i, e := range phi.Edges {
					if i < len(l.header.Preds) && l.blocks[l.header.Preds[i]] {
						continue
					}
					bo, isAdd := strip(e).(*ssa.BinOp)
					k, isC := int64(0), false
					var base ssa.Value
					if isAdd && bo.Op == token.ADD {
						if k, isC = constInt(bo.Y); isC {
							base = bo.X
						} else if k, isC = constInt(bo.X); isC {
							base = bo.Y
						}
					}
					_, isParam := base.(*ssa.Parameter)
					if !isAdd || !isC || k != 1 || !isParam {
						okStart, got = false, e.String()
					}
				}
				c.Check(okStart, rule, "first rule cleared by the reset loop of "+fnName(cb), "the reset starts at index+1, the rule right after the one that improved", P.instrPos(st), "starts at "+got)
			}
		}
	}
	resetLater := &calledEv{name: "later fits reset to nil (loop run)", match: func(x ssa.Instruction) bool {
		return resetHeaders[x.Block()] && x == x.Block().Instrs[len(x.Block().Instrs)-1]
	}}
	installed := &calledEv{name: "bestFit.RuleFits[index] = rf", match: func(x ssa.Instruction) bool {
		st, ok := x.(*ssa.Store)
		if !ok || isNilConst(st.Val) {
			return false
		}
		ia, ok := st.Addr.(*ssa.IndexAddr)
		return ok && isLoadOf(ia.X, fits)
	}}
	c.need(rule, cb, "search of the following rules", instrCallMatcher(fitRule), []Ev{better, installed, resetLater}, func(h []bool) bool { return !h[0] || (h[1] && h[2]) },
		"when a strictly better fit is found for a rule it is installed and the fits of all later rules are cleared before they are searched again (stale later fits would be compared against)")
	updOrph := F(uo)
	c.need(rule, cb, "return true after a strictly better fit", func(x ssa.Instruction) bool {
		r, ok := x.(*ssa.Return)
		if !ok {
			return false
		}
		b, isC := constBool(retVal(r, 0))
		return isC && b
	}, []Ev{better, &calledEv{name: "updateOrphanPeers", match: instrCallMatcher(updOrph)}, guardRel("cmp == 0", "==", anyVal, isConstInt(0))}, func(h []bool) bool { return !h[0] || h[1] },
		"after a strictly better fit the orphan list is recomputed")
	// candidates: label constraints ∧ loose role ∧ not selected
	fr := P.Method(plc, "fitWorker", "fitRule")
	mlc := F(P.Func(plc, "MatchLabelConstraints"))
	loose := F(P.Method(plc, "fitPeer", "matchRoleLoose"))
	c.need(rule, fr, "append to candidates", func(x ssa.Instruction) bool {
		cl, ok := x.(*ssa.Call)
		if !ok {
			return false
		}
		b, isB := cl.Call.Value.(*ssa.Builtin)
		return isB && b.Name() == "append"
	}, []Ev{guardCall("MatchLabelConstraints", true, callMatcher(mlc)), guardCall("matchRoleLoose", true, callMatcher(loose)),
		&guardEv{name: "!p.selected", match: func(cond ssa.Value, pos bool) bool { return !pos && isLoadOf(cond, sel) }}}, all,
		"a peer is a candidate for a rule only if its store satisfies the label constraints, its role can still be converted, and no earlier rule selected it")
	// never more peers than the rule's count
	cnt := P.Field(plc, "Rule", "Count")
	c.Check(hasComparison(fr, "<", lenOf(anyVal), anyVal) && len(callsIn(fr, false, F(enumPeersFn(P)))) > 0, rule, "count in "+fnName(fr), "min(rule.Count, candidates) peers are enumerated", P.pos(fr.Pos()), "")
	_ = cnt
	// newRuleFit: every selected peer is listed; role mismatches exactly those failing the strict match
	nrf := P.Func(plc, "newRuleFit")
	strict := F(P.Method(plc, "fitPeer", "matchRoleStrict"))
	fDiff := P.Field(plc, "RuleFit", "PeersWithDifferentRole")
	fPeers := P.Field(plc, "RuleFit", "Peers")
	// the list may be built in place (`rf.Peers = append(rf.Peers, …)`) or in a local that the record is made from
	listed := func(f *types.Var) func(ssa.Instruction) bool {
		apps := appendsInto(nrf, f)
		return func(x ssa.Instruction) bool {
			if len(apps) > 0 {
				cl, ok := x.(*ssa.Call)
				return ok && apps[cl]
			}
			st, ok := x.(*ssa.Store)
			return ok && fieldOfAddr(st.Addr) == f
		}
	}
	c.need(rule, nrf, "append to PeersWithDifferentRole", listed(fDiff), []Ev{guardCall("!matchRoleStrict", false, callMatcher(strict))}, all, "a peer is listed as role mismatch only if it fails the strict role match")
	okAll := false
	for _, l := range loopsOf(nrf) {
		if everyIterationCalls(l, listed(fPeers)) &&
			everyIterationCalls(l, func(x ssa.Instruction) bool { return isCallTo(x, strict) }) {
			okAll = true
		}
	}
	c.Check(okAll, rule, "loop in "+fnName(nrf), "every selected peer is listed and role-checked", P.pos(nrf.Pos()), "")
}

func ruleSatisfiedAtoms(c *Ctx) {
	P := c.P
	rule := c.Prop + "/satisfied"
	rf := P.Method(plc, "RuleFit", "IsSatisfied")
	fPeers := P.Field(plc, "RuleFit", "Peers")
	fDiff := P.Field(plc, "RuleFit", "PeersWithDifferentRole")
	cnt := P.Field(plc, "Rule", "Count")
	c.Check(hasComparison(rf, "==", lenOf(loadOfField(fPeers)), loadOfField(cnt)) && hasComparison(rf, "==", lenOf(loadOfField(fDiff)), isConstInt(0)), rule, fnName(rf),
		"len(Peers) == Rule.Count ∧ len(PeersWithDifferentRole) == 0", P.pos(rf.Pos()), "")
	// both conjuncts decide: result is φ(false, second comparison) controlled by the first
	okPhi := false
	for _, b := range rf.Blocks {
		for _, ins := range b.Instrs {
			if r, ok := ins.(*ssa.Return); ok && len(r.Results) == 1 {
				if phi, ok := retVal(r, 0).(*ssa.Phi); ok {
					f, cmpE := false, false
					for _, e := range phi.Edges {
						if bv, ok := constBool(e); ok && !bv {
							f = true
						}
						if bo, ok := e.(*ssa.BinOp); ok && bo.Op == token.EQL {
							cmpE = true
						}
					}
					okPhi = f && cmpE
				}
			}
		}
	}
	c.Check(okPhi, rule, "result of "+fnName(rf), "the conjunction of both tests", P.pos(rf.Pos()), "")
	gf := P.Method(plc, "RegionFit", "IsSatisfied")
	fits := P.Field(plc, "RegionFit", "RuleFits")
	orph := P.Field(plc, "RegionFit", "OrphanPeers")
	c.atomRejects(rule, gf, "no rule fits ⇒ false", relMatcher("== <=", lenOf(loadOfField(fits)), isConstInt(0)), boolReturn(false)) // (a length: <= 0 is == 0)
	okLoop := false
	for _, l := range loopsOf(gf) {
		okLoop = everyIterationPasses(l, func(from *ssa.BasicBlock, si int) bool {
			iff, ok := from.Instrs[len(from.Instrs)-1].(*ssa.If)
			if !ok {
				return false
			}
			cond, pos := normCond(iff.Cond, si == 0)
			cl, ok := cond.(*ssa.Call)
			return ok && pos && F(rf).Match(cl.Common())
		})
	}
	c.Check(okLoop, rule, "rule loop in "+fnName(gf), "every rule fit must be satisfied", P.pos(gf.Pos()), "")
	// … and no orphan peer remains: whatever the shape (return len(o) == 0, or if len(o) > 0 { return false }; return true)
	c.trueOnlyIf(rule, gf, []namedAtom{{"no orphan peer remains", relMatcher("== <=", lenOf(loadOfField(orph)), isConstInt(0))}})
}

// constsOfType: package-level constants of a named string type.
func constsOfType(P *Prog, rel, typ string) map[string]string {
	out := map[string]string{}
	pkg := P.pkg(rel)
	n := P.named(rel, typ)
	for _, name := range pkg.Types.Scope().Names() {
		if cst, ok := pkg.Types.Scope().Lookup(name).(*types.Const); ok && types.Identical(cst.Type(), n) {
			out[name] = strings.Trim(cst.Val().ExactString(), "\"")
		}
	}
	return out
}

// constsComparedIn: string constants the function compares its subject with.
func constsComparedIn(fn *ssa.Function) map[string]bool {
	out := map[string]bool{}
	for _, b := range fn.Blocks {
		for _, ins := range b.Instrs {
			if bo, ok := ins.(*ssa.BinOp); ok && (bo.Op == token.EQL || bo.Op == token.NEQ) {
				if s, ok := constString(bo.X); ok {
					out[s] = true
				}
				if s, ok := constString(bo.Y); ok {
					out[s] = true
				}
			}
		}
	}
	return out
}

func ruleClosedEnums(c *Ctx) {
	P := c.P
	rule := c.Prop + "/closed-enums"
	roles := constsOfType(P, plc, "PeerRoleType")
	ops := constsOfType(P, plc, "LabelConstraintOp")
	c.Check(len(roles) == 4 && len(ops) == 4, rule, "enum sizes", "4 peer roles, 4 label-constraint operators", "", fmt.Sprintf("%d roles, %d ops", len(roles), len(ops)))
	check := func(fn *ssa.Function, consts map[string]string, what string) {
		c.saw(fnName(fn))
		got := constsComparedIn(fn)
		var missing []string
		for name, v := range consts {
			if !got[v] {
				missing = append(missing, name)
			}
		}
		sort.Strings(missing)
		c.Check(len(missing) == 0, rule, what+" in "+fnName(fn), "handles every constant of the closed set", P.pos(fn.Pos()), "not handled: "+strings.Join(missing, ", "))
	}
	check(P.Method(plc, "fitPeer", "matchRoleStrict"), roles, "role switch")
	check(P.Func(plc, "validateRole"), roles, "role validation")
	check(P.Method(plc, "LabelConstraint", "MatchStore"), ops, "operator switch")
	check(P.Func(plc, "validateOp"), ops, "operator validation")
	// loose match: only "learner" restricts
	loose := P.Method(plc, "fitPeer", "matchRoleLoose")
	isLearner := F(P.Func("server/core", "IsLearner"))
	c.Check(constsComparedIn(loose)[roles["Learner"]] && len(callsIn(loose, false, isLearner)) > 0, rule, fnName(loose), "a non-learner can never fill a learner rule; everything else is convertible", P.pos(loose.Pos()), "")
	// … decided as truth tables: both role predicates are evaluated for every role × (peer is a learner) ×
	// (peer is the leader); the loose match refuses exactly "learner rule, non-learner peer", the strict one
	// follows the documented role table
	isLeaderF := P.Field(plc, "fitPeer", "isLeader")
	roleTable := func(fn *ssa.Function, want func(role string, learner, leader bool) bool, what string) {
		okT, detail := true, ""
		var roleParam ssa.Value
		if len(fn.Params) == 2 {
			roleParam = fn.Params[1]
		}
		for name, rv := range roles {
			for _, learner := range []bool{false, true} {
				for _, leader := range []bool{false, true} {
					if learner && leader {
						continue // a learner is never the leader
					}
					rv, learner, leader := rv, learner, leader
					got, okE := ordEval(fn, nil, ordAssume{
						cmp: func(x, y ssa.Value) (int, bool) {
							var cst string
							var isC bool
							switch {
							case x == roleParam:
								cst, isC = constString(y)
							case y == roleParam:
								cst, isC = constString(x)
							}
							if !isC {
								return 0, false
							}
							if cst == rv {
								return 0, true
							}
							return 1, true
						},
						call: func(cl *ssa.Call) (ordVal, bool) {
							if isLearner.Match(cl.Common()) {
								return ordVal{b: learner, kind: 'b'}, true
							}
							return ordVal{}, false
						},
						val: func(v ssa.Value) (ordVal, bool) {
							if isLoadOf(v, isLeaderF) {
								return ordVal{b: leader, kind: 'b'}, true
							}
							return ordVal{}, false
						}}, 2)
					w := want(name, learner, leader)
					if !okE || got.kind != 'b' || got.b != w {
						if okT {
							detail = fmt.Sprintf("role %s, learner=%v, leader=%v: got %v (evaluated: %v), want %v", name, learner, leader, got.b, okE, w)
						}
						okT = false
					}
				}
			}
		}
		c.Check(okT, rule, "truth table of "+fnName(fn), what, P.pos(fn.Pos()), detail)
	}
	roleTable(loose, func(role string, learner, leader bool) bool { return role != "Learner" || learner },
		"refuses exactly a non-learner for a learner rule — a learner may fill a leader, voter or follower rule (it is listed as a role mismatch and promoted)")
	roleTable(P.Method(plc, "fitPeer", "matchRoleStrict"), func(role string, learner, leader bool) bool {
		switch role {
		case "Voter":
			return !learner
		case "Leader":
			return leader
		case "Follower":
			return !learner && !leader
		case "Learner":
			return learner
		}
		return false
	}, "voter: not a learner; leader: the leader; follower: neither learner nor leader; learner: a learner")
	// MatchLabelConstraints: nil store, exclusive labels, every constraint
	mlc := P.Func(plc, "MatchLabelConstraints")
	excl := F(P.Func(plc, "isExclusiveLabel"))
	c.atomRejects(rule, mlc, "store == nil ⇒ false", relMatcher("==", anyVal, isNilConst), boolReturn(false))
	c.Check(len(callsIn(mlc, false, excl)) > 0, rule, "exclusive labels in "+fnName(mlc), "a store carrying an exclusive label matches only constraints that name that label", P.pos(mlc.Pos()), "")
	// … "name that label": the search through the constraints compares each constraint's key with the key of the
	// exclusive label the store carries (any other test — "some constraint names an exclusive label" — lets a store
	// with two exclusive labels through a rule that names one of them)
	{
		keyF := P.Field(plc, "LabelConstraint", "Key")
		lblKey := F(P.Method("github.com/pingcap/kvproto/pkg/metapb", "StoreLabel", "GetKey"))
		named := false
		for _, f := range append([]*ssa.Function{mlc}, mlc.AnonFuncs...) {
			if hasComparison(f, "== !=", func(v ssa.Value) bool {
				return derivesFrom(v, func(w ssa.Value) bool { return fieldOfField(strip(w)) == keyF || isLoadOf(w, keyF) }, 2)
			},
				func(v ssa.Value) bool {
					return derivesFrom(v, func(w ssa.Value) bool {
						if resultOfCall(lblKey)(w) {
							return true
						}
						// the key read into a local of the enclosing function and captured by the literal
						if fv, isFV := w.(*ssa.FreeVar); isFV {
							if cell := freeVarCell(fv); cell != nil {
								for _, r := range *cell.Referrers() {
									if st, ok := r.(*ssa.Store); ok && st.Addr == ssa.Value(cell) && derivesFrom(st.Val, resultOfCall(lblKey), 3) {
										return true
									}
								}
							}
						}
						return false
					}, 3)
				}) {
				named = true
			}
		}
		c.Check(named, rule, "exclusive label looked up by its key in "+fnName(mlc), "the constraints are searched for one whose key equals the key of the store's exclusive label", P.pos(mlc.Pos()), "no comparison of a constraint's Key with the label's key")
	}
	ms := F(P.Method(plc, "LabelConstraint", "MatchStore"))
	okMS := false
	for _, f := range append([]*ssa.Function{mlc}, mlc.AnonFuncs...) {
		if len(callsIn(f, false, ms)) > 0 {
			okMS = true
		}
	}
	// every constraint is consulted and one that does not match decides: slice.AllOf over MatchStore, or a loop in
	// which every iteration calls MatchStore and a false answer leads straight to `return false`
	allOf := F(P.Func("pkg/slice", "AllOf"))
	every := len(callsIn(mlc, false, allOf)) > 0
	if !every {
		for _, l := range loopsOf(mlc) {
			has := false
			for b := range l.blocks {
				for _, ins := range b.Instrs {
					if isCallTo(ins, ms) {
						has = true
					}
				}
			}
			if has && everyIterationCalls(l, func(x ssa.Instruction) bool { return isCallTo(x, ms) }) {
				for b := range l.blocks {
					if iff, ok := b.Instrs[len(b.Instrs)-1].(*ssa.If); ok {
						for si := 0; si < 2; si++ {
							cond, pos := normCond(iff.Cond, si == 0)
							if cl, isC := cond.(*ssa.Call); isC && !pos && ms.Match(cl.Common()) && edgeLeadsStraightTo(b, si, boolReturn(false)) {
								every = true
							}
						}
					}
				}
			}
		}
	}
	c.Check(okMS && every, rule, "constraints in "+fnName(mlc), "every constraint must match (AllOf … MatchStore)", P.pos(mlc.Pos()), "")
}

// ruleLabelMatchAtoms: a store without the label never matches `in` and always
// matches `notIn`, whatever the value list holds (an empty string among the
// values must not make "label unset" a match); and two stores are told apart at
// the first location level at which both carry a value — an unset level is
// skipped, it does not end the comparison.
func ruleLabelMatchAtoms(c *Ctx) {
	P := c.P
	rule := c.Prop + "/closed-enums"
	ms := P.Method("server/schedule/placement", "LabelConstraint", "MatchStore")
	getLV := F(P.Method("server/core", "StoreInfo", "GetLabelValue"))
	set := guardRel("the store carries the label (value != \"\")", "!=", derived(resultOfCall(getLV), 3), isConstStr("")) // the value sits in a cell: a closure captures it
	// (the list is handed to slice.AnyOf / NoneOf, or searched by a loop: either way it is read in MatchStore)
	valuesF := P.Field("server/schedule/placement", "LabelConstraint", "Values")
	c.need(rule, ms, "value-list test", func(x ssa.Instruction) bool {
		u, ok := x.(*ssa.UnOp)
		return ok && u.Op == token.MUL && fieldOfAddr(u.X) == valuesF
	}, []Ev{set}, all, "the value list is consulted only for a store that carries the label")
	cl := P.Method("server/core", "StoreInfo", "CompareLocation")
	c.saw(fnName(cl))
	okRet := true
	n := 0
	for _, b := range cl.Blocks {
		r, ok := b.Instrs[len(b.Instrs)-1].(*ssa.Return)
		if !ok || len(r.Results) != 1 {
			continue
		}
		if k, isC := constInt(retVal(r, 0)); isC && k == -1 {
			n++
			if loopsContain(cl, b) || leftFromLoopBody(cl, b) {
				okRet = false
			}
		}
	}
	c.Check(okRet && n > 0, rule, "\"same location\" answer of "+fnName(cl), "-1 is returned only after every label level was looked at (an unset level is skipped)", P.pos(cl.Pos()), "")
	// a level tells the stores apart only when both carry a value for it: every "different at level i" answer
	// follows value != "" for this store's and for the other store's label (either as a conjunct or as an early continue)
	valueOf := func(side int) valPred {
		return func(v ssa.Value) bool {
			cl2, _ := callOf(v)
			if cl2 == nil || !getLV.Match(cl2.Common()) || len(cl2.Call.Args) == 0 || len(cl.Params) < 2 {
				return false
			}
			return strip(cl2.Call.Args[0]) == ssa.Value(cl.Params[side])
		}
	}
	c.need(rule, cl, "\"different at this level\" answer", func(x ssa.Instruction) bool {
		r, ok := x.(*ssa.Return)
		if !ok || len(r.Results) != 1 {
			return false
		}
		k, isC := constInt(retVal(r, 0))
		return !(isC && k == -1)
	}, []Ev{guardRel("this store's value is set", "!=", valueOf(0), isConstStr("")), guardRel("the other store's value is set", "!=", valueOf(1), isConstStr(""))}, all,
		"both values are tested for being set before they are compared")
}

// ruleFitInputs: what the search works on. Every peer of the region becomes a
// candidate (a peer dropped here is in no rule and not an orphan either), and a
// rule's fit carries the isolation score of exactly the peers selected for it,
// however many they are (partial fits are compared with each other).
func ruleFitInputs(c *Ctx) {
	P := c.P
	rule := c.Prop + "/fit-inputs"
	const pl = "server/schedule/placement"
	nw := P.Func(pl, "newFitWorker")
	getPeers := F(P.Method("server/core", "RegionInfo", "GetPeers"))
	c.saw(fnName(nw))
	isAppend := func(x ssa.Instruction) bool {
		// appended to the candidate list, or stored into its slot (indexed fill of a list made at full length)
		if st, ok := x.(*ssa.Store); ok {
			if ia, isIdx := st.Addr.(*ssa.IndexAddr); isIdx {
				if nn := namedOf(st.Val.Type()); nn != nil && nn.Obj().Name() == "fitPeer" {
					_, isSlice := ia.X.Type().Underlying().(*types.Slice)
					return isSlice
				}
			}
			return false
		}
		cl, ok := x.(*ssa.Call)
		if !ok {
			return false
		}
		b, isB := cl.Call.Value.(*ssa.Builtin)
		return isB && b.Name() == "append"
	}
	found, every := false, false
	for _, l := range loopsOf(nw) {
		// the loop that ranges over region.GetPeers()
		ranges := false
		for b := range l.blocks {
			for _, ins := range b.Instrs {
				if u, ok := ins.(*ssa.UnOp); ok && u.Op == token.MUL {
					if ia, ok := u.X.(*ssa.IndexAddr); ok && resultOfCall(getPeers)(ia.X) {
						ranges = true
					}
				}
			}
		}
		if ranges {
			found = true
			every = everyIterationCalls(l, isAppend)
		}
	}
	c.Check(found && every, rule, "peer loop in "+fnName(nw), "every peer of the region is appended to the candidate list — no iteration skips", P.pos(nw.Pos()), "")
	// newRuleFit: IsolationScore = isolationScore(selected peers, rule labels), on every path
	nr := P.Func(pl, "newRuleFit")
	iso := F(P.Func(pl, "isolationScore"))
	score := P.Field(pl, "RuleFit", "IsolationScore")
	var peersParam ssa.Value
	for _, p := range nr.Params {
		if isSliceType(p.Type()) {
			peersParam = p
		}
	}
	filled := &calledEv{name: "IsolationScore = isolationScore(selected peers, …)", match: func(x ssa.Instruction) bool {
		st, ok := x.(*ssa.Store)
		if !ok || fieldOfAddr(st.Addr) != score {
			return false
		}
		cl, _ := callOf(st.Val)
		if cl == nil || !iso.Match(cl.Common()) {
			return false
		}
		a := callArgs(cl.Common())
		return len(a) >= 1 && peersParam != nil && sameVal(a[0], peersParam)
	}}
	c.need(rule, nr, "return", func(x ssa.Instruction) bool { _, ok := x.(*ssa.Return); return ok }, []Ev{filled}, all,
		"a rule fit always carries the isolation score of the peers selected for it, filled or not")
}

// ruleSearchExhaustive: the best assignment is found by trying every
// combination: the loop of enumPeers over the candidates is left only when the
// candidates are exhausted (no break, no early return — "all rules satisfied"
// says nothing about the isolation score of the combinations not yet tried);
// and whether a rule takes part at all is decided by label constraints only:
// checkRule consults every store's MatchLabelConstraints and nothing else (a
// peer on a store that is gone still belongs to the rule it matches).
func ruleSearchExhaustive(c *Ctx) {
	P := c.P
	rule := c.Prop + "/search-state"
	const pl = "server/schedule/placement"
	en := enumPeersFn(P)
	c.saw(fnName(en))
	okExit, nLoop := true, 0
	for _, l := range loopsOf(en) {
		nLoop++
		for b := range l.blocks {
			for _, s := range b.Succs {
				if !l.blocks[s] && b != l.header {
					okExit = false
				}
			}
		}
	}
	c.Check(okExit && nLoop > 0, rule, "candidate loop of "+fnName(en), "left only when the candidates are exhausted: every combination is compared", P.pos(en.Pos()), "the loop can be left early")
	// "a better alternative replaced bestFit" is reported upwards without loss: the levels above use it to decide
	// whether their own tie is to be installed. (1) enumPeers accumulates the answers of all combinations: the
	// loop-carried flag takes, on its back edge, a value that depends on its previous value and on the recursive call
	for _, l := range loopsOf(en) {
		for _, ins := range l.header.Instrs {
			phi, ok := ins.(*ssa.Phi)
			if !ok {
				break
			}
			if bt, isB := phi.Type().Underlying().(*types.Basic); !isB || bt.Info()&types.IsBoolean == 0 {
				continue
			}
			// the two rows of the truth table that matter, for the shapes `call || old`, `old || call`,
			// `if call { flag = true }`: (call, ¬old) ↦ true and (¬call, old) ↦ true, whichever way round the loop is taken
			isCall := func(v ssa.Value) bool { return valueIsCallTo(v, F(en)) }
			isOld := func(v ssa.Value) bool { return v == ssa.Value(phi) }
			keeps, calls, back := true, true, 0
			for ri, row := range [][2]bool{{true, false}, {false, true}} {
				ways := 0
				for i, e := range phi.Edges {
					if i >= len(l.header.Preds) || !l.blocks[l.header.Preds[i]] {
						continue
					}
					back++
					if !flagEdgeFeasible(l.header, i, isCall, isOld, row[0], row[1], 6) {
						continue
					}
					ways++
					r, ok := evalFlag(e, isCall, isOld, row[0], row[1], 6)
					if !ok {
						// not evaluable: at least both inputs reach the value
						r = derivesThroughBool(e, isOld, 6) && derivesThroughBool(e, isCall, 6)
					}
					if !r && ri == 0 {
						calls = false
					}
					if !r && ri == 1 {
						keeps = false
					}
				}
				if ways == 0 {
					keeps, calls = false, false
				}
			}
			if back == 0 {
				continue
			}
			c.Check(keeps && calls, rule, "improvement flag of "+fnName(en), "the flag carried round the candidate loop is (this combination improved) ∨ (an earlier one did): no improvement is forgotten", P.instrPos(phi), fmt.Sprintf("keeps the earlier answers: %v, takes the recursive answer: %v", keeps, calls))
		}
	}
	// (2) compareBest never answers false after the search of the following rules reported an improvement
	cbF := P.Method(pl, "fitWorker", "compareBest")
	fitRule := F(P.Method(pl, "fitWorker", "fitRule"))
	c.need(rule, cbF, "answer other than true", func(x ssa.Instruction) bool {
		r, ok := x.(*ssa.Return)
		if !ok || len(r.Results) != 1 {
			return false
		}
		rv := resolved(retVal(r, 0))
		if valueIsCallTo(rv, fitRule) {
			return false // the answer of the following rules handed up as it is
		}
		b, isC := constBool(rv)
		return !(isC && b)
	}, []Ev{guardCall("fitRule(index+1) reported an improvement", true, callMatcher(fitRule))}, func(h []bool) bool { return !h[0] },
		"when a tie on this rule let the following rules find a better fit, the improvement is reported to the rule above")
	// (3) a strictly better fit is reported as an improvement, and a tie that let the following rules improve installs
	// this rule's own fit of the combination that made it possible
	cmpRF := F(P.Func(pl, "compareRuleFit"))
	strictly := guardRel("cmp == 1", "==", func(v ssa.Value) bool {
		for _, a := range valueAlternatives(v, 2) {
			if valueIsCallTo(a, cmpRF) {
				return true
			}
		}
		return false
	}, isConstInt(1))
	c.need(rule, cbF, "answer other than true (after a strictly better fit)", func(x ssa.Instruction) bool {
		r, ok := x.(*ssa.Return)
		if !ok || len(r.Results) != 1 {
			return false
		}
		b, isC := constBool(resolved(retVal(r, 0)))
		return !(isC && b)
	}, []Ev{strictly}, func(h []bool) bool { return !h[0] }, "a strictly better fit for this rule is reported to the rule above")
	fitsF := P.Field(pl, "RegionFit", "RuleFits")
	c.mustFollowEdge(rule, cbF, "fitRule(index+1) reported an improvement", func(cond ssa.Value, pos bool) bool {
		cl, ok := cond.(*ssa.Call)
		return ok && pos && fitRule.Match(cl.Common())
	}, "bestFit.RuleFits[index] = rf", func(x ssa.Instruction) bool {
		st, ok := x.(*ssa.Store)
		if !ok || isNilConst(st.Val) {
			return false
		}
		ia, ok := st.Addr.(*ssa.IndexAddr)
		return ok && isLoadOf(ia.X, fitsF)
	}, nil, "the later rules were fitted against this combination: it becomes this rule's fit")
	cr := P.Func(pl, "checkRule")
	match := F(P.Func(pl, "MatchLabelConstraints"))
	c.saw(fnName(cr))
	okEvery, found := true, false
	for _, l := range loopsOf(cr) {
		found = true
		if !everyIterationCalls(l, instrCallMatcher(match)) {
			okEvery = false
		}
	}
	c.Check(found && okEvery, rule, "stores consulted by "+fnName(cr), "every store is tested against the rule's label constraints — no store is passed over for its state", P.pos(cr.Pos()), "an iteration can skip the label test")
}

func init() {
	register("C12", "Rule fitting partitions peers correctly and picks the best assignment", func(c *Ctx) {
		c.Group("C12/comparator", "compareRuleFit orders by (peers ↑, role mismatches ↓, isolation ↑), antisymmetric; CompareRegionFit compares rule by rule then fewer orphans", func() { ruleFitComparators(c) })
		c.Group("C12/fit-inputs", "every region peer is a candidate; every rule fit carries the isolation score of its selected peers", func() { ruleFitInputs(c) })
		c.Group("C12/search-state", "enumeration marks/unmarks candidates in every iteration; a better fit clears later fits before re-searching; candidates satisfy constraints ∧ loose role ∧ unselected; orphans are exactly the unselected peers", func() { ruleFitSearchDiscipline(c); ruleSearchExhaustive(c) })
		c.Group("C12/satisfied", "satisfied ⇔ count filled with matching roles for every rule and no orphan", func() { ruleSatisfiedAtoms(c) })
		c.Group("C12/closed-enums", "role and operator switches handle every constant; label matching handles nil stores, exclusive labels and every constraint", func() { ruleClosedEnums(c); ruleLabelMatchAtoms(c) })
	})
}

// identityOfParams: the assumed value of a pointer comparison a == b / a != b
// between the two inputs of a comparator (an "is it the same object" fast
// path). Objects that differ in a key are not the same object; objects equal in
// every key may or may not be, so those rows are evaluated both ways.
func identityOfParams(fn *ssa.Function, sameObj bool) func(v ssa.Value) (ordVal, bool) {
	return func(v ssa.Value) (ordVal, bool) {
		bo, ok := v.(*ssa.BinOp)
		if !ok || (bo.Op != token.EQL && bo.Op != token.NEQ) || len(fn.Params) != 2 {
			return ordVal{}, false
		}
		x, y := strip(bo.X), strip(bo.Y)
		a, b := ssa.Value(fn.Params[0]), ssa.Value(fn.Params[1])
		if !(x == a && y == b) && !(x == b && y == a) {
			return ordVal{}, false
		}
		return ordVal{b: sameObj == (bo.Op == token.EQL), kind: 'b'}, true
	}
}

// derivesThroughBool: v depends on a value satisfying p through φs and boolean
// operators (the shapes `a || b`, `if a { x = true }` take in SSA form: a φ
// whose operands are constants, earlier flags, or the tested condition).
func derivesThroughBool(v ssa.Value, p valPred, depth int) bool {
	seen := map[ssa.Value]bool{}
	var rec func(v ssa.Value, d int) bool
	rec = func(v ssa.Value, d int) bool {
		if v == nil || d < 0 || seen[v] {
			return false
		}
		seen[v] = true
		if p(v) {
			return true
		}
		switch x := v.(type) {
		case *ssa.Phi:
			for _, e := range x.Edges {
				if rec(e, d-1) {
					return true
				}
			}
			// a constant operand chosen by a test of a value satisfying p (`if call() { flag = true }`)
			for i, e := range x.Edges {
				if _, isC := e.(*ssa.Const); isC && i < len(x.Block().Preds) {
					for _, ctl := range controllingConds(x.Block().Preds[i], 3) {
						if rec(ctl, d-1) {
							return true
						}
					}
				}
			}
		case *ssa.BinOp:
			return rec(x.X, d-1) || rec(x.Y, d-1)
		case *ssa.UnOp:
			return rec(x.X, d-1)
		}
		return false
	}
	return rec(v, depth)
}

// controllingConds: the conditions of the If instructions on the way into b
// (b itself when it ends in an If, and its single-predecessor ancestors).
func controllingConds(b *ssa.BasicBlock, depth int) []ssa.Value {
	var out []ssa.Value
	for i := 0; i <= depth && b != nil; i++ {
		if iff, ok := b.Instrs[len(b.Instrs)-1].(*ssa.If); ok {
			out = append(out, iff.Cond)
		}
		if len(b.Preds) != 1 {
			break
		}
		b = b.Preds[0]
	}
	return out
}

// appendsInto: the append calls of fn whose result ends up stored in field f (directly, or through a local
// slice the field is finally set from)
func appendsInto(fn *ssa.Function, f *types.Var) map[*ssa.Call]bool {
	out := map[*ssa.Call]bool{}
	var apps []*ssa.Call
	var stores []*ssa.Store
	for _, b := range fn.Blocks {
		for _, ins := range b.Instrs {
			switch x := ins.(type) {
			case *ssa.Call:
				if bi, ok := x.Call.Value.(*ssa.Builtin); ok && bi.Name() == "append" {
					apps = append(apps, x)
				}
			case *ssa.Store:
				if fieldOfAddr(x.Addr) == f {
					stores = append(stores, x)
				}
			}
		}
	}
	for _, st := range stores {
		for _, a := range apps {
			a := a
			if derivesFrom(st.Val, func(v ssa.Value) bool { return v == ssa.Value(a) }, 8) {
				out[a] = true
			}
		}
	}
	return out
}

// flagEdgeFeasible: can control enter blk through its i-th predecessor when the atom and the flag so far have
// the given values? Decided by the If instructions on the single-predecessor chain above that predecessor.
func flagEdgeFeasible(blk *ssa.BasicBlock, i int, isCall, isOld valPred, call, old bool, depth int) bool {
	b, child := blk.Preds[i], blk
	for d := 0; d < 4 && b != nil; d++ {
		if iff, ok := b.Instrs[len(b.Instrs)-1].(*ssa.If); ok {
			if cv, okc := evalFlag(iff.Cond, isCall, isOld, call, old, depth-1); okc {
				taken := b.Succs[0] == child
				if len(b.Succs) == 2 && b.Succs[0] == b.Succs[1] {
					taken = cv
				}
				if cv != taken {
					return false
				}
			}
		}
		if len(b.Preds) != 1 {
			break
		}
		child, b = b, b.Preds[0]
	}
	return true
}

// evalFlag evaluates a boolean built from a call result and an old flag through
// φs of short-circuit operators and if-assignments, for one row of the truth
// table. ok=false when the shape is not understood (the caller then keeps the
// structural verdict).
func evalFlag(v ssa.Value, isCall, isOld valPred, call, old bool, depth int) (bool, bool) {
	if depth < 0 {
		return false, false
	}
	switch {
	case isCall(v):
		if bo, isB := v.(*ssa.BinOp); isB && bo.Op == token.NEQ {
			return !call, true // the atom written as an inequality
		}
		return call, true
	case isOld(v):
		return old, true
	}
	if b, isC := constBool(v); isC {
		return b, true
	}
	switch x := v.(type) {
	case *ssa.UnOp:
		if x.Op == token.NOT {
			r, ok := evalFlag(x.X, isCall, isOld, call, old, depth-1)
			return !r, ok
		}
	case *ssa.Phi:
		// which operand is taken is decided by the If instructions on the way: follow, for every predecessor, the single
		// -predecessor chain up to a test whose condition can be evaluated, and keep the predecessors that are consistent
		var vals []bool
		for i, e := range x.Edges {
			if i >= len(x.Block().Preds) {
				return false, false
			}
			feasible := flagEdgeFeasible(x.Block(), i, isCall, isOld, call, old, depth)
			if !feasible {
				continue
			}
			r, ok := evalFlag(e, isCall, isOld, call, old, depth-1)
			if !ok {
				return false, false
			}
			vals = append(vals, r)
		}
		if len(vals) == 0 {
			return false, false
		}
		for _, r := range vals[1:] {
			if r != vals[0] {
				return false, false // not decided by the tests seen
			}
		}
		return vals[0], true
	case *ssa.BinOp:
		a, ok1 := evalFlag(x.X, isCall, isOld, call, old, depth-1)
		b, ok2 := evalFlag(x.Y, isCall, isOld, call, old, depth-1)
		if ok1 && ok2 {
			switch x.Op {
			case token.AND:
				return a && b, true
			case token.OR:
				return a || b, true
			case token.EQL:
				return a == b, true
			case token.NEQ, token.XOR:
				return a != b, true
			}
		}
	}
	return false, false
}

// enumPeersFn: the recursive enumeration of peer combinations — the method of
// the reference tree, or, when it was turned into a recursive function literal,
// the literal inside fitRule that calls compareBest.
func enumPeersFn(P *Prog) *ssa.Function {
	if m := P.methodOptR(plc, "fitWorker", "enumPeers"); m != nil {
		return m
	}
	cb := F(P.Method(plc, "fitWorker", "compareBest"))
	fr := P.Method(plc, "fitWorker", "fitRule")
	for _, a := range fr.AnonFuncs {
		if len(callsIn(a, false, cb)) > 0 {
			return a
		}
	}
	undecidedf("the enumeration of peer combinations (fitWorker.enumPeers, or a function literal of fitRule calling compareBest) not found")
	return nil
}
