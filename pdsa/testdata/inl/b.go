package main

import (
	str "strings"
)

// a helper in another file, whose imports differ from the caller's
func hUpper(s string) string {
	if s == "" {
		return "-"
	}
	return str.ToUpper(s) + str.Repeat("!", 2)
}

func useUpper(v int) string { return hUpper(str.Repeat("a", (v+30)%3)) }
