package main

import (
	"errors"
	"fmt"
	"strings"
)

type T struct {
	n   int
	log []string
}

var trace []string

func note(s string) int { trace = append(trace, s); return len(trace) }

// expression helpers
func hInRange(x float64) bool      { return x < 0 || x > 1 }
func (t *T) hDouble(k int) int     { return t.n*2 + k }
func hConv(x float64) float64      { return x / 2 }
func (t T) hVal() int              { return t.n + 1 }
func hIface(e error) bool          { return e != nil }
func hCallsInside(t *T, v int) int { return note("in") + v }

// block helpers
func (t *T) hSave(v int) error {
	if v > 10 {
		return nil
	}
	if v < 0 {
		return errors.New("neg")
	}
	t.n = v
	return t.store(v)
}

func (t *T) store(v int) error {
	t.log = append(t.log, fmt.Sprint("store", v))
	if v == 7 {
		return errors.New("seven")
	}
	return nil
}

func hPair(a, b int) (int, error) {
	if b == 0 {
		return 0, errors.New("div0")
	}
	return a / b, nil
}

func hNamed(a int) (r int, err error) {
	if a < 0 {
		err = errors.New("neg")
		return
	}
	r = a * 3
	return
}

func hVoid(t *T, s string) {
	if s == "" {
		return
	}
	t.log = append(t.log, s)
}

func hVar(t *T, xs ...string) bool {
	if len(xs) == 0 {
		return false
	}
	t.log = append(t.log, strings.Join(xs, ","))
	return true
}

func hLoop(xs []int) int {
	s := 0
	for _, x := range xs {
		if x < 0 {
			continue
		}
		if x > 100 {
			break
		}
		s += x
	}
	return s
}

func hNested(t *T, v int) error {
	if err := t.hSave(v); err != nil {
		return fmt.Errorf("wrap: %w", err)
	}
	return nil
}

func hSwitch(k int) string {
	switch {
	case k < 0:
		return "neg"
	case k == 0:
		return "zero"
	}
	return "pos"
}

func hLabel(xs [][]int) int {
	n := 0
outer:
	for _, r := range xs {
		for _, x := range r {
			if x == 0 {
				continue outer
			}
			if x < 0 {
				break outer
			}
			n += x
		}
	}
	return n
}

func hClosure(n int) func() int {
	c := n
	return func() int { c++; return c }
}

func hDefer(t *T) int { // not expandable: uses defer
	defer func() { t.log = append(t.log, "deferred") }()
	return t.n
}

func hRec(n int) int { // not expandable: recursive
	if n <= 0 {
		return 0
	}
	return n + hRec(n-1)
}

func hShadow(fmt int) int { // parameter shadows an import name
	if fmt > 3 {
		return fmt - 1
	}
	return fmt + 1
}

func hHalf() float64 { return 1 }

type base struct{ k int }

func (b *base) hBump(d int) int { b.k += d; return b.k }

type derived struct {
	base
	name string
}

type stringer interface{ String() string }

type nm string

func (n nm) String() string { return string(n) }

func hStr(s stringer) string { return "<" + s.String() + ">" }

func hStr2(s stringer, n int) string {
	if n > 1 {
		return s.String() + "!"
	}
	return s.String()
}

func hMut(n int) int {
	n *= 2
	for n > 10 {
		n -= 3
	}
	return n
}

var limit = 5

func hUsesLimit(v int) bool {
	if v > limit {
		return true
	}
	return false
}

func hTwo(v int) (int, string) {
	if v%2 == 0 {
		return v, "even"
	}
	return v, "odd"
}

func viaReturn(v int) (int, string) { return hTwo(v) }

func shadowed(v int) bool {
	limit := 100 // shadows the package-level limit the helper reads
	_ = limit
	return hUsesLimit(v)
}

func elseIf(t *T, v int) string {
	if v < 0 {
		return "neg"
	} else if err := t.hSave(v); err != nil {
		return "save:" + err.Error()
	} else if hUsesLimit(v) {
		return "big"
	}
	return "ok"
}

func condForms(t *T, v int) (out string) {
	var (
		// a documented declaration in front of an expanded call
		seen int // with a trailing comment
	)
	seen += hMut(v)
	out += fmt.Sprint(seen)
	if v > 2 && hUsesLimit(v) {
		out += "A"
	} else {
		out += "a"
	}
	if v < 0 || hUsesLimit(v+3) {
		out += "B"
	} else if v == 1 || hMut(v) > 3 {
		out += "b"
	}
	ok := v%2 == 0 && hMut(v) > 2 && note("after") > 0
	out += fmt.Sprint(ok)
	n := 0
	for i := 0; i < 10 && hMut(i) < 9; i++ {
		if i == 2 {
			continue
		}
		n += i
	}
	for hMut(n) > 6 && n > 0 {
		n -= 3
	}
	out += fmt.Sprint(n, isBig(v))
	return
}

func isBig(v int) bool { return v > 1 && hUsesLimit(v*2) }

func more(v int) (out string) {
	d := &derived{name: "d"}
	out += fmt.Sprint(hHalf()/2, d.hBump(v), d.hBump(1), hStr(nm("x")), hStr2(nm("y"), v), hMut(v))
	a, b := viaReturn(v)
	out += fmt.Sprint(a, b, shadowed(v), elseIf(&T{}, v))
	switch hMut(v) {
	case 4:
		out += "four"
	}
	go hVoid(&T{}, "x")
	defer hVoid(&T{}, "y")
	return
}

func run(t *T, v int) (out string) {
	if err := t.hSave(v); err != nil {
		return "err:" + err.Error()
	}
	q, err := hPair(v, v-3)
	if err != nil {
		out += "E"
	} else {
		out += fmt.Sprint(q)
	}
	r, _ := hNamed(v - 5)
	out += fmt.Sprint(r)
	hVoid(t, out)
	if v > 2 && hVar(t, "a", fmt.Sprint(note("x"))) {
		out += "V"
	}
	if v > 20 && hVar(t) {
		out += "never"
	}
	if hInRange(float64(v) / 10) {
		out += "R"
	}
	out += fmt.Sprint(t.hDouble(1), hConv(3), hLoop([]int{1, -2, 3, v, 200, 5}))
	if err := hNested(t, v+1); err != nil {
		out += err.Error()
	}
	switch s := hSwitch(v - 4); s {
	case "neg":
		out += "n"
	default:
		out += s
	}
	out += fmt.Sprint(hLabel([][]int{{1, 2}, {0, 5}, {3, v - 6, 9}, {4}}))
	f := hClosure(v)
	f()
	out += fmt.Sprint(f())
	out += fmt.Sprint(t.hVal(), (*t).hVal())
	x := note("a") + hLoop([]int{note("b")}) // a call is evaluated first: must stay
	out += fmt.Sprint(x)
	for i := hLoop([]int{1}); i < 3; i++ {
		out += "."
	}
	out += fmt.Sprint(hIface(err), hIface(nil), hCallsInside(t, v), hDefer(t), hRec(3))
	out += fmt.Sprint(hShadow(v))
	var e2 error = func() error { return t.hSave(v - 1) }()
	if hIface(e2) || hInRange(2) {
		out += "!"
	}
	return out + strings.Join(trace, "|")
}

func main() {
	for v := -2; v < 13; v++ {
		trace = nil
		t := &T{n: 1}
		fmt.Println(v, run(t, v), t.n, t.log, more(v), condForms(t, v), useUpper(v), hUpper("q"))
	}
}
