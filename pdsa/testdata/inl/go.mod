module github.com/tikv/pd/inltest

go 1.23
