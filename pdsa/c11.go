package main

import (
	"fmt"
	"go/token"
	"go/types"
	"sort"
	"strings"

	"golang.org/x/tools/go/ssa"
)

// functionFilterSets: the target-mode filter sets of fn; a set whose filters
// arrive through a parameter is expanded per caller and per control-flow
// alternative of the caller's slice (hot-region solver: one set per op type).
func functionTargetSets(P *Prog, fn *ssa.Function) []*FilterSet {
	var out []*FilterSet
	for _, fs := range P.filterSetsIn(fn) {
		if fs.Mode != "target" {
			continue
		}
		var paramUnknown *ssa.Parameter
		for _, u := range fs.Unknown {
			if p, ok := u.(*ssa.Parameter); ok && isFilterSlice(p.Type()) {
				paramUnknown = p
			}
		}
		if paramUnknown == nil {
			out = append(out, fs)
			continue
		}
		idx := -1
		for i, p := range fn.Params {
			if p == paramUnknown {
				idx = i
			}
		}
		expanded := false
		for _, cs := range P.Callers(fn) {
			if P.isScaffold(cs.Caller) || idx < 0 || idx >= len(cs.Instr.Common().Args) {
				continue
			}
			arg := cs.Instr.Common().Args[idx]
			for ai, alt := range sliceAlternatives(arg, 6) {
				v := &FilterSet{Site: fs.Site, Fn: cs.Caller, Mode: "target", Callee: fmt.Sprintf("%s via %s alt#%d", fs.Callee, cs.Caller.Name(), ai+1)}
				v.Elems = append(v.Elems, fs.Elems...)
				for _, e := range alt {
					el, u := P.resolveFilterValue(e, 3)
					v.Elems = append(v.Elems, el...)
					v.Unknown = append(v.Unknown, u...)
				}
				if len(alt) == 0 {
					continue
				}
				out = append(out, v)
				expanded = true
			}
		}
		if !expanded {
			out = append(out, fs)
		}
	}
	return out
}

func ruleSchedulerTargetSets(c *Ctx) {
	P := c.P
	rule := c.Prop + "/target-filter-sets"
	getIDs := F(P.Method("server/core", "RegionInfo", "GetStoreIds"))
	nRegion, nLeader := 0, 0
	// Leader-target selections of the load-driven schedulers (the region's new leader is picked by score, not asked for
	// by an operator command): the placement leader safeguard is the only thing that keeps leadership off a store
	// whose best-fitting rule is follower-only when another voter rule label-matches the store too (the operator
	// builder's own leader check lets that through). Frozen from today's tree; the alternative without the
	// safeguard is the path on which the constructor returned nil (placement rules off).
	leaderGuardOwners := map[string]bool{
		"(*server/schedulers.balanceLeaderScheduler).transferLeaderOut": false,
		"(*server/schedulers.balanceLeaderScheduler).transferLeaderIn":  false,
		"filterDstStores": false,
	}
	leaderGuardPos := map[string]string{}
	for _, fn := range P.Funcs {
		pk := fnPkgPath(fn)
		if P.isScaffold(fn) || !(pk == modPath+"/server/schedulers" || pk == modPath+"/server/schedule") {
			continue
		}
		sets := functionTargetSets(P, fn)
		if len(sets) == 0 {
			continue
		}
		c.saw(fnName(fn))
		// group: chain stages inside one function are one selection, caller-expanded alternatives stay apart
		groups := map[string][]*FilterSet{}
		var order []string
		for _, fs := range sets {
			k := "fn"
			if strings.Contains(fs.Callee, " via ") {
				k = fs.Callee
			}
			if _, ok := groups[k]; !ok {
				order = append(order, k)
			}
			groups[k] = append(groups[k], fs)
		}
		for _, k := range order {
			u := &FilterSet{}
			for _, fs := range groups[k] {
				u.Elems = append(u.Elems, fs.Elems...)
				u.Unknown = append(u.Unknown, fs.Unknown...)
			}
			construct := "target selection in " + fnName(fn)
			if k != "fn" {
				construct += " (" + k + ")"
			}
			pos := P.instrPos(groups[k][0].Site)
			move, leader := false, false
			for _, sf := range u.stateFilters() {
				if sf.Flags["MoveRegion"] {
					move = true
				}
				if sf.Flags["TransferLeader"] {
					leader = true
				}
			}
			if !move && !leader {
				c.Viol(rule, construct, "a store chosen as target passes a StoreStateFilter with MoveRegion or TransferLeader set (up, connected, not busy …)", pos, "resolved set: "+u.String())
				continue
			}
			if move {
				nRegion++
				ex := u.has("NewExcludedFilter")
				okEx, detail := false, "no NewExcludedFilter in the set: "+u.String()
				for i := range u.Elems {
					e := &u.Elems[i]
					if e.Kind != "NewExcludedFilter" || e.Call == nil || len(e.Call.Call.Args) != 3 {
						continue
					}
					tg := e.Call.Call.Args[2]
					if isNilConst(tg) {
						detail = "the excluded filter's target set is nil"
						continue
					}
					if valueIsCallTo(tg, getIDs) {
						okEx = true
					} else if _, isParam := tg.(*ssa.Parameter); isParam {
						okEx = true // scatter: the running set of stores already chosen, maintained by the caller (checked separately)
					} else {
						detail = "the excluded target set is not the moved region's stores"
					}
				}
				_ = ex
				c.Check(okEx, rule, construct+" [region target]", "the set contains an excluded filter whose *target* set is the stores already holding (or already chosen for) a peer of the region: no two peers on one store, source ≠ target", pos, detail)
				c.Check(u.has("NewPlacementSafeguard") != nil, rule, construct+" [placement]", "a placement safeguard keeps location/rule placement from getting worse", pos, u.String())
			}
			if leader && !move {
				nLeader++
				owner := fnName(fn)
				if i := strings.Index(k, " via "); i >= 0 {
					owner = k[i+5:]
					if j := strings.Index(owner, " alt#"); j >= 0 {
						owner = owner[:j]
					}
				}
				if _, ok := leaderGuardOwners[owner]; ok {
					if u.has("NewPlacementLeaderSafeguard") != nil {
						leaderGuardOwners[owner] = true
					}
					if leaderGuardPos[owner] == "" {
						leaderGuardPos[owner] = pos
					}
				}
				c.OK(rule, construct+" [leader target]", "StoreStateFilter{TransferLeader}: the target accepts leaders", pos)
			}
		}
	}
	owners := make([]string, 0, len(leaderGuardOwners))
	for o := range leaderGuardOwners {
		owners = append(owners, o)
	}
	sort.Strings(owners)
	for _, o := range owners {
		construct := "leader-target selection of " + o + " [placement leader safeguard]"
		if leaderGuardPos[o] == "" {
			c.Undec(rule, construct, "the selection is found", "", "no leader-target selection resolved for this owner")
			continue
		}
		c.Check(leaderGuardOwners[o], rule, construct, "a load-driven leader transfer filters its target through NewPlacementLeaderSafeguard(region, source) whenever placement rules are on", leaderGuardPos[o], "no resolved alternative of the filter set holds the safeguard")
	}
	c.Floor(rule, 10, "classified target selections (region-target and leader-target)")
	c.Check(nRegion >= 5 && nLeader >= 6, rule, "classes", "at least 5 region-target and 6 leader-target selections are recognised", "", fmt.Sprintf("%d region, %d leader", nRegion, nLeader))
}

func ruleRolePreserved(c *Ctx) {
	P := c.P
	rule := c.Prop + "/role-preserved"
	mpb := "github.com/pingcap/kvproto/pkg/metapb"
	peerT := P.named(mpb, "Peer")
	roleF := P.Field(mpb, "Peer", "Role")
	storeF := P.Field(mpb, "Peer", "StoreId")
	getRole := F(P.Method(mpb, "Peer", "GetRole"))
	getStorePeer := F(P.Method("server/core", "RegionInfo", "GetStorePeer"))
	restricted := []Callee{F(P.Method("server/core", "RegionInfo", "GetStoreVoter")), F(P.Method("server/core", "RegionInfo", "GetStoreLearner"))}
	moveLeader := F(P.Func("server/schedule/operator", "CreateMoveLeaderOperator"))
	n := 0
	for _, fn := range P.Funcs {
		pk := fnPkgPath(fn)
		if P.isScaffold(fn) || !(pk == modPath+"/server/schedulers" || pk == modPath+"/server/schedule") {
			continue
		}
		if pk == modPath+"/server/schedule" {
			// only the scatterer decides placements in this package (the controller's peer literals are commands)
			of := outer(fn)
			if of.Signature.Recv() == nil || namedOf(of.Signature.Recv().Type()) == nil || namedOf(of.Signature.Recv().Type()).Obj().Name() != "RegionScatterer" {
				continue
			}
		}
		for _, b := range fn.Blocks {
			for _, ins := range b.Instrs {
				al, ok := ins.(*ssa.Alloc)
				if !ok {
					continue
				}
				nn := namedOf(al.Type())
				if nn == nil || nn.Obj() != peerT.Obj() {
					continue
				}
				var roleVal, storeVal ssa.Value
				for _, r := range *al.Referrers() {
					fa, ok := r.(*ssa.FieldAddr)
					if !ok {
						continue
					}
					for _, rr := range *fa.Referrers() {
						if st, ok := rr.(*ssa.Store); ok && st.Addr == fa {
							switch fieldOfAddr(fa) {
							case roleF:
								roleVal = st.Val
							case storeF:
								storeVal = st.Val
							}
						}
					}
				}
				if storeVal == nil {
					continue // not a "new peer on a store" literal
				}
				n++
				c.saw(fnName(outer(fn)))
				construct := "new peer literal in " + fnName(outer(fn))
				if roleVal == nil {
					// accepted only for moving the leader (always a voter)
					okLeader := false
					for _, r := range *al.Referrers() {
						if ci, ok := r.(ssa.CallInstruction); ok && moveLeader.Match(ci.Common()) {
							okLeader = true
						}
					}
					c.Check(okLeader, rule, construct, "a moved peer keeps its role; the role may be left at voter only when the moved peer is the leader", P.instrPos(al), "Role is not set and the peer is not passed to CreateMoveLeaderOperator")
					continue
				}
				fromRole := func(v ssa.Value) bool { return isLoadOf(v, roleF) || valueIsCallTo(v, getRole) }
				okRole := derivesFrom(roleVal, fromRole, 3)
				// the peer whose role is copied must be looked up by store regardless of role
				badLookup := false
				for _, rc := range restricted {
					if derivesFrom(roleVal, resultOfCall(rc), 6) {
						badLookup = true
					}
				}
				goodSrc := derivesFrom(roleVal, resultOfCall(getStorePeer), 6) || derivesFrom(roleVal, func(v ssa.Value) bool {
					p, ok := v.(*ssa.Parameter)
					return ok && namedOf(p.Type()) != nil && namedOf(p.Type()).Obj() == peerT.Obj()
				}, 6)
				detail := ""
				if badLookup {
					detail = "the source peer is looked up with a role-restricted accessor (GetStoreVoter/GetStoreLearner): for a peer of another role it yields nil and the nil-safe getter answers Voter"
				}
				c.Check(okRole && goodSrc && !badLookup, rule, construct, "the new peer's Role is copied from the peer it replaces, found by store regardless of its role (GetStorePeer / the peer itself)", P.instrPos(al), detail)
			}
		}
	}
	if n < 5 {
		c.Undec(rule, "new peer literals in schedulers/scatter", "at least 5", "", fmt.Sprint(n))
	}
}

func ruleLeaderTransferTargets(c *Ctx) {
	P := c.P
	rule := c.Prop + "/leader-to-follower"
	create := F(P.Func("server/schedule/operator", "CreateTransferLeaderOperator"))
	followers := P.IMethod("server/schedule/opt", "Cluster", "GetFollowerStores")
	randFollower := P.IMethod("server/schedule/opt", "Cluster", "RandFollowerRegion")
	storeVoter := F(P.Method("server/core", "RegionInfo", "GetStoreVoter"))
	n := 0
	for _, fn := range P.Funcs {
		if P.isScaffold(fn) || fnPkgPath(fn) != modPath+"/server/schedulers" {
			continue
		}
		for _, ci := range callsIn(fn, false, create) {
			n++
			c.saw(fnName(fn))
			a := ci.Common().Args
			if len(a) < 5 {
				continue
			}
			region, target := a[2], a[4]
			construct := "leader transfer in " + fnName(fn)
			// (a) target picked among the region's follower stores (same function or the function that fills the plan)
			okA := derivesFrom(target, resultOfCall(followers), 10)
			// (b) the region was drawn as a follower region of the target store
			okB := derivesFrom(region, resultOfCall(randFollower), 6)
			// (c) explicit voter test on the target
			g := guardRel("GetStoreVoter(target) != nil", "!=", resultOfCall(storeVoter), isNilConst)
			_, fails := requireAt(P, fn, 0, []Ev{g}, func(x ssa.Instruction) bool { return x == ci.(ssa.Instruction) }, all)
			okC := len(fails) == 0
			// plan-based schedulers: target/region are fields of a plan filled by the callers of this function
			if !okA && !okB && !okC {
				for _, cs := range P.Callers(fn) {
					if len(callsIn(cs.Caller, false, followers)) > 0 || len(callsIn(cs.Caller, false, randFollower)) > 0 {
						okA = true
					} else {
						okA = false
						break
					}
				}
			}
			c.Check(okA || okB || okC, rule, construct, "leadership goes only to a store holding a follower (voter) of the region: target from GetFollowerStores(region), region from RandFollowerRegion(target), or an explicit GetStoreVoter(target) != nil test", P.instrPos(ci), "none of the accepted forms found")
		}
	}
	if n < 5 {
		c.Undec(rule, "CreateTransferLeaderOperator sites in schedulers", "at least 5", "", fmt.Sprint(n))
	}
}

// ruleScatterOneTargetPerPeer: the scatterer's target map is keyed by store;
// the number of peers is preserved only if no two origin peers end on one
// store. Accepted forms: candidates exclude the stores of the region's other
// peers (excluded set seeded from region.GetStoreIds()), or the selection loop
// re-tests a collision on the chosen store before accepting it.
func ruleScatterOneTargetPerPeer(c *Ctx) {
	P := c.P
	rule := c.Prop + "/scatter-one-target-per-peer"
	sr := P.Method("server/schedule", "RegionScatterer", "scatterRegion")
	sel := P.Method("server/schedule", "RegionScatterer", "selectCandidates")
	getIDs := F(P.Method("server/core", "RegionInfo", "GetStoreIds"))
	getStoreID := F(P.Method("github.com/pingcap/kvproto/pkg/metapb", "Peer", "GetStoreId"))
	c.saw(fnName(sr))
	fns := append([]*ssa.Function{sr}, sr.AnonFuncs...)
	// the running set is extended with every chosen store, and the chosen peer is recorded under its store
	okRun, okRec := false, false
	for _, f := range fns {
		for _, b := range f.Blocks {
			for _, ins := range b.Instrs {
				if mu, ok := ins.(*ssa.MapUpdate); ok && valueIsCallTo(mu.Key, getStoreID) {
					if _, isStruct := mu.Value.Type().Underlying().(*types.Struct); isStruct {
						okRun = true
					} else {
						okRec = true
					}
				}
			}
		}
	}
	c.Check(okRun && okRec, rule, "bookkeeping in "+fnName(sr), "each chosen peer is recorded under its store and the store joins the excluded set for the following peers", P.pos(sr.Pos()), "")
	// collision handling
	seeded := false
	for _, f := range fns {
		for _, b := range f.Blocks {
			for _, ins := range b.Instrs {
				if cl, ok := ins.(*ssa.Call); ok && getIDs.Match(cl.Common()) {
					seeded = true
				}
			}
		}
	}
	for _, b := range sel.Blocks {
		for _, ins := range b.Instrs {
			if cl, ok := ins.(*ssa.Call); ok && getIDs.Match(cl.Common()) {
				seeded = true
			}
		}
	}
	retest := false
	for _, f := range fns {
		for _, b := range f.Blocks {
			for _, ins := range b.Instrs {
				if l, ok := ins.(*ssa.Lookup); ok && l.CommaOk && valueIsCallTo(l.Index, getStoreID) && loopsContain(f, b) {
					retest = true
				}
			}
		}
	}
	c.Check(seeded || retest, rule, "collision handling in "+fnName(sr), "a peer is never placed on a store that still holds another, not yet placed peer of the region (excluded set seeded from region.GetStoreIds(), or the chosen store is re-tested before it is accepted)", P.pos(sr.Pos()),
		"the excluded set starts empty and nothing re-tests the chosen store: an early peer may take the store of a later peer which then stays, both share one key of the store-keyed target map and the operator drops a replica")
}

// ruleLabelPropertyPairs: "this store rejects leaders" is decided by comparing
// every configured (key, value) entry with every label of the store — several
// entries may share a key, so the configured list is never folded by key.
func ruleLabelPropertyPairs(c *Ctx) {
	P := c.P
	rule := c.Prop + "/filter-predicates"
	fn := P.Method("server/config", "PersistOptions", "CheckLabelProperty")
	key := P.Field("github.com/pingcap/kvproto/pkg/metapb", "StoreLabel", "Key")
	val := P.Field("github.com/pingcap/kvproto/pkg/metapb", "StoreLabel", "Value")
	cfgKey := P.Field("server/config", "StoreLabel", "Key")
	cfgVal := P.Field("server/config", "StoreLabel", "Value")
	c.need(rule, fn, "answer true", func(x ssa.Instruction) bool {
		r, ok := x.(*ssa.Return)
		if !ok || len(r.Results) != 1 {
			return false
		}
		b, isC := constBool(retVal(r, 0))
		return isC && b
	}, []Ev{guardRel("label key == configured key", "==", loadOfField(key), loadOfField(cfgKey)), guardRel("label value == configured value", "==", loadOfField(val), loadOfField(cfgVal))}, all,
		"true only for a store label equal in key and value to one configured entry, the entry read from the list itself")
	// "no" is answered only after every (entry, label) pair was compared: inside the loops the only answer is true
	okEarly := true
	for _, b := range fn.Blocks {
		r, ok := b.Instrs[len(b.Instrs)-1].(*ssa.Return)
		if !ok || len(r.Results) != 1 {
			continue
		}
		// reached from inside a loop body (not from a loop's own exit test)?
		fromBody := false
		for _, p := range b.Preds {
			for _, l := range loopsOf(fn) {
				if l.blocks[p] && p != l.header {
					fromBody = true
				}
			}
		}
		if !fromBody {
			continue
		}
		if v, isC := constBool(retVal(r, 0)); !isC || !v {
			okEarly = false
		}
	}
	c.Check(okEarly, rule, "answers given inside the loops of "+fnName(fn), "only 'true' (a match); a mismatch of one pair goes on to the next pair — entries and labels may share keys", P.pos(fn.Pos()), "a pair that does not match ends the search")
	// no map built over the configured entries
	folded := false
	for _, b := range fn.Blocks {
		for _, ins := range b.Instrs {
			if _, ok := ins.(*ssa.MapUpdate); ok {
				folded = true
			}
		}
	}
	c.Check(!folded, rule, "configured entries in "+fnName(fn), "compared one by one (entries may share a key)", P.pos(fn.Pos()), "a map is built in the check")
}

// ruleScatterCandidatesFiltered: every store that becomes a scatter candidate
// passed filter.Target with the scatterer's filters — on every path, also on
// the "all stores equally loaded" shortcut.
func ruleScatterCandidatesFiltered(c *Ctx) {
	P := c.P
	rule := c.Prop + "/target-filter-sets"
	fn := P.Method("server/schedule", "RegionScatterer", "selectCandidates")
	target := F(P.Func("server/schedule/filter", "Target"))
	getID := F(P.Method("server/core", "StoreInfo", "GetID"))
	passed := guardCall("filter.Target(store) == true", true, callMatcher(target))
	passed.invalidate = func(x ssa.Instruction) bool {
		// the next store of the loop: what held for the previous one is gone
		u, ok := x.(*ssa.UnOp)
		if !ok || u.Op != token.MUL {
			return false
		}
		_, isIdx := u.X.(*ssa.IndexAddr)
		return isIdx
	}
	n := c.mustPrecede(rule, fn, "store added to the scatter candidates", func(x ssa.Instruction) bool {
		cl, ok := x.(*ssa.Call)
		if !ok {
			return false
		}
		b, isB := cl.Call.Value.(*ssa.Builtin)
		if !isB || b.Name() != "append" || len(cl.Call.Args) != 2 {
			return false
		}
		elems, _ := sliceElems(cl.Call.Args[1], map[ssa.Value]bool{})
		for _, e := range elems {
			if valueIsCallTo(e, getID) {
				return true
			}
		}
		return false
	}, []Ev{passed}, all, "a store becomes a candidate only after filter.Target accepted it")
	if n == 0 {
		c.Undec(rule, "candidate appends in "+fnName(fn), "at least one", P.pos(fn.Pos()), "")
	}
}

func init() {
	register("C11", "Scatter and balance moves preserve a region's replica count and roles", func(c *Ctx) {
		c.Group("C11/target-filter-sets", "every target selection of the schedulers and the scatterer passes an effective store-state filter; region-target selections exclude the region's stores (as targets) and keep placement; leader-target selections accept leaders", func() { ruleSchedulerTargetSets(c); ruleScatterCandidatesFiltered(c) })
		c.Group("C11/leader-candidates", "(shared with C08) the operator builder forces a leader onto a store that does not accept leaders only where explicitly asked to", func() { ruleForceFlagOwnership(c); ruleLeaderRoleRules(c) })
		c.Group("C11/role-preserved", "a moved peer keeps its role (copied from the replaced peer found by store regardless of role)", func() { ruleRolePreserved(c) })
		c.Group("C11/leader-to-follower", "leadership is transferred only to stores holding a follower of the region", func() { ruleLeaderTransferTargets(c) })
		c.Group("C11/scatter-one-target-per-peer", "the scatterer never lets two origin peers end on one store", func() { ruleScatterOneTargetPerPeer(c); ruleScatterPlacesEveryPeer(c) })
		c.Group("C11/filter-predicates", "(shared with C10) store-state condition lists and filter predicates; reject-leader label entries compared one by one", func() { ruleFilterPredicates(c); ruleLabelPropertyPairs(c); ruleStoreCopiesKeepRuntimeState(c) })
		c.Group("C11/id-kind", "(shared with C09) store ids, peer ids and region ids are not mixed in the schedulers", func() { ruleIDKinds(c, "server/schedulers", "server/schedule") })
	})
}

// ruleStoreCopiesKeepRuntimeState: "this store does not accept leaders now"
// (paused by evict-leader / grant-leader) and the store-limit hooks live in
// unexported fields of StoreInfo. A view of a store handed to schedulers and to
// the operator builder must be made with Clone, which keeps them; rebuilding a
// store from the meta of an existing one (NewStoreInfo(s.GetMeta(), …)) drops
// them, and both the scheduler filter and allowLeader then let leaders onto it.
func ruleStoreCopiesKeepRuntimeState(c *Ctx) {
	P := c.P
	rule := c.Prop + "/filter-predicates"
	newSI := P.Func("server/core", "NewStoreInfo")
	getMeta := F(P.Method("server/core", "StoreInfo", "GetMeta"))
	sites, _ := c.nonScaffoldCallers(newSI)
	n := 0
	for _, s := range sites {
		a := callArgs(s.Instr.Common())
		if len(a) == 0 {
			continue
		}
		n++
		c.saw(fnName(s.Caller))
		c.Check(!derivesFrom(a[0], resultOfCall(getMeta), 3), rule, fmt.Sprintf("NewStoreInfo in %s", fnName(s.Caller)), "builds a store from a request or a loaded record, never from the meta of an existing StoreInfo (use Clone: it keeps the pause-leader flag and the limit hooks)", P.instrPos(s.Instr.(ssa.Instruction)), "an existing store is rebuilt without its runtime state")
	}
	if n < 2 {
		c.Undec(rule, "callers of NewStoreInfo", "at least 2 (registration, load)", "", fmt.Sprint(n))
	}
	// the range view of a store is a clone
	up := P.Method("server/schedule", "RangeCluster", "updateStoreInfo")
	clone := F(P.Method("server/core", "StoreInfo", "Clone"))
	okClone, nRet := true, 0
	for _, b := range up.Blocks {
		r, ok := b.Instrs[len(b.Instrs)-1].(*ssa.Return)
		if !ok || len(r.Results) != 1 {
			continue
		}
		for _, alt := range valueAlternatives(retVal(r, 0), 3) {
			nRet++
			if _, isParam := strip(alt).(*ssa.Parameter); isParam {
				continue
			}
			if !valueIsCallTo(alt, clone) {
				okClone = false
			}
		}
	}
	c.Check(okClone && nRet > 0, rule, "store view of "+fnName(up), "the store itself or a Clone of it", P.pos(up.Pos()), "")
}

// ruleScatterPlacesEveryPeer: the scatter target is built peer by peer. Every
// peer of the region — ordinary engine and every special engine — goes through
// the placement helper, and every peer the helper sees gets an entry in the
// target map; a peer that is skipped is missing from the target and the
// operator removes it.
func ruleScatterPlacesEveryPeer(c *Ctx) {
	P := c.P
	rule := c.Prop + "/scatter-one-target-per-peer"
	sr := P.Method("server/schedule", "RegionScatterer", "scatterRegion")
	selectStore := F(P.Method("server/schedule", "RegionScatterer", "selectStore"))
	create := F(P.Func("server/schedule/operator", "CreateScatterRegionOperator"))
	// the placement helper: the part of scatterRegion (a closure, or the function itself) that calls selectStore
	var helper *ssa.Function
	if len(callsIn(sr, false, selectStore)) > 0 {
		// written inline: every loop of scatterRegion that selects a store files the result
		helper = sr
	} else {
		for _, b := range sr.Blocks {
			for _, ins := range b.Instrs {
				if ci, ok := ins.(ssa.CallInstruction); ok {
					if f := ci.Common().StaticCallee(); f != nil && len(f.Blocks) > 0 && len(callsIn(f, false, selectStore)) > 0 {
						helper = f
					}
				}
			}
		}
	}
	if helper == nil {
		c.Undec(rule, "placement helper of "+fnName(sr), "the part of scatterRegion that calls selectStore", P.pos(sr.Pos()), "")
		return
	}
	isPlace := func(x ssa.Instruction) bool {
		if helper == sr {
			return isCallTo(x, selectStore)
		}
		ci, ok := x.(ssa.CallInstruction)
		return ok && ci.Common().StaticCallee() == helper
	}
	// (0) every peer of the region is put into a group (ordinary or some special engine): a peer left out of the
	// grouping is left out of the target and the operator removes it
	getPeers := F(P.Method("server/core", "RegionInfo", "GetPeers"))
	nG := 0
	for _, l := range loopsOf(sr) {
		// the loop whose range is region.GetPeers(): its header's predecessor outside the loop evaluated GetPeers
		overPeers := false
		for _, p := range l.header.Preds {
			if l.blocks[p] {
				continue
			}
			for _, ins := range p.Instrs {
				if isCallTo(ins, getPeers) {
					overPeers = true
				}
			}
		}
		if !overPeers {
			continue
		}
		nG++
		grouped := everyIterationCalls(l, func(x ssa.Instruction) bool {
			mu, ok := x.(*ssa.MapUpdate)
			if !ok {
				return false
			}
			pt, isPtr := mu.Value.Type().Underlying().(*types.Pointer)
			if !isPtr {
				return false
			}
			nn := namedOf(pt.Elem())
			return nn != nil && nn.Obj().Name() == "Peer"
		})
		c.Check(grouped, rule, fmt.Sprintf("grouping loop #%d of %s", nG, fnName(sr)), "every peer of the region is put into a group that is placed later (ordinary or its special engine)", P.pos(sr.Pos()), "an iteration can pass without filing the peer")
	}
	if nG == 0 {
		c.Undec(rule, "loop over region.GetPeers() in "+fnName(sr), "found", P.pos(sr.Pos()), "")
	}
	// (1) inside the helper: each peer visited is filed in the target map
	n := 0
	helperLoops := loopsOf(helper)
	for _, l := range helperLoops {
		has := false
		for b := range l.blocks {
			for _, ins := range b.Instrs {
				if isCallTo(ins, selectStore) {
					// the innermost loop around the call is the loop over the peers
					inner := true
					for _, l2 := range helperLoops {
						if l2.header != l.header && l2.blocks[b] && len(l2.blocks) < len(l.blocks) {
							inner = false
						}
					}
					if inner {
						has = true
					}
				}
			}
		}
		if !has {
			continue
		}
		n++
		files := everyIterationCalls(l, func(x ssa.Instruction) bool {
			mu, ok := x.(*ssa.MapUpdate)
			return ok && valueIsCallTo(mu.Value, selectStore)
		})
		c.Check(files, rule, fmt.Sprintf("placement loop #%d in %s", n, fnName(helper)), "every peer visited is placed (selectStore) and the result filed in the target map", P.pos(helper.Pos()), "")
	}
	if n == 0 {
		c.Undec(rule, "placement loop of the scatterer", "found", P.pos(sr.Pos()), "")
	}
	if helper != sr {
		// (2) every loop of scatterRegion that places peers engine by engine does so for every engine
		k := 0
		for _, l := range loopsOf(sr) {
			has := false
			for b := range l.blocks {
				for _, ins := range b.Instrs {
					if isPlace(ins) {
						has = true
					}
				}
			}
			if !has {
				continue
			}
			k++
			c.Check(everyIterationCalls(l, isPlace), rule, fmt.Sprintf("engine loop #%d in %s", k, fnName(sr)), "the peers of every special engine are placed — also of an engine seen for the first time", P.pos(sr.Pos()), "")
		}
		if k == 0 {
			c.Undec(rule, "loop over the special engines in "+fnName(sr), "found", P.pos(sr.Pos()), "")
		}
		// (3) the ordinary peers are placed on every path to the operator
		placedOutside := &calledEv{name: "placement of the ordinary peers", match: func(x ssa.Instruction) bool { return isPlace(x) && !loopsContain(sr, x.Block()) }}
		c.need(rule, sr, "CreateScatterRegionOperator", instrCallMatcher(create), []Ev{placedOutside}, all, "the ordinary peers were placed before the operator is built")
	}
}
