package main

import (
	"fmt"
	"go/token"
	"go/types"
	"reflect"
	"sort"
	"strings"

	"golang.org/x/tools/go/ssa"
)

const cfgPkg = "server/config"

// optionSlots: the atomic slots of PersistOptions and, per method, which slots
// it stores to (mutators) or loads and returns (getters).
type optionSlots struct {
	slots    []*types.Var
	mutators map[*ssa.Function]map[*types.Var]bool
	getters  map[*ssa.Function]*types.Var
}

func computeOptionSlots(P *Prog) *optionSlots {
	po := P.named(cfgPkg, "PersistOptions")
	st := po.Underlying().(*types.Struct)
	os := &optionSlots{mutators: map[*ssa.Function]map[*types.Var]bool{}, getters: map[*ssa.Function]*types.Var{}}
	for i := 0; i < st.NumFields(); i++ {
		f := st.Field(i)
		if f.Name() == "ttl" {
			continue
		}
		os.slots = append(os.slots, f)
	}
	isSlot := func(f *types.Var) bool {
		for _, s := range os.slots {
			if s == f {
				return true
			}
		}
		return false
	}
	var methods []*ssa.Function
	for i := 0; i < po.NumMethods(); i++ {
		if fn := P.SSA.FuncValue(po.Method(i)); fn != nil && fn.Blocks != nil {
			methods = append(methods, fn)
		}
	}
	// direct stores / loads
	for _, fn := range methods {
		for _, b := range fn.Blocks {
			for _, ins := range b.Instrs {
				cl, ok := ins.(*ssa.Call)
				if !ok || len(cl.Call.Args) == 0 {
					continue
				}
				callee := cl.Call.StaticCallee()
				if callee == nil {
					continue
				}
				f := fieldOfAddr(cl.Call.Args[0])
				if f == nil {
					if cv, ok := cl.Call.Args[0].(*ssa.Convert); ok { // (*unsafe.Pointer)(&o.clusterVersion)
						f = fieldOfAddr(cv.X)
					}
				}
				if f == nil || !isSlot(f) {
					continue
				}
				n := callee.Name()
				if n == "Store" || strings.HasPrefix(n, "StorePointer") || strings.HasPrefix(n, "CompareAndSwap") {
					if os.mutators[fn] == nil {
						os.mutators[fn] = map[*types.Var]bool{}
					}
					os.mutators[fn][f] = true
				}
				if n == "Load" || strings.HasPrefix(n, "LoadPointer") {
					if _, isM := os.mutators[fn]; !isM {
						os.getters[fn] = f
					}
				}
			}
		}
	}
	// transitive mutators within PersistOptions (SetMaxReplicas → SetReplicationConfig)
	for changed := true; changed; {
		changed = false
		for _, fn := range methods {
			for _, b := range fn.Blocks {
				for _, ins := range b.Instrs {
					ci, ok := ins.(ssa.CallInstruction)
					if !ok {
						continue
					}
					callee := ci.Common().StaticCallee()
					if callee == nil {
						continue
					}
					for s := range os.mutators[callee] {
						if os.mutators[fn] == nil {
							os.mutators[fn] = map[*types.Var]bool{}
						}
						if !os.mutators[fn][s] {
							os.mutators[fn][s] = true
							changed = true
						}
					}
				}
			}
		}
	}
	for fn := range os.mutators {
		delete(os.getters, fn)
	}
	return os
}

// mutatedSlots: slots of PersistOptions a function mutates, directly or
// through module callees (bounded depth).
func (os *optionSlots) mutatedSlots(P *Prog, fn *ssa.Function, depth int, seen map[*ssa.Function]bool) map[*types.Var][]ssa.CallInstruction {
	out := map[*types.Var][]ssa.CallInstruction{}
	if seen[fn] || depth < 0 {
		return out
	}
	seen[fn] = true
	for _, b := range fn.Blocks {
		for _, ins := range b.Instrs {
			ci, ok := ins.(ssa.CallInstruction)
			if !ok {
				continue
			}
			if _, isGo := ins.(*ssa.Go); isGo {
				continue
			}
			callee := ci.Common().StaticCallee()
			if callee == nil || callee.Blocks == nil {
				continue
			}
			if m, ok := os.mutators[callee]; ok {
				for s := range m {
					out[s] = append(out[s], ci)
				}
				continue
			}
			if strings.HasPrefix(fnPkgPath(callee), modPath+"/server") && fnPkgPath(callee) != modPath+"/"+cfgPkg {
				for s := range os.mutatedSlots(P, callee, depth-1, seen) {
					out[s] = append(out[s], ci)
				}
			}
		}
	}
	return out
}

func instrBefore(a, b ssa.Instruction) bool {
	if a.Block() == b.Block() {
		for _, ins := range a.Block().Instrs {
			if ins == a {
				return true
			}
			if ins == b {
				return false
			}
		}
	}
	return a.Block().Dominates(b.Block())
}

// ruleSnapshotRollback: E9(a).
func ruleSnapshotRollback(c *Ctx) {
	P := c.P
	rule := c.Prop + "/snapshot-rollback"
	os := computeOptionSlots(P)
	persist := P.Method(cfgPkg, "PersistOptions", "Persist")
	sites, _ := c.nonScaffoldCallers(persist)
	nScope := 0
	doneFn := map[*ssa.Function]bool{}
	for _, s := range sites {
		fn := s.Caller
		if doneFn[fn] || fnPkgPath(fn) == modPath+"/"+cfgPkg {
			continue
		}
		doneFn[fn] = true
		// in scope: Persist calls whose error can be returned to the caller (a rejected change);
		// a Persist whose error is only logged (best effort, or the rollback's own re-persist) rejects nothing
		var pcalls []ssa.CallInstruction
		for _, pc := range callsIn(fn, false, F(persist)) {
			pcv, ok := pc.(*ssa.Call)
			if !ok {
				continue
			}
			for _, b := range fn.Blocks {
				for _, ins := range b.Instrs {
					r, ok := ins.(*ssa.Return)
					if !ok || len(r.Results) == 0 {
						continue
					}
					v := retVal(r, len(r.Results)-1)
					if derivesFrom(v, func(x ssa.Value) bool { return x == ssa.Value(pcv) }, 6) {
						dup := false
						for _, q := range pcalls {
							if q == pc {
								dup = true
							}
						}
						if !dup {
							pcalls = append(pcalls, pc)
						}
					}
				}
			}
		}
		if len(pcalls) == 0 {
			c.Info(rule, fnName(fn), "best-effort persist (error only logged): rejects nothing", P.pos(fn.Pos()), "")
			continue
		}
		muts := os.mutatedSlots(P, fn, 3, map[*ssa.Function]bool{})
		if len(muts) == 0 {
			// a function handed a new value (a parameter) that persists and can reject, but installs nothing: the accepted
			// change is never applied. Functions without parameters beyond the receiver only re-persist what is served.
			if len(fn.Params) > 1 && fn.Signature.Recv() != nil && fnPkgPath(fn) == modPath+"/server" {
				c.Viol(rule, "change applied by "+fnName(fn), "a handler that persists a change installs the new value first (a Set… of a served section before Persist)", P.pos(fn.Pos()), "no served section is changed before Persist")
			}
			continue
		}
		nScope++
		c.saw(fnName(fn))
		var slotNames []string
		for sl := range muts {
			slotNames = append(slotNames, sl.Name())
		}
		sort.Strings(slotNames)
		for _, pc := range pcalls {
			pcall, ok := pc.(*ssa.Call)
			if !ok {
				continue
			}
			for sl, calls := range muts {
				// only mutations that happen before this Persist
				var first ssa.CallInstruction
				for _, m := range calls {
					if instrBefore(m.(ssa.Instruction), pcall) && (first == nil || instrBefore(m.(ssa.Instruction), first.(ssa.Instruction))) {
						first = m
					}
				}
				if first == nil {
					continue
				}
				sl := sl
				isRestore := func(ins ssa.Instruction) bool {
					ci, ok := ins.(ssa.CallInstruction)
					if !ok {
						return false
					}
					callee := ci.Common().StaticCallee()
					if callee == nil || !os.mutators[callee][sl] {
						return false
					}
					args := callArgs(ci.Common())
					if len(args) != 1 {
						return false // inverse operations (key/value arguments) are not a snapshot restore
					}
					// the argument is a snapshot: (a clone of) the result of the slot's getter, read before the first mutation
					return derivesFrom(args[0], func(v ssa.Value) bool {
						gc, _ := callOf(v)
						if gc == nil {
							return false
						}
						g := gc.Call.StaticCallee()
						return g != nil && os.getters[g] == sl && instrBefore(gc, first.(ssa.Instruction))
					}, 4)
				}
				failed := newSettledEv(fn, "Persist", func(x *ssa.Call) bool { return x == pcall })
				restored := &calledEv{name: "restore(" + sl.Name() + " := snapshot)", match: isRestore, reset: func(x ssa.Instruction) bool { return x == ssa.Instruction(pcall) }}
				construct := fmt.Sprintf("slot %s in %s", sl.Name(), fnName(fn))
				if len(pcalls) > 1 {
					construct += fmt.Sprintf(" (Persist @%s)", P.instrPos(pcall))
				}
				_, fails := requireAt(P, fn, 0, []Ev{failed, restored}, func(x ssa.Instruction) bool { _, ok := x.(*ssa.Return); return ok }, anyOf)
				c.Check(len(fails) == 0, rule, construct, "if Persist fails, the slot is set back to the snapshot read before the first mutation (whole-value restore, not an inverse operation) before the error is returned", P.instrPos(first), failDesc(fails))
			}
		}
	}
	if nScope < 8 {
		c.Undec(rule, "functions that mutate options, persist and return the error", "at least 8", "", fmt.Sprint(nScope))
	}
}

func ruleValidatedBeforePublished(c *Ctx) {
	P := c.P
	rule := c.Prop + "/validated-first"
	os := computeOptionSlots(P)
	srv := func(m string) *ssa.Function { return P.Method("server", "Server", m) }
	isMut := func(x ssa.Instruction) bool {
		ci, ok := x.(ssa.CallInstruction)
		if !ok {
			return false
		}
		callee := ci.Common().StaticCallee()
		return callee != nil && len(os.mutators[callee]) > 0
	}
	type spec struct {
		fn  *ssa.Function
		evs func(fn *ssa.Function) []Ev
		req string
	}
	validateOf := func(typ string, methods ...string) func(fn *ssa.Function) []Ev {
		return func(fn *ssa.Function) []Ev {
			var evs []Ev
			for _, m := range methods {
				e := newOkEv(fn, "ok(cfg."+m+"())", callMatcher(F(P.Method(cfgPkg, typ, m))))
				e.sticky = true
				evs = append(evs, e)
			}
			return evs
		}
	}
	specs := []spec{
		{srv("SetScheduleConfig"), validateOf("ScheduleConfig", "Validate", "Deprecated"), "ok(cfg.Validate()) ∧ ok(cfg.Deprecated())"},
		{srv("SetReplicationConfig"), validateOf("ReplicationConfig", "Validate"), "ok(cfg.Validate())"},
		{srv("SetPDServerConfig"), validateOf("PDServerConfig", "Validate"), "ok(cfg.Validate())"},
		{srv("SetClusterVersion"), func(fn *ssa.Function) []Ev {
			return []Ev{newOkEv(fn, "ok(ParseVersion)", callMatcher(F(P.Func("server/versioninfo", "ParseVersion"))))}
		}, "ok(ParseVersion(v))"},
		{srv("SetReplicationModeConfig"), func(fn *ssa.Function) []Ev {
			norm := F(P.Func(cfgPkg, "NormalizeReplicationMode"))
			return []Ev{guardRel("NormalizeReplicationMode(mode) != \"\"", "!=", resultOfCall(norm), isConstStr(""))}
		}, "NormalizeReplicationMode(mode) != \"\""},
	}
	for _, s := range specs {
		c.need(rule, s.fn, "first change of the served options", isMut, s.evs(s.fn), all, "dominated by "+s.req+": an invalid value is rejected before anything is published")
		// the validated object is the one published
	}
	// Validate is called on the parameter that is then published (not on a different object)
	for _, name := range []string{"SetScheduleConfig", "SetReplicationConfig", "SetPDServerConfig"} {
		fn := srv(name)
		var param ssa.Value
		if len(fn.Params) >= 2 {
			param = fn.Params[1]
		}
		okSame := false
		for _, b := range fn.Blocks {
			for _, ins := range b.Instrs {
				if !isMut(ins) {
					continue
				}
				a := callArgs(ins.(ssa.CallInstruction).Common())
				if len(a) == 1 && derivesFrom(a[0], func(v ssa.Value) bool {
					if v == param {
						return true
					}
					if al, ok := v.(*ssa.Alloc); ok {
						for _, r := range *al.Referrers() {
							if st, ok := r.(*ssa.Store); ok && st.Val == param {
								return true
							}
						}
					}
					return false
				}, 3) {
					okSame = true
				}
			}
		}
		c.Check(okSame, rule, "published value in "+fnName(fn), "the configuration that is published is the parameter that was validated", P.pos(fn.Pos()), "")
	}
}

// everyIterationPasses: every cycle of the loop through its header uses an
// edge satisfying isEvent (edge cut inside the loop).
func everyIterationPasses(l loopInfo, isEvent func(from *ssa.BasicBlock, succ int) bool) bool {
	seen := map[*ssa.BasicBlock]bool{}
	var dfs func(b *ssa.BasicBlock) bool
	dfs = func(b *ssa.BasicBlock) bool {
		for si, s := range b.Succs {
			if !l.blocks[s] || isEvent(b, si) {
				continue
			}
			if s == l.header {
				return true // reached the header again without the event
			}
			if !seen[s] {
				seen[s] = true
				if dfs(s) {
					return true
				}
			}
		}
		return false
	}
	return !dfs(l.header)
}

func ruleDomainAtoms(c *Ctx) {
	P := c.P
	rule := c.Prop + "/domain"
	accept := func(x ssa.Instruction) bool { r, ok := x.(*ssa.Return); return ok && retIsNilErr(r) }
	sc := P.Method(cfgPkg, "ScheduleConfig", "Validate")
	f := func(n string) *types.Var { return P.Field(cfgPkg, "ScheduleConfig", n) }
	isF := func(k float64) valPred {
		return func(v ssa.Value) bool {
			cst, ok := strip(v).(*ssa.Const)
			if !ok || cst.Value == nil {
				return false
			}
			s := cst.Value.ExactString()
			return s == fmt.Sprint(int(k)) || s == fmt.Sprintf("%v", k)
		}
	}
	c.need(rule, sc, "accepting return", accept, []Ev{
		guardRel("tolerant-size-ratio >= 0", ">=", loadOfField(f("TolerantSizeRatio")), isF(0)),
		guardRel("low-space-ratio >= 0", ">=", loadOfField(f("LowSpaceRatio")), isF(0)),
		guardRel("low-space-ratio <= 1", "<=", loadOfField(f("LowSpaceRatio")), isF(1)),
		guardRel("high-space-ratio >= 0", ">=", loadOfField(f("HighSpaceRatio")), isF(0)),
		guardRel("high-space-ratio <= 1", "<=", loadOfField(f("HighSpaceRatio")), isF(1)),
		guardRel("low-space-ratio > high-space-ratio", ">", loadOfField(f("LowSpaceRatio")), loadOfField(f("HighSpaceRatio"))),
	}, all, "a schedule config is accepted only with a non-negative tolerant ratio, both space ratios in [0,1] and low > high")
	// every configured scheduler is checked: no iteration of the scheduler loop avoids the registered-test
	reg := F(P.Func(cfgPkg, "IsSchedulerRegistered"))
	loops := loopsOf(sc)
	okLoop := false
	for _, l := range loops {
		has := false
		for b := range l.blocks {
			for _, ins := range b.Instrs {
				if isCallTo(ins, reg) {
					has = true
				}
			}
		}
		if !has {
			continue
		}
		okLoop = everyIterationPasses(l, func(from *ssa.BasicBlock, si int) bool {
			iff, ok := from.Instrs[len(from.Instrs)-1].(*ssa.If)
			if !ok {
				return false
			}
			cond, pos := normCond(iff.Cond, si == 0)
			cl, ok := cond.(*ssa.Call)
			return ok && pos && reg.Match(cl.Common())
		})
	}
	c.Check(okLoop, rule, "scheduler loop in "+fnName(sc), "every configured scheduler entry passes IsSchedulerRegistered(type) (no entry is skipped)", P.pos(sc.Pos()), "an iteration can reach the next entry without the registration test")
	// the type tested is the entry's own type
	schedType := P.Field(cfgPkg, "SchedulerConfig", "Type")
	okArg := false
	for _, ci := range callsIn(sc, false, reg) {
		if a := callArgs(ci.Common()); len(a) == 1 && (isLoadOf(a[0], schedType) || fieldOfField(strip(a[0])) == schedType) {
			okArg = true
		}
	}
	c.Check(okArg, rule, "argument of IsSchedulerRegistered", "the entry's Type", P.pos(sc.Pos()), "")
	// replication: isolation level empty or one of the location labels
	rc := P.Method(cfgPkg, "ReplicationConfig", "Validate")
	iso := P.Field(cfgPkg, "ReplicationConfig", "IsolationLevel")
	emptyIso := guardRel("isolation-level == \"\"", "==", loadOfField(iso), isConstStr(""))
	found := &guardEv{name: "isolation level found among location labels", match: func(cond ssa.Value, pos bool) bool {
		phi, ok := cond.(*ssa.Phi)
		if !ok || !pos {
			return false
		}
		for _, e := range phi.Edges {
			if b, ok := constBool(e); ok && b {
				return true
			}
		}
		return false
	}}
	c.need(rule, rc, "accepting return", accept, []Ev{emptyIso, found}, anyOf, "a replication config is accepted only if the isolation level is empty or equals one of the location labels")
	c.Check(hasComparison(rc, "==", anyVal, loadOfField(iso)), rule, "label == isolation-level in "+fnName(rc), "membership is decided by comparing each location label with the isolation level", P.pos(rc.Pos()), "")
	pc := P.Method(cfgPkg, "PDServerConfig", "Validate")
	flow := P.Field(cfgPkg, "PDServerConfig", "FlowRoundByDigit")
	c.need(rule, pc, "accepting return", accept, []Ev{guardRel("flow-round-by-digit >= 0", ">=", loadOfField(flow), isConstInt(0))}, all, "a negative flow-round digit is never accepted")
}

// refTyped: the type holds (transitively through struct fields) a slice, map or pointer.
func refTyped(t types.Type, depth int) bool {
	if depth > 6 {
		return false
	}
	switch u := t.Underlying().(type) {
	case *types.Slice, *types.Map, *types.Pointer, *types.Chan, *types.Interface:
		return true
	case *types.Struct:
		for i := 0; i < u.NumFields(); i++ {
			if refTyped(u.Field(i).Type(), depth+1) {
				return true
			}
		}
	case *types.Array:
		return refTyped(u.Elem(), depth+1)
	}
	return false
}

// ruleServedConfigNotShared: configuration objects handed to API code are
// copies; decoding a request into them cannot touch what is being served.
func ruleServedConfigNotShared(c *Ctx) {
	P := c.P
	rule := c.Prop + "/served-config-not-shared"
	os := computeOptionSlots(P)
	isGetterCall := func(v ssa.Value) *ssa.Function {
		cl, _ := callOf(v)
		if cl == nil {
			return nil
		}
		g := cl.Call.StaticCallee()
		if g != nil && os.getters[g] != nil {
			return g
		}
		return nil
	}
	n := 0
	for _, fn := range P.Funcs {
		if P.isScaffold(fn) || fn.Parent() != nil || fn.Signature.Recv() == nil || fn.Object() == nil || !fn.Object().Exported() {
			continue
		}
		rn := namedOf(fn.Signature.Recv().Type())
		if rn == nil || rn.Obj().Pkg() == nil || rn.Obj().Pkg().Path() != modPath+"/server" || (rn.Obj().Name() != "Server" && rn.Obj().Name() != "Handler") {
			continue
		}
		for _, b := range fn.Blocks {
			for _, ins := range b.Instrs {
				switch x := ins.(type) {
				case *ssa.Return:
					for i := range x.Results {
						v := retVal(x, i)
						if g := isGetterCall(v); g != nil {
							if _, isPtr := v.Type().Underlying().(*types.Pointer); isPtr && hasMethod(v.Type(), "Clone") {
								n++
								c.saw(fnName(fn))
								c.Viol(rule, "value returned by "+fnName(fn), "a served configuration object is handed out as a Clone(), never by reference", P.instrPos(x),
									"returns the pointer stored in PersistOptions ("+g.Name()+"): a caller that decodes a request into it edits the served configuration before validation, and the setter's snapshot is then the already-edited object")
							}
						}
					}
				case *ssa.UnOp:
					// struct copy *getter(): shares slices/maps unless cloned first
					if x.Op.String() == "*" {
						if g := isGetterCall(x.X); g != nil && refTyped(x.Type(), 0) && hasMethod(x.X.Type(), "Clone") {
							// only when the copy escapes through the function's result
							n++
							c.saw(fnName(fn))
							c.Viol(rule, "struct copy in "+fnName(fn), "a section with slice/map fields is copied from a Clone()", P.instrPos(x),
								"copies *"+g.Name()+"() directly: slices and maps stay shared with the served configuration")
						}
					}
				}
			}
		}
		// positive instances: returns/copies that do go through Clone
		for _, b := range fn.Blocks {
			for _, ins := range b.Instrs {
				cl, ok := ins.(*ssa.Call)
				if !ok {
					continue
				}
				callee := cl.Call.StaticCallee()
				if callee != nil && callee.Name() == "Clone" && len(cl.Call.Args) == 1 && isGetterCall(cl.Call.Args[0]) != nil {
					n++
					c.saw(fnName(fn))
					c.OK(rule, "Clone() of "+isGetterCall(cl.Call.Args[0]).Name()+" in "+fnName(fn), "handed out as a copy", P.instrPos(cl))
				}
			}
		}
	}
	c.Floor(rule, 7, "config getters of Server/Handler that hand out clones")
}

func hasMethod(t types.Type, name string) bool {
	ms := types.NewMethodSet(t)
	for i := 0; i < ms.Len(); i++ {
		if ms.At(i).Obj().Name() == name {
			return true
		}
	}
	return false
}

func ruleOneConfigValue(c *Ctx) {
	P := c.P
	rule := c.Prop + "/one-json-value"
	// the "config" key is written only by SaveConfig
	cp := P.obj("server/core", "configPath")
	save := P.IMethod("server/kv", "Base", "Save")
	for fd, info := range P.usesOfObject(cp) {
		fn := P.ssaOfDecl(info, fd)
		if fn == nil || P.isScaffold(fn) {
			continue
		}
		if len(callsIn(fn, true, save)) > 0 {
			c.Check(fn.Name() == "SaveConfig", rule, "writer of the config key: "+fnName(fn), "the configuration is one JSON value under one key, written by SaveConfig only", P.pos(fn.Pos()), "")
		}
	}
	// Persist marshals all sections; Reload installs all of them when the key exists
	os := computeOptionSlots(P)
	persist := P.Method(cfgPkg, "PersistOptions", "Persist")
	reload := P.Method(cfgPkg, "PersistOptions", "Reload")
	for _, sl := range os.slots {
		okP := false
		for _, b := range persist.Blocks {
			for _, ins := range b.Instrs {
				if cl, ok := ins.(*ssa.Call); ok {
					if g := cl.Call.StaticCallee(); g != nil && os.getters[g] == sl {
						okP = true
					}
				}
			}
		}
		c.Check(okP, rule, "section "+sl.Name()+" in Persist", "every served section is part of the persisted value", P.pos(persist.Pos()), "")
		okR := false
		for _, b := range reload.Blocks {
			for _, ins := range b.Instrs {
				if cl, ok := ins.(*ssa.Call); ok && len(cl.Call.Args) > 0 {
					if fieldOfAddr(cl.Call.Args[0]) == sl {
						okR = true
					}
					if g := cl.Call.StaticCallee(); g != nil && os.mutators[g][sl] {
						okR = true
					}
				}
			}
		}
		c.Check(okR, rule, "section "+sl.Name()+" in Reload", "every section is installed from the stored value", P.pos(reload.Pos()), "")
	}
	// Reload installs only when the key exists and loading succeeded
	load := F(P.Method("server/core", "Storage", "LoadConfig"))
	okLoad := newOkEv(reload, "ok(LoadConfig)", callMatcher(load))
	exists := &guardEv{name: "config key exists", match: func(cond ssa.Value, pos bool) bool {
		return pos && derivesFrom(cond, func(v ssa.Value) bool {
			ex, ok := v.(*ssa.Extract)
			return ok && ex.Index == 0 && valueIsCallTo(ex.Tuple, load)
		}, 2)
	}}
	c.need(rule, reload, "install of a section", func(x ssa.Instruction) bool {
		cl, ok := x.(*ssa.Call)
		if !ok || len(cl.Call.Args) == 0 {
			return false
		}
		f := fieldOfAddr(cl.Call.Args[0])
		for _, sl := range os.slots {
			if f == sl && cl.Call.StaticCallee() != nil && cl.Call.StaticCallee().Name() == "Store" {
				return true
			}
		}
		return false
	}, []Ev{okLoad, exists}, all, "sections are replaced only by a successfully loaded, existing stored configuration")
	// …and then all of them are, whatever their stored value: a section that is skipped when it is stored empty keeps
	// serving what this member had in memory, and the next accepted change writes that back
	for _, sl := range os.slots {
		slot := sl
		installed := &calledEv{name: "section " + slot.Name() + " installed", match: func(x ssa.Instruction) bool {
			cl, ok := x.(*ssa.Call)
			if !ok || len(cl.Call.Args) == 0 {
				return false
			}
			if fieldOfAddr(cl.Call.Args[0]) == slot {
				return true
			}
			g := cl.Call.StaticCallee()
			return g != nil && os.mutators[g][slot]
		}}
		c.need(rule, reload, "return with section "+slot.Name(), func(x ssa.Instruction) bool { _, ok := x.(*ssa.Return); return ok },
			[]Ev{exists, installed}, func(h []bool) bool { return !h[0] || h[1] }, "when a stored configuration exists every section is installed from it on every path, also an empty one")
	}
}

// ruleReloadMigration: Reload runs MigrateDeprecatedFlags on the loaded value.
// For a value written by this version (deprecated flags absent = false) the
// migration must be the identity, or an accepted change would read differently
// after the next election: a current flag (element 1 of a migration pair) is
// written only on the edge where its deprecated twin (element 0) was set.
func ruleReloadMigration(c *Ctx) {
	P := c.P
	rule := c.Prop + "/reload-identity"
	fn := P.Method("server/config", "ScheduleConfig", "MigrateDeprecatedFlags")
	c.saw(fnName(fn))
	// *(&pair[k]) : the pointer stored in element k of a [2]*bool
	elemPtr := func(v ssa.Value, k int64) bool {
		u, ok := v.(*ssa.UnOp)
		if !ok || u.Op != token.MUL {
			return false
		}
		ia, ok := u.X.(*ssa.IndexAddr)
		if !ok {
			return false
		}
		idx, isC := constInt(ia.Index)
		return isC && idx == k
	}
	oldSet := &guardEv{name: "the deprecated flag of the pair was set", match: func(cond ssa.Value, pos bool) bool {
		u, ok := cond.(*ssa.UnOp)
		return ok && pos && u.Op == token.MUL && elemPtr(u.X, 0)
	}}
	n := c.mustPrecede(rule, fn, "write of the current flag of a migration pair", func(x ssa.Instruction) bool {
		st, ok := x.(*ssa.Store)
		return ok && elemPtr(st.Addr, 1)
	}, []Ev{oldSet}, all, "the current flag changes only when its deprecated twin was set (data written by this version reloads unchanged)")
	if n == 0 {
		c.Undec(rule, "writes of current flags in "+fnName(fn), "at least one", P.pos(fn.Pos()), "")
	}
}

// ruleConfigRMWNoWait: a section of the served configuration that is read,
// edited and installed again (Get…Config().Clone() … Set…Config(v)) replaces
// whatever was accepted in between. The window is kept to straight-line code:
// no path from the read to the install waits on a channel, a select without
// default, a sleep or a wait group — a waiting writer would put back a snapshot
// from before the wait and persist it over accepted updates.
func ruleConfigRMWNoWait(c *Ctx) {
	P := c.P
	rule := c.Prop + "/rmw-no-wait"
	isWait := func(x ssa.Instruction) bool {
		switch t := x.(type) {
		case *ssa.Select:
			return t.Blocking
		case *ssa.UnOp:
			return t.Op == token.ARROW
		case *ssa.Call:
			if f := t.Call.StaticCallee(); f != nil && f.Pkg != nil {
				switch f.Pkg.Pkg.Path() + "." + f.Name() {
				case "time.Sleep", "sync.Wait":
					return true
				}
			}
		}
		return false
	}
	n := 0
	for _, fn := range P.Funcs {
		if P.isScaffold(fn) {
			continue
		}
		k := 0
		for _, b := range fn.Blocks {
			for _, ins := range b.Instrs {
				cl, ok := ins.(*ssa.Call)
				if !ok {
					continue
				}
				f := cl.Call.StaticCallee()
				if f == nil || fnPkgPath(f) != modPath+"/server/config" || f.Signature.Recv() == nil || !strings.HasPrefix(f.Name(), "Set") || !strings.HasSuffix(f.Name(), "Config") {
					continue
				}
				rn := namedOf(f.Signature.Recv().Type())
				if rn == nil || rn.Obj().Name() != "PersistOptions" {
					continue
				}
				a := callArgs(&cl.Call)
				if len(a) != 1 {
					continue
				}
				getter := "Get" + strings.TrimPrefix(f.Name(), "Set")
				isGet := func(x ssa.Instruction) bool {
					g, ok := x.(*ssa.Call)
					return ok && g.Parent() == fn && g.Call.StaticCallee() != nil && g.Call.StaticCallee().Name() == getter && fnPkgPath(g.Call.StaticCallee()) == modPath+"/server/config"
				}
				if !derivesFrom(a[0], func(v ssa.Value) bool { x, ok := v.(ssa.Instruction); return ok && isGet(x) }, 8) {
					continue
				}
				k++
				n++
				target := cl
				waited := &calledEv{name: "waited since the section was read", match: isWait, reset: isGet}
				_, fails := requireAt(P, fn, 0, []Ev{waited}, func(x ssa.Instruction) bool { return x == ssa.Instruction(target) }, func(h []bool) bool { return !h[0] })
				c.saw(fnName(fn))
				c.Check(len(fails) == 0, rule, fmt.Sprintf("%s of an edited copy #%d in %s", f.Name(), k, fnName(fn)),
					"no wait (channel receive, blocking select, sleep) between reading the section and installing the edited copy", P.instrPos(cl), failDesc(fails))
			}
		}
	}
	if n < 3 {
		c.Undec(rule, "read-edit-install sites of served configuration sections", "at least 3", "", fmt.Sprint(n))
	}
}

// ruleRevertPersistsSnapshot: a change that was persisted and then has to be
// taken back (a later step failed) is undone in both places, memory first: the
// re-persist whose error is only logged writes whatever is served at that
// moment, so it must come after the snapshot was put back. Persisting first
// stores the rejected configuration a second time — the served one is the old
// one, the next leader loads the rejected one.
func ruleRevertPersistsSnapshot(c *Ctx) {
	P := c.P
	rule := c.Prop + "/snapshot-rollback"
	persist := P.Method(cfgPkg, "PersistOptions", "Persist")
	sites, _ := c.nonScaffoldCallers(persist)
	done := map[*ssa.Function]bool{}
	n := 0
	for _, s := range sites {
		fn := s.Caller
		if done[fn] || fnPkgPath(fn) == modPath+"/"+cfgPkg {
			continue
		}
		done[fn] = true
		isSetter := func(x ssa.Instruction) (*ssa.Call, bool) {
			cl, ok := x.(*ssa.Call)
			if !ok || cl.Call.StaticCallee() == nil {
				return nil, false
			}
			f := cl.Call.StaticCallee()
			if fnPkgPath(f) != modPath+"/"+cfgPkg || !strings.HasPrefix(f.Name(), "Set") || f.Signature.Recv() == nil {
				return nil, false
			}
			rn := namedOf(f.Signature.Recv().Type())
			return cl, rn != nil && rn.Obj().Name() == "PersistOptions" && len(callArgs(&cl.Call)) == 1
		}
		fromSnapshot := func(cl *ssa.Call) bool {
			getter := "Get" + strings.TrimPrefix(cl.Call.StaticCallee().Name(), "Set")
			return derivesFrom(callArgs(&cl.Call)[0], func(v ssa.Value) bool {
				g, _ := callOf(v)
				return g != nil && g.Call.StaticCallee() != nil && g.Call.StaticCallee().Name() == getter
			}, 6)
		}
		restored := &calledEv{name: "the snapshot was put back since the last change of the served section",
			match: func(x ssa.Instruction) bool { cl, ok := isSetter(x); return ok && fromSnapshot(cl) },
			reset: func(x ssa.Instruction) bool { cl, ok := isSetter(x); return ok && !fromSnapshot(cl) }}
		k := 0
		for _, pc := range callsIn(fn, false, F(persist)) {
			pcv, ok := pc.(*ssa.Call)
			if !ok {
				continue
			}
			// only the re-persist: its error does not reach a return
			returned := false
			for _, b := range fn.Blocks {
				if r, ok := b.Instrs[len(b.Instrs)-1].(*ssa.Return); ok && len(r.Results) > 0 {
					if derivesFrom(retVal(r, len(r.Results)-1), func(x ssa.Value) bool { return x == ssa.Value(pcv) }, 6) {
						returned = true
					}
				}
			}
			if returned {
				continue
			}
			// … and it follows an earlier Persist in the same function (a change that had been stored)
			earlier := &calledEv{name: "an earlier Persist", match: func(x ssa.Instruction) bool {
				return x != ssa.Instruction(pcv) && instrCallMatcher(F(persist))(x)
			}}
			k++
			n++
			target := pcv
			c.need(rule, fn, fmt.Sprintf("re-persist #%d after a later step failed", k), func(x ssa.Instruction) bool { return x == ssa.Instruction(target) }, []Ev{earlier, restored},
				func(h []bool) bool { return !h[0] || h[1] }, "the re-persist of a revert writes the restored snapshot: the served section is set back first")
		}
	}
	if n == 0 {
		c.Undec(rule, "re-persist of a revert (SetReplicationModeConfig)", "at least 1", "", "0")
	}
}

// ruleOmittedOnlyWhenAlwaysZero: the persisted value is the JSON of the section
// structs, and a reload starts from the defaults. A field tagged `omitempty`
// therefore comes back as its *default* whenever its zero value was accepted —
// harmless only for deprecated flags that are always zero when persisted: the
// section's MigrateDeprecatedFlags assigns the zero value, or the field is the
// deprecated half of a migration pair.
func ruleOmittedOnlyWhenAlwaysZero(c *Ctx) {
	P := c.P
	rule := c.Prop + "/one-json-value"
	n := 0
	for _, sec := range []string{"ScheduleConfig", "ReplicationConfig", "PDServerConfig", "ReplicationModeConfig", "DRAutoSyncReplicationConfig"} {
		named := P.named(cfgPkg, sec)
		st, ok := named.Underlying().(*types.Struct)
		if !ok {
			continue
		}
		mig := P.methodOpt(cfgPkg, sec, "MigrateDeprecatedFlags")
		pairs := P.methodOpt(cfgPkg, sec, "migrateConfigurationMap")
		for i := 0; i < st.NumFields(); i++ {
			tag := reflect.StructTag(st.Tag(i)).Get("json")
			n++
			f := st.Field(i)
			if f.Exported() && !f.Embedded() {
				name := strings.Split(tag, ",")[0]
				c.Check(name != "-", rule, "persisted form of "+sec+"."+f.Name(), "every item of a served section is part of the persisted JSON value (not json:\"-\")", P.pos(f.Pos()), "the item is served and settable but never persisted")
			}
			if !strings.Contains(tag, "omitempty") {
				continue
			}
			zeroed := false
			if mig != nil {
				for _, s := range storesToField(mig, f) {
					if cv, isC := s.Val.(*ssa.Const); isC && (cv.Value == nil || cv.Value.ExactString() == "0" || cv.Value.ExactString() == "false" || cv.Value.ExactString() == `""`) {
						zeroed = true
					}
				}
			}
			if !zeroed && pairs != nil {
				// &c.F stored as element 0 of a [2]*bool
				for _, b := range pairs.Blocks {
					for _, ins := range b.Instrs {
						s, ok := ins.(*ssa.Store)
						if !ok || fieldOfAddr(s.Val) != f {
							continue
						}
						if ia, ok := s.Addr.(*ssa.IndexAddr); ok && isConstInt(0)(ia.Index) {
							zeroed = true
						}
					}
				}
			}
			c.Check(zeroed, rule, "omitempty on "+sec+"."+f.Name(), "only a deprecated flag that is always zero when persisted may be omitted when zero (an accepted zero of any other item is reloaded as its default)", P.pos(f.Pos()), "not zeroed by MigrateDeprecatedFlags and not the deprecated half of a migration pair")
		}
	}
	if n < 40 {
		c.Undec(rule, "fields of the persisted section structs", "at least 40", "", fmt.Sprint(n))
	}
}

func init() {
	register("C18", "Dynamic configuration changes are validated, atomic and durable", func(c *Ctx) {
		c.Group("C18/validated-first", "each setter validates its parameter before it changes the served options", func() { ruleValidatedBeforePublished(c) })
		c.Group("C18/domain", "domain checks: ratios, registered scheduler types (every entry), isolation level ∈ location labels, non-negative flow digit", func() { ruleDomainAtoms(c) })
		c.Group("C18/snapshot-rollback", "every function that mutates the served options, persists and returns the error restores each mutated section from a snapshot taken before the first mutation", func() { ruleSnapshotRollback(c); ruleInstalledChangeIsPersisted(c); ruleRevertPersistsSnapshot(c) })
		c.Group("C18/served-config-not-shared", "configuration objects handed to API code are clones", func() { ruleServedConfigNotShared(c); ruleLabelPropertyEditedOnClone(c) })
		c.Group("C18/reload-identity", "the reload-time migration of deprecated flags leaves values written by this version unchanged", func() { ruleReloadMigration(c) })
		c.Group("C18/memo-after-outcome", "(shared with C17) the storage layer remembers nothing about a config write whose outcome is still open: a cached copy of the stored value is updated only after the write succeeded", func() { ruleStorageMemoAfterOutcome(c) })
		c.Group("C18/rmw-no-wait", "a section that is read, edited and installed again is not held across a wait", func() { ruleConfigRMWNoWait(c) })
		c.Group("C18/one-json-value", "one key, one JSON value containing every section; reload installs every section of an existing value", func() { ruleOneConfigValue(c); ruleOmittedOnlyWhenAlwaysZero(c) })
	})
}

// ruleInstalledChangeIsPersisted: the converse of snapshot-rollback. A server
// method that installs a new value in a served section goes on to persist it
// before it reports success: what is served after an accepted change is what a
// restarted or newly elected member will load.
func ruleInstalledChangeIsPersisted(c *Ctx) {
	P := c.P
	rule := c.Prop + "/snapshot-rollback"
	os := computeOptionSlots(P)
	persist := F(P.Method(cfgPkg, "PersistOptions", "Persist"))
	n := 0
	for _, fn := range P.Funcs {
		if P.isScaffold(fn) || fnPkgPath(fn) != modPath+"/server" || fn.Parent() != nil || fn.Signature.Recv() == nil {
			continue
		}
		if rn := namedOf(fn.Signature.Recv().Type()); rn == nil || rn.Obj().Name() != "Server" {
			continue
		}
		isMut := func(x ssa.Instruction) bool {
			ci, ok := x.(*ssa.Call)
			if !ok {
				return false
			}
			g := ci.Call.StaticCallee()
			return g != nil && len(os.mutators[g]) > 0
		}
		has := false
		for _, b := range fn.Blocks {
			for _, ins := range b.Instrs {
				if isMut(ins) {
					has = true
				}
			}
		}
		// handlers: given a new value (a parameter), or persisting; a reload from storage installs what is already stored
		if !has || (len(callsIn(fn, false, persist)) == 0 && len(fn.Params) <= 1) {
			continue
		}
		n++
		// the value that is persisted is the one handed in: before the first Persist a served section was set from a
		// parameter of the handler (a handler that only keeps the rollback's Set… persists the old value)
		if len(fn.Params) > 1 && len(callsIn(fn, false, persist)) > 0 {
			isParam := func(v ssa.Value) bool {
				for _, p := range fn.Params[1:] {
					if v == ssa.Value(p) {
						return true
					}
				}
				return false
			}
			fromParam := func(v ssa.Value) bool {
				if derivesFrom(v, isParam, 6) {
					return true
				}
				if al, ok := strip(v).(*ssa.Alloc); ok {
					for _, r := range *al.Referrers() {
						if st, isSt := r.(*ssa.Store); isSt && st.Addr == ssa.Value(al) && derivesFrom(st.Val, isParam, 6) {
							return true
						}
					}
				}
				return false
			}
			installed := &calledEv{name: "a served section was set from the handler's argument", match: func(x ssa.Instruction) bool {
				if !isMut(x) {
					return false
				}
				for _, a := range callArgs(x.(*ssa.Call).Common()) {
					if fromParam(a) {
						return true
					}
				}
				return false
			}}
			c.need(rule, fn, "call Persist", instrCallMatcher(persist), []Ev{installed}, all, "what is persisted is the change that was asked for: the new value was installed before Persist")
		}
		c.mustFollow(rule, fn, "a served section was given a new value", isMut, "Persist", func(x ssa.Instruction) bool { return isCallTo(x, persist) || isMut(x) }, errorExit,
			"a change installed in a served section is persisted before success is reported (or the section is set again: a rollback)")
	}
	if n < 5 {
		c.Undec(rule, "server methods installing a served section", "at least 5", "", fmt.Sprint(n))
	}
}

// ruleLabelPropertyEditedOnClone: the label-property map is rebuilt on a clone
// and stored whole; an edit of the served map is visible before it is persisted
// and defeats the caller's rollback (its `old` is the very map that was edited).
func ruleLabelPropertyEditedOnClone(c *Ctx) {
	P := c.P
	rule := c.Prop + "/served-config-not-shared"
	clone := F(P.Method(cfgPkg, "LabelPropertyConfig", "Clone"))
	lpT := P.named(cfgPkg, "LabelPropertyConfig")
	n := 0
	for _, fn := range P.Funcs {
		if P.isScaffold(fn) || fnPkgPath(fn) != modPath+"/"+cfgPkg || fn.Signature.Recv() == nil {
			continue
		}
		if rn := namedOf(fn.Signature.Recv().Type()); rn == nil || rn.Obj().Name() != "PersistOptions" {
			continue
		}
		k := 0
		for _, b := range fn.Blocks {
			for _, ins := range b.Instrs {
				var m ssa.Value
				switch x := ins.(type) {
				case *ssa.MapUpdate:
					m = x.Map
				case *ssa.Call:
					if bi, ok := x.Call.Value.(*ssa.Builtin); ok && bi.Name() == "delete" && len(x.Call.Args) == 2 {
						m = x.Call.Args[0]
					}
				}
				if m == nil {
					continue
				}
				if nn := namedOf(m.Type()); nn == nil || nn.Obj() != lpT.Obj() {
					continue
				}
				k++
				n++
				c.Check(derivesFrom(m, resultOfCall(clone), 4), rule, fmt.Sprintf("label-property edit #%d in %s", k, fnName(fn)), "the map that is edited is a Clone() of the served one", P.instrPos(ins), "the served map is edited in place")
			}
		}
	}
	if n < 3 {
		c.Undec(rule, "edits of a label-property map in PersistOptions", "at least 3", "", fmt.Sprint(n))
	}
}
