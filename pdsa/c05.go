package main

import (
	"fmt"
	"go/token"
	"go/types"
	"strings"

	"golang.org/x/tools/go/ssa"
)

func ruleSuffix(c *Ctx) {
	P := c.P
	const tso = "server/tso"
	// --- suffix width never shrinks
	rule := c.Prop + "/max-suffix-monotone"
	maxSuffix := P.Field(tso, "AllocatorManager", "mu", "maxSuffix")
	amLock := P.Field(tso, "AllocatorManager", "mu", "RWMutex")
	n := 0
	for _, accs := range P.writersOf(maxSuffix) {
		for _, a := range accs {
			for i, st := range storesToField(a.Fn, maxSuffix) {
				n++
				c.saw(fnName(a.Fn))
				g := guardRel("new > maxSuffix", ">", same(st.Val), loadOfField(maxSuffix))
				_, fails := requireAt(P, a.Fn, 0, []Ev{g}, func(x ssa.Instruction) bool { return x == st }, all)
				c.Check(len(fails) == 0, rule, fmt.Sprintf("write of maxSuffix in %s #%d", fnName(a.Fn), i+1), "dominated by new > current (the width reported with timestamps never shrinks)", P.instrPos(st), failDesc(fails))
			}
		}
	}
	if n < 2 {
		c.Undec(rule, "writes of maxSuffix", "at least 2", "", fmt.Sprint(n))
	}
	guardedBy(c, c.Prop+"/max-suffix-lock", maxSuffix, amLock, nil)

	// --- a datacenter keeps its suffix; no two share one
	rule = c.Prop + "/suffix-assignment"
	getOrCreate := P.Method(tso, "AllocatorManager", "getOrCreateLocalTSOSuffix")
	var site *TxnSite
	for _, s := range P.txnSites() {
		if s.Fn == getOrCreate && s.Kind == "put" {
			site = s
		}
	}
	if site == nil {
		// classified by key constant if the function moved
		for _, s := range P.txnSites() {
			for k := range s.KeyAtoms.Consts {
				if k == "local-tso-suffix" && s.Kind == "put" {
					site = s
				}
			}
		}
	}
	if site == nil {
		undecidedf("put of the local-tso-suffix key not found")
	}
	fn := site.Fn
	c.saw(fnName(fn))
	c.Check(site.hasCreateRevisionZero(P, site.Key), rule, "put of suffix key in "+fnName(fn), "If(CreateRevision(suffixKey) == 0): an assigned suffix is never overwritten", P.instrPos(site.Op), "")
	// existing suffix is returned before any put: put is dominated by the false edge of cur == dcLocation (for every entry)
	var dcParam ssa.Value
	for _, p := range fn.Params {
		if p.Name() == "dcLocation" {
			dcParam = p
		}
	}
	if dcParam == nil && len(fn.Params) >= 2 {
		dcParam = fn.Params[1]
	}
	found := false
	// (on the very edge on which the stored dc-location equals the requested one the stored suffix is answered)
	for _, b := range fn.Blocks {
		if iff, ok := b.Instrs[len(b.Instrs)-1].(*ssa.If); ok {
			for si := 0; si < 2; si++ {
				cond, pos := normCond(iff.Cond, si == 0)
				if relMatcher("==", anyVal, same(dcParam))(cond, pos) && edgeLeadsStraightTo(b, si, func(r *ssa.Return) bool { return retIsNilErr(r) }) {
					found = true
				}
			}
		}
	}
	if !found {
		// the same decision written as a map lookup: if s, ok := stored[dcLocation]; ok { return s, nil }
		for _, b := range fn.Blocks {
			for _, ins := range b.Instrs {
				lk, ok := ins.(*ssa.Lookup)
				if !ok || !lk.CommaOk || !sameVal(lk.Index, dcParam) {
					continue
				}
				isPart := func(v ssa.Value, i int) bool {
					e, ok := strip(v).(*ssa.Extract)
					return ok && e.Tuple == ssa.Value(lk) && e.Index == i
				}
				_, f2 := guardControlsReturn(fn, func(cond ssa.Value, pos bool) bool { return pos && isPart(cond, 1) },
					func(r *ssa.Return) bool { return retIsNilErr(r) && isPart(retVal(r, 0), 0) })
				if f2 {
					found = true
				}
			}
		}
	}
	c.Check(found, rule, "existing suffix in "+fnName(fn), "an already stored suffix of the same dc-location is returned unchanged", P.pos(fn.Pos()), "no comparison of stored dc-location with the requested one")
	// the candidate is max+1
	putVal := site.Op.Call.Args[1]
	isMaxPlus1 := derivesFrom(putVal, func(v ssa.Value) bool {
		b, ok := v.(*ssa.BinOp)
		if !ok || b.Op != token.ADD || !isConstInt(1)(b.Y) {
			return false
		}
		_, isPhi := b.X.(*ssa.Phi)
		return isPhi
	}, 8)
	c.Check(isMaxPlus1, rule, "candidate suffix in "+fnName(fn), "the new suffix is (maximum of stored suffixes) + 1", P.instrPos(site.Op), "put value does not derive from max+1")
	// the running maximum is a strict-greater scan
	found, _ = guardControlsReturn(fn, func(cond ssa.Value, pos bool) bool {
		r, ok := relOf(cond, pos)
		if !ok || r.Op != token.GTR {
			return false
		}
		_, isPhi := r.Y.(*ssa.Phi)
		return isPhi
	}, func(*ssa.Return) bool { return true })
	c.Check(found, rule, "maximum scan in "+fnName(fn), "suffix > running maximum updates the maximum", P.pos(fn.Pos()), "")
	if site.Commit != nil {
		c.need(rule, fn, "return of the new suffix", func(x ssa.Instruction) bool {
			r, ok := x.(*ssa.Return)
			if !ok || !retIsNilErr(r) {
				return false
			}
			v := retVal(r, 0)
			return derivesFrom(v, func(w ssa.Value) bool {
				b, ok := w.(*ssa.BinOp)
				return ok && b.Op == token.ADD && isConstInt(1)(b.Y)
			}, 4)
		}, site.committedEvents(), all, "a new suffix is handed out only if the create-if-absent transaction was applied")
	}
	ruleSuffixLeaderOnly(c, rule)
}

// ruleSuffixLeaderOnly: the suffix transaction compares only the suffix key
// itself (create-if-absent), not the leader record, so the in-memory gate is
// its only leader guard: Member.IsLeader(), which includes the lease check.
func ruleSuffixLeaderOnly(c *Ctx, rule string) {
	P := c.P
	fn := P.Method("server/tso", "AllocatorManager", "getOrCreateLocalTSOSuffix")
	isLeader := F(P.Method("server/member", "Member", "IsLeader"))
	sites, _ := c.nonScaffoldCallers(fn)
	for _, s := range sites {
		c.need(rule, s.Caller, "call getOrCreateLocalTSOSuffix", func(x ssa.Instruction) bool { return x == s.Instr.(ssa.Instruction) },
			[]Ev{guardCall("member.IsLeader()", true, callMatcher(isLeader))}, all, "suffixes are assigned by the PD leader only (lease checked: Member.IsLeader())")
	}
	if len(sites) == 0 {
		c.Undec(rule, "callers of getOrCreateLocalTSOSuffix", "found", "", "")
	}
}

func ruleLocalLeaderSync(c *Ctx) {
	P := c.P
	const tso = "server/tso"
	rule := c.Prop + "/local-leader-sync"
	cal := P.Method(tso, "AllocatorManager", "campaignAllocatorLeader")
	enable := F(P.Method(tso, "LocalTSOAllocator", "EnableAllocatorLeader"))
	initE := newOkEv(cal, "ok(Initialize)", callMatcher(F(P.Method(tso, "LocalTSOAllocator", "Initialize"))))
	initE.sticky = true
	write := newOkEv(cal, "ok(WriteTSO)", callMatcher(F(P.Method(tso, "LocalTSOAllocator", "WriteTSO"))))
	getPhys := F(P.Method("github.com/pingcap/kvproto/pkg/pdpb", "Timestamp", "GetPhysical"))
	noMax := guardRel("MaxTs.Physical == 0", "==", resultOfCall(getPhys), isConstInt(0))
	cas := &calledEv{name: "compareAndSetMaxSuffix", match: instrCallMatcher(F(P.Method(tso, "AllocatorManager", "compareAndSetMaxSuffix")))}
	c.need(rule, cal, "call EnableAllocatorLeader", instrCallMatcher(enable), []Ev{initE, write, noMax, cas}, func(h []bool) bool {
		return h[0] && (h[1] || h[2]) && h[3]
	}, "dominated by ok(Initialize), by ok(WriteTSO(MaxTs)) unless MaxTs.Physical == 0, and by compareAndSetMaxSuffix")
	// Initialize installs the suffix before synchronising
	ini := P.Method(tso, "LocalTSOAllocator", "Initialize")
	suffix := P.Field(tso, "timestampOracle", "suffix")
	syncTS := F(P.Method(tso, "timestampOracle", "SyncTimestamp"))
	c.need(rule, ini, "call SyncTimestamp", instrCallMatcher(syncTS), []Ev{&calledEv{name: "suffix assigned", match: func(x ssa.Instruction) bool { return isStoreToField(x, suffix) }}}, all,
		"the allocator's suffix is installed before it starts serving")
	// WriteTSO raises the local clock unless it is already >= maxTS
	w := P.Method(tso, "LocalTSOAllocator", "WriteTSO")
	cmp := F(P.Func("pkg/tsoutil", "CompareTimestamp"))
	reset := F(P.Method(tso, "timestampOracle", "resetUserTimestamp"))
	c.need(rule, w, "successful return without writing", func(x ssa.Instruction) bool {
		r, ok := x.(*ssa.Return)
		if !ok || !retIsNilErr(r) {
			return false
		}
		return true
	}, []Ev{guardRel("current >= maxTS", ">=", resultOfCall(cmp), isConstInt(0))}, all, "WriteTSO skips the write only when the local timestamp is already >= MaxTS")
	c.Check(len(callsIn(w, false, reset)) > 0, rule, "WriteTSO", "otherwise it resets the local timestamp to MaxTS", P.pos(w.Pos()), "")
}

func ruleGlobalSettingPhase(c *Ctx) {
	P := c.P
	const tso = "server/tso"
	rule := c.Prop + "/estimate-validated"
	gen := P.Method(tso, "GlobalTSOAllocator", "GenerateTSO")
	syncMax := F(P.Method(tso, "GlobalTSOAllocator", "SyncMaxTS"))
	cmp := F(P.Func("pkg/tsoutil", "CompareTimestamp"))
	calls := callsIn(gen, false, syncMax)
	if len(calls) == 0 {
		undecidedf("no SyncMaxTS call in GenerateTSO")
	}
	for i, ci := range calls {
		args := callArgs(ci.Common())
		if len(args) != 4 {
			c.Undec(rule, "SyncMaxTS call", "4 args", P.instrPos(ci), "")
			continue
		}
		skip := args[3]
		construct := fmt.Sprintf("skipCheck passed to SyncMaxTS in %s #%d", fnName(gen), i+1)
		phi, ok := skip.(*ssa.Phi)
		if !ok {
			b, isC := constBool(skip)
			c.Check(isC && !b, rule, construct, "the first synchronisation of every attempt validates the estimate (skipCheck == false)", P.instrPos(ci), "skipCheck is not a per-attempt flag starting at false")
			continue
		}
		good := true
		hasFalse := false
		detail := ""
		for k, e := range phi.Edges {
			b, isC := constBool(e)
			if !isC {
				good = false
				detail = "non-constant skipCheck operand"
				continue
			}
			if !b {
				hasFalse = true
				continue
			}
			pred := phi.Block().Preds[k]
			last := pred.Instrs[len(pred.Instrs)-1]
			g := guardRel("synced MaxTS > estimate", ">", resultOfCall(cmp), isConstInt(0))
			okS := newOkEv(gen, "ok(SyncMaxTS)", callMatcher(syncMax))
			_, fails := requireAt(P, gen, 0, []Ev{g, okS}, func(x ssa.Instruction) bool { return x == last }, all)
			if len(fails) > 0 {
				good = false
				detail = "skipCheck becomes true on a path without a validated, larger MaxTS: " + failDesc(fails)
			}
		}
		c.Check(good && hasFalse, rule, construct, "skipCheck is false on entry of every attempt and becomes true only after a successful validating round returned a larger MaxTS", P.instrPos(ci), detail)
	}
	// every other user of SyncMaxTS wants the local maxima collected (GetMaxLocalTSO for a new local leader): it asks
	// with skipCheck == false — with skipCheck the handlers report nothing and the caller reads back its own zero
	nOther := 0
	for _, fn := range P.Funcs {
		if P.isScaffold(fn) || fn == gen || !strings.HasPrefix(fnPkgPath(fn), modPath) {
			continue
		}
		for _, ci := range callsIn(fn, false, syncMax) {
			a := callArgs(ci.Common())
			if len(a) != 4 {
				continue
			}
			nOther++
			b, isC := constBool(a[3])
			c.Check(isC && !b, rule, fmt.Sprintf("skipCheck passed to SyncMaxTS in %s", fnName(fn)), "a caller that reads the collected maximum back asks for the collecting phase (skipCheck == false)", P.instrPos(ci.(ssa.Instruction)), "")
		}
	}
	if nOther == 0 {
		c.Undec(rule, "collecting callers of SyncMaxTS (GetMaxLocalTSO)", "at least 1", "", "0")
	}
	// SyncMaxTS handler (local side)
	h := P.Method("server", "Server", "SyncMaxTS")
	rule = c.Prop + "/sync-max-ts-handler"
	logical := P.Field("github.com/pingcap/kvproto/pkg/pdpb", "Timestamp", "Logical")
	ge := guardRel("local max >= requested max", ">=", resultOfCall(cmp), isConstInt(0))
	ne := guardRel("local max != requested max", "!= >", resultOfCall(cmp), isConstInt(0))
	inc := &calledEv{name: "Logical += 1", match: func(x ssa.Instruction) bool { return isStoreToField(x, logical) }}
	c.need(rule, h, "return", func(x ssa.Instruction) bool { r, ok := x.(*ssa.Return); return ok && retIsNilErr(r) }, []Ev{ge, ne, inc}, func(hh []bool) bool { return !hh[0] || hh[1] || hh[2] },
		"a local maximum >= the requested MaxTS is reported only after the equal case was split off and bumped by one (a global timestamp never equals a local one)")
	writeTSO := F(P.Method(tso, "LocalTSOAllocator", "WriteTSO"))
	getSkip0 := F(P.Method("github.com/pingcap/kvproto/pkg/pdpb", "SyncMaxTSRequest", "GetSkipCheck"))
	skipped := guardCall("request.SkipCheck", true, callMatcher(getSkip0))
	lt := guardRel("local max < requested max", "<", resultOfCall(cmp), isConstInt(0))
	c.need(rule, h, "call WriteTSO", instrCallMatcher(writeTSO), []Ev{skipped, lt}, anyOf,
		"the requested MaxTS is written (and reported as accepted) only when it is strictly above every local timestamp, or the caller already validated it (skipCheck)")
	failed := newSettledEv(h, "WriteTSO", callMatcher(writeTSO))
	c.need(rule, h, "successful return", func(x ssa.Instruction) bool { r, ok := x.(*ssa.Return); return ok && retIsNilErr(r) }, []Ev{failed}, all,
		"a failed WriteTSO is never reported as synced")
	getSkip := F(P.Method("github.com/pingcap/kvproto/pkg/pdpb", "SyncMaxTSRequest", "GetSkipCheck"))
	found, _ := guardControlsReturn(h, func(cond ssa.Value, pos bool) bool {
		cl, ok := cond.(*ssa.Call)
		return ok && getSkip.Match(cl.Common())
	}, func(*ssa.Return) bool { return true })
	c.Check(found, rule, "GetSkipCheck in "+fnName(h), "the collecting phase runs unless the request says skip", P.pos(h.Pos()), "")
	c.need(rule, h, "first use of allocators", instrCallMatcher(F(P.Method(tso, "AllocatorManager", "GetHoldingLocalAllocatorLeaders"))),
		[]Ev{newOkEv(h, "ok(validateInternalRequest)", callMatcher(F(P.Method("server", "Server", "validateInternalRequest"))))}, all, "only the PD leader may drive the synchronisation")
}

// ruleCampaignGate: a member campaigns for a dc-location's allocator only when
// the PD leader knows the dc-location with an assigned suffix (> 0) and a
// synchronised MaxTS — with suffix -1 the allocator would serve undifferentiated
// logical parts while reporting a suffix width.
func ruleCampaignGate(c *Ctx) {
	P := c.P
	const tso = "server/tso"
	rule := c.Prop + "/local-leader-sync"
	loop := P.Method(tso, "AllocatorManager", "allocatorLeaderLoop")
	camp := F(P.Method(tso, "AllocatorManager", "campaignAllocatorLeader"))
	info := F(P.Method(tso, "AllocatorManager", "getDCLocationInfoFromLeader"))
	pb := "github.com/pingcap/kvproto/pkg/pdpb"
	fSuffix := P.Field(pb, "GetDCLocationInfoResponse", "Suffix")
	fMax := P.Field(pb, "GetDCLocationInfoResponse", "MaxTs")
	known := &guardEv{name: "the leader knows the dc-location (ok)", match: func(cond ssa.Value, pos bool) bool {
		e, ok := strip(cond).(*ssa.Extract)
		if !ok || !pos {
			return false
		}
		cl, _ := e.Tuple.(*ssa.Call)
		return cl != nil && info.Match(cl.Common()) && e.Index == 0
	}}
	suffix := guardRel("suffix > 0", ">", loadOfField(fSuffix), isConstInt(0))
	maxTS := guardRel("MaxTs != nil", "!=", loadOfField(fMax), isNilConst)
	c.need(rule, loop, "call campaignAllocatorLeader", instrCallMatcher(camp), []Ev{known, suffix, maxTS}, all,
		"campaign only for a dc-location the leader reports as known, with a suffix > 0 and a MaxTs")
}

// ruleAllKnownDCsSynced: the global allocator accepts a synchronisation round
// only if *every dc-location it knows* answered: the check enumerates the known
// dc-locations (the map) and looks each up among the synced ones, not the
// other way round.
func ruleAllKnownDCsSynced(c *Ctx) {
	P := c.P
	const tso = "server/tso"
	rule := c.Prop + "/estimate-validated"
	fn := P.Method(tso, "GlobalTSOAllocator", "checkSyncedDCs")
	c.saw(fnName(fn))
	var mapParam ssa.Value
	for _, p := range fn.Params {
		if _, ok := p.Type().Underlying().(*types.Map); ok {
			mapParam = p
		}
	}
	// the reported unsynced dc-locations are keys of the known map
	fromMap := false
	for _, b := range fn.Blocks {
		for _, ins := range b.Instrs {
			cl, ok := ins.(*ssa.Call)
			if !ok {
				continue
			}
			bi, isB := cl.Call.Value.(*ssa.Builtin)
			if !isB || bi.Name() != "append" || len(cl.Call.Args) != 2 {
				continue
			}
			elems, _ := sliceElems(cl.Call.Args[1], map[ssa.Value]bool{})
			for _, e := range elems {
				if derivesFrom(e, func(v ssa.Value) bool {
					nx, ok := v.(*ssa.Next)
					if !ok {
						return false
					}
					rg, ok := nx.Iter.(*ssa.Range)
					return ok && mapParam != nil && sameVal(rg.X, mapParam)
				}, 4) {
					fromMap = true
				}
			}
		}
	}
	c.Check(fromMap, rule, "unsynced list in "+fnName(fn), "built by enumerating the known dc-locations (every known one must have been synced)", P.pos(fn.Pos()), "the enumeration does not range over the known dc-locations")
	// and an incomplete round is never accepted
	gen := P.Method(tso, "GlobalTSOAllocator", "SyncMaxTS")
	chk := F(fn)
	c.need(rule, gen, "a round counted as complete (setSyncRTT)", instrCallMatcher(F(P.Method(tso, "GlobalTSOAllocator", "setSyncRTT"))),
		[]Ev{newBoolEv(gen, "checkSyncedDCs == true", true, callMatcher(chk))}, all, "a synchronisation round is taken as complete only after checkSyncedDCs reported every known dc-location as synced")
}

// ruleFollowerSuffixRefresh: the width every allocator shifts by is computed
// from maxSuffix; a follower refreshes it from etcd on every checker round (a
// suffix is persisted by the leader *after* the dc-location appears, so "only
// when the topology changed" misses it).
func ruleFollowerSuffixRefresh(c *Ctx) {
	P := c.P
	const tso = "server/tso"
	rule := c.Prop + "/suffix"
	fn := P.Method(tso, "AllocatorManager", "ClusterDCLocationChecker")
	isLeader := F(P.Method("server/member", "Member", "IsLeader"))
	getMax := F(P.Method(tso, "AllocatorManager", "getMaxLocalTSOSuffix"))
	mu := P.Field(tso, "AllocatorManager", "mu")
	isMuCall := func(name string) func(ssa.Instruction) bool {
		return func(x ssa.Instruction) bool {
			cl, ok := x.(*ssa.Call)
			if !ok || cl.Call.StaticCallee() == nil || cl.Call.StaticCallee().Name() != name || len(cl.Call.Args) == 0 {
				return false
			}
			return derivesFrom(cl.Call.Args[0], func(v ssa.Value) bool { return fieldOfAddr(v) == mu }, 4)
		}
	}
	started := &calledEv{name: "the round took am.mu (it got past the early exits)", match: isMuCall("Lock")}
	c.need(rule, fn, "end of a checker round", func(x ssa.Instruction) bool { _, ok := x.(*ssa.Return); return ok },
		[]Ev{started, guardCall("this member is the PD leader", true, callMatcher(isLeader)), &calledEv{name: "getMaxLocalTSOSuffix()", match: instrCallMatcher(getMax)}},
		func(h []bool) bool { return !h[0] || h[1] || h[2] },
		"a follower re-reads the largest persisted suffix in every round")
	// local path: the overflow test of getTS sees the differentiated logical part, i.e. generateTSO is
	// given the suffix width getTS was called with and nothing is shifted afterwards
	getTS := P.Method(tso, "timestampOracle", "getTS")
	gen := F(P.Method(tso, "timestampOracle", "generateTSO"))
	var bitsParam ssa.Value
	for _, p := range getTS.Params {
		if p.Name() == "suffixBits" {
			bitsParam = p
		}
	}
	if bitsParam == nil && len(getTS.Params) == 4 {
		bitsParam = getTS.Params[3]
	}
	okArg := false
	for _, ci := range callsIn(getTS, false, gen) {
		a := callArgs(ci.Common())
		if len(a) == 2 && bitsParam != nil && sameVal(a[1], bitsParam) {
			okArg = true
		} else {
			okArg = false
			break
		}
	}
	isDiff, _ := differentiated(P)
	late := false
	for _, b := range getTS.Blocks {
		for _, ins := range b.Instrs {
			if v, ok := ins.(ssa.Value); ok && isDiff(v) {
				late = true
			}
		}
	}
	c.Check(okArg && !late, c.Prop+"/suffix-bits-reported", "width given to generateTSO in "+fnName(getTS), "the suffix width of the request, so that the overflow test applies to the differentiated value (no shifting after the test)", P.pos(getTS.Pos()), "")
}

// ruleOverflowCarry: a timestamp whose logical part is set back (assigned a
// value that is not derived from its old logical part) must have had its
// physical part advanced first — otherwise the new value is below the old one.
// In the global allocator this is the overflow fallback after a failed
// precheckLogical: physical += guard; logical = count.
func ruleOverflowCarry(c *Ctx) {
	P := c.P
	const tso = "server/tso"
	rule := c.Prop + "/overflow-carry"
	pb := "github.com/pingcap/kvproto/pkg/pdpb"
	logical := P.Field(pb, "Timestamp", "Logical")
	physical := P.Field(pb, "Timestamp", "Physical")
	getLogical := F(P.Method(pb, "Timestamp", "GetLogical"))
	gen := P.Method(tso, "GlobalTSOAllocator", "GenerateTSO")
	c.saw(fnName(gen))
	n := 0
	for _, st := range storesToField(gen, logical) {
		if derivesFrom(st.Val, orPred(loadOfField(logical), resultOfCall(getLogical)), 6) {
			continue // += count, differentiation: built on the old logical part
		}
		n++
		base := baseOf(st.Addr)
		bumped := &calledEv{name: "physical part of the same timestamp advanced", match: func(x ssa.Instruction) bool {
			ps, ok := x.(*ssa.Store)
			if !ok || fieldOfAddr(ps.Addr) != physical || !sameVal(baseOf(ps.Addr), base) {
				return false
			}
			add, ok := strip(ps.Val).(*ssa.BinOp)
			if !ok || add.Op != token.ADD {
				return false
			}
			return derivesFrom(add.X, func(v ssa.Value) bool {
				return isLoadOf(v, physical)
			}, 3)
		}, reset: func(x ssa.Instruction) bool {
			// a new estimate (the base is re-created) or a fresh `+=` round starts over
			if v, ok := x.(ssa.Value); ok && v == base {
				return true
			}
			if ls, ok := x.(*ssa.Store); ok && ls != st && fieldOfAddr(ls.Addr) == logical && sameVal(baseOf(ls.Addr), base) {
				return true
			}
			return false
		}}
		s := st
		c.need(rule, gen, fmt.Sprintf("logical part set back in %s #%d", fnName(gen), n), func(x ssa.Instruction) bool { return x == ssa.Instruction(s) },
			[]Ev{bumped}, all, "the physical part of the same timestamp was advanced since its logical part was last extended (carry), so the value does not go back")
	}
	c.Floor(rule, 1, "logical reset with carry (the overflow fallback of the estimate)")
}

// ruleOverflowVetted: the value proposed to the local allocators has passed the
// 18-bit overflow test *after* its last extension. Between the last additive
// change of the estimate's logical part (or the adoption of a collected
// maximum) and the next SyncMaxTS there is a precheckLogical call — or the
// fallback that sets the logical part to the plain count.
func ruleOverflowVetted(c *Ctx) {
	P := c.P
	const tso = "server/tso"
	rule := c.Prop + "/overflow-carry"
	pb := "github.com/pingcap/kvproto/pkg/pdpb"
	logical := P.Field(pb, "Timestamp", "Logical")
	getLogical := F(P.Method(pb, "Timestamp", "GetLogical"))
	gen := P.Method(tso, "GlobalTSOAllocator", "GenerateTSO")
	pre := F(P.Method(tso, "GlobalTSOAllocator", "precheckLogical"))
	est := F(P.Method(tso, "GlobalTSOAllocator", "estimateMaxTS"))
	syncMax := F(P.Method(tso, "GlobalTSOAllocator", "SyncMaxTS"))
	viaPointer := func(addr ssa.Value) bool {
		_, isLocal := baseOf(addr).(*ssa.Alloc)
		return !isLocal
	}
	extends := func(x ssa.Instruction) bool {
		st, ok := x.(*ssa.Store)
		if !ok || !viaPointer(st.Addr) {
			return false
		}
		if fieldOfAddr(st.Addr) == logical {
			return derivesFrom(st.Val, orPred(loadOfField(logical), resultOfCall(getLogical)), 6)
		}
		// *estimate = collected maximum
		if _, isFA := st.Addr.(*ssa.FieldAddr); !isFA {
			if n := namedOf(st.Val.Type()); n != nil && n.Obj().Name() == "Timestamp" {
				return true
			}
		}
		return false
	}
	vetted := &calledEv{name: "overflow test (or reset to the plain count) since the last extension", reset: extends, match: func(x ssa.Instruction) bool {
		if instrCallMatcher(pre, est)(x) {
			return true
		}
		st, ok := x.(*ssa.Store)
		return ok && viaPointer(st.Addr) && fieldOfAddr(st.Addr) == logical && !derivesFrom(st.Val, orPred(loadOfField(logical), resultOfCall(getLogical)), 6)
	}}
	c.need(rule, gen, "call SyncMaxTS", instrCallMatcher(syncMax), []Ev{vetted}, all,
		"the estimate handed to the local allocators passed the overflow test after its logical part was last extended")
}

func ruleSuffixBitsReported(c *Ctx) {
	P := c.P
	const tso = "server/tso"
	rule := c.Prop + "/suffix-bits-reported"
	sb := P.Field("github.com/pingcap/kvproto/pkg/pdpb", "Timestamp", "SuffixBits")
	gen := F(P.Method(tso, "timestampOracle", "generateTSO"))
	isDiff, widthOf := differentiated(P)
	for _, fn := range []*ssa.Function{P.Method(tso, "timestampOracle", "getTS"), P.Method(tso, "GlobalTSOAllocator", "GenerateTSO")} {
		c.saw(fnName(fn))
		var width ssa.Value
		for _, ci := range callsIn(fn, false, gen) {
			args := callArgs(ci.Common())
			if len(args) == 2 {
				if z, isC := constInt(args[1]); isC && z == 0 {
					continue
				}
				width = args[1]
			}
		}
		for _, b := range fn.Blocks {
			for _, ins := range b.Instrs {
				if v, ok := ins.(ssa.Value); ok && isDiff(v) {
					if w := widthOf(v); w != nil {
						width = w
					}
				}
			}
		}
		stores := storesToField(fn, sb)
		if width == nil || len(stores) == 0 {
			c.Undec(rule, "SuffixBits in "+fnName(fn), "shift width and reported width found", P.pos(fn.Pos()), "")
			continue
		}
		for _, st := range stores {
			c.Check(derivesFrom(st.Val, same(width), 3), rule, "SuffixBits reported by "+fnName(fn), "is the width that was used to shift the logical part", P.instrPos(st), "reported width differs from the shift width")
		}
	}
	// generateTSO hands out the raw logical value only when there is nothing to differentiate with (no suffix width, or
	// an allocator without a suffix); otherwise the value it returns was differentiated
	genFn := P.Method(tso, "timestampOracle", "generateTSO")
	suffixF := P.Field(tso, "timestampOracle", "suffix")
	var bitsP ssa.Value
	if len(genFn.Params) >= 3 {
		bitsP = genFn.Params[2]
	}
	diffDone := &calledEv{name: "the logical part was differentiated", match: func(x ssa.Instruction) bool {
		v, ok := x.(ssa.Value)
		return ok && isDiff(v)
	}}
	noWidth := guardRel("suffixBits <= 0", "<= <", same(bitsP), isConstInt(0))
	noSuffix := guardRel("suffix < 0", "<", loadOfField(suffixF), isConstInt(0))
	physF := P.Field(tso, "timestampOracle", "tsoMux")
	_ = physF
	c.need(rule, genFn, "return of a generated timestamp", func(x ssa.Instruction) bool {
		r, ok := x.(*ssa.Return)
		if !ok || len(r.Results) < 2 {
			return false
		}
		k, isC := constInt(spilledResult(r, 1))
		return !(isC && k == 0) // not the "not initialised" answer
	}, []Ev{diffDone, noWidth, noSuffix}, anyOf, "with a suffix width and a suffix the logical part returned is raw<<width + suffix: timestamps of different allocators never coincide")
	// differentiation = raw << bits + suffix of this allocator, in the helper or in place
	suffix := P.Field(tso, "timestampOracle", "suffix")
	okShape := false
	var where []*ssa.Function
	if d := P.methodOpt(tso, "timestampOracle", "differentiateLogical"); d != nil {
		where = append(where, d)
	} else {
		where = append(where, P.Method(tso, "timestampOracle", "generateTSO"), P.Method(tso, "GlobalTSOAllocator", "GenerateTSO"))
	}
	nShape := 0
	for _, d := range where {
		for _, b := range d.Blocks {
			for _, ins := range b.Instrs {
				if bo, ok := ins.(*ssa.BinOp); ok && bo.Op == token.ADD {
					if sh, ok := strip(bo.X).(*ssa.BinOp); ok && sh.Op == token.SHL && derivesFrom(bo.Y, loadOfField(suffix), 3) {
						nShape++
					}
				}
			}
		}
	}
	okShape = nShape >= len(where)
	c.Check(okShape, rule, "differentiateLogical", "logical<<suffixBits + suffix", P.pos(where[0].Pos()), "")
	// GetSuffixBits = CalSuffixBits(maxSuffix)
	gs := P.Method(tso, "AllocatorManager", "GetSuffixBits")
	maxSuffix := P.Field(tso, "AllocatorManager", "mu", "maxSuffix")
	cal := F(P.Func(tso, "CalSuffixBits"))
	// … on every path: each value it can return is CalSuffixBits(maxSuffix) (suffixes are never renumbered, so the
	// width follows the largest suffix ever handed out, not the number of dc-locations present now)
	okG, nRet := true, 0
	for _, b := range gs.Blocks {
		r, ok := b.Instrs[len(b.Instrs)-1].(*ssa.Return)
		if !ok || len(r.Results) != 1 {
			continue
		}
		for _, alt := range valueAlternatives(retVal(r, 0), 4) {
			nRet++
			cl, _ := callOf(alt)
			if cl == nil || !cal.Match(cl.Common()) {
				okG = false
				continue
			}
			if a := callArgs(cl.Common()); len(a) != 1 || !isLoadOf(a[0], maxSuffix) {
				okG = false
			}
		}
	}
	c.Check(okG && nRet > 0, rule, "GetSuffixBits", "computed from the largest suffix in use, on every path", P.pos(gs.Pos()), "")
	// CalSuffixBits: the width must hold maxSuffix itself, i.e. ⌈log2(maxSuffix+1)⌉. Whatever way it is computed,
	// a logarithm that is rounded to nearest, rounded down or truncated gives a width one too small for every
	// maxSuffix just above a power of two (4 suffixes in 2 bits): the suffix then spills into the logical part.
	if calFn := P.Func(tso, "CalSuffixBits"); calFn != nil {
		c.saw(fnName(calFn))
		isMath := func(v ssa.Value, names ...string) bool {
			cl, _ := callOf(v)
			if cl == nil {
				return false
			}
			f := cl.Call.StaticCallee()
			if f == nil || f.Pkg == nil || f.Pkg.Pkg.Path() != "math" {
				return false
			}
			for _, n := range names {
				if f.Name() == n {
					return true
				}
			}
			return false
		}
		okRound, at := true, ""
		for _, b := range calFn.Blocks {
			for _, ins := range b.Instrs {
				switch x := ins.(type) {
				case *ssa.Call:
					if isMath(x, "Round", "RoundToEven", "Floor", "Trunc") && len(x.Call.Args) == 1 && derivesFrom(x.Call.Args[0], func(v ssa.Value) bool { return isMath(v, "Log2", "Log", "Log10") }, 4) {
						okRound, at = false, P.instrPos(x)
					}
				case *ssa.Convert:
					// float → int conversion truncates: applied to the logarithm itself it rounds down
					if bt, isB := x.Type().Underlying().(*types.Basic); isB && bt.Info()&types.IsInteger != 0 && isMath(x.X, "Log2", "Log", "Log10") {
						okRound, at = false, P.instrPos(x)
					}
				}
			}
		}
		c.Check(okRound, rule, "rounding in "+fnName(calFn), "the logarithm of maxSuffix+1 is never rounded to nearest, rounded down or truncated (the width is its ceiling)", P.pos(calFn.Pos()), "rounded the wrong way at "+at)
	}
	// local allocator passes GetSuffixBits to getTS
	lg := P.Method(tso, "LocalTSOAllocator", "GenerateTSO")
	okL := false
	for _, ci := range callsIn(lg, false, F(P.Method(tso, "timestampOracle", "getTS"))) {
		if a := callArgs(ci.Common()); len(a) == 3 && valueIsCallTo(a[2], F(gs)) {
			okL = true
		}
	}
	c.Check(okL, rule, "LocalTSOAllocator.GenerateTSO", "differentiates with the current suffix width", P.pos(lg.Pos()), "")
}

func init() {
	register("C05", "Local and global timestamps are mutually consistent", func(c *Ctx) {
		c.Group("C05/suffix", "suffix width never shrinks; a suffix is create-if-absent, existing ones are returned, new ones are max+1, only the leader assigns", func() { ruleSuffix(c); ruleFollowerSuffixRefresh(c) })
		c.Group("C05/local-leader-sync", "a new local allocator leader synchronises (Initialize, WriteTSO(MaxTs), suffix width) before it is enabled", func() { ruleLocalLeaderSync(c); ruleCampaignGate(c) })
		c.Group("C05/estimate-validated", "the global allocator validates its estimate before writing it; the local side bumps an equal maximum and never reports a failed write as synced", func() { ruleGlobalSettingPhase(c); ruleAllKnownDCsSynced(c); ruleHandlerKeepsMaximum(c) })
		c.Group("C05/overflow-carry", "when the estimate's logical part overflows it is reset only together with an advance of its physical part", func() { ruleOverflowCarry(c); ruleOverflowVetted(c) })
		c.Group("C05/suffix-bits-reported", "the suffix width reported with a timestamp is the width used to differentiate it, computed from the largest suffix in use", func() { ruleSuffixBitsReported(c) })
		c.Group("C05/monotone-write", "(shared with C01) the maximum written back into a local allocator is adopted whenever it is later in the millisecond arithmetic timestamps are composed with: equal milliseconds are decided by the logical part", func() { ruleMonotoneWrite(c) })
		c.Group("C05/save-before-advance", "(shared with C01/C02) a maximum written back into an allocator beyond its stored window is saved before memory advances", func() { ruleSaveBeforeAdvance(c) })
		c.Group("C05/global-generate", "(shared with C01) a global timestamp is returned only after ok(SyncMaxTS), pre-check and a post-write leadership check", func() { ruleGlobalGenerate(c) })
		c.Group("C05/getTS", "(shared with C01) overflow and lease guards of the local path", func() { ruleGetTS(c) })
	})
}

// ruleHandlerKeepsMaximum: the check phase of the SyncMaxTS handler answers
// with the largest current TSO of the local allocators this PD leads. The
// running maximum is replaced by an allocator's current TSO only when that one
// compares greater (current first, running maximum second) — or nothing was
// collected yet. With the operands swapped the handler reports the minimum,
// the estimate is accepted, and WriteTSO skips the allocator that is ahead.
func ruleHandlerKeepsMaximum(c *Ctx) {
	P := c.P
	rule := c.Prop + "/sync-max-ts-handler"
	h := P.Method("server", "Server", "SyncMaxTS")
	cur := F(P.Method("server/tso", "LocalTSOAllocator", "GetCurrentTSO"))
	cmpTS := F(P.Func("pkg/tsoutil", "CompareTimestamp"))
	n := 0
	for _, b := range h.Blocks {
		for _, ins := range b.Instrs {
			st, ok := ins.(*ssa.Store)
			if !ok {
				continue
			}
			cell, isCell := st.Addr.(*ssa.Alloc)
			if !isCell || !derivesFrom(st.Val, func(v ssa.Value) bool { cl, _ := callOf(v); return cl != nil && cur.Match(cl.Common()) }, 3) {
				continue
			}
			n++
			val := st.Val
			isRunning := func(v ssa.Value) bool { return cellOf(v) == cell }
			greater := &guardEv{name: "CompareTimestamp(current, running maximum) > 0", match: func(cond ssa.Value, pos bool) bool {
				r, ok := relOf(cond, pos)
				if !ok {
					return false
				}
				cl, _ := callOf(r.X)
				k, isC := constInt(r.Y)
				if cl == nil || !isC || !cmpTS.Match(cl.Common()) || len(cl.Call.Args) != 2 {
					return false
				}
				fwd := sameVal(cl.Call.Args[0], val) && isRunning(cl.Call.Args[1])
				rev := isRunning(cl.Call.Args[0]) && sameVal(cl.Call.Args[1], val)
				switch {
				case fwd:
					return (r.Op == token.GTR && k >= 0) || (r.Op == token.GEQ && k >= 1)
				case rev:
					return (r.Op == token.LSS && k <= 0) || (r.Op == token.LEQ && k <= -1)
				}
				return false
			}}
			none := guardRel("nothing collected yet", "==", isRunning, isNilConst)
			target := st
			c.need(rule, h, fmt.Sprintf("running maximum replaced #%d", n), func(x ssa.Instruction) bool { return x == ssa.Instruction(target) }, []Ev{greater, none}, anyOf,
				"the running maximum is replaced only by a current TSO that compares greater than it (or when nothing was collected yet)")
		}
	}
	if n == 0 {
		// the running maximum as a plain local: a φ one of whose operands is a current TSO
		isCur := func(v ssa.Value) bool { cl, _ := callOf(v); return cl != nil && cur.Match(cl.Common()) }
		for _, b := range h.Blocks {
			for _, ins := range b.Instrs {
				phi, ok := ins.(*ssa.Phi)
				if !ok {
					break
				}
				for i, e := range phi.Edges {
					if i >= len(b.Preds) || !derivesFrom(e, isCur, 2) {
						continue
					}
					if _, isPhi := e.(*ssa.Phi); isPhi {
						continue
					}
					n++
					val := e
					isRunning := func(v ssa.Value) bool {
						if v == ssa.Value(phi) {
							return true
						}
						p2, ok := v.(*ssa.Phi)
						if !ok {
							return false
						}
						for _, x := range p2.Edges {
							if x == ssa.Value(phi) {
								return true
							}
						}
						for _, x := range phi.Edges {
							if x == v {
								return true
							}
						}
						return false
					}
					greater := &guardEv{name: "CompareTimestamp(current, running maximum) > 0", match: func(cond ssa.Value, pos bool) bool {
						r, ok := relOf(cond, pos)
						if !ok {
							return false
						}
						cl, _ := callOf(r.X)
						k, isC := constInt(r.Y)
						if cl == nil || !isC || !cmpTS.Match(cl.Common()) || len(cl.Call.Args) != 2 {
							return false
						}
						fwd := sameVal(cl.Call.Args[0], val) && isRunning(cl.Call.Args[1])
						rev := isRunning(cl.Call.Args[0]) && sameVal(cl.Call.Args[1], val)
						switch {
						case fwd:
							return (r.Op == token.GTR && k >= 0) || (r.Op == token.GEQ && k >= 1)
						case rev:
							return (r.Op == token.LSS && k <= 0) || (r.Op == token.LEQ && k <= -1)
						}
						return false
					}}
					none := guardRel("nothing collected yet", "==", isRunning, isNilConst)
					pred := b.Preds[i]
					last := pred.Instrs[len(pred.Instrs)-1]
					c.need(rule, h, fmt.Sprintf("running maximum replaced #%d", n), func(x ssa.Instruction) bool { return x == last }, []Ev{greater, none}, anyOf,
						"the running maximum is replaced only by a current TSO that compares greater than it (or when nothing was collected yet)")
				}
			}
		}
	}
	if n == 0 {
		c.Undec(rule, "running maximum in "+fnName(h), "a local that collects GetCurrentTSO() results", "", "")
	}
	// whatever the shape of the collection: the maximum the handler answers with comes from the allocators' current
	// TSOs, and a dc-location is reported as synchronised only for an allocator this member was found to lead
	pb := "github.com/pingcap/kvproto/pkg/pdpb"
	maxF := P.Field(pb, "SyncMaxTSResponse", "MaxLocalTs")
	k := 0
	for _, st := range storesToField(h, maxF) {
		k++
		c.Check(derivesFrom(st.Val, func(v ssa.Value) bool { cl, _ := callOf(v); return cl != nil && cur.Match(cl.Common()) }, 8), rule,
			fmt.Sprintf("MaxLocalTs answered #%d by %s", k, fnName(h)), "derives from the current TSOs of the local allocators this member leads", P.instrPos(st), "no value flows from GetCurrentTSO() to the answer")
	}
	if k == 0 {
		c.Undec(rule, "MaxLocalTs in the answer of "+fnName(h), "found", P.pos(h.Pos()), "")
	}
	isLeader := F(P.Method("server/tso", "LocalTSOAllocator", "IsAllocatorLeader"))
	getDC := F(P.Method("server/tso", "LocalTSOAllocator", "GetDCLocation"))
	c.need(rule, h, "dc-location reported as synchronised", func(x ssa.Instruction) bool {
		st, ok := x.(*ssa.Store)
		if !ok {
			return false
		}
		_, isIdx := st.Addr.(*ssa.IndexAddr)
		return isIdx && valueIsCallTo(st.Val, getDC)
	}, []Ev{guardCall("IsAllocatorLeader()", true, callMatcher(isLeader))}, all, "only a dc-location whose allocator this member leads at that moment is reported as synchronised")
}
