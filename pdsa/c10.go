package main

import (
	"fmt"
	"go/token"
	"go/types"
	"sort"
	"strings"

	"golang.org/x/tools/go/ssa"
)

const chk = "server/schedule/checker"

func ruleSelectorFilters(c *Ctx) {
	P := c.P
	rule := c.Prop + "/selector-filters"
	sel := P.Method(chk, "ReplicaStrategy", "SelectStoreToAdd")
	c.saw(fnName(sel))
	sets := P.filterSetsIn(sel)
	// order the FilterTarget calls along the candidate chain that ends in PickFirst
	var chain []*FilterSet
	var pick *ssa.Call
	for _, b := range sel.Blocks {
		for _, ins := range b.Instrs {
			if cl, ok := ins.(*ssa.Call); ok && cl.Call.StaticCallee() != nil && cl.Call.StaticCallee().Name() == "PickFirst" {
				pick = cl
			}
		}
	}
	if pick == nil {
		undecidedf("no PickFirst in SelectStoreToAdd")
	}
	var source ssa.Value
	cur := pick.Call.Args[0]
	for i := 0; i < 20 && cur != nil; i++ {
		cl, ok := cur.(*ssa.Call)
		if !ok {
			break
		}
		name := ""
		if cl.Call.StaticCallee() != nil {
			name = cl.Call.StaticCallee().Name()
		}
		if name == "NewCandidates" {
			source = cl.Call.Args[0]
			break
		}
		for _, fs := range sets {
			if fs.Site == ssa.CallInstruction(cl) {
				chain = append([]*FilterSet{fs}, chain...)
			}
		}
		if len(cl.Call.Args) == 0 {
			break
		}
		cur = cl.Call.Args[0]
	}
	if len(chain) < 2 {
		c.Viol(rule, "filter chain in "+fnName(sel), "two filter stages (tolerant, then strict) precede PickFirst", P.instrPos(pick), fmt.Sprintf("%d FilterTarget stages found", len(chain)))
		return
	}
	getStores := P.IMethod("server/schedule/opt", "Cluster", "GetStores")
	c.Check(source != nil && valueIsCallTo(source, getStores), rule, "candidates of "+fnName(sel), "selection starts from all stores of the cluster", P.instrPos(pick), "")
	union := &FilterSet{}
	for _, fs := range chain {
		c.Check(fs.Mode == "target", rule, "stage mode in "+fnName(sel), "stores are filtered as targets", P.instrPos(fs.Site), "")
		union.Elems = append(union.Elems, fs.Elems...)
		union.Unknown = append(union.Unknown, fs.Unknown...)
	}
	c.Info(rule, "resolved filters", union.String(), P.pos(sel.Pos()), "")
	// excluded: stores already holding a peer of the region
	ex := union.has("NewExcludedFilter")
	okEx := false
	if ex != nil && len(ex.Call.Call.Args) == 3 {
		getIDs := F(P.Method("server/core", "RegionInfo", "GetStoreIds"))
		okEx = valueIsCallTo(ex.Call.Call.Args[2], getIDs)
	}
	c.Check(okEx, rule, "NewExcludedFilter in "+fnName(sel), "targets exclude every store that already holds a peer of the region (region.GetStoreIds())", P.pos(sel.Pos()), "")
	c.Check(union.has("NewStorageThresholdFilter") != nil, rule, "NewStorageThresholdFilter in "+fnName(sel), "stores low on space are excluded", P.pos(sel.Pos()), "")
	c.Check(union.has("NewSpecialUseFilter") != nil, rule, "NewSpecialUseFilter in "+fnName(sel), "special-use stores are excluded", P.pos(sel.Pos()), "")
	okState := false
	for _, sf := range union.stateFilters() {
		if sf.Flags["MoveRegion"] {
			okState = true
		}
	}
	c.Check(okState, rule, "StoreStateFilter{MoveRegion} in "+fnName(sel), "down/offline/tombstone/disconnected/busy stores are excluded", P.pos(sel.Pos()), "")
	last := chain[len(chain)-1]
	okStrict := false
	for _, sf := range last.stateFilters() {
		if sf.Flags["MoveRegion"] && !sf.Flags["AllowTemporaryStates"] {
			okStrict = true
		}
	}
	c.Check(okStrict, rule, "last stage before PickFirst in "+fnName(sel), "a strict StoreStateFilter{MoveRegion} (temporary states not allowed) is the final gate", P.instrPos(last.Site), last.String())
	// isolation filter under its guard, caller-supplied and rule filters appended
	c.Check(union.has("NewIsolationFilter") != nil, rule, "NewIsolationFilter in "+fnName(sel), "the isolation level is enforced when location labels and an isolation level are configured", P.pos(sel.Pos()), "")
	extraField := P.Field(chk, "ReplicaStrategy", "extraFilters")
	hasParam, hasField := false, false
	var walk func(v ssa.Value, d int)
	seen := map[ssa.Value]bool{}
	walk = func(v ssa.Value, d int) {
		if v == nil || seen[v] || d < 0 {
			return
		}
		seen[v] = true
		if p, ok := v.(*ssa.Parameter); ok && isFilterSlice(p.Type()) {
			hasParam = true
		}
		if isLoadOf(v, extraField) {
			hasField = true
		}
		if ins, ok := v.(ssa.Instruction); ok {
			var ops []*ssa.Value
			for _, op := range ins.Operands(ops) {
				if *op != nil {
					walk(*op, d-1)
				}
			}
		}
	}
	for _, fs := range chain {
		for _, a := range fs.Site.Common().Args {
			if isFilterSlice(a.Type()) {
				walk(a, 8)
			}
		}
	}
	c.Check(hasParam && hasField, rule, "extra filters in "+fnName(sel), "caller-supplied filters and the strategy's own filters (rule label constraints) are part of the set", P.pos(sel.Pos()), "")
	// ... on every path: each of the two lists is appended unless it is empty
	var filterParam ssa.Value
	for _, p := range sel.Params {
		if isFilterSlice(p.Type()) {
			filterParam = p
		}
	}
	appended := func(name string, src valPred) Ev {
		return &calledEv{name: name + " appended", match: func(x ssa.Instruction) bool {
			cl, ok := x.(*ssa.Call)
			if !ok {
				return false
			}
			b, isB := cl.Call.Value.(*ssa.Builtin)
			if !isB || b.Name() != "append" || len(cl.Call.Args) != 2 || !isFilterSlice(cl.Type()) {
				return false
			}
			// which list is appended may depend on the path (extraFilters = s.extraFilters)
			return derivesFrom(resolved(cl.Call.Args[1]), src, 3) && !isPhiValue(resolved(cl.Call.Args[1]))
		}}
	}
	for _, b := range sel.Blocks {
		for _, ins := range b.Instrs {
			if phi, ok := ins.(*ssa.Phi); ok && isFilterSlice(phi.Type()) {
				trackPhis[sel] = append(trackPhis[sel], phi)
			}
		}
	}
	isParam := func(v ssa.Value) bool { return filterParam != nil && v == filterParam }
	isField := func(v ssa.Value) bool { return isLoadOf(v, extraField) }
	if len(chain) > 0 {
		first := chain[0].Site.(ssa.Instruction)
		c.need(rule, sel, "first filter stage", func(x ssa.Instruction) bool { return x == first },
			[]Ev{appended("caller filters", isParam), guardRel("no caller filters", "== <=", lenOf(isParam), isConstInt(0)),
				appended("strategy filters", isField), guardRel("no strategy filters", "== <=", lenOf(isField), isConstInt(0))},
			func(h []bool) bool { return (h[0] || h[1]) && (h[2] || h[3]) },
			"on every path both the caller's filters and the strategy's own filters (the rule's label constraints) were appended, unless empty")
	}
	// the rule checker's strategy carries the rule's label constraints
	strat := P.Method(chk, "RuleChecker", "strategy")
	okLC := false
	for _, st := range storesToField(strat, extraField) {
		el, _ := P.resolveFilterSlice(st.Val, 1)
		for _, e := range el {
			if e.Kind == "NewLabelConstaintFilter" && len(e.Call.Call.Args) == 2 && isLoadOf(e.Call.Call.Args[1], P.Field("server/schedule/placement", "Rule", "LabelConstraints")) {
				okLC = true
			}
		}
	}
	c.Check(okLC, rule, "strategy of the rule checker", "carries NewLabelConstaintFilter(rule.LabelConstraints)", P.pos(strat.Pos()), "")
	// removal candidates come from the region's own stores
	rm := P.Method(chk, "ReplicaStrategy", "SelectStoreToRemove")
	okRm := false
	for _, b := range rm.Blocks {
		for _, ins := range b.Instrs {
			if cl, ok := ins.(*ssa.Call); ok && cl.Call.StaticCallee() != nil && cl.Call.StaticCallee().Name() == "NewCandidates" {
				if _, isParam := cl.Call.Args[0].(*ssa.Parameter); isParam {
					okRm = true
				}
			}
		}
	}
	c.Check(okRm, rule, "candidates of "+fnName(rm), "a peer to remove is chosen among the region's own stores", P.pos(rm.Pos()), "")
}

// ruleFilterPredicates: what the individual filters test.
func ruleFilterPredicates(c *Ctx) {
	P := c.P
	rule := c.Prop + "/filter-predicates"
	// condition table of StoreStateFilter
	acm := P.Method(filterPkg, "StoreStateFilter", "anyConditionMatch")
	table := map[int64]map[string]bool{}
	for _, b := range acm.Blocks {
		for _, ins := range b.Instrs {
			phi, ok := ins.(*ssa.Phi)
			if !ok {
				continue
			}
			for i, e := range phi.Edges {
				elems, _ := sliceElems(e, map[ssa.Value]bool{})
				if len(elems) == 0 {
					continue
				}
				// the constant this case is guarded by
				pred := phi.Block().Preds[i]
				k := int64(-1)
				for _, pp := range pred.Preds {
					if iff, ok := pp.Instrs[len(pp.Instrs)-1].(*ssa.If); ok && pp.Succs[0] == pred {
						if bo, ok := iff.Cond.(*ssa.BinOp); ok && bo.Op == token.EQL {
							if kk, ok := constInt(bo.Y); ok {
								k = kk
							}
						}
					}
				}
				if k < 0 {
					continue
				}
				table[k] = map[string]bool{}
				for _, el := range elems {
					if mc, ok := strip(el).(*ssa.MakeClosure); ok {
						if g, ok := mc.Fn.(*ssa.Function); ok {
							table[k][strings.TrimSuffix(g.Name(), "$bound")] = true
						}
					}
				}
			}
		}
	}
	cv := func(n string) int64 { v, _ := constIntObj(P.obj(filterPkg, n)); return v }
	need := map[string][]string{
		"regionTarget":        {"isTombstone", "isOffline", "isDown", "isDisconnected", "isBusy"},
		"scatterRegionTarget": {"isTombstone", "isOffline", "isDown", "isDisconnected", "isBusy"},
		"leaderTarget":        {"isTombstone", "isOffline", "isDown", "isDisconnected", "isBusy", "pauseLeaderTransfer", "hasRejectLeaderProperty"},
	}
	var classes []string
	for cl := range need {
		classes = append(classes, cl)
	}
	sort.Strings(classes)
	for _, cl := range classes {
		got := table[cv(cl)]
		var missing []string
		for _, m := range need[cl] {
			if !got[m] {
				missing = append(missing, m)
			}
		}
		c.Check(got != nil && len(missing) == 0, rule, "condition list "+cl, "⊇ {"+strings.Join(need[cl], ", ")+"}", P.pos(acm.Pos()), "missing: "+strings.Join(missing, ", "))
	}
	// each condition tests what its name says
	si := func(m string) Callee { return F(P.Method("server/core", "StoreInfo", m)) }
	for name, getter := range map[string]Callee{"isTombstone": si("IsTombstone"), "isOffline": si("IsOffline"), "isDown": si("DownTime"), "isDisconnected": si("IsDisconnected"), "isBusy": si("IsBusy"), "pauseLeaderTransfer": si("AllowLeaderTransfer")} {
		fn := P.Method(filterPkg, "StoreStateFilter", name)
		c.Check(len(callsIn(fn, false, getter)) > 0, rule, "condition "+name, "tests StoreInfo."+getter.CName()+"()", P.pos(fn.Pos()), "")
	}
	// Target(): each enabled action consults its list and a match rejects
	tg := P.Method(filterPkg, "StoreStateFilter", "Target")
	for _, sp := range []struct{ flag, class string }{{"TransferLeader", "leaderTarget"}, {"MoveRegion", "regionTarget"}} {
		flag := P.Field(filterPkg, "StoreStateFilter", sp.flag)
		k := cv(sp.class)
		called := false
		for _, ci := range callsIn(tg, false, F(acm)) {
			a := callArgs(ci.Common())
			isK := false
			if len(a) >= 1 {
				for _, alt := range valueAlternatives(a[0], 3) { // the list may be chosen into a local first
					if isConstInt(k)(alt) {
						isK = true
					}
				}
			}
			if isK {
				called = true
				// reached only when the flag is set; a match leads straight to `return false`
				_, fails := requireAt(P, tg, 0, []Ev{&guardEv{name: sp.flag, match: func(cond ssa.Value, pos bool) bool { return pos && isLoadOf(cond, flag) }}}, func(x ssa.Instruction) bool { return x == ci.(ssa.Instruction) }, all)
				c.Check(len(fails) == 0, rule, sp.class+" consulted in StoreStateFilter.Target", "when "+sp.flag+" is set", P.instrPos(ci), failDesc(fails))
			}
		}
		c.Check(called, rule, sp.class+" in StoreStateFilter.Target", "the list is consulted", P.pos(tg.Pos()), "")
	}
	c.need(rule, tg, "return true", func(x ssa.Instruction) bool {
		r, ok := x.(*ssa.Return)
		if !ok {
			return false
		}
		b, isC := constBool(retVal(r, 0))
		return isC && b
	}, []Ev{newNoMatchEv(tg, F(acm))}, all, "a store is accepted as target only if no consulted condition matched")
	ruleStateFilterTable(c, cv, acm)
	// label constraint / threshold / excluded filters
	match := F(P.Func("server/schedule/placement", "MatchLabelConstraints"))
	for _, m := range []string{"Source", "Target"} {
		fn := P.Method(filterPkg, "labelConstraintFilter", m)
		okAll := true
		n := 0
		for _, f := range withCallees(fn, 1) {
			if f != fn && fnPkgPath(f) != modPath+"/"+filterPkg {
				continue
			}
			for _, b := range f.Blocks {
				for _, ins := range b.Instrs {
					if r, ok := ins.(*ssa.Return); ok && len(r.Results) == 1 {
						n++
						v := retVal(r, 0)
						if !valueIsCallTo(v, match) {
							if cl, _ := callOf(v); cl == nil || cl.Call.StaticCallee() == nil || fnPkgPath(cl.Call.StaticCallee()) != modPath+"/"+filterPkg {
								okAll = false
							}
						}
					}
				}
			}
		}
		c.Check(okAll && n > 0, rule, "labelConstraintFilter."+m, "the verdict is MatchLabelConstraints(store, constraints) on every path (exclusive labels are honoured even for an empty constraint list)", P.pos(fn.Pos()), "a path decides without MatchLabelConstraints")
	}
	th := P.Method(filterPkg, "storageThresholdFilter", "Target")
	c.Check(len(callsIn(th, false, si("IsLowSpace"))) > 0, rule, "storageThresholdFilter.Target", "rejects stores that are low on space", P.pos(th.Pos()), "")
	ext := P.Method(filterPkg, "excludedFilter", "Target")
	targets := P.Field(filterPkg, "excludedFilter", "targets")
	okE := false
	for _, b := range ext.Blocks {
		for _, ins := range b.Instrs {
			if l, ok := ins.(*ssa.Lookup); ok && isLoadOf(l.X, targets) && valueIsCallTo(l.Index, si("GetID")) {
				okE = true
			}
		}
	}
	c.Check(okE, rule, "excludedFilter.Target", "looks the store's id up in the excluded target set", P.pos(ext.Pos()), "")
	// the selection helpers apply every filter: no iteration skips filter.Target
	for _, name := range []string{"Target"} {
		fn := P.Func(filterPkg, name)
		im := P.IMethod(filterPkg, "Filter", "Target")
		okLoop := false
		for _, l := range loopsOf(fn) {
			okLoop = everyIterationCalls(l, func(x ssa.Instruction) bool { return isCallTo(x, im) })
		}
		c.Check(okLoop, rule, "filter."+name, "every filter of the set is evaluated", P.pos(fn.Pos()), "")
	}
}

// noMatchEv: every call of the condition matcher so far took the "no match"
// (false) edge.
type noMatchEv struct {
	*okEv
}

func newNoMatchEv(fn *ssa.Function, cal Callee) *noMatchEv {
	return &noMatchEv{newBoolEv(fn, "no condition matched", false, callMatcher(cal))}
}
func (n *noMatchEv) Instr(st uint8, ins ssa.Instruction) uint8 {
	if c, ok := ins.(*ssa.Call); ok && n.isCall(c) {
		return st | bPEND
	}
	return st
}
func (n *noMatchEv) Edge(st uint8, from *ssa.BasicBlock, succ int) uint8 {
	if st&bPEND == 0 {
		return st
	}
	if iff, ok := from.Instrs[len(from.Instrs)-1].(*ssa.If); ok {
		cond, pos := ifCond(iff, succ == 0)
		if n.carriers[cond] && !pos {
			return st &^ bPEND
		}
	}
	return st
}
func (n *noMatchEv) Holds(st uint8) bool { return st&bPEND == 0 }

func ruleRepairTargets(c *Ctx) {
	P := c.P
	rule := c.Prop + "/target-from-selector"
	storeID := P.Field("github.com/pingcap/kvproto/pkg/metapb", "Peer", "StoreId")
	selNames := map[string]bool{"SelectStoreToAdd": true, "SelectStoreToFix": true, "SelectStoreToImprove": true}
	creators := map[string]bool{"CreateAddPeerOperator": true, "CreateMovePeerOperator": true, "CreateReplaceLeaderPeerOperator": true}
	n := 0
	for _, fn := range P.Funcs {
		if P.isScaffold(fn) || fnPkgPath(fn) != modPath+"/"+chk {
			continue
		}
		for _, b := range fn.Blocks {
			for _, ins := range b.Instrs {
				cl, ok := ins.(*ssa.Call)
				if !ok || cl.Call.StaticCallee() == nil || !creators[cl.Call.StaticCallee().Name()] {
					continue
				}
				// the *metapb.Peer argument
				for _, a := range cl.Call.Args {
					nn := namedOf(a.Type())
					if nn == nil || nn.Obj().Name() != "Peer" {
						continue
					}
					al, ok := valueAlternatives(a, 3)[0].(*ssa.Alloc)
					if !ok {
						continue
					}
					for _, r := range *al.Referrers() {
						fa, ok := r.(*ssa.FieldAddr)
						if !ok || fieldOfAddr(fa) != storeID {
							continue
						}
						for _, rr := range *fa.Referrers() {
							st, ok := rr.(*ssa.Store)
							if !ok || st.Addr != fa {
								continue
							}
							n++
							c.saw(fnName(outer(fn)))
							var scl *ssa.Call
							okSel := true
							for _, alt := range valueAlternatives(st.Val, 3) {
								cl2, _ := callOf(alt)
								if cl2 == nil || cl2.Call.StaticCallee() == nil || !selNames[cl2.Call.StaticCallee().Name()] {
									okSel = false
								} else {
									scl = cl2
								}
							}
							okSel = okSel && scl != nil
							construct := fmt.Sprintf("new peer for %s in %s", cl.Call.StaticCallee().Name(), fnName(outer(fn)))
							c.Check(okSel, rule, construct, "the store of a peer to be added is the result of ReplicaStrategy.SelectStoreTo{Add,Fix,Improve}", P.instrPos(st), "store id comes from elsewhere")
							if okSel {
								// closures capture the selected id: the non-zero test lives in the outer function
								tf := scl.Parent()
								g := guardRel("selected store != 0", "!=", func(v ssa.Value) bool { return v == st.Val || v == ssa.Value(scl) }, isConstInt(0))
								var target ssa.Instruction = st
								if tf != st.Parent() {
									continue
								}
								_, fails := requireAt(P, tf, 0, []Ev{g}, func(x ssa.Instruction) bool { return x == target }, all)
								c.Check(len(fails) == 0, rule, construct+" (found)", "used only when the selector found a store (result != 0)", P.instrPos(st), failDesc(fails))
							}
						}
					}
				}
			}
		}
	}
	if n < 5 {
		c.Undec(rule, "peer literals passed to add/move/replace constructors in checker", "at least 5", "", fmt.Sprint(n))
	}
}

// ruleCoLocationInputs: the isolation of a candidate store is measured against
// the peers that count for the same requirement: the rule checker hands the
// strategy the stores of the rule's own peers (getRuleFitStores), the replica
// checker the stores of the region. With peers of other rules in the set the
// isolation filter rejects stores the rule may use, and a rule short of peers
// is never repaired.
func ruleCoLocationInputs(c *Ctx) {
	P := c.P
	rule := c.Prop + "/co-location-inputs"
	selNames := map[string]bool{"SelectStoreToAdd": true, "SelectStoreToFix": true, "SelectStoreToImprove": true, "SelectStoreToRemove": true}
	fitStores := F(P.Method(chk, "RuleChecker", "getRuleFitStores"))
	regionStores := P.IMethod("server/schedule/opt", "Cluster", "GetRegionStores")
	isRegionStores := func(v ssa.Value) bool {
		cl, _ := callOf(v)
		return cl != nil && (regionStores.Match(cl.Common()) || (cl.Call.StaticCallee() != nil && cl.Call.StaticCallee().Name() == "GetRegionStores") || (cl.Call.IsInvoke() && cl.Call.Method.Name() == "GetRegionStores"))
	}
	nRule, nRepl := 0, 0
	for _, fn := range P.Funcs {
		if P.isScaffold(fn) || fnPkgPath(fn) != modPath+"/"+chk || fn.Signature.Recv() == nil {
			continue
		}
		recv := namedOf(fn.Signature.Recv().Type())
		if recv == nil || (recv.Obj().Name() != "RuleChecker" && recv.Obj().Name() != "ReplicaChecker") {
			continue
		}
		k := 0
		for _, b := range fn.Blocks {
			for _, ins := range b.Instrs {
				cl, ok := ins.(*ssa.Call)
				if !ok || cl.Call.StaticCallee() == nil || !selNames[cl.Call.StaticCallee().Name()] {
					continue
				}
				a := callArgs(&cl.Call)
				if len(a) == 0 {
					continue
				}
				k++
				construct := fmt.Sprintf("co-location set #%d given to %s in %s", k, cl.Call.StaticCallee().Name(), fnName(fn))
				if recv.Obj().Name() == "RuleChecker" {
					nRule++
					c.Check(derivesFrom(a[0], resultOfCall(fitStores), 4) && !derivesFrom(a[0], isRegionStores, 4), rule, construct,
						"the stores of the rule's own peers (getRuleFitStores), so isolation is measured within the rule", P.instrPos(cl), "")
				} else {
					nRepl++
					c.Check(derivesFrom(a[0], isRegionStores, 4), rule, construct, "the stores of the region's peers", P.instrPos(cl), "")
				}
			}
		}
	}
	// "the stores of the region's peers" means all of them, whatever their role: a learner occupies its zone too
	grs := P.Method("server/core", "BasicCluster", "GetRegionStores")
	c.saw(fnName(grs))
	all, restricted := false, ""
	for _, fn := range withCallees(grs, 1) {
		if fn != grs && !(fnPkgPath(fn) == modPath+"/server/core" && fn.Name() == "GetStoreIds") {
			continue
		}
		for _, b := range fn.Blocks {
			for _, ins := range b.Instrs {
				cl, ok := ins.(*ssa.Call)
				if !ok || cl.Call.StaticCallee() == nil {
					continue
				}
				switch cl.Call.StaticCallee().Name() {
				case "GetPeers":
					all = true
				case "GetVoters", "GetLearners", "GetFollowers", "GetFollower", "GetPendingPeers", "GetDownPeers", "GetPendingVoter", "GetDownVoter":
					restricted = cl.Call.StaticCallee().Name()
				}
			}
		}
	}
	c.Check(all && restricted == "", rule, "peers enumerated by "+fnName(grs), "every peer of the region (GetPeers/GetStoreIds), not the peers of one role", P.pos(grs.Pos()), "role-restricted getter "+restricted)
	if nRule < 4 || nRepl < 4 {
		c.Undec(rule, "strategy calls in the rule checker / replica checker", "at least 4 each", "", fmt.Sprintf("%d / %d", nRule, nRepl))
	}
}

// ruleCheckerSelection: which requirement a region is checked against follows
// the placement-rules switch: the rule checker when it is on, the
// learner/replica checkers (max-replicas, location-labels) when it is off. A
// region satisfying its rules must not be "repaired" towards max-replicas.
func ruleCheckerSelection(c *Ctx) {
	P := c.P
	rule := c.Prop + "/checker-selection"
	cr := P.Method("server/schedule", "CheckerController", "CheckRegion")
	enabled := F(P.Method("server/config", "PersistOptions", "IsPlacementRulesEnabled"))
	for _, spec := range []struct {
		typ  string
		want bool
	}{{"RuleChecker", true}, {"ReplicaChecker", false}, {"LearnerChecker", false}} {
		chkFn := F(P.Method(chk, spec.typ, "Check"))
		word := "on"
		if !spec.want {
			word = "off"
		}
		c.need(rule, cr, "call "+spec.typ+".Check", instrCallMatcher(chkFn), []Ev{guardCall("placement rules are "+word, spec.want, callMatcher(enabled))}, all,
			"the "+spec.typ+" runs only while placement rules are "+word)
	}
}

// ruleLabelKeysCaseInsensitive: label keys are matched ignoring case wherever
// stores' labels are looked up or merged (a store registered with `Zone` is in
// zone `zone`). The lookup every filter goes through — GetLabelValue — returns a
// value only under strings.EqualFold(label key, wanted key), as MergeLabels
// does when it decides that two labels are the same.
func ruleLabelKeysCaseInsensitive(c *Ctx) {
	P := c.P
	rule := c.Prop + "/filter-predicates"
	isFold := func(cl *ssa.Call) bool {
		f := cl.Call.StaticCallee()
		return f != nil && f.Pkg != nil && f.Pkg.Pkg.Path() == "strings" && f.Name() == "EqualFold"
	}
	glv := P.Method("server/core", "StoreInfo", "GetLabelValue")
	getValue := F(P.Method("github.com/pingcap/kvproto/pkg/metapb", "StoreLabel", "GetValue"))
	valueF := P.Field("github.com/pingcap/kvproto/pkg/metapb", "StoreLabel", "Value")
	c.need(rule, glv, "answer with a label's value", func(x ssa.Instruction) bool {
		r, ok := x.(*ssa.Return)
		return ok && len(r.Results) == 1 && derivesFrom(retVal(r, 0), orPred(resultOfCall(getValue), loadOfField(valueF)), 3)
	}, []Ev{guardCall("strings.EqualFold(label key, key)", true, isFold), guardRel("ToLower(label key) == ToLower(key)", "==", isCaseFolded, isCaseFolded)}, anyOf, "a label is the wanted one when its key equals the wanted key ignoring case")
	ml := P.Method("server/core", "StoreInfo", "MergeLabels")
	n := 0
	for _, b := range ml.Blocks {
		for _, ins := range b.Instrs {
			if cl, ok := ins.(*ssa.Call); ok && isFold(cl) {
				n++
			}
		}
	}
	c.Check(n > 0, rule, "same-label test in "+fnName(ml), "strings.EqualFold on the keys (the same notion of 'same key' as the lookup)", P.pos(ml.Pos()), "")
}

func ruleShrinkOnlyWhenExtra(c *Ctx) {
	P := c.P
	rule := c.Prop + "/shrink-only-when-extra"
	remove := F(P.Func("server/schedule/operator", "CreateRemovePeerOperator"))
	voters := F(P.Method("server/core", "RegionInfo", "GetVoters"))
	maxRep := F(P.Method("server/config", "PersistOptions", "GetMaxReplicas"))
	for _, name := range []string{"checkRemoveExtraReplica", "fixPeer"} {
		fn := P.Method(chk, "ReplicaChecker", name)
		c.need(rule, fn, "call CreateRemovePeerOperator", instrCallMatcher(remove),
			[]Ev{guardRel("len(voters) > max-replicas", ">", lenOf(resultOfCall(voters)), resultOfCall(maxRep))}, all,
			"the replica checker removes a peer outright only when the region has more voters than configured")
	}
	// any other removal site in the replica checker
	for _, fn := range P.Funcs {
		if P.isScaffold(fn) || fnPkgPath(fn) != modPath+"/"+chk || fn.Signature.Recv() == nil {
			continue
		}
		rn := namedOf(fn.Signature.Recv().Type())
		if rn == nil {
			continue
		}
		if rn.Obj().Name() == "ReplicaChecker" && fn.Name() != "checkRemoveExtraReplica" && fn.Name() != "fixPeer" {
			c.Check(len(callsIn(fn, true, remove)) == 0, rule, "removal in "+fnName(fn), "no other removal site in the replica checker", P.pos(fn.Pos()), "")
		}
	}
	// rule checker: orphan removal only when there is an orphan and every rule is satisfied
	fo := P.Method(chk, "RuleChecker", "fixOrphanPeers")
	orphans := P.Field("server/schedule/placement", "RegionFit", "OrphanPeers")
	isSat := F(P.Method("server/schedule/placement", "RuleFit", "IsSatisfied"))
	c.need(rule, fo, "call CreateRemovePeerOperator", instrCallMatcher(remove),
		[]Ev{guardRel("len(orphans) != 0", "!= >", lenOf(loadOfField(orphans)), isConstInt(0))}, all, "an orphan is removed only if there is one")
	okLoop := false
	for _, l := range loopsOf(fo) {
		has := false
		for b := range l.blocks {
			for _, ins := range b.Instrs {
				if isCallTo(ins, isSat) {
					has = true
				}
			}
		}
		if has {
			okLoop = everyIterationPasses(l, func(from *ssa.BasicBlock, si int) bool {
				iff, ok := from.Instrs[len(from.Instrs)-1].(*ssa.If)
				if !ok {
					return false
				}
				cond, pos := normCond(iff.Cond, si == 0)
				cl, ok := cond.(*ssa.Call)
				return ok && pos && isSat.Match(cl.Common())
			})
		}
	}
	c.Check(okLoop, rule, "rule loop in "+fnName(fo), "every rule fit passes IsSatisfied() before an orphan may be removed", P.pos(fo.Pos()), "")
	// the removed peer is an orphan
	okArg := false
	for _, ci := range callsIn(fo, false, remove) {
		for _, a := range ci.Common().Args {
			if derivesFrom(a, loadOfField(orphans), 6) {
				okArg = true
			}
		}
	}
	c.Check(okArg, rule, "peer removed by "+fnName(fo), "is one of the orphan peers", P.pos(fo.Pos()), "")
	for _, fn := range P.Funcs {
		if P.isScaffold(fn) || fnPkgPath(fn) != modPath+"/"+chk || fn.Signature.Recv() == nil {
			continue
		}
		rn := namedOf(fn.Signature.Recv().Type())
		if rn != nil && rn.Obj().Name() == "RuleChecker" && fn != fo {
			c.Check(len(callsIn(fn, true, remove)) == 0, rule, "removal in "+fnName(fn), "the rule checker removes peers only as orphans", P.pos(fn.Pos()), "")
		}
	}
	// replacements use the add-then-remove constructors
	for _, name := range []string{"fixPeer", "checkLocationReplacement"} {
		fn := P.Method(chk, "ReplicaChecker", name)
		move := F(P.Func("server/schedule/operator", "CreateMovePeerOperator"))
		c.Check(len(callsIn(fn, false, move)) > 0, rule, "replacement in "+fnName(fn), "a peer is replaced with CreateMovePeerOperator (the replacement is added before the old peer is removed)", P.pos(fn.Pos()), "")
	}
	// make-up only when below the configured count
	mk := P.Method(chk, "ReplicaChecker", "checkMakeUpReplica")
	add := F(P.Func("server/schedule/operator", "CreateAddPeerOperator"))
	peers := F(P.Method("server/core", "RegionInfo", "GetPeers"))
	c.need(rule, mk, "call CreateAddPeerOperator", instrCallMatcher(add), []Ev{guardRel("len(peers) < max-replicas", "<", lenOf(resultOfCall(peers)), resultOfCall(maxRep))}, all, "a replica is made up only when the region has fewer peers than configured")
}

var _ = types.Typ

// ruleLowSpaceAtoms: the storage-threshold filter is `!IsLowSpace`. A store is
// "not low on space" outright (return false) only when it has no statistics yet
// or it is a new store (few regions) whose *available* space is above the
// initial minimum; every other answer is the available-ratio comparison.
func ruleLowSpaceAtoms(c *Ctx) {
	P := c.P
	rule := c.Prop + "/filter-predicates"
	fn := P.Method("server/core", "StoreInfo", "IsLowSpace")
	si := func(m string) Callee { return F(P.Method("server/core", "StoreInfo", m)) }
	maxRegions, ok1 := constIntObj(P.obj("server/core", "initialMaxRegionCounts"))
	minSpace, ok2 := constIntObj(P.obj("server/core", "initialMinSpace"))
	if !ok1 || !ok2 {
		undecidedf("initialMaxRegionCounts / initialMinSpace are not integer constants")
	}
	regionCount := P.Field("server/core", "StoreInfo", "regionCount")
	noStats := guardRel("no statistics yet", "==", resultOfCall(si("GetStoreStats")), isNilConst)
	few := guardRel("region count < initialMaxRegionCounts", "<", orPred(loadOfField(regionCount), resultOfCall(si("GetRegionCount"))), isConstInt(maxRegions))
	room := guardRel("available space > initialMinSpace", ">", resultOfCall(si("GetAvailable")), isConstInt(minSpace))
	c.need(rule, fn, "answer \"not low on space\" without looking at the ratio", func(x ssa.Instruction) bool {
		r, ok := x.(*ssa.Return)
		if !ok || len(r.Results) != 1 {
			return false
		}
		b, isC := constBool(retVal(r, 0))
		return isC && !b
	}, []Ev{noStats, few, room}, func(h []bool) bool { return h[0] || (h[1] && h[2]) },
		"only without statistics, or for a store with few regions whose available (not total) space exceeds the initial minimum")
	ratio := false
	for _, b := range fn.Blocks {
		if r, ok := b.Instrs[len(b.Instrs)-1].(*ssa.Return); ok && len(r.Results) == 1 {
			if bo, ok := retVal(r, 0).(*ssa.BinOp); ok && bo.Op == token.LSS && valueIsCallTo(bo.X, si("AvailableRatio")) {
				ratio = true
			}
		}
	}
	c.Check(ratio, rule, "ratio test in "+fnName(fn), "otherwise low space means available ratio < 1 - lowSpaceRatio", P.pos(fn.Pos()), "")
}

// ruleNoInPlaceCompaction: candidate lists are borrowed — NewCandidates keeps
// the caller's slice, and the checkers pass the same region-store slice to
// several selections in a row. Dropping elements by appending onto a re-slice
// of a borrowed slice (x[:0]) rewrites the caller's elements; subsets must be
// built in a fresh slice. (Reordering in place — Sort, Shuffle, Reverse — and
// shortening — Top — lose nothing.)
func ruleNoInPlaceCompaction(c *Ctx) {
	P := c.P
	rule := c.Prop + "/candidate-lists-not-rewritten"
	n := 0
	for _, fn := range P.Funcs {
		if fnPkgPath(fn) != modPath+"/server/schedule/filter" || P.isScaffold(fn) {
			continue
		}
		k := 0
		for _, b := range fn.Blocks {
			for _, ins := range b.Instrs {
				cl, ok := ins.(*ssa.Call)
				if !ok {
					continue
				}
				bi, isB := cl.Call.Value.(*ssa.Builtin)
				if !isB || bi.Name() != "append" || len(cl.Call.Args) != 2 {
					continue
				}
				n++
				k++
				// roots of the appended-to slice through loop φs and earlier appends
				var borrowed ssa.Value
				seen := map[ssa.Value]bool{}
				var walk func(v ssa.Value, depth int)
				walk = func(v ssa.Value, depth int) {
					if v == nil || seen[v] || depth > 8 {
						return
					}
					seen[v] = true
					switch x := v.(type) {
					case *ssa.Phi:
						for _, e := range x.Edges {
							walk(e, depth+1)
						}
					case *ssa.Call:
						if b2, ok := x.Call.Value.(*ssa.Builtin); ok && b2.Name() == "append" {
							walk(x.Call.Args[0], depth+1)
						}
					case *ssa.Slice:
						// a re-slice shares the backing array of what it slices
						root := x.X
						for {
							if s2, ok := root.(*ssa.Slice); ok {
								root = s2.X
								continue
							}
							break
						}
						switch r := root.(type) {
						case *ssa.Parameter:
							borrowed = r
						case *ssa.UnOp:
							if fieldOfAddr(r.X) != nil {
								borrowed = r
							}
						}
					}
				}
				walk(cl.Call.Args[0], 0)
				c.Check(borrowed == nil, rule, fmt.Sprintf("append #%d in %s", k, fnName(fn)), "never onto a re-slice of a parameter or of a candidate list field (the caller's elements would be overwritten)", P.instrPos(cl), "")
			}
		}
	}
	if n < 5 {
		c.Undec(rule, "appends in server/schedule/filter", "at least 5", "", fmt.Sprintf("found %d", n))
	}
}

func isPhiValue(v ssa.Value) bool { _, ok := v.(*ssa.Phi); return ok }

func init() {
	register("C10", "Replica repair never targets bad stores nor shrinks healthy replication", func(c *Ctx) {
		c.Group("C10/selector-filters", "the store selector's filter chain: excluded (region's stores), storage threshold, special use, store state, isolation, caller and rule filters, and a strict store-state gate last", func() { ruleSelectorFilters(c) })
		c.Group("C10/filter-predicates", "StoreStateFilter's condition lists contain the stated conditions and a match rejects; label-constraint, threshold and excluded filters test what they promise; every filter of a set is evaluated", func() { ruleFilterPredicates(c); ruleLabelKeysCaseInsensitive(c); ruleIsolationFilterFlag(c) })
		c.Group("C10/low-space", "IsLowSpace exempts only stores without statistics or new stores with enough available space", func() { ruleLowSpaceAtoms(c) })
		c.Group("C10/candidate-lists-not-rewritten", "the filter package builds subsets in fresh slices: candidate lists are shared with the caller", func() { ruleNoInPlaceCompaction(c) })
		c.Group("C10/target-from-selector", "every peer added by a checker is placed on the store the selector returned, and only when it returned one", func() { ruleRepairTargets(c) })
		c.Group("C10/co-location-inputs", "the isolation of a candidate is measured against the rule's own peers (rule checker) or the region's peers (replica checker)", func() { ruleCoLocationInputs(c) })
		c.Group("C10/checker-selection", "the rule checker runs only with placement rules on, the replica and learner checkers only with them off", func() { ruleCheckerSelection(c) })
		c.Group("C10/search-state", "(shared with C12) the fit the rule checker's orphan removal relies on: a better fit for a rule clears the fits of all later rules before they are searched again, orphans are exactly the unselected peers", func() { ruleFitSearchDiscipline(c) })
		c.Group("C10/shrink-only-when-extra", "outright removals only with more voters than configured (replica checker) or as orphan with all rules satisfied (rule checker); replacements add before they remove", func() { ruleShrinkOnlyWhenExtra(c); ruleRulePeersCarryTheRuleRole(c); ruleReplacementAddsItsPeer(c) })
	})
}

// isCaseFolded: strings.ToLower(x) or strings.ToUpper(x) — the other spelling
// of a case-insensitive comparison when used on both sides of ==.
func isCaseFolded(v ssa.Value) bool {
	cl, ok := strip(v).(*ssa.Call)
	if !ok {
		return false
	}
	f := cl.Call.StaticCallee()
	return f != nil && f.Pkg != nil && f.Pkg.Pkg.Path() == "strings" && (f.Name() == "ToLower" || f.Name() == "ToUpper")
}

// ruleRulePeersCarryTheRuleRole: a replica the rule checker adds for a rule
// gets that rule's role. A literal without the role is a voter: for a learner
// rule the operator builder then finds no replacement pair (roles differ) and
// plans the removal first, or the region gains a voter nobody asked for.
func ruleRulePeersCarryTheRuleRole(c *Ctx) {
	P := c.P
	rule := c.Prop + "/shrink-only-when-extra"
	mpb := "github.com/pingcap/kvproto/pkg/metapb"
	peerT := P.named(mpb, "Peer")
	storeID := P.Field(mpb, "Peer", "StoreId")
	roleF := P.Field(mpb, "Peer", "Role")
	metaRole := F(P.Method("server/schedule/placement", "PeerRoleType", "MetaPeerRole"))
	ruleRole := P.Field("server/schedule/placement", "Rule", "Role")
	n := 0
	for _, fn := range P.Funcs {
		if P.isScaffold(fn) || fnPkgPath(fn) != modPath+"/"+chk {
			continue
		}
		m := fn
		for m.Parent() != nil {
			m = m.Parent()
		}
		if m.Signature.Recv() == nil {
			continue
		}
		if rn := namedOf(m.Signature.Recv().Type()); rn == nil || rn.Obj().Name() != "RuleChecker" {
			continue
		}
		k := 0
		for _, b := range fn.Blocks {
			for _, ins := range b.Instrs {
				al, ok := ins.(*ssa.Alloc)
				if !ok {
					continue
				}
				if nn := namedOf(al.Type()); nn == nil || nn.Obj() != peerT.Obj() {
					continue
				}
				hasStore, roleOK := false, false
				for _, ref := range *al.Referrers() {
					fa, ok := ref.(*ssa.FieldAddr)
					if !ok {
						continue
					}
					for _, rr := range *fa.Referrers() {
						st, ok := rr.(*ssa.Store)
						if !ok || st.Addr != ssa.Value(fa) {
							continue
						}
						switch fieldOfAddr(fa) {
						case storeID:
							hasStore = true
						case roleF:
							if cl, _ := callOf(st.Val); cl != nil && metaRole.Match(cl.Common()) && derivesFrom(callRecv(cl.Common()), loadOfField(ruleRole), 4) {
								roleOK = true
							}
						}
					}
				}
				if !hasStore {
					continue
				}
				k++
				n++
				c.Check(roleOK, rule, fmt.Sprintf("replica #%d planned in %s", k, fnName(fn)), "a peer planned for a rule carries that rule's role (Role: rule.Role.MetaPeerRole())", P.instrPos(al), "")
			}
		}
	}
	if n < 3 {
		c.Undec(rule, "peers planned by the rule checker", "at least 3 (add, replace, better location)", "", fmt.Sprint(n))
	}
}

// ruleReplacementAddsItsPeer: an operator constructor that removes the peer on
// one store and is handed the peer that replaces it adds that peer; without
// the addition a "replace" is an outright removal and the region shrinks.
func ruleReplacementAddsItsPeer(c *Ctx) {
	P := c.P
	rule := c.Prop + "/shrink-only-when-extra"
	op := "server/schedule/operator"
	peerT := P.named("github.com/pingcap/kvproto/pkg/metapb", "Peer")
	rm := F(P.Method(op, "Builder", "RemovePeer"))
	add := F(P.Method(op, "Builder", "AddPeer"))
	build := F(P.Method(op, "Builder", "Build"))
	n := 0
	for _, fn := range P.Funcs {
		if P.isScaffold(fn) || fnPkgPath(fn) != modPath+"/"+op || fn.Parent() != nil || fn.Signature.Recv() != nil {
			continue
		}
		var peers []ssa.Value
		for _, p := range fn.Params {
			if nn := namedOf(p.Type()); nn != nil && nn.Obj() == peerT.Obj() {
				if _, isPtr := p.Type().(*types.Pointer); isPtr {
					peers = append(peers, p)
				}
			}
		}
		if len(peers) == 0 || len(callsIn(fn, false, rm)) == 0 {
			continue
		}
		n++
		added := &calledEv{name: "AddPeer(the replacement handed in)", match: func(x ssa.Instruction) bool {
			ci, ok := x.(ssa.CallInstruction)
			if !ok || !add.Match(ci.Common()) {
				return false
			}
			for _, a := range callArgs(ci.Common()) {
				for _, p := range peers {
					if sameVal(a, p) {
						return true
					}
				}
			}
			return false
		}}
		c.need(rule, fn, "Build", instrCallMatcher(build), []Ev{added}, all, "a constructor that removes a peer and is handed its replacement adds the replacement")
	}
	if n < 3 {
		c.Undec(rule, "replacement constructors (remove + peer handed in)", "at least 3", "", fmt.Sprint(n))
	}
}

// ruleIsolationFilterFlag: the isolation filter rejects a store whose location
// equals a constraint list in every label — a missing label value is compared
// like any other value (PD treats "no label" as a location of its own at that
// level only through the constraint sets, not by exempting the store). The
// per-label flag is exactly (value == constraint) ∧ (flag so far).
func ruleIsolationFilterFlag(c *Ctx) {
	P := c.P
	rule := c.Prop + "/filter-predicates"
	fn := P.Method(filterPkg, "isolationFilter", "Target")
	c.saw(fnName(fn))
	glv := F(P.Method("server/core", "StoreInfo", "GetLabelValue"))
	isA := func(v ssa.Value) bool {
		bo, ok := v.(*ssa.BinOp)
		return ok && (bo.Op == token.EQL || bo.Op == token.NEQ) && (valueIsCallTo(bo.X, glv) || valueIsCallTo(bo.Y, glv))
	}
	n := 0
	for _, l := range loopsOf(fn) {
		for _, ins := range l.header.Instrs {
			phi, ok := ins.(*ssa.Phi)
			if !ok {
				break
			}
			if bt, isB := phi.Type().Underlying().(*types.Basic); !isB || bt.Info()&types.IsBoolean == 0 {
				continue
			}
			isOld := func(v ssa.Value) bool { return v == ssa.Value(phi) }
			// every way round the loop that is possible for a given (label equal, flag so far) leaves the flag at their conjunction
			okT, detail, back := true, "", 0
			for _, row := range [][3]bool{{true, true, true}, {false, true, false}, {true, false, false}, {false, false, false}} {
				ways := 0
				for i, e := range phi.Edges {
					if i >= len(l.header.Preds) || !l.blocks[l.header.Preds[i]] {
						continue
					}
					back++
					if !flagEdgeFeasible(l.header, i, isA, isOld, row[0], row[1], 6) {
						continue
					}
					ways++
					r, okE := evalFlag(e, isA, isOld, row[0], row[1], 6)
					if !okE || r != row[2] {
						okT = false
						detail = fmt.Sprintf("label equal=%v, flag so far=%v: gives %v (decided: %v), want %v", row[0], row[1], r, okE, row[2])
					}
				}
				if ways == 0 {
					okT, detail = false, fmt.Sprintf("label equal=%v, flag so far=%v: no way round the loop", row[0], row[1])
				}
			}
			if back == 0 {
				continue
			}
			n++
			c.Check(okT, rule, "per-label flag of "+fnName(fn), "(store's label value == constraint) ∧ (flag so far), decided by these two alone", P.instrPos(phi), detail)
		}
	}
	if n == 0 {
		c.Undec(rule, "per-label flag in "+fnName(fn), "a boolean carried round the constraint loop", P.pos(fn.Pos()), "")
	}
}

// ruleStateFilterTable: which condition list StoreStateFilter.Target consults
// is decided by the three flags. Evaluated abstractly (ordeval.go) for every
// flag combination with exactly one list reporting a match: the filter refuses
// exactly when that list is the one the flags select — the leader list with
// TransferLeader, the scatter list with MoveRegion ∧ ScatterRegion, the region
// list with MoveRegion ∧ ¬ScatterRegion — and accepts when nothing matches.
func ruleStateFilterTable(c *Ctx, cv func(string) int64, acm *ssa.Function) {
	P := c.P
	rule := c.Prop + "/filter-predicates"
	tg := P.Method(filterPkg, "StoreStateFilter", "Target")
	flags := map[string]*types.Var{}
	for _, n := range []string{"TransferLeader", "MoveRegion", "ScatterRegion"} {
		flags[n] = P.Field(filterPkg, "StoreStateFilter", n)
	}
	lists := []string{"leaderTarget", "scatterRegionTarget", "regionTarget"}
	okT, detail := true, ""
	for m := 0; m < 8; m++ {
		tl, mv, sc := m&1 != 0, m&2 != 0, m&4 != 0
		enabled := map[string]bool{"leaderTarget": tl, "scatterRegionTarget": mv && sc, "regionTarget": mv && !sc}
		for li := -1; li < len(lists); li++ {
			matching := ""
			if li >= 0 {
				matching = lists[li]
			}
			want := !(matching != "" && enabled[matching])
			got, okE := ordEval(tg, nil, ordAssume{
				val: func(v ssa.Value) (ordVal, bool) {
					for n, f := range flags {
						if isLoadOf(v, f) {
							return ordVal{b: map[string]bool{"TransferLeader": tl, "MoveRegion": mv, "ScatterRegion": sc}[n], kind: 'b'}, true
						}
					}
					return ordVal{}, false
				},
				callv: func(cl *ssa.Call, args []ordVal) (ordVal, bool) {
					if !F(acm).Match(cl.Common()) {
						return ordVal{}, false
					}
					for _, a := range args {
						if a.kind == 'i' {
							return ordVal{b: matching != "" && a.i == cv(matching), kind: 'b'}, true
						}
					}
					return ordVal{}, false
				}}, 2)
			if !okE || got.kind != 'b' || got.b != want {
				okT = false
				detail = fmt.Sprintf("TransferLeader=%v MoveRegion=%v ScatterRegion=%v, only %q matching: answers %v (evaluated: %v), want %v", tl, mv, sc, matching, got.b, okE, want)
			}
		}
	}
	c.Check(okT, rule, "decision table of StoreStateFilter.Target", "each flag combination consults its own condition list (32 evaluations)", P.pos(tg.Pos()), detail)
}
