package main

import (
	"fmt"
	"go/token"
	"go/types"
	"strings"

	"golang.org/x/tools/go/ssa"
)

const plc = "server/schedule/placement"

func ruleCommitOrder(c *Ctx) {
	P := c.P
	rule := c.Prop + "/build-save-commit"
	try := P.Method(plc, "RuleManager", "tryCommitPatch")
	build := F(P.Func(plc, "buildRuleList"))
	save := F(P.Method(plc, "RuleManager", "savePatch"))
	commit := F(P.Method(plc, "ruleConfigPatch", "commit"))
	ruleList := P.Field(plc, "RuleManager", "ruleList")
	initialized := P.Field(plc, "RuleManager", "initialized")
	okBuild := func(fn *ssa.Function) Ev { return newOkEv(fn, "ok(buildRuleList)", callMatcher(build)) }
	okSave := newOkEv(try, "ok(savePatch)", callMatcher(save))
	c.need(rule, try, "publication (patch.commit / m.ruleList =)", func(x ssa.Instruction) bool {
		return isCallTo(x, commit) || isStoreToField(x, ruleList)
	}, []Ev{okBuild(try), okSave}, all, "the served configuration and key-range index change only after the new rule list was built (valid) and the update was saved")
	// the index that is installed is the one that was built from this patch
	for _, st := range storesToField(try, ruleList) {
		c.Check(valueIsCallTo(st.Val, build), rule, "value of m.ruleList in "+fnName(try), "the installed index is the result of buildRuleList for this patch", P.instrPos(st), "")
	}
	// …and the other way round: an update that was saved is what is served from then on — the patch is committed
	// into the served maps and the index built for it is installed before success is reported
	c.mustFollow(rule, try, "savePatch", instrCallMatcher(save), "patch.commit()", instrCallMatcher(commit), errorExit,
		"an update written to storage is committed into the served rule and group maps")
	c.mustFollow(rule, try, "savePatch", instrCallMatcher(save), "m.ruleList = ruleList", func(x ssa.Instruction) bool { return isStoreToField(x, ruleList) }, errorExit,
		"an update written to storage installs the key-range index that was built for it")
	// every entry of the patch reaches storage: each iteration of savePatch's loops writes or deletes its entry
	spF := P.Method(plc, "RuleManager", "savePatch")
	writes := []Callee{F(P.Method("server/core", "Storage", "SaveRule")), F(P.Method("server/core", "Storage", "DeleteRule")),
		F(P.Method("server/core", "Storage", "SaveRuleGroup")), F(P.Method("server/core", "Storage", "DeleteRuleGroup"))}
	nL := 0
	for _, l := range loopsOf(spF) {
		nL++
		c.Check(everyIterationCalls(l, func(x ssa.Instruction) bool { return isCallTo(x, writes...) }), rule, fmt.Sprintf("loop #%d of %s", nL, fnName(spF)),
			"every rule and group of the patch is written to (or deleted from) storage", P.pos(spF.Pos()), "an iteration can pass without a storage write")
	}
	if nL < 2 {
		c.Undec(rule, "loops of "+fnName(spF), "2 (rules, groups)", "", fmt.Sprint(nL))
	}
	// the preparation steps run: deprecated/duplicate entries are normalised before the index is built and no-op
	// entries dropped before the save
	adjust := F(P.Method(plc, "ruleConfigPatch", "adjust"))
	trim := F(P.Method(plc, "ruleConfigPatch", "trim"))
	c.need(rule, try, "call buildRuleList", instrCallMatcher(build), []Ev{&calledEv{name: "patch.adjust()", match: instrCallMatcher(adjust)}}, all, "the patch is adjusted (group links, defaults) before the index is built from it")
	c.need(rule, try, "call savePatch", instrCallMatcher(save), []Ev{&calledEv{name: "patch.trim()", match: instrCallMatcher(trim)}}, all, "entries that change nothing are dropped before the save")
	// savePatch is given the patch's own mutation set
	// Initialize: index and the initialised flag only after a successful build
	ini := P.Method(plc, "RuleManager", "Initialize")
	c.need(rule, ini, "m.ruleList / m.initialized =", func(x ssa.Instruction) bool {
		return isStoreToField(x, ruleList) || isStoreToField(x, initialized)
	}, []Ev{okBuild(ini)}, all, "the manager becomes initialised only with a valid rule list")
	// every writer of ruleList
	c.onlyWrittenBy(c.Prop+"/ownership", ruleList, map[string]string{fnName(try): "commit of a patch", fnName(ini): "initial load"})
	// every public mutator funnels through tryCommitPatch under the write lock
	lock := P.Field(plc, "RuleManager", "RWMutex")
	sites, _ := c.nonScaffoldCallers(try)
	for _, s := range sites {
		okL, tr := heldAt(P, s.Instr.(ssa.Instruction), lock, true)
		c.Check(okL, c.Prop+"/locking", "tryCommitPatch in "+fnName(s.Caller), "called with the manager's write lock held", P.instrPos(s.Instr), tr)
		// the patch committed is the one begun in the same critical section
		// (through the manager's one-line wrapper, or the configuration's own beginPatch)
		begin := F(P.Method(plc, "ruleConfig", "beginPatch"))
		isBegin := resultOfCall(begin)
		if w := P.methodOptR(plc, "RuleManager", "beginPatch"); w != nil {
			isBegin = orPred(isBegin, resultOfCall(F(w)))
		}
		a := callArgs(s.Instr.Common())
		c.Check(len(a) == 1 && derivesFrom(a[0], isBegin, 3), c.Prop+"/locking", "patch committed in "+fnName(s.Caller), "is the patch begun in this critical section", P.instrPos(s.Instr), "")
	}
	c.Floor(c.Prop+"/locking", 14, "commit sites (7 mutators × lock + patch provenance)")
	for _, f := range []string{"ruleConfig", "ruleList", "initialized"} {
		guardedBy(c, c.Prop+"/locking-fields", P.Field(plc, "RuleManager", f), lock, nil)
	}
}

func ruleRuleConfigOwnership(c *Ctx) {
	P := c.P
	rule := c.Prop + "/ownership"
	// the served maps are written only by methods of ruleConfig / ruleConfigPatch.commit and the loaders
	for _, fname := range []string{"rules", "groups"} {
		f := P.Field(plc, "ruleConfig", fname)
		for name, accs := range P.writersOf(f) {
			fn := outer(accs[0].Fn)
			okOwner := false
			if fn.Signature.Recv() != nil {
				if n := namedOf(fn.Signature.Recv().Type()); n != nil {
					switch n.Obj().Name() {
					case "ruleConfig", "ruleConfigPatch":
						okOwner = true
					case "RuleManager":
						isLoader := func(g *ssa.Function) bool {
							return g != nil && (g.Name() == "loadRules" || g.Name() == "loadGroups") && g.Signature.Recv() != nil
						}
						okOwner = isLoader(fn)
						if !okOwner {
							// a per-record method split off a loader: used (called, or handed on as the callback) by the loaders only
							sites, uses := P.CallersAll(fn)
							used, onlyLoaders := false, true
							for _, cs := range sites {
								if P.isScaffold(cs.Caller) {
									continue
								}
								used = true
								if !isLoader(outer(cs.Caller)) {
									onlyLoaders = false
								}
							}
							for _, vu := range uses {
								if P.isScaffold(vu.Parent()) {
									continue
								}
								used = true
								if !isLoader(outer(vu.Parent())) {
									onlyLoaders = false
								}
							}
							okOwner = used && onlyLoaders
						}
					}
				}
			}
			if fn.Name() == "newRuleConfig" {
				okOwner = true
			}
			c.Check(okOwner, rule, "writer "+name+" of ruleConfig."+fname, "only the configuration's own methods, the patch and the loaders write the served maps", P.instrPos(accs[0].Ins), "")
		}
	}
	// direct mutators of the served config are called only from commit / Initialize / loaders
	for _, m := range []string{"setRule", "setGroup", "adjust"} {
		fn := P.Method(plc, "ruleConfig", m)
		c.onlyCalledFrom(rule, fn, map[string]string{
			fnName(P.Method(plc, "ruleConfigPatch", "commit")): "commit",
			fnName(P.Method(plc, "RuleManager", "Initialize")): "initial load",
		})
	}
	c.onlyCalledFrom(rule, P.Method(plc, "ruleConfigPatch", "commit"), map[string]string{fnName(P.Method(plc, "RuleManager", "tryCommitPatch")): "after build and save"})
}

func ruleValidityAtoms(c *Ctx) {
	P := c.P
	rule := c.Prop + "/validity"
	build := P.Func(plc, "buildRuleList")
	prepare := F(P.Func(plc, "prepareRulesForApply"))
	check := F(P.Func(plc, "checkApplyRules"))
	c.saw(fnName(build))
	// checkApplyRules is evaluated on the rules that will actually apply (after rule and group override)
	for _, ci := range callsIn(build, false, check) {
		a := callArgs(ci.Common())
		c.Check(len(a) == 1 && valueIsCallTo(a[0], prepare), rule, "argument of checkApplyRules in "+fnName(build), "the validity test sees the rule set after override (prepareRulesForApply), the same set that is stored as applyRules", P.instrPos(ci), "checked set is not the prepared apply set")
	}
	if len(callsIn(build, false, check)) == 0 {
		c.Viol(rule, "checkApplyRules in "+fnName(build), "called for every segment", P.pos(build.Pos()), "not called")
	}
	applyF := P.Field(plc, "rangeRules", "applyRules")
	for _, st := range storesToField(build, applyF) {
		c.Check(valueIsCallTo(st.Val, prepare), rule, "applyRules stored in "+fnName(build), "is the prepared set that was validated", P.instrPos(st), "")
	}
	okCheck := newOkEv(build, "ok(checkApplyRules)", callMatcher(check))
	rangesF := P.Field(plc, "ruleList", "ranges")
	c.need(rule, build, "append of a segment", func(x ssa.Instruction) bool { return isStoreToField(x, rangesF) }, []Ev{okCheck,
		guardRel("len(rules of segment) != 0", "!= >", lenOf(anyVal), isConstInt(0))}, all, "a segment is indexed only if it has rules and they passed the validity test")
	elemIs := func(name string) valPred {
		return func(v ssa.Value) bool {
			sl, ok := v.Type().Underlying().(*types.Slice)
			if !ok {
				return false
			}
			n := namedOf(sl.Elem())
			return n != nil && n.Obj().Name() == name
		}
	}
	c.atomRejects(rule, build, "no rule at all (no split point)", relMatcher("==", lenOf(elemIs("splitPoint")), isConstInt(0)), errReturn)
	c.atomRejects(rule, build, "a key range covered by no rule", relMatcher("==", lenOf(elemIs("Rule")), isConstInt(0)), errReturn)
	ca := P.Func(plc, "checkApplyRules")
	c.atomRejects(rule, ca, "leader count > 1", relMatcher(">", anyVal, isConstInt(1)), errReturn)
	c.atomRejects(rule, ca, "leader + voter < 1", relMatcher("<", func(v ssa.Value) bool { b, ok := v.(*ssa.BinOp); return ok && b.Op.String() == "+" }, isConstInt(1)), errReturn)
	roleF := P.Field(plc, "Rule", "Role")
	nRole := 0
	for _, b := range ca.Blocks {
		for _, ins := range b.Instrs {
			if bo, ok := ins.(*ssa.BinOp); ok && (isLoadOf(bo.X, roleF) || isLoadOf(bo.Y, roleF)) {
				nRole++
			}
		}
	}
	c.Check(nRole >= 2, rule, "roles counted in "+fnName(ca), "leader and voter rules are counted", P.pos(ca.Pos()), "")
}

// ruleBorrowedImmutable: E9(b) — rules handed out by the manager are served
// objects; nobody writes their exported (persisted) fields.
func ruleBorrowedImmutable(c *Ctx) {
	P := c.P
	rule := c.Prop + "/borrowed-immutable"
	ruleT := P.named(plc, "Rule")
	rm := P.named(plc, "RuleManager")
	// getters: exported methods of RuleManager returning *Rule / []*Rule
	var getters []Callee
	isRuleish := func(t types.Type) bool {
		if n := namedOf(t); n != nil && n.Obj() == ruleT.Obj() {
			_, isPtr := t.Underlying().(*types.Pointer)
			return isPtr
		}
		if s, ok := t.Underlying().(*types.Slice); ok {
			if n := namedOf(s.Elem()); n != nil && n.Obj() == ruleT.Obj() {
				return true
			}
		}
		return false
	}
	var getterNames []string
	for i := 0; i < rm.NumMethods(); i++ {
		m := rm.Method(i)
		if !m.Exported() {
			continue
		}
		sig := m.Type().(*types.Signature)
		for j := 0; j < sig.Results().Len(); j++ {
			if isRuleish(sig.Results().At(j).Type()) {
				if fn := P.SSA.FuncValue(m); fn != nil {
					getters = append(getters, F(fn))
					getterNames = append(getterNames, m.Name())
				}
			}
		}
	}
	if len(getters) < 3 {
		undecidedf("expected at least 3 rule getters on RuleManager, found %v", getterNames)
	}
	fromGetter := func(v ssa.Value) bool {
		for _, g := range getters {
			if valueIsCallTo(v, g) {
				return true
			}
		}
		return false
	}
	n := 0
	for _, fn := range P.Funcs {
		if P.isScaffold(fn) || fnPkgPath(fn) == modPath+"/"+plc {
			continue
		}
		for _, b := range fn.Blocks {
			for _, ins := range b.Instrs {
				st, ok := ins.(*ssa.Store)
				if !ok {
					continue
				}
				fa, ok := st.Addr.(*ssa.FieldAddr)
				if !ok {
					continue
				}
				f := fieldOfAddr(fa)
				nn := namedOf(fa.X.Type())
				if f == nil || nn == nil || nn.Obj() != ruleT.Obj() || !f.Exported() {
					continue
				}
				n++
				c.saw(fnName(fn))
				borrowed := derivesFrom(fa.X, fromGetter, 8)
				c.Check(!borrowed, rule, fmt.Sprintf("write of Rule.%s in %s", f.Name(), fnName(fn)), "the rule written is a private copy, not an object served by the rule manager (an in-place edit is served unvalidated and unpersisted, and SetRule then sees no change)", P.instrPos(st),
					"the written *Rule derives from a RuleManager getter ("+strings.Join(getterNames, ", ")+")")
			}
		}
	}
	c.Info(rule, "scope", fmt.Sprintf("%d writes of exported Rule fields outside the placement package examined", n), "", "")
	if n == 0 {
		c.OK(rule, "writes of exported Rule fields outside placement", "none derive from a served object (none exist)", "")
	}
}

func ruleLoadRepair(c *Ctx) {
	P := c.P
	rule := c.Prop + "/load-and-save-keys"
	load := P.Method(plc, "RuleManager", "loadRules")
	storeKey := F(P.Method(plc, "Rule", "StoreKey"))
	saveRule := F(P.Method("server/core", "Storage", "SaveRule"))
	delRule := F(P.Method("server/core", "Storage", "DeleteRule"))
	// the mismatch test lives in the load callback: it returns with the rule installed only if the key it was stored
	// under is its canonical key, or after queueing the stale key for deletion and the rule for re-saving
	rulesMap := P.Field(plc, "ruleConfig", "rules")
	queuedOf := func(name string, elem func(types.Type) bool) *calledEv {
		return &calledEv{name: name, match: func(x ssa.Instruction) bool {
			st, ok := x.(*ssa.Store)
			if !ok {
				return false
			}
			if _, isFV := st.Addr.(*ssa.FreeVar); !isFV {
				return false
			}
			sl, isSl := st.Val.Type().Underlying().(*types.Slice)
			return isSl && elem(sl.Elem())
		}}
	}
	isString := func(t types.Type) bool {
		bt, isB := t.Underlying().(*types.Basic)
		return isB && bt.Kind() == types.String
	}
	isRulePtr := func(t types.Type) bool {
		pt, isP := t.(*types.Pointer)
		if !isP {
			return false
		}
		nn := namedOf(pt.Elem())
		return nn != nil && nn.Obj().Name() == "Rule"
	}
	found := false
	for _, f := range load.AnonFuncs {
		if !hasComparison(f, "!= ==", func(v ssa.Value) bool { _, ok := v.(*ssa.Parameter); return ok }, resultOfCall(storeKey)) {
			continue
		}
		found = true
		evs := []Ev{
			&calledEv{name: "rules[key] = rule", match: func(x ssa.Instruction) bool {
				mu, ok := x.(*ssa.MapUpdate)
				return ok && isLoadOf(mu.Map, rulesMap)
			}},
			guardRel("k == r.StoreKey()", "==", func(v ssa.Value) bool { _, ok := v.(*ssa.Parameter); return ok }, resultOfCall(storeKey)),
			queuedOf("stale key queued for deletion", isString),
			queuedOf("rule queued for re-saving", isRulePtr),
		}
		c.need(rule, f, "return of the load callback with the rule installed", func(x ssa.Instruction) bool { _, ok := x.(*ssa.Return); return ok }, evs,
			func(h []bool) bool { return !h[0] || h[1] || (h[2] && h[3]) },
			"a rule stored under a key that is not its canonical key is queued for re-saving under the canonical key and the stale key for deletion")
	}
	c.Check(found, rule, "key != r.StoreKey() in "+fnName(load), "a rule stored under a key that is not its canonical key is detected", P.pos(load.Pos()), "")
	// every SaveRule in the package stores a rule under its own StoreKey
	n := 0
	for _, fn := range P.Funcs {
		if P.isScaffold(fn) || fnPkgPath(fn) != modPath+"/"+plc {
			continue
		}
		for _, ci := range callsIn(fn, false, saveRule) {
			n++
			a := callArgs(ci.Common())
			okKey := false
			if len(a) == 2 {
				if cl, _ := callOf(a[0]); cl != nil && storeKey.Match(cl.Common()) && len(cl.Call.Args) == 1 {
					okKey = sameVal(cl.Call.Args[0], a[1]) || derivesFrom(a[1], same(cl.Call.Args[0]), 2)
				}
			}
			c.Check(okKey, rule, "SaveRule in "+fnName(fn), "a rule is saved under its own StoreKey() (what is served is what a restart loads)", P.instrPos(ci), "")
		}
	}
	if n < 3 {
		c.Undec(rule, "SaveRule sites", "at least 3", "", fmt.Sprint(n))
	}
	// every stored entry ends up served or queued for deletion: the callback returns only after it installed the rule
	// or put the key on the list of keys to delete (a refused entry left in storage is refused again at every load,
	// and a mis-keyed one comes back as a duplicate)
	rulesF := P.Field(plc, "ruleConfig", "rules")
	for _, cb := range load.AnonFuncs {
		installs := false
		for _, b := range cb.Blocks {
			for _, ins := range b.Instrs {
				if mu, ok := ins.(*ssa.MapUpdate); ok && isLoadOf(mu.Map, rulesF) {
					installs = true
				}
			}
		}
		if !installs {
			continue
		}
		installed := &calledEv{name: "rules[key] = rule", match: func(x ssa.Instruction) bool {
			mu, ok := x.(*ssa.MapUpdate)
			return ok && isLoadOf(mu.Map, rulesF)
		}}
		queued := &calledEv{name: "key queued for deletion", match: func(x ssa.Instruction) bool {
			st, ok := x.(*ssa.Store)
			if !ok {
				return false
			}
			if _, isFV := st.Addr.(*ssa.FreeVar); !isFV {
				return false
			}
			sl, isSl := st.Val.Type().Underlying().(*types.Slice)
			if !isSl {
				return false
			}
			bt, isB := sl.Elem().Underlying().(*types.Basic)
			return isB && bt.Kind() == types.String
		}}
		c.need(rule, cb, "return of the load callback", func(x ssa.Instruction) bool { _, ok := x.(*ssa.Return); return ok }, []Ev{installed, queued}, anyOf,
			"a stored entry is either installed or its key is queued for deletion")
	}
	// load errors and repair errors propagate
	c.needOnSuccess(rule, load, []Ev{newSettledEv(load, "SaveRule", callMatcher(saveRule)), newSettledEv(load, "DeleteRule", callMatcher(delRule))}, all, "a failed repair write fails the load")
	// repair order: the copy under the canonical key is written before any stale key is deleted, so a
	// failure (or a crash) in between leaves at least one copy for the next load to repair
	c.need(rule, load, "call SaveRule (repair)", instrCallMatcher(saveRule), []Ev{&calledEv{name: "a DeleteRule was issued earlier", match: instrCallMatcher(delRule)}},
		func(h []bool) bool { return !h[0] }, "no stale key is deleted before every repaired rule was re-saved")
	// savePatch: every write error aborts the commit (whatever variable the error travels in)
	sp := P.Method(plc, "RuleManager", "savePatch")
	c.needOnSuccess(rule, sp, []Ev{newSettledEv(sp, "SaveRule", callMatcher(saveRule)), newSettledEv(sp, "DeleteRule", callMatcher(delRule)),
		newSettledEv(sp, "SaveRuleGroup", callMatcher(F(P.Method("server/core", "Storage", "SaveRuleGroup")))),
		newSettledEv(sp, "DeleteRuleGroup", callMatcher(F(P.Method("server/core", "Storage", "DeleteRuleGroup"))))}, all,
		"savePatch reports success only if no storage write failed")
	// adjust: the group every rule is evaluated with is (re)assigned for all rules of the patched view,
	// whatever the patch contains — a rule keeping the group of an earlier, never committed patch is
	// indexed with a group configuration that was rejected
	adj := P.Method(plc, "ruleConfigPatch", "adjust")
	iter := F(P.Method(plc, "ruleConfigPatch", "iterateRules"))
	c.need(rule, adj, "return", func(x ssa.Instruction) bool { _, ok := x.(*ssa.Return); return ok },
		[]Ev{&calledEv{name: "iterateRules(assign group)", match: instrCallMatcher(iter)}}, all,
		"every adjust walks all rules of the patched view (mutated and committed) to assign their group")
	// … and the group assigned is the patched view's: the patch's own group configurations first, the committed
	// ones behind them. Looked up in the committed configuration alone, a patch that changes a group's index or
	// override is validated, indexed and served with the old group while the new one is saved.
	patchGet := F(P.Method(plc, "ruleConfigPatch", "getGroup"))
	groupF := P.Field(plc, "Rule", "group")
	mutGroups := P.Field(plc, "ruleConfig", "groups")
	mutF := P.Field(plc, "ruleConfigPatch", "mut")
	nAssign := 0
	// the assignment is in adjust, in a literal of it, or in a method handed to iterateRules as the callback
	where := append([]*ssa.Function{adj}, adj.AnonFuncs...)
	for _, b := range adj.Blocks {
		for _, ins := range b.Instrs {
			mc, ok := ins.(*ssa.MakeClosure)
			if !ok {
				continue
			}
			g, _ := mc.Fn.(*ssa.Function)
			if g == nil || g.Synthetic == "" {
				continue // a literal: already among the AnonFuncs
			}
			for _, gb := range g.Blocks { // bound-method wrapper: the method it forwards to
				for _, gi := range gb.Instrs {
					if ci, ok := gi.(ssa.CallInstruction); ok {
						if m := ci.Common().StaticCallee(); m != nil && m.Pkg == adj.Pkg {
							where = append(where, m)
						}
					}
				}
			}
		}
	}
	for _, f := range where {
		for _, st := range storesToField(f, groupF) {
			nAssign++
			fromPatch := valueIsCallTo(st.Val, patchGet) || derivesFrom(st.Val, func(v ssa.Value) bool {
				// a lookup in p.mut.groups written in place
				lk, ok := v.(*ssa.Lookup)
				if !ok {
					return false
				}
				return derivesFrom(lk.X, func(w ssa.Value) bool {
					return isLoadOf(w, mutGroups) && derivesFrom(w, loadOfField(mutF), 4)
				}, 3)
			}, 6)
			c.Check(fromPatch, rule, "group assigned in "+fnName(f), "the group a rule is evaluated with comes from the patched view (the patch's own groups first), not from the committed configuration alone", P.instrPos(st), "")
		}
	}
	if nAssign == 0 {
		c.Undec(rule, "assignment of Rule.group in "+fnName(adj), "found", P.pos(adj.Pos()), "")
	}
}

// ruleInitializeOrder: Initialize binds every loaded rule to its group in
// adjust(); the groups (and the rules) must have been loaded by then, or every
// rule is bound to a default group and the persisted index/override is ignored
// until the next update.
func ruleInitializeOrder(c *Ctx) {
	P := c.P
	const plc = "server/schedule/placement"
	rule := c.Prop + "/load-and-save-keys"
	ini := P.Method(plc, "RuleManager", "Initialize")
	adj := F(P.Method(plc, "ruleConfig", "adjust"))
	lr := F(P.Method(plc, "RuleManager", "loadRules"))
	lg := F(P.Method(plc, "RuleManager", "loadGroups"))
	c.need(rule, ini, "call ruleConfig.adjust", instrCallMatcher(adj), []Ev{newOkEv(ini, "ok(loadRules)", callMatcher(lr)), newOkEv(ini, "ok(loadGroups)", callMatcher(lg))}, all,
		"rules are bound to their groups only after both the rules and the group configurations were loaded")
	// LoadRangeByPrefix: the next page starts strictly after the last key delivered
	lp := P.Method("server/core", "Storage", "LoadRangeByPrefix")
	c.saw(fnName(lp))
	okNext := false
	for _, b := range lp.Blocks {
		for _, ins := range b.Instrs {
			if bo, ok := ins.(*ssa.BinOp); ok && bo.Op == token.ADD {
				if sfx, isStr := constString(bo.Y); isStr && sfx == "\x00" {
					if u, ok := strip(bo.X).(*ssa.UnOp); ok {
						if _, isIdx := u.X.(*ssa.IndexAddr); isIdx {
							okNext = true
						}
					}
				}
			}
		}
	}
	loadRange := P.IMethod("server/kv", "Base", "LoadRange")
	okArg := false
	for _, ci := range callsIn(lp, false, loadRange) {
		a := callArgs(ci.Common())
		if len(a) == 3 {
			if phi, ok := a[0].(*ssa.Phi); ok {
				for _, e := range phi.Edges {
					if bo, ok := e.(*ssa.BinOp); ok && bo.Op == token.ADD {
						if sfx, isStr := constString(bo.Y); isStr && sfx == "\x00" {
							okArg = true
						}
					}
				}
				// and nothing else but the prefix
				for _, e := range phi.Edges {
					if _, isAdd := e.(*ssa.BinOp); !isAdd {
						if _, isParam := e.(*ssa.Parameter); !isParam {
							okArg = false
						}
					}
				}
			}
		}
	}
	c.Check(okNext && okArg, rule, "page cursor in "+fnName(lp), "the next page starts at (last key of the page) + \"\\x00\": strictly after it, so no key is delivered twice (a second delivery is treated as a duplicate and deleted)", P.pos(lp.Pos()), "")
}

// ruleSortedRulesIdentity: the sweep that builds the key-range index keeps the
// set of rules active at the current key; the rule leaving the set at its end
// key is identified by its full key (group id, id) — ids are unique only within
// a group.
func ruleSortedRulesIdentity(c *Ctx) {
	P := c.P

	rule := c.Prop + "/index-identity"
	del := P.Method(plc, "sortedRules", "deleteRule")
	rules := P.Field(plc, "sortedRules", "rules")
	key := F(P.Method(plc, "Rule", "Key"))
	gid := P.Field(plc, "Rule", "GroupID")
	id := P.Field(plc, "Rule", "ID")
	var param ssa.Value
	if len(del.Params) == 2 {
		param = del.Params[1]
	}
	isRulePtr := func(v ssa.Value) bool { return param != nil && types.Identical(v.Type(), param.Type()) }
	evs := []Ev{
		guardRel("Key() == Key()", "==", resultOfCall(key), resultOfCall(key)),
		guardRel("the same *Rule", "==", same(param), isRulePtr),
		guardRel("GroupID == GroupID", "==", loadOfField(gid), loadOfField(gid)),
		guardRel("ID == ID", "==", loadOfField(id), loadOfField(id)),
	}
	c.need(rule, del, "removal from the active set", func(x ssa.Instruction) bool { return isStoreToField(x, rules) }, evs,
		func(h []bool) bool { return h[0] || h[1] || (h[2] && h[3]) },
		"the rule removed from the active set is the one with the same (group id, id), not merely the same id")
	// and Key() is built from both
	kf := P.Method(plc, "Rule", "Key")
	c.saw(fnName(kf))
	hasG, hasI := false, false
	for _, b := range kf.Blocks {
		for _, ins := range b.Instrs {
			if v, ok := ins.(ssa.Value); ok {
				hasG = hasG || isLoadOf(v, gid)
				hasI = hasI || isLoadOf(v, id)
			}
		}
	}
	c.Check(hasG && hasI, rule, "Rule.Key()", "built from the group id and the id", P.pos(kf.Pos()), "")
}

// ruleFreshManagerPerTerm: the cluster object outlives leader terms; what a new
// term serves must be what storage holds now, so Start builds a new rule
// manager before it initialises it (an initialised manager does not reload).
// And the order of rules is decided by comparisons, never by the sign of a
// difference that can wrap around.
func ruleFreshManagerPerTerm(c *Ctx) {
	P := c.P
	rule := c.Prop + "/load-and-save-keys"
	start := P.Method("server/cluster", "RaftCluster", "Start")
	rm := P.Field("server/cluster", "RaftCluster", "ruleManager")
	newRM := F(P.Func(plc, "NewRuleManager"))
	ini := F(P.Method(plc, "RuleManager", "Initialize"))
	fresh := &calledEv{name: "c.ruleManager = NewRuleManager(…)", match: func(x ssa.Instruction) bool {
		st, ok := x.(*ssa.Store)
		return ok && fieldOfAddr(st.Addr) == rm && valueIsCallTo(st.Val, newRM)
	}}
	c.need(rule, start, "call RuleManager.Initialize", instrCallMatcher(ini), []Ev{fresh}, all,
		"every start of the cluster (every leader term) initialises a newly created rule manager, so the rules are loaded from storage again")
	cmp := P.Func(plc, "compareRule")
	c.saw(fnName(cmp))
	okConst, n := true, 0
	for _, b := range cmp.Blocks {
		r, ok := b.Instrs[len(b.Instrs)-1].(*ssa.Return)
		if !ok || len(r.Results) != 1 {
			continue
		}
		for _, alt := range valueAlternatives(retVal(r, 0), 4) {
			n++
			if derivesFrom(alt, func(v ssa.Value) bool { b, ok := v.(*ssa.BinOp); return ok && b.Op == token.SUB }, 3) {
				okConst = false
			}
		}
	}
	c.Check(okConst && n > 0, c.Prop+"/index-identity", "results of "+fnName(cmp), "−1, 0 or 1 decided by comparisons (a returned difference changes sign when it overflows, and the order stops being transitive)", P.pos(cmp.Pos()), "")
}

// ruleRangeRulesOwnSlice: the sweep keeps one active set and edits it in place
// (insertRule/deleteRule shift elements). What a finished segment stores must
// therefore be its own copy — only the very last segment may keep the set
// itself, nothing is edited after it.
func ruleRangeRulesOwnSlice(c *Ctx) {
	P := c.P
	rule := c.Prop + "/index-identity"
	fn := P.Func(plc, "buildRuleList")
	rulesF := P.Field(plc, "rangeRules", "rules")
	c.saw(fnName(fn))
	isClone := func(v ssa.Value) bool {
		cl, _ := callOf(v)
		if cl == nil {
			return false
		}
		b, ok := cl.Call.Value.(*ssa.Builtin)
		if !ok || len(cl.Call.Args) == 0 {
			return false
		}
		switch b.Name() {
		case "append":
			sl, ok := strip(cl.Call.Args[0]).(*ssa.Slice)
			if ok && sl.Max != nil && isConstInt(0)(sl.Max) {
				return true
			}
			return isNilConst(cl.Call.Args[0])
		}
		return false
	}
	n := 0
	for _, st := range storesToField(fn, rulesF) {
		n++
		construct := fmt.Sprintf("rules stored for a segment #%d in %s", n, fnName(fn))
		req := "a copy of the active set (append onto a zero-capacity slice), except for the last segment"
		if isClone(st.Val) {
			c.OK(rule, construct, req, P.instrPos(st))
			continue
		}
		phi, ok := st.Val.(*ssa.Phi)
		if !ok {
			c.Viol(rule, construct, req, P.instrPos(st), "the stored slice is the active set itself")
			continue
		}
		trackPhis[fn] = append(trackPhis[fn], phi)
		cloned := &calledEv{name: "stored slice is a fresh copy on this path", match: func(x ssa.Instruction) bool { return x == ssa.Instruction(phi) && isClone(resolved(phi)) },
			reset: func(x ssa.Instruction) bool { return x == ssa.Instruction(phi) }}
		last := guardRel("last split point", "==", anyVal, func(v ssa.Value) bool {
			b, ok := strip(v).(*ssa.BinOp)
			return ok && b.Op == token.SUB && lenOf(anyVal)(b.X) && isConstInt(1)(b.Y)
		})
		s := st
		_, fails := requireAt(P, fn, 0, []Ev{cloned, last}, func(x ssa.Instruction) bool { return x == ssa.Instruction(s) }, anyOf)
		c.Check(len(fails) == 0, rule, construct, req, P.instrPos(st), failDesc(fails))
	}
	if n == 0 {
		c.Undec(rule, "segments built in "+fnName(fn), "a store to rangeRules.rules", "", "")
	}
}

func init() {
	register("C13", "Placement rule updates are all-or-nothing and the key-range index is exact", func(c *Ctx) {
		c.Group("C13/build-save-commit", "an update is published (config maps and key-range index) only after the new index was built and the update saved; every mutator commits its own patch under the write lock", func() { ruleCommitOrder(c) })
		c.Group("C13/ownership", "the served maps and index are written only by the configuration's own methods, the patch commit and the loaders", func() { ruleRuleConfigOwnership(c) })
		c.Group("C13/validity", "every segment is validated on the rule set that will apply (after override): non-empty, one leader at most, at least one voter or leader", func() { ruleValidityAtoms(c) })
		c.Group("C13/index-identity", "the sweep building the key-range index drops a rule from the active set by its full (group id, id) key", func() { ruleSortedRulesIdentity(c); ruleRangeRulesOwnSlice(c) })
		c.Group("C13/key-format", "(shared with C17) rules and rule groups are saved, loaded and deleted under one path prefix each", func() { ruleKeyFamilies(c) })
		c.Group("C13/borrowed-immutable", "rules handed out by the manager are never edited in place", func() { ruleBorrowedImmutable(c) })
		c.Group("C13/load-and-save-keys", "rules are saved under their canonical key, mis-keyed entries are repaired at load, write errors abort", func() {
			ruleLoadRepair(c)
			ruleInitializeOrder(c)
			ruleFreshManagerPerTerm(c)
			ruleLoadedRecordsAreDistinct(c)
			ruleGroupDefaultness(c)
		})
	})
}

// ruleLoadedRecordsAreDistinct: each record loaded back is decoded into an
// object of its own. The load callbacks keep a pointer to what they decoded (in
// the rule / group maps, in the repair list); a decode target declared outside
// the callback is one object shared by every entry, which then all read as the
// record loaded last.
func ruleLoadedRecordsAreDistinct(c *Ctx) {
	P := c.P
	rule := c.Prop + "/load-and-save-keys"
	n := 0
	for _, name := range []string{"loadRules", "loadGroups"} {
		fn := P.Method(plc, "RuleManager", name)
		c.saw(fnName(fn))
		for _, cb := range fn.AnonFuncs {
			k := 0
			for _, b := range cb.Blocks {
				for _, ins := range b.Instrs {
					var kept ssa.Value
					switch x := ins.(type) {
					case *ssa.MapUpdate:
						kept = x.Value
					case *ssa.Store:
						// an element of a list being appended to (append(list, &r) stores into the new backing array)
						if _, isIdx := x.Addr.(*ssa.IndexAddr); isIdx {
							kept = x.Val
						}
					}
					if kept == nil {
						continue
					}
					// a pointer to a record type of this package (*Rule, *RuleGroup)
					pt, isPtr := kept.Type().Underlying().(*types.Pointer)
					if !isPtr {
						continue
					}
					if nn := namedOf(pt.Elem()); nn == nil || nn.Obj().Pkg() == nil || nn.Obj().Pkg().Path() != modPath+"/"+plc {
						continue
					}
					k++
					n++
					own := true
					for _, alt := range valueAlternatives(kept, 3) {
						switch a := strip(alt).(type) {
						case *ssa.Alloc:
							own = own && a.Parent() == cb
						case *ssa.Call:
							// a constructor's result
						case *ssa.Const:
							// nil (an entry that is refused is not kept)
						case *ssa.Extract:
							// one result of a decoding helper: fresh if the helper returns its own allocations there
							cl, ok := a.Tuple.(*ssa.Call)
							own = own && ok && returnsFresh(cl.Call.StaticCallee(), a.Index)
						default:
							own = false
						}
					}
					c.Check(own, rule, fmt.Sprintf("record kept #%d by the callback of %s", k, fnName(fn)), "the object a load callback keeps was created in that call of the callback: one object per stored record", P.instrPos(ins), fmt.Sprintf("the kept pointer (%T %s) refers to an object that outlives the callback (shared by every record)", strip(kept), strip(kept).String()))
				}
			}
		}
	}
	if n < 2 {
		c.Undec(rule, "objects kept by the load callbacks of the rule manager", "at least 2 (rules, groups)", "", fmt.Sprint(n))
	}
}

// returnsFresh: every value fn returns at result index idx is an object
// allocated in fn (or nil, or itself a call's result).
func returnsFresh(fn *ssa.Function, idx int) bool {
	if fn == nil || len(fn.Blocks) == 0 {
		return false
	}
	n := 0
	for _, b := range fn.Blocks {
		r, ok := b.Instrs[len(b.Instrs)-1].(*ssa.Return)
		if !ok || idx >= len(r.Results) {
			continue
		}
		for _, v := range valueAlternatives(r.Results[idx], 3) {
			switch x := strip(v).(type) {
			case *ssa.Alloc:
				if x.Parent() != fn {
					return false
				}
				n++
			case *ssa.Call:
				n++
			case *ssa.Const:
				// nil
			default:
				return false
			}
		}
	}
	return n > 0
}

// ruleGroupDefaultness: a rule group is "default" — not persisted, not listed —
// only when it carries no configuration at all: index 0 and no override. A
// group with an override that counts as default is applied to the served rules
// but never saved.
func ruleGroupDefaultness(c *Ctx) {
	P := c.P
	rule := c.Prop + "/load-and-save-keys"
	fn := P.Method(plc, "RuleGroup", "isDefault")
	idx := P.Field(plc, "RuleGroup", "Index")
	ov := P.Field(plc, "RuleGroup", "Override")
	okT, detail := true, ""
	for _, zeroIdx := range []bool{true, false} {
		for _, override := range []bool{true, false} {
			want := zeroIdx && !override
			z, o := zeroIdx, override
			got, okE := ordEval(fn, nil, ordAssume{
				cmp: func(x, y ssa.Value) (int, bool) {
					if isLoadOf(x, idx) {
						if k, isC := constInt(y); isC && k == 0 {
							if z {
								return 0, true
							}
							return 1, true
						}
					}
					return 0, false
				},
				val: func(v ssa.Value) (ordVal, bool) {
					if isLoadOf(v, ov) {
						return ordVal{b: o, kind: 'b'}, true
					}
					return ordVal{}, false
				}}, 2)
			if !okE || got.kind != 'b' || got.b != want {
				okT = false
				detail = fmt.Sprintf("index zero=%v override=%v: answers %v (evaluated: %v), want %v", z, o, got.b, okE, want)
			}
		}
	}
	c.Check(okT, rule, "truth table of "+fnName(fn), "default ⇔ index == 0 ∧ no override (all four combinations)", P.pos(fn.Pos()), detail)
}
