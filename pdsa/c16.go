package main

import (
	"fmt"
	"go/token"
	"go/types"

	"golang.org/x/tools/go/ssa"
)

// ruleSyncArrays: E8 at every SyncRegionResponse literal.
func ruleSyncArrays(c *Ctx) {
	P := c.P
	rule := c.Prop + "/slice-congruence"
	pdpb := "github.com/pingcap/kvproto/pkg/pdpb"
	resp := P.named(pdpb, "SyncRegionResponse")
	fRegions := P.Field(pdpb, "SyncRegionResponse", "Regions")
	fStats := P.Field(pdpb, "SyncRegionResponse", "RegionStats")
	fLeaders := P.Field(pdpb, "SyncRegionResponse", "RegionLeaders")
	n := 0
	for _, fn := range P.Funcs {
		if P.isScaffold(fn) || fnPkgPath(fn) == pdpb {
			continue
		}
		var vn *lenVN
		for _, b := range fn.Blocks {
			for _, ins := range b.Instrs {
				a, ok := ins.(*ssa.Alloc)
				if !ok {
					continue
				}
				nn := namedOf(a.Type())
				if nn == nil || nn.Obj() != resp.Obj() {
					continue
				}
				vals := map[*types.Var]ssa.Value{}
				for _, r := range *a.Referrers() {
					fa, ok := r.(*ssa.FieldAddr)
					if !ok {
						continue
					}
					f := fieldOfAddr(fa)
					for _, rr := range *fa.Referrers() {
						if st, ok := rr.(*ssa.Store); ok && st.Addr == fa {
							vals[f] = st.Val
						}
					}
				}
				if vals[fRegions] == nil {
					continue // keep-alive message: no regions
				}
				n++
				c.saw(fnName(fn))
				if vn == nil {
					vn = newLenVN(fn)
				}
				construct := fmt.Sprintf("SyncRegionResponse literal in %s", fnName(fn))
				if n > 1 {
					construct += fmt.Sprintf(" @%s", map[bool]string{true: "full", false: "incremental"}[loopsContain(fn, a.Block())])
				}
				lr := vn.lenOf(vals[fRegions], 0)
				for _, f := range []*types.Var{fStats, fLeaders} {
					if vals[f] == nil {
						c.Viol(rule, construct+" "+f.Name(), "set together with Regions", P.instrPos(a), "field not set")
						continue
					}
					lf := vn.lenOf(vals[f], 0)
					c.Check(lf == lr, rule, construct+" "+f.Name(), "len("+f.Name()+") is congruent to len(Regions) on every path and iteration (entry i describes region i)", P.instrPos(a),
						fmt.Sprintf("len(Regions) = %s but len(%s) = %s", lr, f.Name(), lf))
				}
			}
		}
	}
	if n < 3 {
		c.Undec(rule, "SyncRegionResponse literals carrying regions", "at least 3 (broadcast, full sync, incremental sync)", "", fmt.Sprint(n))
	}
}

func loopsContain(fn *ssa.Function, b *ssa.BasicBlock) bool {
	for _, l := range loopsOf(fn) {
		if l.blocks[b] {
			return true
		}
	}
	return false
}

// leftFromLoopBody: block b lies outside every loop but is entered from inside
// a loop body (not from a loop's own exit test): the target of a `return`
// or `break` written inside the loop. Return blocks are never part of a natural
// loop, so "is this return inside the loop" has to be asked this way.
func leftFromLoopBody(fn *ssa.Function, b *ssa.BasicBlock) bool {
	for _, p := range b.Preds {
		for _, l := range loopsOf(fn) {
			if l.blocks[p] && p != l.header {
				return true
			}
		}
	}
	return false
}

// ruleLeaderPlaceholder: a region without leader is sent with an empty peer,
// never with nil and never skipped (history path).
func ruleLeaderPlaceholder(c *Ctx) {
	P := c.P
	rule := c.Prop + "/leader-placeholder"
	fn := P.Method("server/region_syncer", "RegionSyncer", "syncHistoryRegion")
	c.saw(fnName(fn))
	peer := P.named("github.com/pingcap/kvproto/pkg/metapb", "Peer")
	getLeader := F(P.Method("server/core", "RegionInfo", "GetLeader"))
	isPeerPtrSlice := func(t types.Type) bool {
		s, ok := t.Underlying().(*types.Slice)
		if !ok {
			return false
		}
		n := namedOf(s.Elem())
		return n != nil && n.Obj() == peer.Obj()
	}
	// does any entry written to a leader list take the region's leader?
	someEntryIsTheLeader := false
	for _, b := range fn.Blocks {
		for _, ins := range b.Instrs {
			if st, ok := ins.(*ssa.Store); ok {
				if _, isIdx := st.Addr.(*ssa.IndexAddr); isIdx {
					for _, alt := range valueAlternatives(st.Val, 3) {
						if valueIsCallTo(alt, getLeader) {
							someEntryIsTheLeader = true
						}
					}
				}
			}
		}
	}
	check := func(elem ssa.Value, at ssa.Instruction, what string) {
		okAll := true
		detail := ""
		for _, v := range valueAlternatives(elem, 3) {
			if _, isAlloc := v.(*ssa.Alloc); isAlloc {
				continue
			}
			if valueIsCallTo(v, getLeader) {
				continue // validated below: used only under != nil
			}
			okAll = false
			detail = "unexpected element " + v.String()
		}
		phi, isPhi := elem.(*ssa.Phi)
		hasAlloc := false
		if isPhi {
			for _, e := range phi.Edges {
				if _, ok := e.(*ssa.Alloc); ok {
					hasAlloc = true
				}
			}
		} else if _, ok := elem.(*ssa.Alloc); ok {
			hasAlloc = true
		}
		if !hasAlloc && okAll {
			// the two cases may be written as two appends: this one is then reached only with a non-nil leader
			// (the other branch appends the empty peer)
			nn := guardRel("the region's leader is not nil", "!=", func(v ssa.Value) bool {
				for _, alt := range valueAlternatives(elem, 3) {
					if sameVal(v, alt) {
						return true
					}
				}
				return valueIsCallTo(v, getLeader)
			}, isNilConst)
			_, fails := requireAt(P, fn, 0, []Ev{nn}, func(x ssa.Instruction) bool { return x == at }, all)
			hasAlloc = len(fails) == 0
		}
		// the region's leader is one of the alternatives, and it is the one taken exactly when there is a leader
		hasLeader := false
		for _, v := range valueAlternatives(elem, 3) {
			if valueIsCallTo(v, getLeader) {
				hasLeader = true
			}
		}
		if !hasLeader {
			// the placeholder written as an append of its own: it must be the branch taken without a leader, and the
			// function must file the leader itself somewhere
			nilEdge := guardRel("the region's leader is nil", "==", resultOfCall(getLeader), isNilConst)
			_, fails := requireAt(P, fn, 0, []Ev{nilEdge}, func(x ssa.Instruction) bool { return x == at }, all)
			if len(fails) > 0 || !someEntryIsTheLeader {
				okAll, detail = false, "the region's own leader is never the entry"
			}
		}
		if isPhi && okAll {
			nn := guardRel("the region's leader is not nil", "!=", resultOfCall(getLeader), isNilConst)
			for i, e := range phi.Edges {
				if i >= len(phi.Block().Preds) {
					continue
				}
				pred := phi.Block().Preds[i]
				last := pred.Instrs[len(pred.Instrs)-1]
				_, fails := requireAt(P, fn, 0, []Ev{nn}, func(x ssa.Instruction) bool { return x == last }, all)
				if valueIsCallTo(e, getLeader) && len(fails) > 0 {
					okAll, detail = false, "the leader is taken without having been found non-nil"
				}
				if _, isAlloc := e.(*ssa.Alloc); isAlloc && len(fails) == 0 {
					okAll, detail = false, "the empty peer is taken although the leader was found non-nil"
				}
			}
		}
		c.Check(okAll && hasAlloc, rule, what+" in "+fnName(fn), "the leader entry is the region's leader or, when it has none, a fresh empty peer", P.instrPos(at), detail+map[bool]string{true: "", false: " (no empty-peer alternative)"}[hasAlloc])
	}
	n := 0
	for _, b := range fn.Blocks {
		for _, ins := range b.Instrs {
			switch x := ins.(type) {
			case *ssa.Call:
				if bi, ok := x.Call.Value.(*ssa.Builtin); ok && bi.Name() == "append" && isPeerPtrSlice(x.Type()) {
					elems, _ := sliceElems(x.Call.Args[1], map[ssa.Value]bool{})
					for _, e := range elems {
						n++
						check(e, x, fmt.Sprintf("leader appended #%d", n))
					}
				}
			case *ssa.Store:
				if ia, ok := x.Addr.(*ssa.IndexAddr); ok && isPeerPtrSlice(ia.X.Type()) {
					n++
					check(x.Val, x, fmt.Sprintf("leader assigned #%d", n))
				}
			}
		}
	}
	if n < 2 {
		c.Undec(rule, "leader entries in "+fnName(fn), "at least 2 (full and incremental)", "", fmt.Sprint(n))
	}
}

func ruleHistoryBuffer(c *Ctx) {
	P := c.P
	const rs = "server/region_syncer"
	lock := P.Field(rs, "historyBuffer", "RWMutex")
	for _, f := range []string{"index", "records", "head", "tail", "flushCount"} {
		guardedBy(c, c.Prop+"/history-lock", P.Field(rs, "historyBuffer", f), lock, nil)
	}
	rule := c.Prop + "/history-flush"
	rec := P.Method(rs, "historyBuffer", "Record")
	persist := F(P.Method(rs, "historyBuffer", "persist"))
	flush := P.Field(rs, "historyBuffer", "flushCount")
	index := P.Field(rs, "historyBuffer", "index")
	def, ok := constIntObj(P.obj(rs, "defaultFlushCount"))
	c.Check(ok && def == 100, rule, "defaultFlushCount", "== 100 (the index survives a restart within 100 records)", P.pos(P.obj(rs, "defaultFlushCount").Pos()), fmt.Sprint(def))
	c.need(rule, rec, "call persist", instrCallMatcher(persist), []Ev{guardRel("flushCount <= 0", "<= <", loadOfField(flush), isConstInt(0))}, all, "the index is persisted when the flush counter is used up")
	// the re-arm value: the constant itself, or a field of the buffer that only ever holds that constant
	isDef := func(v ssa.Value) bool {
		if isConstInt(def)(v) {
			return true
		}
		f := loadedField(v)
		if f == nil || f == flush {
			return false
		}
		n := 0
		for _, fn := range P.Funcs {
			if fnPkgPath(fn) != modPath+"/"+rs {
				continue
			}
			for _, st := range storesToField(fn, f) {
				n++
				if !isConstInt(def)(st.Val) {
					return false
				}
			}
		}
		return n > 0
	}
	// every return of Record: index incremented, flushCount decremented; after persist the counter is re-armed
	inc := &calledEv{name: "index++", match: func(x ssa.Instruction) bool {
		st, ok := x.(*ssa.Store)
		if !ok || fieldOfAddr(st.Addr) != index {
			return false
		}
		b, ok := st.Val.(*ssa.BinOp)
		return ok && b.Op == token.ADD && isLoadOf(b.X, index) && isConstInt(1)(b.Y)
	}}
	dec := &calledEv{name: "flushCount--", match: func(x ssa.Instruction) bool {
		st, ok := x.(*ssa.Store)
		if !ok || fieldOfAddr(st.Addr) != flush {
			return false
		}
		b, ok := st.Val.(*ssa.BinOp)
		return ok && b.Op == token.SUB && isLoadOf(b.X, flush) && isConstInt(1)(b.Y)
	}}
	persisted := &calledEv{name: "persist()", match: instrCallMatcher(persist)}
	rearmed := &calledEv{name: "flushCount = defaultFlushCount", match: func(x ssa.Instruction) bool {
		st, ok := x.(*ssa.Store)
		return ok && fieldOfAddr(st.Addr) == flush && isDef(st.Val)
	}, reset: instrCallMatcher(persist)}
	exhausted := guardRel("flushCount <= 0", "<= <", loadOfField(flush), isConstInt(0))
	c.need(rule, rec, "return", func(x ssa.Instruction) bool { _, ok := x.(*ssa.Return); return ok }, []Ev{inc, dec, persisted, rearmed, exhausted}, func(h []bool) bool {
		return h[0] && h[1] && (!h[4] || h[2]) && (!h[2] || h[3])
	}, "every record advances the index and the flush counter; an exhausted counter persists the index and is re-armed to defaultFlushCount")
	// persist saves nextIndex
	pf := P.Method(rs, "historyBuffer", "persist")
	save := P.IMethod("server/kv", "Base", "Save")
	okSave := false
	for _, ci := range callsIn(pf, false, save) {
		if a := callArgs(ci.Common()); len(a) == 2 && derivesFrom(a[1], func(v ssa.Value) bool {
			return valueIsCallTo(v, F(P.Method(rs, "historyBuffer", "nextIndex"))) || isLoadOf(v, index)
		}, 5) {
			okSave = true
		}
	}
	c.Check(okSave, rule, "persist", "saves the next index", P.pos(pf.Pos()), "")
	// RecordsFrom hands out a copy, never a view of the ring
	rule = c.Prop + "/history-no-alias"
	records := P.Field(rs, "historyBuffer", "records")
	for _, name := range []string{"RecordsFrom"} {
		fn := P.Method(rs, "historyBuffer", name)
		c.saw(fnName(fn))
		for _, b := range fn.Blocks {
			for _, ins := range b.Instrs {
				r, ok := ins.(*ssa.Return)
				if !ok {
					continue
				}
				for i := range r.Results {
					v := retVal(r, i)
					if !isSliceType(v.Type()) {
						continue
					}
					aliases := derivesFromSliceOf(v, records, 8)
					c.Check(!aliases, rule, "slice returned by "+fnName(fn), "is a fresh copy: the caller uses it after the lock is released while Record keeps overwriting the ring", P.instrPos(r), "the result is a sub-slice of the ring buffer")
				}
			}
		}
	}
	// window test of RecordsFrom: index < next && index >= first, else nothing
	rf := P.Method(rs, "historyBuffer", "RecordsFrom")
	next := F(P.Method(rs, "historyBuffer", "nextIndex"))
	first := F(P.Method(rs, "historyBuffer", "firstIndex"))
	var idx ssa.Value
	if len(rf.Params) >= 2 {
		idx = rf.Params[1]
	}
	g1 := guardRel("index < nextIndex", "<", same(idx), resultOfCall(next))
	g2 := guardRel("index >= firstIndex", ">=", same(idx), resultOfCall(first))
	c.need(c.Prop+"/history-window", rf, "return of records", func(x ssa.Instruction) bool {
		r, ok := x.(*ssa.Return)
		return ok && len(r.Results) == 1 && !isNilConst(retVal(r, 0))
	}, []Ev{g1, g2}, all, "records are returned only for an index inside the window [first, next)")
}

// derivesFromSliceOf: v is (through slicing/φ only, no copy) a view of the
// slice stored in field f.
func derivesFromSliceOf(v ssa.Value, f *types.Var, depth int) bool {
	if depth < 0 || v == nil {
		return false
	}
	switch x := v.(type) {
	case *ssa.Slice:
		return derivesFromSliceOf(x.X, f, depth-1)
	case *ssa.Phi:
		for _, e := range x.Edges {
			if e != v && derivesFromSliceOf(e, f, depth-1) {
				return true
			}
		}
	case *ssa.UnOp:
		if x.Op == token.MUL {
			if fieldOfAddr(x.X) == f {
				return true
			}
			if a, ok := x.X.(*ssa.Alloc); ok {
				for _, r := range *a.Referrers() {
					if st, ok := r.(*ssa.Store); ok && st.Addr == a && derivesFromSliceOf(st.Val, f, depth-1) {
						return true
					}
				}
			}
		}
	case *ssa.Call:
		if b, ok := x.Call.Value.(*ssa.Builtin); ok && b.Name() == "append" && len(x.Call.Args) > 0 {
			return derivesFromSliceOf(x.Call.Args[0], f, depth-1)
		}
	}
	return false
}

func ruleFollowerApply(c *Ctx) {
	P := c.P
	const rs = "server/region_syncer"
	rule := c.Prop + "/follower-apply"
	start := P.Method(rs, "RegionSyncer", "StartSyncWithLeader")
	record := F(P.Method(rs, "historyBuffer", "Record"))
	saveRegion := F(P.Method("server/core", "Storage", "SaveRegion"))
	checkPut := F(P.Method("server/core", "BasicCluster", "CheckAndPutRegion"))
	pdpb := "github.com/pingcap/kvproto/pkg/pdpb"
	getLeaders := F(P.Method(pdpb, "SyncRegionResponse", "GetRegionLeaders"))
	getStats := F(P.Method(pdpb, "SyncRegionResponse", "GetRegionStats"))
	getRegions := F(P.Method(pdpb, "SyncRegionResponse", "GetRegions"))
	var fn *ssa.Function
	for _, f := range append([]*ssa.Function{start}, start.AnonFuncs...) {
		if len(callsIn(f, false, record))+len(callsIn(f, false, checkPut))+len(callsIn(f, false, saveRegion)) > 0 {
			fn = f
		}
	}
	if fn == nil {
		undecidedf("follower loop (CheckAndPutRegion / SaveRegion / history.Record) not found")
	}
	c.saw(fnName(fn))
	okSave := newOkEv(fn, "ok(SaveRegion)", callMatcher(saveRegion))
	put := &calledEv{name: "CheckAndPutRegion", match: instrCallMatcher(checkPut), reset: instrCallMatcher(record)}
	c.need(rule, fn, "call history.Record", instrCallMatcher(record), []Ev{okSave, put}, all, "a synced region is recorded only after it was put into the cache and saved")
	// what the follower hands to CheckAndPutRegion reaches the cache unless the epoch check refused it: whatever else
	// differs (statistics, pending/down peers, buckets of flow the leader chose to broadcast) is taken over
	ruleCheckedPutApplies(c, rule)
	// index guards
	isIdx := func(from Callee) func(ssa.Instruction) bool {
		return func(x ssa.Instruction) bool {
			ia, ok := x.(*ssa.IndexAddr)
			return ok && valueIsCallTo(ia.X, from)
		}
	}
	var idxOf = func(x ssa.Instruction) ssa.Value { return x.(*ssa.IndexAddr).Index }
	for _, b := range fn.Blocks {
		for _, ins := range b.Instrs {
			if isIdx(getLeaders)(ins) {
				i := idxOf(ins)
				g := guardRel("len(regionLeaders) > i", ">", lenOf(resultOfCall(getLeaders)), same(i))
				_, fails := requireAt(P, fn, 0, []Ev{g}, func(x ssa.Instruction) bool { return x == ins }, all)
				c.Check(len(fails) == 0, rule, "regionLeaders[i] in "+fnName(fn), "indexed only under len(regionLeaders) > i", P.instrPos(ins), failDesc(fails))
			}
			if isIdx(getStats)(ins) {
				g := guardRel("len(stats) == len(regions)", "==", lenOf(resultOfCall(getStats)), lenOf(resultOfCall(getRegions)))
				_, fails := requireAt(P, fn, 0, []Ev{g}, func(x ssa.Instruction) bool { return x == ins }, all)
				c.Check(len(fails) == 0, rule, "stats[i] in "+fnName(fn), "indexed only under len(stats) == len(regions)", P.instrPos(ins), failDesc(fails))
			}
		}
	}
	// index mismatch resets the follower's history to the leader's start index
	resetIdx := F(P.Method(rs, "historyBuffer", "ResetWithIndex"))
	getStart := F(P.Method(pdpb, "SyncRegionResponse", "GetStartIndex"))
	nextIdx := F(P.Method(rs, "historyBuffer", "GetNextIndex"))
	c.need(rule, fn, "call ResetWithIndex", instrCallMatcher(resetIdx), []Ev{guardRel("own next index != leader start index", "!=", resultOfCall(nextIdx), resultOfCall(getStart))}, all,
		"the follower re-bases its change log only when its index differs from the leader's")
	// completeness of the follower's apply loop (the converse of the rules above)
	c.mustFollowEdge(rule, fn, "own next index != leader start index", func(cond ssa.Value, pos bool) bool {
		r, ok := relOf(cond, pos)
		return ok && matchRel(r, "!=", resultOfCall(nextIdx), resultOfCall(getStart))
	}, "ResetWithIndex(leader start index)", func(x ssa.Instruction) bool {
		ci, ok := x.(ssa.CallInstruction)
		if !ok || !resetIdx.Match(ci.Common()) {
			return false
		}
		a := callArgs(ci.Common())
		return len(a) == 1 && valueIsCallTo(a[0], getStart)
	}, nil, "a follower whose index differs from the leader's re-bases its change log on the leader's start index before it applies the records")
	newRI := F(P.Func("server/core", "NewRegionInfo"))
	c.mustFollow(rule, fn, "NewRegionInfo (a received region)", instrCallMatcher(newRI), "CheckAndPutRegion", instrCallMatcher(checkPut), nil,
		"every region received is put into the follower's cache")
	c.mustFollow(rule, fn, "CheckAndPutRegion", instrCallMatcher(checkPut), "SaveRegion", instrCallMatcher(saveRegion), nil,
		"every region received is saved to the follower's region storage")
	c.Check(len(callsIn(fn, false, record)) > 0, rule, "history.Record in "+fnName(fn), "the follower enters what it applied in its own change log", P.pos(fn.Pos()), "no call of history.Record")
	c.mustFollowEdge(rule, fn, "SaveRegion returned nil", func(cond ssa.Value, pos bool) bool {
		r, ok := relOf(cond, pos)
		return ok && matchRel(r, "==", func(v ssa.Value) bool { return valueIsCallTo(v, saveRegion) }, isNilConst)
	}, "history.Record", instrCallMatcher(record), nil, "a region that was saved is entered in the follower's change log (its index keeps pace with the leader's)")
	// what is put is what was built from the message: no path puts a nil region, and the leader comes from the
	// message's leader list
	for _, ci := range callsIn(fn, false, checkPut) {
		a := callArgs(ci.Common())
		okAlt := len(a) == 1
		if okAlt {
			for _, alt := range valueAlternatives(a[0], 3) {
				if !valueIsCallTo(alt, newRI) {
					okAlt = false
				}
			}
		}
		c.Check(okAlt, rule, "region given to CheckAndPutRegion in "+fnName(fn), "on every path a region built from the message (NewRegionInfo)", P.instrPos(ci.(ssa.Instruction)), "")
	}
	fromLeaders := false
	for _, ci := range callsIn(fn, false, newRI) {
		a := callArgs(ci.Common())
		if len(a) < 2 {
			continue
		}
		for _, alt := range valueAlternatives(a[1], 3) {
			if u, ok := strip(alt).(*ssa.UnOp); ok {
				if ia, ok := u.X.(*ssa.IndexAddr); ok && valueIsCallTo(ia.X, getLeaders) {
					fromLeaders = true
				}
			}
		}
	}
	c.Check(fromLeaders, rule, "leader given to NewRegionInfo in "+fnName(fn), "can be the entry of the message's leader list", P.pos(fn.Pos()), "")
}

// rulePerRegionLeader: on the follower every region of a response is built
// with the leader of its own slot (or none): the leader handed to NewRegionInfo
// must not be a value carried over from the previous iteration of the loop
// over the response's regions.
func rulePerRegionLeader(c *Ctx) {
	P := c.P
	rule := c.Prop + "/follower-apply"
	newRI := F(P.Func("server/core", "NewRegionInfo"))
	n := 0
	for _, fn := range P.Funcs {
		if fnPkgPath(fn) != modPath+"/server/region_syncer" || P.isScaffold(fn) {
			continue
		}
		loops := loopsOf(fn)
		k := 0
		for _, ci := range callsIn(fn, false, newRI) {
			a := callArgs(ci.Common())
			if len(a) < 2 {
				continue
			}
			var inner *loopInfo
			for i := range loops {
				if loops[i].blocks[ci.Block()] && (inner == nil || len(loops[i].blocks) < len(inner.blocks)) {
					inner = &loops[i]
				}
			}
			if inner == nil {
				continue
			}
			n++
			k++
			carried := false
			seen := map[ssa.Value]bool{}
			var walk func(v ssa.Value, depth int)
			walk = func(v ssa.Value, depth int) {
				if v == nil || seen[v] || depth > 6 {
					return
				}
				seen[v] = true
				if phi, ok := v.(*ssa.Phi); ok {
					if phi.Block() == inner.header {
						carried = true // a φ of the loop header merges the value of the previous iteration
						return
					}
					for _, e := range phi.Edges {
						walk(e, depth+1)
					}
				}
			}
			walk(a[1], 0)
			c.Check(!carried, rule, fmt.Sprintf("leader of NewRegionInfo #%d in %s", k, fnName(outer(fn))), "is this region's own leader or none — never the value left over from the previous region of the batch", P.instrPos(ci), "the leader argument is a loop-carried variable")
		}
	}
	if n < 2 {
		c.Undec(rule, "NewRegionInfo calls in sync loops", "at least 2", "", fmt.Sprintf("found %d", n))
	}
}

// ruleSyncMessageLimit: a catch-up is sent as one message; the follower's
// stream must be dialled with a *receive* limit of the syncer's message size,
// or anything above gRPC's 4 MiB default is refused and retried for ever.
func ruleSyncMessageLimit(c *Ctx) {
	P := c.P
	rule := c.Prop + "/follower-apply"
	est := P.Method("server/region_syncer", "RegionSyncer", "establish")
	c.saw(fnName(est))
	msgSize, ok := constIntObj(P.obj("server/region_syncer", "msgSize"))
	if !ok {
		undecidedf("msgSize is not an integer constant")
	}
	found := false
	for _, b := range est.Blocks {
		for _, ins := range b.Instrs {
			cl, ok := ins.(*ssa.Call)
			if !ok {
				continue
			}
			f := cl.Call.StaticCallee()
			if f != nil && f.Pkg != nil && f.Pkg.Pkg.Path() == "google.golang.org/grpc" && f.Name() == "MaxCallRecvMsgSize" && len(cl.Call.Args) == 1 && isConstInt(msgSize)(cl.Call.Args[0]) {
				found = true
			}
		}
	}
	c.Check(found, rule, "dial options in "+fnName(est), "grpc.MaxCallRecvMsgSize(msgSize): the follower accepts messages as large as the leader may send", P.pos(est.Pos()), "")
}

// ruleHistoryReset: a re-base of the change log clears the whole ring — head,
// tail, index and the flush countdown — or stale records stay in the window;
// and the log's index is persisted in this member's own region storage, not in
// the store shared by all members.
// ruleRingModulus: the change log is a ring of `size` slots (capacity size−1);
// every position in it is computed modulo the number of slots. A position
// reduced modulo anything else points at the wrong record once the ring has
// wrapped.
func ruleRingModulus(c *Ctx) {
	P := c.P
	const rs = "server/region_syncer"
	rule := c.Prop + "/history-flush"
	size := P.Field(rs, "historyBuffer", "size")
	n, okAll := 0, true
	bad := ""
	records := P.Field(rs, "historyBuffer", "records")
	for _, fn := range P.Funcs {
		if fnPkgPath(fn) != modPath+"/"+rs || P.isScaffold(fn) {
			continue
		}
		m := fn
		for m.Parent() != nil {
			m = m.Parent()
		}
		if m.Signature.Recv() == nil {
			continue
		}
		if rn := namedOf(m.Signature.Recv().Type()); rn == nil || rn.Obj().Name() != "historyBuffer" {
			continue
		}
		for _, b := range fn.Blocks {
			for _, ins := range b.Instrs {
				bo, ok := ins.(*ssa.BinOp)
				if !ok || bo.Op != token.REM {
					continue
				}
				n++
				// the slot count: the field, or the length of the slot array made with it
				if !isLoadOf(bo.Y, size) && !lenOf(loadOfField(records))(bo.Y) {
					okAll = false
					bad = P.instrPos(bo)
				}
			}
		}
	}
	c.Check(okAll && n >= 1, rule, "ring positions of the change log", "every position is reduced modulo the slot count (historyBuffer.size)", P.pos(P.Method(rs, "historyBuffer", "RecordsFrom").Pos()), fmt.Sprintf("%d modulo operations; other modulus at %s", n, bad))
}

func ruleHistoryReset(c *Ctx) {
	P := c.P
	rule := c.Prop + "/history"
	const rs = "server/region_syncer"
	reset := P.Method(rs, "historyBuffer", "ResetWithIndex")
	var evs []Ev
	for _, f := range []string{"head", "tail", "index", "flushCount"} {
		fld := P.Field(rs, "historyBuffer", f)
		name := f
		evs = append(evs, &calledEv{name: "h." + name + " assigned", match: func(x ssa.Instruction) bool { return isStoreToField(x, fld) }})
	}
	c.need(rule, reset, "return", func(x ssa.Instruction) bool { _, ok := x.(*ssa.Return); return ok }, evs, all,
		"ResetWithIndex assigns head, tail, index and flushCount")
	for _, f := range []string{"head", "tail"} {
		fld := P.Field(rs, "historyBuffer", f)
		okZero := false
		for _, st := range storesToField(reset, fld) {
			if isConstInt(0)(st.Val) {
				okZero = true
			}
		}
		c.Check(okZero, rule, "h."+f+" in "+fnName(reset), "set to 0", P.pos(reset.Pos()), "")
	}
	nb := F(P.Func(rs, "newHistoryBuffer"))
	getRS := F(P.Method("server/core", "Storage", "GetRegionStorage"))
	sites, _ := c.nonScaffoldCallers(P.Func(rs, "newHistoryBuffer"))
	n := 0
	for _, s := range sites {
		a := callArgs(s.Instr.Common())
		if len(a) != 2 {
			continue
		}
		n++
		c.Check(derivesFrom(a[1], resultOfCall(getRS), 4), rule, "backend of the change log in "+fnName(s.Caller), "the member's own region storage (GetRegionStorage()), where the regions it describes are stored", P.instrPos(s.Instr), "")
	}
	_ = nb
	if n == 0 {
		c.Undec(rule, "newHistoryBuffer call sites", "at least one", "", "")
	}
}

func init() {
	register("C16", "Followers converge to the leader's region view through region sync", func(c *Ctx) {
		c.Group("C16/slice-congruence", "at every SyncRegionResponse literal carrying regions, Regions / RegionStats / RegionLeaders are length-congruent on every path and loop iteration", func() { ruleSyncArrays(c) })
		c.Group("C16/sender-pairing", "meta, statistics and leader of one entry come from one region and one index; start indexes; full sync skipped only when exactly in sync", func() { ruleSenderPairing(c); ruleStreamsRegistered(c); ruleBroadcastStartIndex(c) })
		c.Group("C16/leader-placeholder", "a leaderless region is sent with an empty peer in its slot", func() { ruleLeaderPlaceholder(c) })
		c.Group("C16/history", "change-log buffer: fields under its lock; index++ and flush accounting on every record, persisted every defaultFlushCount=100; RecordsFrom answers only inside the window and returns a copy", func() { ruleHistoryBuffer(c); ruleHistoryReset(c); ruleRingModulus(c) })
		c.Group("C16/follower-apply", "the follower records a region only after put+save, indexes leaders/stats only under length guards, re-bases on index mismatch", func() { ruleFollowerApply(c); rulePerRegionLeader(c); ruleSyncMessageLimit(c); ruleFollowerFieldMap(c) })
		c.Group("C16/load-prunes", "(shared with C17) the follower loads its own region storage once per process and never again over the synchronised view", func() { ruleLoadedOnceAfterSuccess(c) })
		c.Group("C16/saved-copy-not-aliased", "(shared with C06) saving a synchronised region never rewrites the keys of the region just put into the cache", func() { ruleSavedCopyNotAliased(c) })
		c.Group("C16/staleness-atoms", "(shared with C06) synced regions carry no raft term: the precheck the follower applies them through compares terms only when the incoming region reports one", func() { ruleStalenessAtoms(c) })
	})
}

// ruleSenderPairing: the follower pairs Regions[i] with RegionStats[i] and
// RegionLeaders[i]; so in every loop of the sender that fills the three lists
// the meta, the statistics and the leader are taken from one and the same
// region of that iteration, and — where the lists are indexed — stored under
// one and the same index. The start index of an incremental answer is the
// requested one, that of a full-sync batch the running count of regions sent;
// and the full synchronisation is skipped only for a follower that is exactly
// at the leader's next index (or asked for a non-zero index).
func ruleSenderPairing(c *Ctx) {
	P := c.P
	rule := c.Prop + "/sender-pairing"
	fn := P.Method("server/region_syncer", "RegionSyncer", "syncHistoryRegion")
	c.saw(fnName(fn))
	getters := map[string]bool{"GetMeta": true, "GetStat": true, "GetLeader": true}
	nLoops := 0
	seenHdr := map[*ssa.BasicBlock]bool{}
	for _, l := range loopsOf(fn) {
		if seenHdr[l.header] {
			continue
		}
		var recvs []ssa.Value
		var idxs []ssa.Value
		hasMeta := false
		for b := range l.blocks {
			for _, ins := range b.Instrs {
				switch x := ins.(type) {
				case *ssa.Call:
					f := x.Call.StaticCallee()
					if f == nil || !getters[f.Name()] || fnPkgPath(f) != modPath+"/server/core" || len(x.Call.Args) != 1 {
						continue
					}
					hasMeta = true // a loop reading regions for a message (any of the three getters)
					recvs = append(recvs, x.Call.Args[0])
				case *ssa.Store:
					if ia, ok := x.Addr.(*ssa.IndexAddr); ok {
						if _, isSlice := ia.X.Type().Underlying().(*types.Slice); isSlice {
							idxs = append(idxs, ia.Index)
						}
					}
				}
			}
		}
		if !hasMeta {
			continue
		}
		seenHdr[l.header] = true
		nLoops++
		lpos := fn.Pos()
		for b := range l.blocks {
			for _, ins := range b.Instrs {
				if cl, ok := ins.(*ssa.Call); ok && cl.Call.StaticCallee() != nil && cl.Call.StaticCallee().Name() == "GetMeta" && cl.Pos().IsValid() {
					lpos = cl.Pos()
				}
			}
		}
		okR, okI := true, true
		for _, r := range recvs[1:] {
			if !sameVal(r, recvs[0]) {
				okR = false
			}
		}
		for _, i := range idxs {
			if !sameVal(i, idxs[0]) {
				okI = false
			}
		}
		for _, g := range []string{"GetMeta", "GetStat", "GetLeader"} {
			gname := g
			filed := everyIterationCalls(l, func(x ssa.Instruction) bool {
				st, ok := x.(*ssa.Store)
				if !ok {
					return false
				}
				if _, isIdx := st.Addr.(*ssa.IndexAddr); !isIdx {
					return false
				}
				for _, alt := range valueAlternatives(st.Val, 3) {
					if cl, _ := callOf(alt); cl != nil {
						if f := cl.Call.StaticCallee(); f != nil && f.Name() == gname && fnPkgPath(f) == modPath+"/server/core" {
							return true
						}
					}
				}
				// the leader entry may be the placeholder (written as its own append in the other branch): what every
				// iteration must do is file *an* entry in the leader list; which one is the leader-placeholder rule's
				if gname == "GetLeader" {
					if pt, isPtr := st.Val.Type().Underlying().(*types.Pointer); isPtr {
						if nn := namedOf(pt.Elem()); nn != nil && nn.Obj().Name() == "Peer" {
							return true
						}
					}
				}
				return false
			})
			c.Check(filed, rule, fmt.Sprintf("%s filed in list-filling loop #%d of %s", gname, nLoops, fnName(fn)), "every region of the batch contributes its meta, statistics and leader entry", P.pos(lpos), "an iteration can pass without filing it")
		}
		c.Check(okR, rule, fmt.Sprintf("region read in list-filling loop #%d of %s", nLoops, fnName(fn)), "meta, statistics and leader of one entry come from the same region", P.pos(lpos), "the getters are called on different regions")
		c.Check(okI, rule, fmt.Sprintf("index used in list-filling loop #%d of %s", nLoops, fnName(fn)), "the three lists are stored under the same index", P.pos(lpos), "different index expressions")
	}
	if nLoops < 2 {
		c.Undec(rule, "list-filling loops in "+fnName(fn), "2 (full and incremental)", "", fmt.Sprint(nLoops))
	}
	// the batching loop of the full sync sends what it gathered: an iteration goes round without sending only when
	// it is not the last one (the tail batch is never left behind)
	send := P.IMethod("github.com/pingcap/kvproto/pkg/pdpb", "PD_SyncRegionsServer", "Send")
	nB := 0
	for _, l := range loopsOf(fn) {
		hasSend := false
		for b := range l.blocks {
			for _, ins := range b.Instrs {
				if isCallTo(ins, send) {
					hasSend = true
				}
			}
		}
		if !hasSend {
			continue
		}
		nB++
		hdr := l.header
		isNotLast := func(cond ssa.Value, pos bool) bool {
			r, ok := relOf(cond, pos)
			return ok && matchRel(r, "<", anyVal, func(v ssa.Value) bool {
				bo, ok := strip(v).(*ssa.BinOp)
				if !ok || bo.Op != token.SUB {
					return false
				}
				k, isC := constInt(bo.Y)
				return isC && k == 1 && lenOf(anyVal)(bo.X)
			})
		}
		// walk one iteration: from the header round to the header, remembering whether a Send was passed and
		// whether "not the last region" was established by a test on the way
		type st struct {
			b             *ssa.BasicBlock
			sent, notLast bool
		}
		seen := map[st]bool{}
		okTail, at := true, ""
		var walk func(x st)
		walk = func(x st) {
			if seen[x] || !okTail {
				return
			}
			seen[x] = true
			for _, ins := range x.b.Instrs {
				if isCallTo(ins, send) {
					x.sent = true
				}
			}
			last := x.b.Instrs[len(x.b.Instrs)-1]
			for si, su := range x.b.Succs {
				if !l.blocks[su] {
					continue
				}
				n := st{su, x.sent, x.notLast}
				if iff, ok := last.(*ssa.If); ok {
					cond, pos := ifCond(iff, si == 0)
					for _, ic := range impliedConds(cond, pos, 3) {
						if isNotLast(ic.v, ic.pos) {
							n.notLast = true
						}
					}
				}
				if su == hdr {
					if !n.sent && !n.notLast {
						okTail, at = false, P.instrPos(last)
					}
					continue
				}
				walk(n)
			}
		}
		for _, su := range hdr.Succs {
			if l.blocks[su] {
				walk(st{su, false, false})
			}
		}
		c.Check(okTail, rule, fmt.Sprintf("batching loop #%d of %s", nB, fnName(fn)), "an iteration goes round without a Send only when more regions follow (index < len-1): the last, partial batch is sent", P.pos(fn.Pos()), "an iteration can end at "+at+" without sending although it may be the last")
	}
	if nB == 0 {
		c.Undec(rule, "batching loop of the full sync in "+fnName(fn), "found", P.pos(fn.Pos()), "")
	}
	// start index
	pb := "github.com/pingcap/kvproto/pkg/pdpb"
	startF := P.Field(pb, "SyncRegionResponse", "StartIndex")
	reqStart := F(P.Method(pb, "SyncRegionRequest", "GetStartIndex"))
	inLoop := func(b *ssa.BasicBlock) bool { return loopsContain(fn, b) }
	k := 0
	for _, st := range storesToField(fn, startF) {
		k++
		if !inLoop(st.Block()) {
			c.Check(valueIsCallTo(st.Val, reqStart), rule, fmt.Sprintf("StartIndex #%d of %s (incremental)", k, fnName(fn)), "the index the follower asked for", P.instrPos(st), "")
			continue
		}
		running := derivesFrom(st.Val, func(v ssa.Value) bool {
			phi, ok := v.(*ssa.Phi)
			if !ok {
				return false
			}
			// (the advanced value may come round through the φ of a post statement that `continue` also jumps to)
			for _, e := range valueAlternatives(phi, 3) {
				if bo, ok := e.(*ssa.BinOp); ok && bo.Op == token.ADD && (bo.X == ssa.Value(phi) && lenOf(anyVal)(bo.Y) || bo.Y == ssa.Value(phi) && lenOf(anyVal)(bo.X)) {
					return true
				}
			}
			return false
		}, 3)
		c.Check(running, rule, fmt.Sprintf("StartIndex #%d of %s (full sync)", k, fnName(fn)), "the running count of regions already sent (advanced by the length of every batch)", P.instrPos(st), "")
	}
	// skipping the full synchronisation
	nextIdx := F(P.Method("server/region_syncer", "historyBuffer", "GetNextIndex"))
	getRegions := P.IMethod("server/region_syncer", "Server", "GetRegions")
	empty := guardRel("no history records", "== <=", lenOf(anyVal), isConstInt(0))
	full := &calledEv{name: "GetRegions() (full synchronisation)", match: instrCallMatcher(getRegions)}
	same := guardRel("own next index == requested index", "==", resultOfCall(nextIdx), resultOfCall(reqStart))
	nonZero := guardRel("requested index != 0", "!=", resultOfCall(reqStart), isConstInt(0))
	c.need(rule, fn, "return", func(x ssa.Instruction) bool { _, ok := x.(*ssa.Return); return ok }, []Ev{empty, full, same, nonZero},
		func(h []bool) bool { return !h[0] || h[1] || h[2] || h[3] },
		"without history records the follower gets a full synchronisation unless it is exactly at the leader's next index (or asked for a non-zero index)")
}

// ruleFollowerFieldMap: what the follower rebuilds from a message is the
// leader's region: the four flow statistics go to the setters of the same
// name, and an entry of RegionLeaders is taken as the leader only when its id
// is non-zero (the sender's placeholder for "no leader").
func ruleFollowerFieldMap(c *Ctx) {
	P := c.P
	rule := c.Prop + "/follower-apply"
	pb := "github.com/pingcap/kvproto/pkg/pdpb"
	want := map[string]string{"SetWrittenBytes": "BytesWritten", "SetWrittenKeys": "KeysWritten", "SetReadBytes": "BytesRead", "SetReadKeys": "KeysRead"}
	newRI := F(P.Func("server/core", "NewRegionInfo"))
	peerID := P.Field("github.com/pingcap/kvproto/pkg/metapb", "Peer", "Id")
	getPeerID := F(P.Method("github.com/pingcap/kvproto/pkg/metapb", "Peer", "GetId"))
	n := 0
	for _, fn := range P.Funcs {
		if P.isScaffold(fn) || fnPkgPath(fn) != modPath+"/server/region_syncer" {
			continue
		}
		got := map[string]bool{}
		for _, b := range fn.Blocks {
			for _, ins := range b.Instrs {
				cl, ok := ins.(*ssa.Call)
				if !ok || cl.Call.StaticCallee() == nil {
					continue
				}
				name := cl.Call.StaticCallee().Name()
				if field, isSetter := want[name]; isSetter && fnPkgPath(cl.Call.StaticCallee()) == modPath+"/server/core" && len(cl.Call.Args) == 1 {
					f := P.Field(pb, "RegionStat", field)
					getter := F(P.Method(pb, "RegionStat", "Get"+field))
					okArg := derivesFrom(cl.Call.Args[0], orPred(loadOfField(f), resultOfCall(getter)), 3)
					got[name] = true
					c.saw(fnName(outer(fn)))
					c.Check(okArg, rule, name+" in "+fnName(outer(fn)), "fed from RegionStat."+field, P.instrPos(cl), "the statistic comes from another field")
				}
			}
		}
		if len(got) > 0 {
			n++
			c.Check(len(got) == 4, rule, "flow statistics rebuilt in "+fnName(outer(fn)), "all four (written/read × bytes/keys)", P.pos(fn.Pos()), fmt.Sprintf("%d of 4 setters used", len(got)))
		}
		// the leader handed to NewRegionInfo
		done := map[*ssa.Phi]bool{}
		for _, ci := range callsIn(fn, false, newRI) {
			a := callArgs(ci.Common())
			if len(a) < 2 {
				continue
			}
			phi, isPhi := a[1].(*ssa.Phi)
			if isPhi && done[phi] {
				continue
			}
			if isPhi {
				done[phi] = true
			}
			if !isPhi {
				continue
			}
			for i, e := range phi.Edges {
				if isNilConst(e) {
					continue
				}
				// an entry of the message: its predecessor edge must imply id != 0
				pred := phi.Block().Preds[i]
				elem := e
				nonZero := guardRel("entry id != 0", "!=", orPred(func(v ssa.Value) bool { return isLoadOf(v, peerID) }, resultOfCall(getPeerID)), isConstInt(0))
				_, fails := requireAt(P, fn, 0, []Ev{nonZero}, func(x ssa.Instruction) bool { return x == pred.Instrs[len(pred.Instrs)-1] }, all)
				_ = elem
				c.Check(len(fails) == 0, rule, fmt.Sprintf("leader entry taken from the message in %s #%d", fnName(outer(fn)), i+1), "only an entry with a non-zero id is a leader (id 0 is the placeholder for none)", P.instrPos(ci), failDesc(fails))
			}
		}
	}
	if n == 0 {
		c.Undec(rule, "follower loop rebuilding flow statistics", "found", "", "")
	}
}

// ruleStreamsRegistered: a follower whose history sync succeeded is registered
// for the broadcasts, and every broadcast goes to every registered follower.
func ruleStreamsRegistered(c *Ctx) {
	P := c.P
	const rs = "server/region_syncer"
	rule := c.Prop + "/sender-pairing"
	syncFn := P.Method(rs, "RegionSyncer", "Sync")
	hist := F(P.Method(rs, "RegionSyncer", "syncHistoryRegion"))
	bind := P.Method(rs, "RegionSyncer", "bindStream")
	c.mustFollow(rule, syncFn, "syncHistoryRegion", instrCallMatcher(hist), "bindStream", instrCallMatcher(F(bind)), errorExit,
		"a follower that was brought up to date is registered for the broadcasts that follow")
	isStreamsUpdate := func(x ssa.Instruction) bool {
		mu, ok := x.(*ssa.MapUpdate)
		if !ok {
			return false
		}
		u, ok := mu.Map.(*ssa.UnOp)
		if !ok {
			return false
		}
		f := fieldOfAddr(u.X)
		return f != nil && f.Name() == "streams"
	}
	registered := &calledEv{name: "streams[name] = stream", match: isStreamsUpdate}
	c.need(rule, bind, "return", func(x ssa.Instruction) bool { _, ok := x.(*ssa.Return); return ok }, []Ev{registered}, all, "bindStream files the stream under the follower's name")
	bc := P.Method(rs, "RegionSyncer", "broadcast")
	c.saw(fnName(bc))
	send := P.IMethod(rs, "ServerStream", "Send")
	n := 0
	// the sending loop is in broadcast itself, or in a helper of the package that every broadcast calls
	where := []*ssa.Function{bc}
	for _, b := range bc.Blocks {
		for _, ins := range b.Instrs {
			ci, ok := ins.(ssa.CallInstruction)
			if !ok {
				continue
			}
			h := ci.Common().StaticCallee()
			if h == nil || h == bc || h.Pkg != bc.Pkg || len(h.Blocks) == 0 || len(callsIn(h, false, send)) == 0 {
				continue
			}
			helper := h
			c.need(rule, bc, "return of "+fnName(bc), func(x ssa.Instruction) bool { _, ok := x.(*ssa.Return); return ok },
				[]Ev{&calledEv{name: "call " + fnName(helper), match: func(x ssa.Instruction) bool { return isCallTo(x, F(helper)) }}}, all, "every broadcast goes through the sending helper")
			where = append(where, helper)
		}
	}
	for _, f := range where {
		for _, l := range loopsOf(f) {
			has := false
			for b := range l.blocks {
				for _, ins := range b.Instrs {
					if isCallTo(ins, send) {
						has = true
					}
				}
			}
			if !has {
				continue
			}
			n++
			c.Check(everyIterationCalls(l, func(x ssa.Instruction) bool { return isCallTo(x, send) }), rule, "streams served by "+fnName(bc), "every registered follower is sent every broadcast", P.pos(f.Pos()), "an iteration can pass without Send")
		}
	}
	if n == 0 {
		c.Undec(rule, "loop over the streams in "+fnName(bc), "found", P.pos(bc.Pos()), "")
	}
}

// ruleBroadcastStartIndex: the start index announced with a broadcast batch is
// the change log's next index *before* the batch's regions were recorded: it is
// read before the first Record of the batch. Read afterwards it is one too
// high, the follower's index runs ahead, and an incremental sync after a
// reconnect skips the first record the follower missed.
func ruleBroadcastStartIndex(c *Ctx) {
	P := c.P
	const rs = "server/region_syncer"
	rule := c.Prop + "/sender-pairing"
	fn := P.Method(rs, "RegionSyncer", "RunServer")
	c.saw(fnName(fn))
	next := F(P.Method(rs, "historyBuffer", "GetNextIndex"))
	record := F(P.Method(rs, "historyBuffer", "Record"))
	startF := P.Field("github.com/pingcap/kvproto/pkg/pdpb", "SyncRegionResponse", "StartIndex")
	regionsF := P.Field("github.com/pingcap/kvproto/pkg/pdpb", "SyncRegionResponse", "Regions")
	n := 0
	for _, st := range storesToField(fn, startF) {
		// the batch response (it also carries regions), not the keep-alive
		isBatch := false
		if fa, ok := st.Addr.(*ssa.FieldAddr); ok {
			for _, r := range *fa.X.Referrers() {
				if fa2, ok := r.(*ssa.FieldAddr); ok && fieldOfAddr(fa2) == regionsF {
					isBatch = true
				}
			}
		}
		if !isBatch {
			continue
		}
		n++
		var reads []ssa.Instruction
		derivesFrom(st.Val, func(v ssa.Value) bool {
			if cl, _ := callOf(v); cl != nil && next.Match(cl.Common()) {
				reads = append(reads, cl)
			}
			return false
		}, 4)
		ok, why := len(reads) > 0, "the start index is not the change log's next index"
		for _, rd := range reads {
			for _, rc := range callsIn(fn, false, record) {
				rci := rc.(ssa.Instruction)
				// the read comes first: it dominates the Record, or stands before it in the same block
				if rd.Block() == rci.Block() {
					ir, ic := -1, -1
					for i, x := range rd.Block().Instrs {
						if x == rd {
							ir = i
						}
						if x == rci {
							ic = i
						}
					}
					if ir > ic {
						ok, why = false, "GetNextIndex at "+P.instrPos(rd)+" is read after the Record at "+P.instrPos(rci)
					}
				} else if !rd.Block().Dominates(rci.Block()) {
					ok, why = false, "GetNextIndex at "+P.instrPos(rd)+" does not precede the Record at "+P.instrPos(rci)
				}
			}
		}
		c.Check(ok, rule, fmt.Sprintf("StartIndex of broadcast batch #%d in %s", n, fnName(fn)), "the change log's next index read before the batch's first Record", P.instrPos(st), why)
	}
	if n == 0 {
		c.Undec(rule, "StartIndex of the broadcast batch in "+fnName(fn), "found", P.pos(fn.Pos()), "")
	}
}

// ruleCheckedPutApplies: CheckAndPutRegion returns without PutRegion only on the path on which PreCheckPutRegion
// refused the region (stale epoch / term). A region that passed is always put: the follower's (and the loader's)
// view takes over every field of what the leader sent, not only the ones a shortcut happens to compare.
func ruleCheckedPutApplies(c *Ctx, rule string) {
	P := c.P
	cap := P.Method("server/core", "BasicCluster", "CheckAndPutRegion")
	pre := F(P.Method("server/core", "BasicCluster", "PreCheckPutRegion"))
	bcPut := F(P.Method("server/core", "BasicCluster", "PutRegion"))
	setRegion := F(P.Method("server/core", "RegionsInfo", "SetRegion"))
	okPre := newOkEv(cap, "ok(PreCheckPutRegion)", callMatcher(pre))
	put := &calledEv{name: "PutRegion / SetRegion called", match: instrCallMatcher(bcPut, setRegion)}
	c.need(rule, cap, "return", func(x ssa.Instruction) bool {
		_, ok := x.(*ssa.Return)
		return ok
	}, []Ev{okPre, put}, func(b []bool) bool { return !b[0] || b[1] }, "a region that passed PreCheckPutRegion is put into the cache before CheckAndPutRegion returns (no return between the passed check and the put)")
}
