package main

import (
	"fmt"
	"go/token"
	"go/types"

	"golang.org/x/tools/go/ssa"
)

const rep = "server/replication"

// baseIsField: the address is (a sub-field of) field f of a non-fresh object.
func addrUnderField(addr ssa.Value, f *types.Var) bool {
	for {
		fa, ok := addr.(*ssa.FieldAddr)
		if !ok {
			return false
		}
		if fieldOfAddr(fa) == f {
			return !isFreshBase(fa.X)
		}
		addr = fa.X
	}
}

func rulePersistBeforeServe(c *Ctx) {
	P := c.P
	rule := c.Prop + "/persist-before-serve"
	dr := P.Field(rep, "ModeManager", "drAutoSync")
	stState := P.Field(rep, "drAutoSyncStatus", "State")
	stID := P.Field(rep, "drAutoSyncStatus", "StateID")
	persist := F(P.Method(rep, "ModeManager", "drPersistStatus"))
	save := F(P.Method("server/core", "Storage", "SaveReplicationStatus"))
	allocID := P.IMethod("server/schedule/opt", "Cluster", "AllocID")
	n := 0
	for _, fn := range P.Funcs {
		if P.isScaffold(fn) || fnPkgPath(fn) != modPath+"/"+rep {
			continue
		}
		for _, b := range fn.Blocks {
			for _, ins := range b.Instrs {
				st, ok := ins.(*ssa.Store)
				if !ok {
					continue
				}
				whole := fieldOfAddr(st.Addr) == dr && !isFreshBase(st.Addr)
				nested := !whole && addrUnderField(st.Addr, dr)
				if !whole && !nested {
					continue
				}
				if nested {
					f := fieldOfAddr(st.Addr)
					if f != stState && f != stID {
						c.OK(c.Prop+"/state-writers", fmt.Sprintf("write of drAutoSync.%s in %s", f.Name(), fnName(fn)), "progress fields only (state and state id are not touched)", P.instrPos(st))
						continue
					}
					c.Viol(rule, fmt.Sprintf("write of drAutoSync.%s in %s", f.Name(), fnName(fn)), "state and state id of the served status change only by installing a status that was persisted first", P.instrPos(st),
						"the served status is edited in place: it is visible to stores before it is persisted and a failed persist cannot leave it unchanged")
					continue
				}
				n++
				c.saw(fnName(fn))
				v := st.Val // load of the local status
				persisted := newOkEv(fn, "ok(drPersistStatus(dr))", func(cl *ssa.Call) bool {
					if !persist.Match(cl.Common()) {
						return false
					}
					a := callArgs(cl.Common())
					if len(a) != 1 {
						return false
					}
					if u, isLoad := v.(*ssa.UnOp); isLoad && u.Op == token.MUL && strip(a[0]) == u.X {
						return true // handed over by address: the same local
					}
					return sameVal(a[0], v)
				})
				saved := newOkEv(fn, "ok(SaveReplicationStatus(dr))", func(cl *ssa.Call) bool {
					if !save.Match(cl.Common()) {
						return false
					}
					a := callArgs(cl.Common())
					return len(a) == 2 && sameVal(strip(a[1]), v)
				})
				_, fails := requireAt(P, fn, 0, []Ev{persisted, saved}, func(x ssa.Instruction) bool { return x == st }, all)
				c.Check(len(fails) == 0, rule, "m.drAutoSync = dr in "+fnName(fn), "the status is offered to all members (drPersistStatus) and saved successfully — the same value — before it is served", P.instrPos(st), failDesc(fails))
				// fresh state id: the StateID of the installed status is the result of AllocID in this function, after its success
				cell := cellOf(v)
				okID := false
				// the status may be handed on through copies (a parameter cell of a helper written in place): follow
				// whole-value stores back to the cell the fields were written to
				for hop := 0; hop < 3 && cell != nil; hop++ {
					hasField := false
					var from *ssa.Alloc
					for _, r := range *cell.Referrers() {
						if fa, ok := r.(*ssa.FieldAddr); ok && fieldOfAddr(fa) == stID {
							for _, rr := range *fa.Referrers() {
								if s2, ok := rr.(*ssa.Store); ok && s2.Addr == ssa.Value(fa) {
									hasField = true
								}
							}
						}
						if s2, ok := r.(*ssa.Store); ok && s2.Addr == ssa.Value(cell) {
							if c2 := cellOf(s2.Val); c2 != nil && c2 != cell {
								from = c2
							}
						}
					}
					if hasField || from == nil {
						break
					}
					cell = from
				}
				if cell != nil {
					for _, r := range *cell.Referrers() {
						fa, ok := r.(*ssa.FieldAddr)
						if !ok || fieldOfAddr(fa) != stID {
							continue
						}
						for _, rr := range *fa.Referrers() {
							if s2, ok := rr.(*ssa.Store); ok && s2.Addr == fa && valueIsCallTo(s2.Val, allocID) {
								okAlloc := newOkEv(fn, "ok(AllocID)", callMatcher(allocID))
								_, f2 := requireAt(P, fn, 0, []Ev{okAlloc}, func(x ssa.Instruction) bool { return x == s2 }, all)
								okID = len(f2) == 0
							}
						}
					}
				}
				c.Check(okID, c.Prop+"/fresh-state-id", "StateID installed by "+fnName(fn), "is the id returned by a successful cluster.AllocID() in the same transition (never reused)", P.instrPos(st), "state id does not come from AllocID")
			}
		}
	}
	if n < 3 {
		c.Undec(rule, "installations of drAutoSync", "at least 3 (async, sync_recover, sync)", "", fmt.Sprint(n))
	}
	// loading: the only other writer is LoadReplicationStatus(&m.drAutoSync) at construction
	load := F(P.Method("server/core", "Storage", "LoadReplicationStatus"))
	for _, fn := range P.Funcs {
		if P.isScaffold(fn) {
			continue
		}
		for _, b := range fn.Blocks {
			for _, ins := range b.Instrs {
				ci, ok := ins.(ssa.CallInstruction)
				if !ok || _isLock(ins) {
					continue
				}
				for _, a := range ci.Common().Args {
					a = strip(a)
					if fieldOfAddr(a) == dr && !load.Match(ci.Common()) {
						c.Viol(c.Prop+"/state-writers", "address of drAutoSync passed to "+ci.Common().String()+" in "+fnName(fn), "only the loader receives the served status by address", P.instrPos(ins), "")
					}
				}
			}
		}
	}
	lock := P.Field(rep, "ModeManager", "RWMutex")
	guardedBy(c, c.Prop+"/state-lock", dr, lock, map[string]string{
		"(*server/replication.ModeManager).loadDRAutoSync": "runs in the constructor before the manager is shared",
	})
}

func _isLock(ins ssa.Instruction) bool { f, _, _ := lockOp(ins); return f != nil }

func ruleTransitionGuards(c *Ctx) {
	P := c.P
	rule := c.Prop + "/transition-guards"
	tick := P.Method(rep, "ModeManager", "tickDR")
	mm := func(m string) Callee { return F(P.Method(rep, "ModeManager", m)) }
	getState := mm("drGetState")
	check := P.Method(rep, "ModeManager", "checkStoreStatus")
	primary := P.Field(cfgPkg, "DRAutoSyncReplicationConfig", "PrimaryReplicas")
	drRep := P.Field(cfgPkg, "DRAutoSyncReplicationConfig", "DRReplicas")
	downOf := func(idx int) valPred {
		return func(v ssa.Value) bool {
			cl, i := callOf(v)
			return cl != nil && F(check).Match(cl.Common()) && i == idx
		}
	}
	// canSync: a φ (or &&-value) built from both per-DC comparisons
	var canSync *ssa.Phi
	for _, b := range tick.Blocks {
		for _, ins := range b.Instrs {
			phi, ok := ins.(*ssa.Phi)
			if !ok {
				continue
			}
			for _, e := range phi.Edges {
				if bo, ok := e.(*ssa.BinOp); ok && bo.Op == token.LSS && downOf(1)(bo.X) && isLoadOf(bo.Y, drRep) {
					canSync = phi
				}
			}
		}
	}
	if canSync == nil {
		undecidedf("canSync (downPrimary < primary && downDR < dr) not found in tickDR")
	}
	c.Check(hasComparison(tick, "<", downOf(0), loadOfField(primary)) && hasComparison(tick, "<", downOf(1), loadOfField(drRep)), rule, "canSync in "+fnName(tick),
		"true only when both datacenters have fewer failed stores than replicas", P.pos(tick.Pos()), "")
	// the φ is false on the edge where the primary comparison failed
	okPhi := false
	for i, e := range canSync.Edges {
		if bv, ok := constBool(e); ok && !bv {
			pred := canSync.Block().Preds[i]
			if iff, ok := pred.Instrs[len(pred.Instrs)-1].(*ssa.If); ok {
				if r, ok := relOf(iff.Cond, true); ok && matchRel(r, "<", downOf(0), loadOfField(primary)) {
					okPhi = true
				}
			}
		}
	}
	c.Check(okPhi, rule, "canSync (primary half)", "false whenever the primary datacenter has lost all its replicas", P.pos(tick.Pos()), "")
	gCan := func(want bool) Ev {
		return &guardEv{name: fmt.Sprintf("canSync == %v", want), match: func(cond ssa.Value, pos bool) bool { return cond == ssa.Value(canSync) && pos == want }}
	}
	majority := guardRel("hasMajority (up*2 > total)", ">", func(v ssa.Value) bool {
		b, ok := strip(v).(*ssa.BinOp)
		return ok && b.Op == token.MUL && isConstInt(2)(b.Y)
	}, func(v ssa.Value) bool {
		b, ok := strip(v).(*ssa.BinOp)
		return ok && b.Op == token.ADD && (isLoadOf(b.X, primary) || isLoadOf(b.Y, primary))
	})
	stateIs := func(op, s string) Ev { return guardRel("state "+op+" "+s, op, resultOfCall(getState), isConstStr(s)) }
	timeout := guardCall("drCheckAsyncTimeout()", true, callMatcher(mm("drCheckAsyncTimeout")))
	c.need(rule, tick, "call drSwitchToAsync", instrCallMatcher(mm("drSwitchToAsync")), []Ev{gCan(false), majority, stateIs("!=", "async"), timeout}, all,
		"→ async only when a datacenter lost all replicas, a majority of all replicas can still be up, the state is not already async and the wait timeout has passed")
	c.need(rule, tick, "call drSwitchToSyncRecover", instrCallMatcher(mm("drSwitchToSyncRecover")), []Ev{gCan(true), stateIs("==", "async")}, all,
		"async → sync_recover only when both datacenters again have fewer failed stores than replicas")
	est := mm("estimateProgress")
	full := guardRel("progress == 1.0", "==", resultOfCall(est), func(v ssa.Value) bool {
		cst, ok := strip(v).(*ssa.Const)
		return ok && cst.Value != nil && cst.Value.ExactString() == "1"
	})
	c.need(rule, tick, "call drSwitchToSync", instrCallMatcher(mm("drSwitchToSync")), []Ev{stateIs("==", "sync_recover"), full,
		&calledEv{name: "updateProgress()", match: instrCallMatcher(mm("updateProgress"))}}, all,
		"sync_recover → sync only when the progress estimated after this tick's scan is exactly 1.0")
	// state constants
	for name, want := range map[string]string{"drStateAsync": "async", "drStateSync": "sync", "drStateSyncRecover": "sync_recover"} {
		cst, ok := P.obj(rep, name).(*types.Const)
		c.Check(ok && cst.Val().ExactString() == fmt.Sprintf("%q", want), rule, "constant "+name, "== "+want, P.pos(P.obj(rep, name).Pos()), "")
	}
	// each switch function installs its own state
	for _, sp := range []struct{ fn, state string }{{"drSwitchToAsyncWithLock", "async"}, {"drSwitchToSyncRecoverWithLock", "sync_recover"}, {"drSwitchToSync", "sync"}} {
		fn := P.Method(rep, "ModeManager", sp.fn)
		stState := P.Field(rep, "drAutoSyncStatus", "State")
		okS := false
		for _, st := range storesToField(fn, stState) {
			if isConstStr(sp.state)(st.Val) {
				okS = true
			}
		}
		c.Check(okS, rule, "state installed by "+fnName(fn), "is "+sp.state, P.pos(fn.Pos()), "")
	}
	// UpdateConfig restores the configuration when the switch fails
	uc := P.Method(rep, "ModeManager", "UpdateConfig")
	cfgF := P.Field(rep, "ModeManager", "config")
	for _, sw := range []Callee{mm("drSwitchToSyncRecoverWithLock"), mm("drSwitchToAsyncWithLock")} {
		sw := sw
		failed := newSettledEv(uc, sw.CName(), callMatcher(sw))
		restored := &calledEv{name: "m.config restored", match: func(x ssa.Instruction) bool { return isStoreToField(x, cfgF) }, reset: instrCallMatcher(sw)}
		c.need(c.Prop+"/config-rollback", uc, "return after "+sw.CName(), func(x ssa.Instruction) bool { _, ok := x.(*ssa.Return); return ok }, []Ev{failed, restored}, anyOf,
			"a failed transition leaves the manager's configuration as it was")
	}
}

func ruleRecoveryAtoms(c *Ctx) {
	P := c.P
	rule := c.Prop + "/recovery"
	key := P.Field(rep, "ModeManager", "drRecoverKey")
	cnt := P.Field(rep, "ModeManager", "drRecoverCount")
	dr := P.Field(rep, "ModeManager", "drAutoSync")
	stState := P.Field(rep, "drAutoSyncStatus", "State")
	stID := P.Field(rep, "drAutoSyncStatus", "StateID")
	// entering sync_recover resets the cursor, in the function that installs the state
	for _, fn := range P.Funcs {
		if P.isScaffold(fn) || fnPkgPath(fn) != modPath+"/"+rep {
			continue
		}
		for _, st := range storesToField(fn, dr) {
			if isFreshBase(st.Addr) {
				continue
			}
			cell := cellOf(st.Val)
			isRecover := false
			if cell != nil {
				for _, r := range *cell.Referrers() {
					if fa, ok := r.(*ssa.FieldAddr); ok && fieldOfAddr(fa) == stState {
						for _, rr := range *fa.Referrers() {
							if s2, ok := rr.(*ssa.Store); ok && isConstStr("sync_recover")(s2.Val) {
								isRecover = true
							}
						}
					}
				}
			}
			if !isRecover {
				continue
			}
			installed := &calledEv{name: "sync_recover installed", match: func(x ssa.Instruction) bool { return x == ssa.Instruction(st) }}
			resetK := &calledEv{name: "drRecoverKey = nil", match: func(x ssa.Instruction) bool {
				s, ok := x.(*ssa.Store)
				return ok && fieldOfAddr(s.Addr) == key && isNilConst(s.Val)
			}}
			resetC := &calledEv{name: "drRecoverCount = 0", match: func(x ssa.Instruction) bool {
				s, ok := x.(*ssa.Store)
				return ok && fieldOfAddr(s.Addr) == cnt && isConstInt(0)(s.Val)
			}}
			c.need(rule, fn, "return", func(x ssa.Instruction) bool { _, ok := x.(*ssa.Return); return ok }, []Ev{installed, resetK, resetC}, func(h []bool) bool { return !h[0] || (h[1] && h[2]) },
				"whoever installs the sync_recover state also resets the recovery cursor (no progress of an earlier recovery is counted under the new state id)")
		}
	}
	// the cursor advances only past a region that reported integrity
	up := P.Method(rep, "ModeManager", "updateProgress")
	crr := F(P.Method(rep, "ModeManager", "checkRegionRecover"))
	c.need(rule, up, "advance of the recovery cursor", func(x ssa.Instruction) bool {
		s, ok := x.(*ssa.Store)
		return ok && (fieldOfAddr(s.Addr) == key || fieldOfAddr(s.Addr) == cnt)
	}, []Ev{guardCall("checkRegionRecover(r, cursor)", true, callMatcher(crr))}, all, "the cursor moves only past a region that passed checkRegionRecover")
	// the region is checked against the cursor key (contiguity) and the key becomes the region's end key
	okArg := false
	for _, ci := range callsIn(up, false, crr) {
		if a := callArgs(ci.Common()); len(a) == 2 && isLoadOf(a[1], key) {
			okArg = true
		}
	}
	c.Check(okArg, rule, "contiguity in "+fnName(up), "each scanned region must start at the cursor key", P.pos(up.Pos()), "")
	endKey := F(P.Method("server/core", "RegionInfo", "GetEndKey"))
	okEnd := false
	for _, st := range storesToField(up, key) {
		if valueIsCallTo(st.Val, endKey) {
			okEnd = true
		}
	}
	c.Check(okEnd, rule, "cursor value in "+fnName(up), "the cursor becomes the end key of the recovered region", P.pos(up.Pos()), "")
	// checkRegionRecover atoms
	cr := P.Method(rep, "ModeManager", "checkRegionRecover")
	rs := "github.com/pingcap/kvproto/pkg/replication_modepb"
	getSID := F(P.Method(rs, "RegionReplicationStatus", "GetStateId"))
	getSt := F(P.Method(rs, "RegionReplicationStatus", "GetState"))
	integ, _ := constIntObj(P.obj(rs, "RegionReplicationState_INTEGRITY_OVER_LABEL"))
	// the region counts as recovered only if it starts at the cursor, reports the current state id and reports integrity
	c.trueOnlyIf(rule, cr, []namedAtom{
		{"start key == cursor", func(cond ssa.Value, pos bool) bool {
			cl, ok := cond.(*ssa.Call)
			if !ok || !pos {
				return false
			}
			f := cl.Call.StaticCallee()
			return f != nil && f.Pkg != nil && f.Pkg.Pkg.Path() == "bytes" && f.Name() == "Equal"
		}},
		{"StateId == current state id", relMatcher("==", resultOfCall(getSID), func(v ssa.Value) bool { return isLoadOf(v, stID) })},
		{"State == INTEGRITY_OVER_LABEL", relMatcher("==", resultOfCall(getSt), isConstInt(integ))},
	})
	// estimateProgress says 1.0 only when the whole key space was walked
	est := P.Method(rep, "ModeManager", "estimateProgress")
	c.need(rule, est, "return 1.0", func(x ssa.Instruction) bool {
		r, ok := x.(*ssa.Return)
		if !ok || len(r.Results) != 1 {
			return false
		}
		cst, ok := retVal(r, 0).(*ssa.Const)
		return ok && cst.Value != nil && cst.Value.ExactString() == "1"
	}, []Ev{guardRel("len(drRecoverKey) == 0", "==", lenOf(loadOfField(key)), isConstInt(0)), guardRel("drRecoverCount > 0", ">", loadOfField(cnt), isConstInt(0))}, all,
		"full progress is reported only when the cursor wrapped to the end of the key space after at least one region")
	// any other return is strictly below 1 by construction: the sample total is forced above the recovered count
	sTot := P.Field(rep, "ModeManager", "drSampleTotalRegion")
	sRec := P.Field(rep, "ModeManager", "drSampleRecoverCount")
	c.Check(hasComparison(est, "<=", loadOfField(sTot), loadOfField(sRec)), rule, "sample bound in "+fnName(est), "the estimate is kept below 1 unless the walk is complete", P.pos(est.Pos()), "")
}

// ruleFailedStoreCount: a store counts as failed when it is not a tombstone
// and has been silent for the configured timeout — whatever its state
// otherwise (an offline store that died is as gone as an up one).
func ruleFailedStoreCount(c *Ctx) {
	P := c.P
	rule := c.Prop + "/transition-guards"
	fn := P.Method("server/replication", "ModeManager", "checkStoreStatus")
	si := func(m string) Callee { return F(P.Method("server/core", "StoreInfo", m)) }
	notTomb := guardCall("!IsTombstone()", false, callMatcher(si("IsTombstone")))
	silent := guardRel("DownTime() >= wait-store-timeout", ">=", resultOfCall(si("DownTime")), anyVal)
	n := c.mustPrecede(rule, fn, "a store counted as failed", func(x ssa.Instruction) bool {
		bo, ok := x.(*ssa.BinOp)
		if !ok || bo.Op != token.ADD || !isConstInt(1)(bo.Y) {
			return false
		}
		// a counter: a named result (a cell, because of the deferred unlock) or a local carried round the loop
		if u, isLoad := bo.X.(*ssa.UnOp); isLoad && u.Op == token.MUL {
			_, isCell := u.X.(*ssa.Alloc)
			return isCell
		}
		phi, isPhi := bo.X.(*ssa.Phi)
		return isPhi && phi.Comment != "rangeindex"
	}, []Ev{notTomb, silent}, all, "counted only when it is not a tombstone and has been silent for the timeout")
	if n < 2 {
		c.Undec(rule, "fail counters in "+fnName(fn), "two (primary, dr)", P.pos(fn.Pos()), fmt.Sprint(n))
	}
	// and nothing else is consulted to skip a store: no other StoreInfo state predicate decides in this function
	for _, m := range []string{"IsUp", "IsOffline", "IsDisconnected", "IsUnhealthy", "IsPhysicallyDestroyed"} {
		c.Check(len(callsIn(fn, false, si(m))) == 0, rule, m+"() in "+fnName(fn), "no further state predicate narrows the set of stores that can count as failed", P.pos(fn.Pos()), "")
	}
}

// ruleStatusReachesCache: the recovery scan reads the replication status of
// the *cached* regions. A heartbeat whose status differs from the cached one —
// in state or in state id — must therefore replace the cached region, whatever
// the new state is (a region falling back from integrity to simple majority
// under the same state id included); the only status that is not a report is
// UNKNOWN. So the comparison with the cached status is reached under no other
// test of the reported state than "!= UNKNOWN".
func ruleStatusReachesCache(c *Ctx) {
	P := c.P
	rule := c.Prop + "/recovery"
	rs := "github.com/pingcap/kvproto/pkg/replication_modepb"
	hb := P.Method("server/cluster", "RaftCluster", "processRegionHeartbeat")
	getState := F(P.Method(rs, "RegionReplicationStatus", "GetState"))
	getStateID := F(P.Method(rs, "RegionReplicationStatus", "GetStateId"))
	c.saw(fnName(hb))
	isCmp := func(g Callee) func(ssa.Instruction) bool {
		return func(x ssa.Instruction) bool {
			b, ok := x.(*ssa.BinOp)
			return ok && (b.Op == token.NEQ || b.Op == token.EQL) && resultOfCall(g)(b.X) && resultOfCall(g)(b.Y)
		}
	}
	restricted := &guardEv{name: "the reported state was tested against a constant other than '!= UNKNOWN'", match: func(cond ssa.Value, pos bool) bool {
		r, ok := relOf(cond, pos)
		if !ok {
			return false
		}
		var k int64
		var isC bool
		switch {
		case resultOfCall(getState)(r.X):
			k, isC = constInt(r.Y)
		case resultOfCall(getState)(r.Y):
			k, isC = constInt(r.X)
		}
		if !isC {
			return false
		}
		return !(r.Op == token.NEQ && k == 0)
	}}
	n := 0
	for _, g := range []Callee{getState, getStateID} {
		n += c.mustPrecede(rule, hb, "comparison of the reported "+g.CName()+" with the cached one", isCmp(g), []Ev{restricted}, func(h []bool) bool { return !h[0] },
			"a changed replication status refreshes the cached region whatever the new state is (only UNKNOWN is not a report)")
	}
	if n < 2 {
		c.Undec(rule, "status comparisons in "+fnName(hb), "state and state id each compared with the cached region's", "", fmt.Sprint(n))
	}
}

func init() {
	register("C19", "DR auto-sync only declares 'sync' when every region is in sync", func(c *Ctx) {
		c.Group("C19/persist-before-serve", "a new status is offered to members and saved (same value) before it is served; its state id comes from a successful AllocID; the served status is otherwise only loaded or given progress numbers; accessed under the manager lock", func() {
			rulePersistBeforeServe(c)
			ruleTransitionIsOneCriticalSection(c)
			ruleMembersGetTheNewStatus(c)
		})
		c.Group("C19/transition-guards", "tickDR: →async, async→sync_recover and sync_recover→sync are called only under their stated conditions; UpdateConfig rolls its config back when the switch fails", func() { ruleTransitionGuards(c); ruleFailedStoreCount(c); ruleUpdateConfigGuards(c) })
		c.Group("C19/recovery", "entering sync_recover resets the cursor; the cursor advances only past contiguous regions reporting integrity under the current state id; progress 1.0 only after the whole key space", func() { ruleRecoveryAtoms(c); ruleStatusReachesCache(c) })
	})
}

// ruleTransitionIsOneCriticalSection: a state transition draws its state id,
// offers the status file to the members, saves it and publishes it under one
// hold of the manager lock. If only the publication is locked, a slower
// transition can be published after a newer one: the served state id goes
// backwards, the served state differs from the saved one, and sync can follow
// async without a recovery in between.
func ruleTransitionIsOneCriticalSection(c *Ctx) {
	P := c.P
	rule := c.Prop + "/persist-before-serve"
	dr := P.Field(rep, "ModeManager", "drAutoSync")
	lock := P.Field(rep, "ModeManager", "RWMutex")
	persist := F(P.Method(rep, "ModeManager", "drPersistStatus"))
	save := F(P.Method("server/core", "Storage", "SaveReplicationStatus"))
	allocID := P.IMethod("server/schedule/opt", "Cluster", "AllocID")
	n := 0
	for _, fn := range P.Funcs {
		if P.isScaffold(fn) || fnPkgPath(fn) != modPath+"/"+rep || fn.Parent() != nil {
			continue
		}
		// a transition: allocates an id and publishes a whole status
		publishes := false
		var pubs []ssa.Instruction
		for _, st := range storesToField(fn, dr) {
			if !isFreshBase(st.Addr) {
				publishes = true
				pubs = append(pubs, st)
			}
		}
		ids := callsIn(fn, false, allocID)
		if !publishes || len(ids) == 0 {
			continue
		}
		n++
		steps := pubs
		for _, ci := range ids {
			steps = append(steps, ci.(ssa.Instruction))
		}
		for _, ci := range callsIn(fn, false, persist, save) {
			steps = append(steps, ci.(ssa.Instruction))
		}
		ok, why := true, ""
		for _, st := range steps {
			held, _ := heldAt(P, st, lock, true)
			if !held {
				held, why = callersHold(P, fn, lock, true, 2, map[*ssa.Function]bool{})
			}
			if !held {
				ok = false
				if why == "" {
					why = "not under the manager lock at " + P.instrPos(st)
				}
				break
			}
		}
		// one hold: the lock is not given up between two steps
		if ok {
			for _, b := range fn.Blocks {
				for _, ins := range b.Instrs {
					f, op, deferred := lockOp(ins)
					if f != lock || deferred || op != "Unlock" {
						continue
					}
					before, after := false, false
					for _, st := range steps {
						before = before || instrReaches(st, ins)
						after = after || instrReaches(ins, st)
					}
					if before && after {
						ok, why = false, "the lock is released at "+P.instrPos(ins)+" between two steps of the transition"
					}
				}
			}
		}
		c.Check(ok, rule, "transition steps of "+fnName(fn), "the state id is drawn, the status offered to the members, saved and published under one hold of the manager's write lock", P.pos(fn.Pos()), why)
	}
	if n < 3 {
		c.Undec(rule, "state transitions (→async, →sync_recover, →sync)", "3", "", fmt.Sprint(n))
	}
	// saved → served: once the new status is in storage and the function goes on to report success, it is published
	k := 0
	for _, fn := range P.Funcs {
		if P.isScaffold(fn) || fnPkgPath(fn) != modPath+"/"+rep || fn.Parent() != nil || len(callsIn(fn, false, save)) == 0 || len(callsIn(fn, false, allocID)) == 0 {
			continue
		}
		k++
		c.mustFollow(rule, fn, "SaveReplicationStatus", instrCallMatcher(save), "m.drAutoSync = dr", func(x ssa.Instruction) bool {
			st, isSt := x.(*ssa.Store)
			return isSt && fieldOfAddr(st.Addr) == dr && !isFreshBase(st.Addr)
		}, errorExit, "a status that was saved is the status served from then on (stored and served state do not drift apart)")
	}
	if k < 3 {
		c.Undec(rule, "functions saving a new status", "3", "", fmt.Sprint(k))
	}
}

// instrReaches: can control flow from instruction a to instruction b inside
// their function (a strictly before b on some path)?
func instrReaches(a, b ssa.Instruction) bool {
	if a.Parent() != b.Parent() {
		return false
	}
	ba, bb := a.Block(), b.Block()
	if ba == bb {
		ia, ib := -1, -1
		for i, x := range ba.Instrs {
			if x == a {
				ia = i
			}
			if x == b {
				ib = i
			}
		}
		if ia < ib {
			return true
		}
	}
	seen := map[*ssa.BasicBlock]bool{}
	work := append([]*ssa.BasicBlock{}, ba.Succs...)
	for len(work) > 0 {
		x := work[len(work)-1]
		work = work[:len(work)-1]
		if seen[x] {
			continue
		}
		seen[x] = true
		if x == bb {
			return true
		}
		work = append(work, x.Succs...)
	}
	return false
}

// ruleMembersGetTheNewStatus: what drPersistStatus sends to the members is the
// status it was handed — the one about to be served — and not the one still
// being served. The members' file is what a disaster-recovery read trusts.
func ruleMembersGetTheNewStatus(c *Ctx) {
	P := c.P
	rule := c.Prop + "/persist-before-serve"
	fn := P.Method(rep, "ModeManager", "drPersistStatus")
	c.saw(fnName(fn))
	dr := P.Field(rep, "ModeManager", "drAutoSync")
	send := P.IMethod(rep, "FileReplicater", "ReplicateFileToAllMembers")
	n := 0
	for _, ci := range callsIn(fn, false, send) {
		a := callArgs(ci.Common())
		if len(a) == 0 {
			continue
		}
		n++
		data := a[len(a)-1]
		fromParam, fromServed := false, false
		for _, p := range fn.Params[1:] {
			if derivesFrom(data, same(p), 8) {
				fromParam = true
			}
		}
		if derivesFrom(data, loadOfField(dr), 8) {
			fromServed = true
		}
		c.Check(fromParam && !fromServed, rule, fmt.Sprintf("file sent to the members #%d in %s", n, fnName(fn)), "the marshalled status is the one handed in (about to be served), not the one still served", P.instrPos(ci.(ssa.Instruction)), fmt.Sprintf("derives from the parameter: %v, from m.drAutoSync: %v", fromParam, fromServed))
	}
	if n == 0 {
		c.Undec(rule, "ReplicateFileToAllMembers in "+fnName(fn), "found", P.pos(fn.Pos()), "")
	}
}

// ruleUpdateConfigGuards: an online switch of the replication mode starts the
// state machine from the right end: a recovery (sync_recover, with a fresh id
// and a reset cursor) when the *served* mode is majority and the *new* mode is
// dr-auto-sync. With the two configurations mixed up the switch falls through
// to a plain assignment and the zero-valued state — "sync", id 0 — is served.
func ruleUpdateConfigGuards(c *Ctx) {
	P := c.P
	rule := c.Prop + "/transition-guards"
	fn := P.Method(rep, "ModeManager", "UpdateConfig")
	cfgF := P.Field(rep, "ModeManager", "config")
	modeF := P.Field("server/config", "ReplicationModeConfig", "ReplicationMode")
	recover := F(P.Method(rep, "ModeManager", "drSwitchToSyncRecoverWithLock"))
	// the mode field read from the served configuration (m.config) / from the parameter
	ofServed := func(v ssa.Value) bool {
		u, ok := strip(v).(*ssa.UnOp)
		if !ok || fieldOfAddr(u.X) != modeF {
			return false
		}
		fa, ok := u.X.(*ssa.FieldAddr)
		return ok && fieldOfAddr(fa.X) == cfgF
	}
	ofNew := func(v ssa.Value) bool {
		u, ok := strip(v).(*ssa.UnOp)
		if !ok || fieldOfAddr(u.X) != modeF {
			return false
		}
		fa, ok := u.X.(*ssa.FieldAddr)
		if !ok || fieldOfAddr(fa.X) == cfgF {
			return false
		}
		// a field of the parameter (spilled into a local)
		return derivesFrom(fa.X, func(w ssa.Value) bool { _, isA := w.(*ssa.Alloc); return isA }, 2) || len(fn.Params) > 1
	}
	servedMajority := guardRel("served mode == majority", "==", ofServed, isConstStr("majority"))
	newDR := guardRel("new mode == dr-auto-sync", "==", ofNew, isConstStr("dr-auto-sync"))
	c.need(rule, fn, "call drSwitchToSyncRecoverWithLock", instrCallMatcher(recover), []Ev{servedMajority, newDR}, all,
		"the recovery is started when the served mode is majority and the new mode is dr-auto-sync")
}
