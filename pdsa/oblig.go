package main

import (
	"encoding/json"
	"fmt"
	"os"
	"path/filepath"
	"sort"
	"strings"
	"time"
)

type Verdict string

const (
	OK        Verdict = "OK"
	VIOLATION Verdict = "VIOLATION"
	UNDECIDED Verdict = "UNDECIDED"
	KNOWN     Verdict = "KNOWN-FINDING"
	INFO      Verdict = "INFO"
)

// Obl is one obligation: rule applied to a construct with a requirement.
// Key = Rule + "|" + Construct (never a line number).
type Obl struct {
	Rule      string  `json:"rule"`
	Construct string  `json:"construct"`
	Req       string  `json:"requirement"`
	Verdict   Verdict `json:"verdict"`
	Pos       string  `json:"at,omitempty"`
	Detail    string  `json:"detail,omitempty"`
}

func (o Obl) Key() string { return o.Rule + "|" + o.Construct }

type Ctx struct {
	P         *Prog
	Prop      string
	Tier      string
	Obls      []Obl
	FnSeen    map[string]bool // functions whose bodies a rule walked
	CallSites int
	Rules     []string // rule texts (the oracle), echoed in evidence
	curRule   string
}

func (c *Ctx) add(v Verdict, rule, construct, req, pos, detail string) {
	c.Obls = append(c.Obls, Obl{rule, construct, req, v, pos, detail})
}
func (c *Ctx) OK(rule, construct, req, pos string) { c.add(OK, rule, construct, req, pos, "") }
func (c *Ctx) Viol(rule, construct, req, pos, detail string) {
	c.add(VIOLATION, rule, construct, req, pos, detail)
}
func (c *Ctx) Undec(rule, construct, req, pos, detail string) {
	c.add(UNDECIDED, rule, construct, req, pos, detail)
}
func (c *Ctx) Info(rule, construct, req, pos, detail string) {
	c.add(INFO, rule, construct, req, pos, detail)
}

// Check records OK when cond holds and VIOLATION otherwise.
func (c *Ctx) Check(cond bool, rule, construct, req, pos, detail string) bool {
	if cond {
		c.OK(rule, construct, req, pos)
	} else {
		c.Viol(rule, construct, req, pos, detail)
	}
	return cond
}

func (c *Ctx) saw(fnname string) {
	if c.FnSeen == nil {
		c.FnSeen = map[string]bool{}
	}
	c.FnSeen[fnname] = true
}

// Floor: a rule that matches fewer protective instances than were confirmed
// by hand on the reference tree does not pass vacuously.
func (c *Ctx) Floor(rule string, n int, what string) {
	cnt := 0
	var have []string
	for _, o := range c.Obls {
		if o.Rule == rule && (o.Verdict == OK || o.Verdict == KNOWN) {
			cnt++
			have = append(have, o.Construct)
		}
	}
	if cnt < n {
		sort.Strings(have)
		c.Viol(rule+"/floor", fmt.Sprintf("instances(%s)", rule),
			fmt.Sprintf("at least %d %s (confirmed by reading the reference tree)", n, what), "",
			fmt.Sprintf("only %d found: %s", cnt, strings.Join(have, "; ")))
	} else {
		c.OK(rule+"/floor", fmt.Sprintf("instances(%s)", rule), fmt.Sprintf(">= %d %s; found %d", n, what, cnt), "")
	}
}

// Group runs one rule group; an unresolved subject (symbol gone, flow the engine
// cannot follow) or an analyser panic becomes UNDECIDED, never a silent pass.
func (c *Ctx) Group(rule, text string, f func()) {
	c.Rules = append(c.Rules, rule+": "+text)
	c.curRule = rule
	defer func() {
		if r := recover(); r != nil {
			if u, ok := r.(undecided); ok {
				c.Undec(rule, "subject", "rule subject must resolve", "", u.msg)
				return
			}
			c.Undec(rule, "analyser", "analyser must not fail", "", fmt.Sprintf("panic: %v", r))
		}
	}()
	f()
}

// ---- known findings ----

type Finding struct {
	Property  string `json:"property"`
	Rule      string `json:"rule"`
	Construct string `json:"construct"`
	What      string `json:"what_fails"`
	Status    string `json:"status"` // "known" | "fixed"
	Commit    string `json:"commit,omitempty"`
}

func loadFindings(dir string) []Finding {
	var fs []Finding
	b, err := os.ReadFile(filepath.Join(dir, "known_findings.json"))
	if err != nil {
		return nil
	}
	var doc struct {
		Findings []Finding `json:"findings"`
	}
	if json.Unmarshal(b, &doc) == nil {
		fs = doc.Findings
	}
	return fs
}

// ---- finishing: verdict, evidence, exit code ----

type Result struct {
	Exit int
}

func (c *Ctx) Finish(verifDir string, start time.Time, extra map[string]interface{}) int {
	findings := loadFindings(verifDir)
	known := map[string]Finding{}
	for _, f := range findings {
		if f.Property == c.Prop && f.Status == "known" {
			known[f.Rule+"|"+f.Construct] = f
		}
	}
	nOK, nV, nU, nK := 0, 0, 0, 0
	var knownMatched []string
	for i := range c.Obls {
		o := &c.Obls[i]
		if o.Verdict == VIOLATION {
			if f, ok := known[o.Key()]; ok {
				o.Verdict = KNOWN
				knownMatched = append(knownMatched, o.Key())
				fmt.Printf("KNOWN-FINDING: property=%s %s [%s] %s\n", c.Prop, f.What, o.Key(), o.Pos)
			}
		}
		switch o.Verdict {
		case OK:
			nOK++
		case VIOLATION:
			nV++
		case UNDECIDED:
			nU++
		case KNOWN:
			nK++
		}
	}
	// print obligations
	sort.SliceStable(c.Obls, func(i, j int) bool { return c.Obls[i].Rule < c.Obls[j].Rule })
	for _, o := range c.Obls {
		if (o.Verdict == OK || o.Verdict == INFO) && os.Getenv("PDSA_VERBOSE") == "" {
			continue
		}
		fmt.Printf("%-13s %s  %s  [%s]  req: %s", o.Verdict, o.Pos, o.Construct, o.Rule, o.Req)
		if o.Detail != "" {
			fmt.Printf("\n              %s", strings.ReplaceAll(o.Detail, "\n", "\n              "))
		}
		fmt.Println()
	}
	wall := time.Since(start).Seconds()
	total := nOK + nV + nU + nK
	fmt.Printf("%s tier=%s: %d obligations: %d OK, %d violation, %d undecided, %d known-finding; %d functions walked; %.1fs\n",
		c.Prop, c.Tier, total, nOK, nV, nU, nK, len(c.FnSeen), wall)

	// samples: up to 12 actual obligations, violations first
	var samples []Obl
	for _, want := range []Verdict{VIOLATION, UNDECIDED, KNOWN, OK} {
		for _, o := range c.Obls {
			if o.Verdict == want && len(samples) < 14 {
				samples = append(samples, o)
			}
		}
	}
	distinct := map[string]bool{}
	for _, o := range c.Obls {
		if o.Verdict != INFO {
			distinct[o.Key()] = true
		}
	}
	var fns []string
	for f := range c.FnSeen {
		fns = append(fns, f)
	}
	sort.Strings(fns)
	cov := map[string]interface{}{
		"explanation": "Static analysis of /repo's current working tree (go/packages type-checked program + go/ssa); decides structural necessary conditions of " +
			c.Prop + ", not the runtime behaviour. Rules applied: " + strings.Join(c.Rules, " || "),
		"obligations":            total,
		"discharged":             nOK,
		"evaluations":            total,
		"distinct_nontrivial":    len(distinct),
		"rule":                   "one evaluation = one (rule, construct) obligation generated from the type-checked program; distinct = distinct rule|construct keys; every obligation is non-trivial in that it names a concrete code construct that had to satisfy the rule",
		"samples":                samples,
		"functions_analysed":     len(c.FnSeen),
		"functions":              fns,
		"program_functions":      len(c.P.Funcs),
		"packages":               len(c.P.Pkgs),
		"excluded_packages":      excludedPkgs,
		"undecided":              nU,
		"known_findings_matched": knownMatched,
		"all_obligations":        c.Obls,
		"exhaustive":             true,
	}
	for k, v := range extra {
		cov[k] = v
	}
	ev := map[string]interface{}{
		"property_id": c.Prop,
		"tier":        c.Tier,
		"seed":        0,
		"level":       "other",
		"coverage":    cov,
		"assumptions": []string{
			"etcd transaction semantics (If/Then atomicity, lease expiry) are trusted",
			"generated kvproto code is opaque; only field meanings (Peer.Id, Peer.StoreId, Store.Id, Region.Id) are assumed",
			"aliasing is approximated by access paths (no pointer analysis in x/tools v0.29.0); locks are identified by their declaring field",
			"failpoint.Inject marker calls are inert in the pinned tree",
			"packages excluded because pkg/dashboard/uiserver lacks generated assets: " + strings.Join(excludedPkgs, ", "),
		},
		"wall_s":     wall,
		"violations": nV,
	}
	os.MkdirAll(filepath.Join(verifDir, "evidence"), 0o755)
	b, _ := json.MarshalIndent(ev, "", " ")
	evPath := filepath.Join(verifDir, "evidence", c.Prop+".json")
	if err := os.WriteFile(evPath, b, 0o644); err != nil {
		fmt.Println("cannot write evidence:", err)
		return 2
	}
	if nV > 0 {
		replay := filepath.Join(verifDir, "evidence", c.Prop+".violation.txt")
		var sb strings.Builder
		for _, o := range c.Obls {
			if o.Verdict == VIOLATION {
				fmt.Fprintf(&sb, "property=%s rule=%s\nconstruct=%s\nat=%s\nrequirement=%s\n%s\nre-derive: /verif/bin/pdsa check -prop %s -tier %s\n\n",
					c.Prop, o.Rule, o.Construct, o.Pos, o.Req, o.Detail, c.Prop, c.Tier)
			}
		}
		os.WriteFile(replay, []byte(sb.String()), 0o644)
		fmt.Printf("VIOLATION property=%s replay=%s\n", c.Prop, replay)
		return 1
	}
	os.Remove(filepath.Join(verifDir, "evidence", c.Prop+".violation.txt"))
	if nU > 0 {
		fmt.Printf("UNDECIDED property=%s: %d obligation(s) could not be decided (check needs maintenance; not a property violation)\n", c.Prop, nU)
		return 2
	}
	return 0
}
