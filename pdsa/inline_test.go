package main

import (
	"bytes"
	"go/ast"
	"go/types"
	"os"
	"os/exec"
	"path/filepath"
	"strings"
	"testing"

	"golang.org/x/tools/go/packages"
)

// The expansion of new helpers must preserve behaviour. The fixture program
// exercises every call shape the expander handles (and several it must leave
// alone); it is run as written and after expansion, and the outputs must be
// identical. Only the fixture is executed, never pd.
func TestExpansionPreservesBehaviour(t *testing.T) {
	dir, _ := filepath.Abs("testdata/inl")
	cfg := &packages.Config{Mode: packages.LoadAllSyntax, Dir: dir, Env: append(os.Environ(), "GOFLAGS=-mod=mod", "GOPROXY=off", "GOWORK=off")}
	pkgs, err := packages.Load(cfg, ".")
	if err != nil || len(pkgs) != 1 || len(pkgs[0].Errors) > 0 {
		t.Fatalf("load: %v %v", err, pkgs)
	}
	P := &Prog{Repo: dir, Pkgs: pkgs, Fset: pkgs[0].Fset, PkgByID: map[string]*packages.Package{pkgs[0].PkgPath: pkgs[0]}}
	newFns := map[*types.Func]bool{}
	for _, f := range pkgs[0].Syntax {
		for _, d := range f.Decls {
			if fd, ok := d.(*ast.FuncDecl); ok && strings.HasPrefix(fd.Name.Name, "h") {
				newFns[pkgs[0].TypesInfo.Defs[fd.Name].(*types.Func)] = true
			}
		}
	}
	res := planInlineWith(P, nil, newFns)
	if res == nil || len(res.Overlay) != 2 {
		t.Fatalf("expected two expanded files, got %d", len(res.Overlay))
	}
	notes := strings.Join(res.Notes, "\n")
	t.Log("\n" + notes)
	for _, want := range []string{
		"expanded (*inltest.T).hSave into run", "expanded inltest.hPair into run", "expanded inltest.hNamed into run",
		"expanded inltest.hVoid into run", "expanded inltest.hVar into run", "expanded inltest.hInRange into run",
		"expanded (*inltest.T).hDouble into run", "expanded inltest.hLoop into run", "expanded inltest.hNested into run",
		"expanded (*inltest.T).hSave into hNested", "expanded inltest.hSwitch into run", "expanded inltest.hLabel into run",
		"expanded inltest.hClosure into run", "expanded (inltest.T).hVal into run", "expanded inltest.hShadow into run",
		"not expanded: call of inltest.hDefer in run (uses defer)", "not expanded: call of inltest.hRec in run (recursive)",
	} {
		if !strings.Contains(notes, want) {
			t.Errorf("missing note: %s", want)
		}
	}
	run := func(d string) string {
		cmd := exec.Command("go", "run", ".")
		cmd.Dir = d
		cmd.Env = append(os.Environ(), "GOFLAGS=-mod=mod", "GOPROXY=off", "GOWORK=off")
		var out, errb bytes.Buffer
		cmd.Stdout, cmd.Stderr = &out, &errb
		if err := cmd.Run(); err != nil {
			t.Fatalf("go run in %s: %v\n%s", d, err, errb.String())
		}
		return out.String()
	}
	want := run(dir)
	tmp := t.TempDir()
	gm, _ := os.ReadFile(filepath.Join(dir, "go.mod"))
	os.WriteFile(filepath.Join(tmp, "go.mod"), gm, 0o644)
	for name, src := range res.Overlay {
		os.WriteFile(filepath.Join(tmp, filepath.Base(name)), src, 0o644)
	}
	got := run(tmp)
	if got != want {
		t.Errorf("expanded program behaves differently:\n--- as written\n%s\n--- expanded\n%s", want, got)
		for _, src := range res.Overlay {
			t.Log(string(src))
		}
	}
	// positions: a statement after an expanded region still reports its own line
	for name, src := range res.Overlay {
		if !bytes.Contains(src, []byte("//line "+name+":")) {
			t.Errorf("no line directives in expanded %s", name)
		}
	}
}
