package main

// Swallowed failures (a contradiction rule in the sense of Engler et al.): a
// function tests the error of call K, finds it non-nil, and answers with the
// error variable of a *different* call K' that an enclosing test has already
// found nil on this path. Whatever was intended, the caller is told "success"
// for a refused operation. The usual cause is a renamed or shadowed variable
// (`if _, e2 := f(); e2 != nil { return err }`). An explicit `return nil` is a
// decision and is not reported here.

import (
	"fmt"
	"go/token"

	"golang.org/x/tools/go/ssa"
)

// errTest: block b ends in a test of error value e against nil; fail/ok are the successors taken when e is
// non-nil / nil.
type errTest struct {
	e        ssa.Value
	b        *ssa.BasicBlock
	fail, ok *ssa.BasicBlock
}

func errTestsOf(fn *ssa.Function) []errTest {
	var out []errTest
	for _, b := range fn.Blocks {
		if len(b.Instrs) == 0 {
			continue
		}
		iff, ok := b.Instrs[len(b.Instrs)-1].(*ssa.If)
		if !ok {
			continue
		}
		bo, ok := iff.Cond.(*ssa.BinOp)
		if !ok || (bo.Op != token.NEQ && bo.Op != token.EQL) {
			continue
		}
		var e ssa.Value
		switch {
		case isNilConst(bo.Y) && isErrorType(bo.X.Type()):
			e = bo.X
		case isNilConst(bo.X) && isErrorType(bo.Y.Type()):
			e = bo.Y
		default:
			continue
		}
		t := errTest{e: e, b: b, fail: b.Succs[0], ok: b.Succs[1]}
		if bo.Op == token.EQL {
			t.fail, t.ok = t.ok, t.fail
		}
		out = append(out, t)
	}
	return out
}

// errorOfCall: v is the error result of a call (the call itself or an extract of its tuple).
func errorOfCall(v ssa.Value) *ssa.Call {
	switch x := v.(type) {
	case *ssa.Call:
		return x
	case *ssa.Extract:
		if cl, ok := x.Tuple.(*ssa.Call); ok {
			return cl
		}
	}
	return nil
}

type swallowed struct {
	ret            *ssa.Return
	failed, answer *ssa.Call
}

func swallowedFailures(fn *ssa.Function) []swallowed {
	if len(fn.Blocks) == 0 {
		return nil
	}
	tests := errTestsOf(fn)
	var out []swallowed
	for _, t := range tests {
		k := errorOfCall(t.e)
		if k == nil || len(t.fail.Preds) != 1 {
			continue
		}
		for _, rb := range fn.Blocks {
			r, ok := rb.Instrs[len(rb.Instrs)-1].(*ssa.Return)
			if !ok || len(r.Results) == 0 || !t.fail.Dominates(rb) {
				continue
			}
			v := r.Results[len(r.Results)-1]
			if !isErrorType(v.Type()) {
				continue
			}
			k2 := errorOfCall(v)
			if k2 == nil || k2 == k {
				continue
			}
			// v was found nil by an enclosing test
			for _, t2 := range tests {
				if t2.e == v && len(t2.ok.Preds) == 1 && t2.ok.Dominates(t.b) {
					out = append(out, swallowed{r, k, k2})
				}
			}
		}
	}
	return out
}

// ruleNoSwallowedFailure checks every function of the packages in which the
// property's rules looked at something.
func ruleNoSwallowedFailure(c *Ctx) {
	P := c.P
	rule := c.Prop + "/error-discipline"
	pkgs := map[string]bool{}
	for _, fn := range P.Funcs {
		if c.FnSeen[fnName(fn)] {
			pkgs[fnPkgPath(fn)] = true
		}
	}
	nf, nt := 0, 0
	for _, fn := range P.Funcs {
		if P.isScaffold(fn) || !pkgs[fnPkgPath(fn)] {
			continue
		}
		nf++
		nt += len(errTestsOf(fn))
		for i, s := range swallowedFailures(fn) {
			c.Viol(rule, fmt.Sprintf("answer #%d to a failed call in %s", i+1, fnName(fn)), "a failure is not answered with another call's error that is known to be nil there", P.instrPos(s.ret),
				fmt.Sprintf("the call at %s failed, the function returns the error of the call at %s, which was tested nil on this path", P.instrPos(s.failed), P.instrPos(s.answer)))
		}
	}
	c.Check(nt > 0, rule, "failed calls answered with a stale nil error", fmt.Sprintf("none in the %d functions of the packages this property is decided in", nf), "", fmt.Sprintf("%d error tests looked at", nt))
}
