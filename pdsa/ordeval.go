package main

// Ordering-table evaluation of comparator functions.
//
// A comparator touches its inputs only through comparisons (len(a.X) < len(b.X),
// a.Score > b.Score, …). Under an assumed ordering of every such operand pair
// the function is a closed program over small integers and booleans, so it can
// be *evaluated* block by block — whatever its shape: a switch of comparisons,
// an if-chain, a helper such as compareInt whose result is negated, early
// returns. The rule then is a finite table: for every ordering of the keys the
// sign that must come out. No pd code is executed: this is an abstract
// interpretation of the SSA form in which every branch is decided by the
// assumption.

import (
	"go/constant"
	"go/token"

	"golang.org/x/tools/go/ssa"
)

type ordAssume struct {
	// cmp: ordering (-1, 0, +1) of x relative to y when both are abstract keys
	cmp func(x, y ssa.Value) (int, bool)
	// known: integers assumed for values the evaluation cannot compute (len of a list taken as 0, …)
	known func(v ssa.Value) (int64, bool)
	// call: assumed result of a call (a predicate on an input, such as IsLearner(peer))
	call func(c *ssa.Call) (ordVal, bool)
	// val: assumed value of anything else the function reads (a boolean field of an input, …)
	val func(v ssa.Value) (ordVal, bool)
	// callv: like call, with the arguments as evaluated on the path taken (an argument chosen into a local is a φ)
	callv func(c *ssa.Call, args []ordVal) (ordVal, bool)
}

type ordVal struct {
	i    int64
	b    bool
	kind byte // 'i', 'b', 0 = unknown
}

// ordEval evaluates fn (one int or bool result) under the assumption; env maps
// the parameters of fn to the caller's values when fn is evaluated as a callee.
func ordEval(fn *ssa.Function, env map[ssa.Value]ssa.Value, as ordAssume, depth int) (ordVal, bool) {
	if fn == nil || len(fn.Blocks) == 0 || depth < 0 {
		return ordVal{}, false
	}
	vals := map[ssa.Value]ordVal{}
	var resolve func(v ssa.Value) ssa.Value
	resolve = func(v ssa.Value) ssa.Value {
		for i := 0; i < 8; i++ {
			switch t := v.(type) {
			case *ssa.Parameter:
				if w, ok := env[t]; ok {
					v = w
					continue
				}
			case *ssa.ChangeType:
				v = t.X
				continue
			case *ssa.Convert:
				v = t.X
				continue
			}
			break
		}
		return v
	}
	var prev *ssa.BasicBlock
	var eval func(v ssa.Value) ordVal
	eval = func(v ssa.Value) ordVal {
		v = resolve(v)
		if r, ok := vals[v]; ok {
			return r
		}
		if c, ok := v.(*ssa.Const); ok && c.Value != nil {
			switch c.Value.Kind() {
			case constant.Int:
				if k, ok := constant.Int64Val(c.Value); ok {
					return ordVal{i: k, kind: 'i'}
				}
			case constant.Bool:
				return ordVal{b: constant.BoolVal(c.Value), kind: 'b'}
			}
		}
		if as.known != nil {
			if k, ok := as.known(v); ok {
				return ordVal{i: k, kind: 'i'}
			}
		}
		if as.val != nil {
			if r, ok := as.val(v); ok {
				return r
			}
		}
		return ordVal{}
	}
	blk := fn.Blocks[0]
	for steps := 0; steps < 4000; steps++ {
		for _, ins := range blk.Instrs {
			switch t := ins.(type) {
			case *ssa.Phi:
				for i, p := range blk.Preds {
					if p == prev {
						vals[t] = eval(t.Edges[i])
					}
				}
			case *ssa.BinOp:
				switch t.Op {
				case token.LSS, token.LEQ, token.GTR, token.GEQ, token.EQL, token.NEQ:
					x, y := eval(t.X), eval(t.Y)
					ord, okO := 0, false
					if x.kind == 'i' && y.kind == 'i' {
						okO = true
						switch {
						case x.i < y.i:
							ord = -1
						case x.i > y.i:
							ord = 1
						}
					} else if x.kind == 'b' && y.kind == 'b' && (t.Op == token.EQL || t.Op == token.NEQ) {
						okO = true
						if x.b != y.b {
							ord = 1
						}
					} else if as.cmp != nil {
						ord, okO = as.cmp(resolve(t.X), resolve(t.Y))
					}
					if okO {
						var r bool
						switch t.Op {
						case token.LSS:
							r = ord < 0
						case token.LEQ:
							r = ord <= 0
						case token.GTR:
							r = ord > 0
						case token.GEQ:
							r = ord >= 0
						case token.EQL:
							r = ord == 0
						case token.NEQ:
							r = ord != 0
						}
						vals[t] = ordVal{b: r, kind: 'b'}
					}
				case token.ADD, token.SUB, token.MUL:
					x, y := eval(t.X), eval(t.Y)
					if x.kind == 'i' && y.kind == 'i' {
						r := x.i + y.i
						if t.Op == token.SUB {
							r = x.i - y.i
						} else if t.Op == token.MUL {
							r = x.i * y.i
						}
						vals[t] = ordVal{i: r, kind: 'i'}
					}
				case token.LAND, token.LOR:
					x, y := eval(t.X), eval(t.Y)
					if x.kind == 'b' && y.kind == 'b' {
						if t.Op == token.LAND {
							vals[t] = ordVal{b: x.b && y.b, kind: 'b'}
						} else {
							vals[t] = ordVal{b: x.b || y.b, kind: 'b'}
						}
					}
				}
			case *ssa.UnOp:
				x := eval(t.X)
				if t.Op == token.SUB && x.kind == 'i' {
					vals[t] = ordVal{i: -x.i, kind: 'i'}
				}
				if t.Op == token.NOT && x.kind == 'b' {
					vals[t] = ordVal{b: !x.b, kind: 'b'}
				}
			case *ssa.Call:
				if as.call != nil {
					if r, ok := as.call(t); ok {
						vals[t] = r
						continue
					}
				}
				if as.callv != nil {
					var av []ordVal
					for _, a := range t.Call.Args {
						av = append(av, eval(a))
					}
					if r, ok := as.callv(t, av); ok {
						vals[t] = r
						continue
					}
				}
				if f := t.Call.StaticCallee(); f != nil && len(f.Blocks) > 0 && f.Signature.Results().Len() == 1 && f != fn {
					sub := map[ssa.Value]ssa.Value{}
					for i, p := range f.Params {
						if i < len(t.Call.Args) {
							sub[p] = resolve(t.Call.Args[i])
						}
					}
					// what this invocation already computed for the arguments is known to the callee
					as2 := as
					outerVal := as.val
					as2.val = func(v ssa.Value) (ordVal, bool) {
						if r, ok := vals[v]; ok && r.kind != 0 {
							return r, true
						}
						if outerVal != nil {
							return outerVal(v)
						}
						return ordVal{}, false
					}
					if r, ok := ordEval(f, sub, as2, depth-1); ok {
						vals[t] = r
					}
				}
			case *ssa.If:
				c := eval(t.Cond)
				if c.kind != 'b' {
					return ordVal{}, false
				}
				prev = blk
				if c.b {
					blk = blk.Succs[0]
				} else {
					blk = blk.Succs[1]
				}
			case *ssa.Jump:
				prev = blk
				blk = blk.Succs[0]
			case *ssa.Return:
				if len(t.Results) != 1 {
					return ordVal{}, false
				}
				r := eval(t.Results[0])
				return r, r.kind != 0
			case *ssa.Panic:
				return ordVal{}, false
			}
		}
	}
	return ordVal{}, false
}
