package main

import (
	"fmt"
	"go/types"
	"sort"
	"strings"

	"golang.org/x/tools/go/ssa"
)

func ruleCheckedPut(c *Ctx) {
	P := c.P
	rule := c.Prop + "/checked-put"
	bcPut := P.Method("server/core", "BasicCluster", "PutRegion")
	pre := F(P.Method("server/core", "BasicCluster", "PreCheckPutRegion"))
	rcLock := P.Field("server/cluster", "RaftCluster", "RWMutex")
	newBC := F(P.Func("server/core", "NewBasicCluster"))
	sites, escapes := c.nonScaffoldCallers(bcPut)
	for _, e := range escapes {
		c.Viol(rule, "function value of BasicCluster.PutRegion", "regions enter the cache only at checked sites", P.instrPos(e), "")
	}
	n := 0
	for _, s := range sites {
		fn := s.Caller
		c.saw(fnName(fn))
		args := callArgs(s.Instr.Common())
		if len(args) != 1 {
			continue
		}
		region := args[0]
		construct := "BasicCluster.PutRegion in " + fnName(fn)
		// (c) dead outside tests
		if cs, vu := c.nonScaffoldCallers(outer(fn)); len(cs) == 0 && len(vu) == 0 && outer(fn).Object() != nil && !outer(fn).Object().Exported() {
			c.Info(rule, construct, "unreferenced outside tests", P.instrPos(s.Instr), "")
			continue
		}
		// (b) private copy
		if recv := callRecv(s.Instr.Common()); recv != nil && derivesFrom(recv, resultOfCall(newBC), 4) {
			c.Info(rule, construct, "fills a BasicCluster constructed in this function", P.instrPos(s.Instr), "")
			continue
		}
		n++
		isPre := func(cl *ssa.Call) bool {
			if !pre.Match(cl.Common()) {
				return false
			}
			a := callArgs(cl.Common())
			return len(a) == 1 && sameVal(a[0], region)
		}
		okPre := newOkEv(fn, "ok(PreCheckPutRegion(region))", isPre)
		evs := []Ev{okPre}
		req := "dominated by the success edge of PreCheckPutRegion on the same region"
		formula := all
		// when the caller serialises with a mutex (heartbeat path) the check must happen inside the critical section
		usesLock := false
		for _, b := range fn.Blocks {
			for _, ins := range b.Instrs {
				if f, op, _ := lockOp(ins); f == rcLock && op == "Lock" {
					usesLock = true
				}
			}
		}
		if usesLock {
			okPre.reset = func(ins ssa.Instruction) bool {
				f, op, deferred := lockOp(ins)
				return f == rcLock && !deferred && (op == "Lock" || op == "Unlock")
			}
			evs = append(evs, &lockEv{rcLock, true})
			req += ", evaluated after the cluster write lock was taken, with the lock held continuously until the put"
		}
		_, fails := requireAt(P, fn, 0, evs, func(x ssa.Instruction) bool { return x == s.Instr.(ssa.Instruction) }, formula)
		c.Check(len(fails) == 0, rule, construct, req, P.instrPos(s.Instr), failDesc(fails))
	}
	if n < 2 {
		c.Undec(rule, "checked put sites", "at least 2 (heartbeat path, CheckAndPutRegion)", "", fmt.Sprint(n))
	}
	// RegionsInfo.SetRegion is reached only through BasicCluster (or a private copy)
	setRegion := P.Method("server/core", "RegionsInfo", "SetRegion")
	ss, _ := c.nonScaffoldCallers(setRegion)
	for _, s := range ss {
		fn := s.Caller
		if fn == bcPut {
			c.OK(rule, "RegionsInfo.SetRegion in "+fnName(fn), "called under the BasicCluster write lock", P.instrPos(s.Instr))
			continue
		}
		recv := callRecv(s.Instr.Common())
		private := recv != nil && derivesFrom(recv, resultOfCall(newBC), 6)
		c.Check(private, rule, "RegionsInfo.SetRegion in "+fnName(fn), "outside BasicCluster.PutRegion only a privately constructed cluster is filled", P.instrPos(s.Instr), "direct SetRegion on a shared RegionsInfo")
	}
}

func ruleStalenessAtoms(c *Ctx) {
	P := c.P
	rule := c.Prop + "/staleness-atoms"
	preF := P.Method("server/core", "BasicCluster", "PreCheckPutRegion")
	mpb := "github.com/pingcap/kvproto/pkg/metapb"
	getVer := F(P.Method(mpb, "RegionEpoch", "GetVersion"))
	getConf := F(P.Method(mpb, "RegionEpoch", "GetConfVer"))
	getTerm := F(P.Method("server/core", "RegionInfo", "GetTerm"))
	c.atomRejects(rule, preF, "version < version of an overlapped / same-id cached region", relMatcher("<", resultOfCall(getVer), resultOfCall(getVer)), errReturn)
	c.atomRejects(rule, preF, "conf version < cached conf version", relMatcher("<", resultOfCall(getConf), resultOfCall(getConf)), errReturn)
	// term: reported (>0) and behind
	found := hasComparison(preF, "<", resultOfCall(getTerm), resultOfCall(getTerm))
	found0 := hasComparison(preF, ">", resultOfCall(getTerm), isConstInt(0))
	c.Check(found && found0, rule, "term > 0 ∧ term < cached term in "+fnName(preF), "a reported raft term behind the cached one is stale", P.pos(preF.Pos()), "")
	// acceptance requires every same-id test to have passed (a weakened or re-scoped test still "occurs")
	getRel := F(P.Method("server/core", "BasicCluster", "getRelevantRegions"))
	getEpoch := F(P.Method("server/core", "RegionInfo", "GetRegionEpoch"))
	var regionParam ssa.Value
	if len(preF.Params) >= 2 {
		regionParam = preF.Params[1]
	}
	isRegion := func(v ssa.Value) bool { return v != nil && regionParam != nil && sameVal(v, regionParam) }
	isOrigin := func(v ssa.Value) bool { return v != nil && derivesFrom(v, resultOfCall(getRel), 3) }
	on := func(getter Callee, who valPred) valPred {
		return func(v ssa.Value) bool {
			cl, _ := callOf(v)
			return cl != nil && getter.Match(cl.Common()) && who(callRecv(cl.Common()))
		}
	}
	epochOf := func(who valPred) valPred { return on(getEpoch, who) }
	gNil := guardRel("no cached region of this id", "==", isOrigin, isNilConst)
	gVer := guardRel("version >= cached version", ">=", on(getVer, epochOf(isRegion)), on(getVer, epochOf(isOrigin)))
	gConf := guardRel("conf version >= cached conf version", ">=", on(getConf, epochOf(isRegion)), on(getConf, epochOf(isOrigin)))
	gT0 := guardRel("term not reported (<= 0)", "<=", on(getTerm, isRegion), isConstInt(0))
	gT1 := guardRel("term >= cached term", ">=", on(getTerm, isRegion), on(getTerm, isOrigin))
	// the overlapped regions were walked (their versions compared) whatever the same-id answer is: a loop over, or a
	// helper given, the second result of getRelevantRegions
	isOverlaps := func(v ssa.Value) bool {
		return derivesFrom(v, func(w ssa.Value) bool {
			ex, ok := w.(*ssa.Extract)
			return ok && ex.Index == 1 && valueIsCallTo(ex.Tuple, getRel)
		}, 3)
	}
	walked := &calledEv{name: "the overlapped regions were walked", match: func(x ssa.Instruction) bool {
		ci, ok := x.(*ssa.Call)
		if !ok {
			return false
		}
		for _, a := range ci.Call.Args {
			if isOverlaps(a) {
				return true
			}
		}
		return false
	}}
	c.need(rule, preF, "acceptance (nil error)", func(x ssa.Instruction) bool { r, ok := x.(*ssa.Return); return ok && retIsNilErr(r) },
		[]Ev{gNil, gVer, gConf, gT0, gT1, walked}, func(h []bool) bool { return h[5] && (h[0] || (h[1] && h[2] && (h[3] || h[4]))) },
		"a region is accepted only after its version was compared with every overlapped cached region, and if no region of its id is cached, or its version and conf version are not behind the cached ones and its raft term is unreported or not behind")
	// the overlap test runs for every overlap: inside a loop over the overlaps returned by getRelevantRegions
	n := 0
	for _, b := range preF.Blocks {
		for _, ins := range b.Instrs {
			if bo, ok := ins.(*ssa.BinOp); ok && resultOfCall(getVer)(bo.X) && resultOfCall(getVer)(bo.Y) && loopsContain(preF, b) {
				n++
			}
		}
	}
	c.Check(n >= 1, rule, "overlap version test in "+fnName(preF), "evaluated for every overlapped region (inside the loop over overlaps)", P.pos(preF.Pos()), "")
	// getRelevantRegions: overlaps may be skipped only if the cached region of this id has exactly the same range
	rel := P.Method("server/core", "BasicCluster", "getRelevantRegions")
	getOv := F(P.Method("server/core", "RegionsInfo", "GetOverlaps"))
	startK := F(P.Method("server/core", "RegionInfo", "GetStartKey"))
	endK := F(P.Method("server/core", "RegionInfo", "GetEndKey"))
	getRegion := F(P.Method("server/core", "RegionsInfo", "GetRegion"))
	isBytesEqual := func(cl *ssa.Call, key Callee) bool {
		f := cl.Call.StaticCallee()
		if f == nil || f.Pkg == nil || f.Pkg.Pkg.Path() != "bytes" || f.Name() != "Equal" || len(cl.Call.Args) != 2 {
			return false
		}
		return valueIsCallTo(cl.Call.Args[0], key) && valueIsCallTo(cl.Call.Args[1], key)
	}
	called := &calledEv{name: "GetOverlaps called", match: instrCallMatcher(getOv)}
	eqS := guardCall("bytes.Equal(start keys)", true, func(cl *ssa.Call) bool { return isBytesEqual(cl, startK) })
	eqE := guardCall("bytes.Equal(end keys)", true, func(cl *ssa.Call) bool { return isBytesEqual(cl, endK) })
	nn := guardRel("origin != nil", "!=", derived(resultOfCall(getRegion), 3), isNilConst)
	c.need(rule, rel, "return", func(x ssa.Instruction) bool { _, ok := x.(*ssa.Return); return ok }, []Ev{called, eqS, eqE, nn}, func(h []bool) bool {
		return h[0] || (h[1] && h[2] && h[3])
	}, "the overlap scan is skipped only when a cached region of this id exists with byte-equal start and end keys (an empty end key means +∞, so ordering comparisons are not equivalent)")
}

func ruleDisplacedRemoved(c *Ctx) {
	P := c.P
	rule := c.Prop + "/displaced-removed"
	// SetRegion: everything tree.update reports is removed from the cache
	set := P.Method("server/core", "RegionsInfo", "SetRegion")
	update := F(P.Method("server/core", "regionTree", "update"))
	remove := F(P.Method("server/core", "RegionsInfo", "RemoveRegion"))
	c.saw(fnName(set))
	okRm := false
	for _, ci := range callsIn(set, false, remove) {
		a := callArgs(ci.Common())
		if len(a) == 1 && derivesFrom(a[0], func(v ssa.Value) bool {
			// the main-tree update result (receiver is r.tree)
			cl, _ := callOf(v)
			return cl != nil && update.Match(cl.Common())
		}, 8) && loopsContain(set, ci.Block()) {
			okRm = true
		}
	}
	c.Check(okRm, rule, "overlaps in "+fnName(set), "every region displaced from the main tree is removed from the cache in the same critical section", P.pos(set.Pos()), "no RemoveRegion loop over the update result")
	// and SetRegion returns them
	retOK := false
	for _, b := range set.Blocks {
		for _, ins := range b.Instrs {
			if r, ok := ins.(*ssa.Return); ok && len(r.Results) == 1 {
				if derivesFrom(retVal(r, 0), func(v ssa.Value) bool { cl, _ := callOf(v); return cl != nil && update.Match(cl.Common()) }, 6) {
					retOK = true
				}
			}
		}
	}
	c.Check(retOK, rule, "result of "+fnName(set), "the displaced regions are reported to the caller", P.pos(set.Pos()), "")
	// heartbeat path: reported overlaps are deleted from storage
	hb := P.Method("server/cluster", "RaftCluster", "processRegionHeartbeat")
	bcPut := F(P.Method("server/core", "BasicCluster", "PutRegion"))
	del := F(P.Method("server/core", "Storage", "DeleteRegion"))
	c.saw(fnName(hb))
	okDel := false
	for _, ci := range callsIn(hb, false, del) {
		a := callArgs(ci.Common())
		if len(a) == 1 && derivesFrom(a[0], resultOfCall(bcPut), 10) && loopsContain(hb, ci.Block()) {
			okDel = true
		}
	}
	c.Check(okDel, rule, "overlaps in "+fnName(hb), "every region PutRegion reports as displaced is deleted from storage", P.pos(hb.Pos()), "the result of PutRegion does not reach a storage.DeleteRegion loop")
	// CheckAndPutRegion hands the stale region / overlaps back to its caller (load path deletes them)
	cap := P.Method("server/core", "BasicCluster", "CheckAndPutRegion")
	okRet := false
	for _, b := range cap.Blocks {
		for _, ins := range b.Instrs {
			if r, ok := ins.(*ssa.Return); ok && len(r.Results) == 1 && valueIsCallTo(retVal(r, 0), bcPut) {
				okRet = true
			}
		}
	}
	c.Check(okRet, rule, "result of "+fnName(cap), "returns what PutRegion displaced", P.pos(cap.Pos()), "")
}

func ruleStaleAnswered(c *Ctx) {
	P := c.P
	rule := c.Prop + "/stale-answered"
	hb := P.Method("server/cluster", "RaftCluster", "processRegionHeartbeat")
	pre := F(P.Method("server/core", "BasicCluster", "PreCheckPutRegion"))
	// nothing is observed/changed unless the first precheck passed
	okPre := newOkEv(hb, "ok(PreCheckPutRegion)", callMatcher(pre))
	okPre.sticky = true
	c.need(rule, hb, "any cache/statistics update", func(x ssa.Instruction) bool {
		ci, ok := x.(ssa.CallInstruction)
		if !ok {
			return false
		}
		f := ci.Common().StaticCallee()
		if f == nil {
			return false
		}
		switch f.Name() {
		case "PutRegion", "CheckWriteAsync", "CheckReadAsync", "Observe", "collect", "SaveRegion", "DeleteRegion":
			return true
		}
		return false
	}, []Ev{okPre}, all, "a stale heartbeat changes nothing: every update is dominated by a passed precheck")
	// the RPC answers an error
	rpc := P.Method("server", "Server", "RegionHeartbeat")
	handle := F(P.Method("server/cluster", "RaftCluster", "HandleRegionHeartbeat"))
	sendErr := F(P.Method("server/schedule/hbstream", "HeartbeatStreams", "SendErr"))
	failed := newSettledEv(rpc, "HandleRegionHeartbeat", callMatcher(handle))
	sent := &calledEv{name: "SendErr", match: instrCallMatcher(sendErr), reset: instrCallMatcher(handle)}
	// at the next Recv (loop back-edge) after a failure, an error must have been sent
	recv := func(x ssa.Instruction) bool {
		ci, ok := x.(ssa.CallInstruction)
		if !ok {
			return false
		}
		if ci.Common().IsInvoke() {
			return ci.Common().Method.Name() == "Recv"
		}
		f := ci.Common().StaticCallee()
		return f != nil && f.Name() == "Recv"
	}
	c.need(rule, rpc, "next Recv", recv, []Ev{failed, sent}, anyOf, "a heartbeat rejected by the cluster is answered with an error message")
	// HandleRegionHeartbeat propagates processRegionHeartbeat's error
	h := P.Method("server/cluster", "RaftCluster", "HandleRegionHeartbeat")
	f2 := newSettledEv(h, "processRegionHeartbeat", callMatcher(F(hb)))
	c.needOnSuccess(rule, h, []Ev{f2}, all, "the staleness error is propagated")
}

// ruleHeartbeatFields: the staleness tests compare what the heartbeat carried;
// a field that RegionFromHeartbeat does not copy reads as zero and switches its
// test off (a term of 0 means "not reported"). Each field the property's
// checks and the per-store statistics read is taken from the request's getter.
func ruleHeartbeatFields(c *Ctx, fields map[string]string) {
	P := c.P
	rule := c.Prop + "/heartbeat-fields"
	fn := P.Func("server/core", "RegionFromHeartbeat")
	c.saw(fnName(fn))
	hb := "github.com/pingcap/kvproto/pkg/pdpb"
	var names []string
	for f := range fields {
		names = append(names, f)
	}
	sort.Strings(names)
	for _, f := range names {
		field := P.Field("server/core", "RegionInfo", f)
		getter := F(P.Method(hb, "RegionHeartbeatRequest", fields[f]))
		ok := false
		for _, st := range storesToField(fn, field) {
			if derivesFrom(st.Val, resultOfCall(getter), 6) && isFreshBase(st.Addr) {
				ok = true
			}
		}
		c.Check(ok, rule, "RegionInfo."+f+" in "+fnName(fn), "copied from the heartbeat's "+fields[f]+"()", P.pos(fn.Pos()), "")
	}
}

func init() {
	register("C06", "Region cache never regresses and never holds overlapping regions", func(c *Ctx) {
		c.Group("C06/checked-put", "a region enters the served cache only right after PreCheckPutRegion succeeded on the same region, inside the cluster write lock on the heartbeat path", func() { ruleCheckedPut(c) })
		c.Group("C06/staleness-atoms", "the precheck rejects on version vs every overlap, and on term/version/conf-version vs the same-id region; the overlap scan is skipped only for a byte-identical range", func() { ruleStalenessAtoms(c) })
		c.Group("C06/displaced-removed", "regions displaced by an accepted region are removed from the cache at once and deleted from storage by the caller", func() { ruleDisplacedRemoved(c) })
		c.Group("C06/backend-selection", "(shared with C17) displaced regions are deleted from the backend region records are saved to and loaded from", func() { ruleRegionBackendSelection(c) })
		c.Group("C06/heartbeat-fields", "the region built from a heartbeat carries the epoch (meta), the raft term and the leader the staleness tests compare", func() {
			ruleHeartbeatFields(c, map[string]string{"term": "GetTerm", "meta": "GetRegion", "leader": "GetLeader"})
		})
		c.Group("C06/end-key-infinity", "(shared with C07) an end key is ordered against other keys only where it was tested non-empty: the empty end key means +∞", func() { ruleEndKeyInfinity(c) })
		c.Group("C06/saved-copy-not-aliased", "(shared with C07) saving a region never writes through the cached region's meta: encryption works on a deep copy", func() { ruleSavedCopyNotAliased(c) })
		c.Group("C06/keys-immutable", "(shared with C07) the keys of a region meta are assigned only on a meta created in the same function", func() { ruleRegionKeysImmutable(c) })
		c.Group("C06/encapsulation", "(shared with C07) region trees change only through update/remove, which report every displaced region; nothing inserts into a tree behind their back", func() { ruleTreeAccounting(c) })
		c.Group("C06/stale-answered", "a stale heartbeat changes nothing and is answered with an error", func() { ruleStaleAnswered(c) })
	})
}

// ruleEndKeyInfinity: an empty end key stands for +∞ but sorts before every
// other key. Wherever server/core orders an end key with bytes.Compare, the
// comparison is evaluated only on paths where that end key was tested
// non-empty (len(k) > 0, or the false side of len(k) == 0). An unguarded
// ordering makes an unbounded region look like the smallest range: overlaps
// are missed and stale unbounded regions are accepted.
func ruleEndKeyInfinity(c *Ctx) {
	P := c.P
	rule := c.Prop + "/end-key-infinity"
	isEndKey := func(v ssa.Value) bool {
		v = strip(v)
		if cl, ok := v.(*ssa.Call); ok {
			if f := cl.Call.StaticCallee(); f != nil && f.Name() == "GetEndKey" {
				return true
			}
		}
		if f := loadedField(v); f != nil && f.Name() == "EndKey" {
			return true
		}
		if p, ok := v.(*ssa.Parameter); ok {
			if b, isSlice := p.Type().Underlying().(*types.Slice); isSlice {
				if bt, isB := b.Elem().Underlying().(*types.Basic); isB && bt.Kind() == types.Byte || isB && bt.Kind() == types.Uint8 {
					return strings.HasPrefix(strings.ToLower(p.Name()), "end")
				}
			}
		}
		return false
	}
	nGetter := 0
	for _, fn := range P.Funcs {
		if fn.Pkg == nil || fn.Pkg.Pkg.Path() != modPath+"/server/core" || P.isScaffold(fn) {
			continue
		}
		k := 0
		for _, b := range fn.Blocks {
			for _, ins := range b.Instrs {
				cl, ok := ins.(*ssa.Call)
				if !ok {
					continue
				}
				f := cl.Call.StaticCallee()
				if f == nil || f.Pkg == nil || f.Pkg.Pkg.Path() != "bytes" || f.Name() != "Compare" || len(cl.Call.Args) != 2 {
					continue
				}
				for _, a := range cl.Call.Args {
					if !isEndKey(a) {
						continue
					}
					k++
					if _, isParam := strip(a).(*ssa.Parameter); !isParam {
						nGetter++
					}
					arg := a
					target := cl
					c.need(rule, fn, fmt.Sprintf("ordering comparison #%d of an end key", k), func(x ssa.Instruction) bool { return x == ssa.Instruction(target) },
						[]Ev{guardRel("the end key is not empty", "> !=", lenOf(same(arg)), isConstInt(0))}, all,
						"an end key is ordered against another key only where it is known to be non-empty (empty means +∞)")
				}
			}
		}
	}
	if nGetter < 2 {
		c.Undec(rule, "ordering comparisons of region end keys in server/core", "at least 2", "", fmt.Sprint(nGetter))
	}
}

// ruleSavedCopyNotAliased: the region written to storage is the cached
// region's own meta (SaveRegion(region.GetMeta())). Encryption XORs the keys in
// place, so it must work on a deep copy: the argument of the in-place cipher
// derives from proto.Clone(region) and nothing is stored through the parameter.
// A shallow copy shares the key slices — the cipher text lands in the served
// region and the tree is ordered by keys that changed under it.
func ruleSavedCopyNotAliased(c *Ctx) {
	P := c.P
	rule := c.Prop + "/saved-copy-not-aliased"
	enc := P.Func("pkg/encryption", "EncryptRegion")
	proc := F(P.Func("pkg/encryption", "processRegionKeys"))
	c.saw(fnName(enc))
	if len(enc.Params) == 0 {
		c.Undec(rule, fnName(enc), "a region parameter", "", "")
		return
	}
	region := enc.Params[0]
	isClone := func(v ssa.Value) bool {
		cl, _ := callOf(v)
		if cl == nil || cl.Call.StaticCallee() == nil || cl.Call.StaticCallee().Name() != "Clone" || cl.Call.StaticCallee().Pkg == nil {
			return false
		}
		if !strings.HasSuffix(cl.Call.StaticCallee().Pkg.Pkg.Path(), "protobuf/proto") || len(cl.Call.Args) != 1 {
			return false
		}
		return derivesFrom(cl.Call.Args[0], same(region), 2)
	}
	n := 0
	for _, ci := range callsIn(enc, false, proc) {
		n++
		a := callArgs(ci.Common())
		c.Check(len(a) >= 1 && derivesFrom(a[0], isClone, 4) && strip(a[0]) != ssa.Value(region), rule, "region handed to the in-place cipher in "+fnName(enc),
			"a deep copy (proto.Clone) of the region to save — the caller's region is the one the cache serves", P.instrPos(ci), "")
	}
	if n == 0 {
		c.Undec(rule, "call of processRegionKeys in "+fnName(enc), "found", "", "")
	}
	okNoStore := true
	for _, b := range enc.Blocks {
		for _, ins := range b.Instrs {
			if st, ok := ins.(*ssa.Store); ok {
				if fa, ok := st.Addr.(*ssa.FieldAddr); ok && strip(fa.X) == ssa.Value(region) {
					okNoStore = false
				}
			}
		}
	}
	c.Check(okNoStore, rule, "stores through the parameter of "+fnName(enc), "none: the caller's region is left untouched", P.pos(enc.Pos()), "")
}
