package main

// Helper-extraction robustness. The rules name the functions of the reference
// tree; moving part of a body into a new helper (the most common behaviour-
// preserving edit) would hide that part from every per-function rule. Before
// the rules run, every call to a function that did not exist on the reference
// tree (not in baseline/fingerprints.json's inventory and not a renamed rule
// subject) is expanded at the source level, in memory, and the program is
// loaded again from the expanded source: the rules then see the caller exactly
// as if the helper had been written in place. Expansion is a semantics-
// preserving source transformation:
//
//	mode A (expression): a callee whose body is `return e` is substituted in
//	    place when its arguments are free of side effects;
//	mode B (block): any other callee becomes
//	        var r T; { var p P = arg; <body, return x -> r = x; goto L> }; L: ; <stmt using r>
//	    and is hoisted in front of the enclosing statement only when nothing
//	    with a side effect is evaluated before the call in that statement.
//
// A call that fits neither is left alone (the rules then see an opaque call,
// as before). The expanded source is type-checked before it is used; any
// failure drops the expansion of that function. `//line` directives keep the
// reported positions on the original lines. Nothing is written to /repo.

import (
	"bytes"
	"fmt"
	"go/ast"
	"go/parser"
	"go/printer"
	"go/token"
	"go/types"
	"os"
	"reflect"
	"regexp"
	"sort"
	"strconv"
	"strings"

	"golang.org/x/tools/go/ast/astutil"
	"golang.org/x/tools/go/packages"
)

type inlCand struct {
	fn   *types.Func
	decl *ast.FuncDecl
	pkg  *packages.Package
	file *ast.File
	why  string // non-empty: cannot be expanded in block mode
}

type inliner struct {
	P         *Prog
	cands     map[*types.Func]*inlCand
	orig      map[ast.Node]ast.Node // copy -> original node (type information lives on originals)
	genType   map[*ast.Ident]types.Type
	exprTypes map[ast.Expr]types.Type
	seq       int
	nExp      map[*types.Func]int // call sites expanded, per helper
	notes     []string
	noteSet   map[string]bool
}

type fctx struct {
	pkg        *packages.Package
	file       *ast.File
	decl       *ast.FuncDecl
	addImports map[string]string // path -> local name, to be added to file
	modified   bool
	dropped    bool // a new unexported helper with no reference left after expansion: its declaration is removed
}

var posType = reflect.TypeOf(token.NoPos)

func (in *inliner) note(format string, a ...interface{}) {
	s := fmt.Sprintf(format, a...)
	if !in.noteSet[s] {
		in.noteSet[s] = true
		in.notes = append(in.notes, s)
	}
}

// ---------- AST copying ----------

func (in *inliner) root(n ast.Node) ast.Node {
	for {
		o, ok := in.orig[n]
		if !ok {
			return n
		}
		n = o
	}
}

func (in *inliner) clone(n ast.Node) ast.Node {
	return in.cloneVal(reflect.ValueOf(n)).Interface().(ast.Node)
}

func (in *inliner) cloneVal(v reflect.Value) reflect.Value {
	switch v.Kind() {
	case reflect.Ptr:
		if v.IsNil() {
			return v
		}
		switch v.Interface().(type) {
		case *ast.Object, *ast.Scope, *ast.CommentGroup:
			return reflect.Zero(v.Type())
		}
		nv := reflect.New(v.Type().Elem())
		nv.Elem().Set(in.cloneVal(v.Elem()))
		if node, ok := v.Interface().(ast.Node); ok {
			in.orig[nv.Interface().(ast.Node)] = in.root(node)
		}
		return nv
	case reflect.Struct:
		nv := reflect.New(v.Type()).Elem()
		for i := 0; i < v.NumField(); i++ {
			f := v.Field(i)
			if f.Type() == posType {
				name := v.Type().Field(i).Name
				// positions that carry syntax: f(xs...) and type A = B
				if (name == "Ellipsis" || name == "Assign") && f.Interface().(token.Pos).IsValid() {
					nv.Field(i).Set(reflect.ValueOf(token.Pos(1)))
				}
				continue
			}
			nv.Field(i).Set(in.cloneVal(f))
		}
		return nv
	case reflect.Slice:
		if v.IsNil() {
			return v
		}
		nv := reflect.MakeSlice(v.Type(), v.Len(), v.Len())
		for i := 0; i < v.Len(); i++ {
			nv.Index(i).Set(in.cloneVal(v.Index(i)))
		}
		return nv
	case reflect.Interface:
		if v.IsNil() {
			return v
		}
		nv := reflect.New(v.Type()).Elem()
		nv.Set(in.cloneVal(v.Elem()))
		return nv
	default:
		return v
	}
}

// ---------- type information through copies ----------

func (in *inliner) use(info *types.Info, id *ast.Ident) types.Object {
	r, _ := in.root(id).(*ast.Ident)
	if r == nil {
		return nil
	}
	if o := info.Uses[r]; o != nil {
		return o
	}
	return info.Defs[r]
}

func (in *inliner) typeOf(info *types.Info, e ast.Expr) types.Type {
	if id, ok := e.(*ast.Ident); ok {
		if t, ok := in.genType[id]; ok {
			return t
		}
	}
	if t, ok := in.exprTypes[e]; ok {
		return t
	}
	r, _ := in.root(e).(ast.Expr)
	if r == nil {
		return nil
	}
	if _, known := info.Types[r]; !known {
		if p, ok := e.(*ast.ParenExpr); ok {
			return in.typeOf(info, p.X)
		}
	}
	if tv, ok := info.Types[r]; ok {
		return tv.Type
	}
	if id, ok := r.(*ast.Ident); ok {
		if o := info.Uses[id]; o != nil {
			return o.Type()
		}
		if o := info.Defs[id]; o != nil {
			return o.Type()
		}
	}
	return nil
}

func (in *inliner) isTypeExpr(info *types.Info, e ast.Expr) bool {
	r, _ := in.root(e).(ast.Expr)
	if r == nil {
		return false
	}
	tv, ok := info.Types[r]
	return ok && tv.IsType()
}

var pureBuiltins = map[string]bool{"len": true, "cap": true, "new": true, "make": true, "min": true, "max": true,
	"real": true, "imag": true, "complex": true, "append": true}

func (in *inliner) isPureCall(info *types.Info, c *ast.CallExpr) bool {
	fun := ast.Unparen(c.Fun)
	if in.isTypeExpr(info, fun) {
		return true
	}
	if id, ok := fun.(*ast.Ident); ok {
		if b, ok := in.use(info, id).(*types.Builtin); ok && pureBuiltins[b.Name()] {
			return true
		}
	}
	return false
}

// pure: evaluating e has no side effect (no call other than conversions and
// value builtins, no channel receive). Reads of variables and fields count as
// pure.
func (in *inliner) pure(info *types.Info, e ast.Expr) bool {
	ok := true
	ast.Inspect(e, func(n ast.Node) bool {
		switch x := n.(type) {
		case *ast.CallExpr:
			if !in.isPureCall(info, x) {
				ok = false
			}
		case *ast.UnaryExpr:
			if x.Op == token.ARROW {
				ok = false
			}
		case *ast.FuncLit:
			return false
		}
		return ok
	})
	return ok
}

// ---------- candidates ----------

func (in *inliner) bodyProblem(c *inlCand) string {
	d := c.decl
	if d.Body == nil {
		return "no body"
	}
	sig := c.fn.Type().(*types.Signature)
	if sig.TypeParams() != nil || sig.RecvTypeParams() != nil {
		return "generic"
	}
	why := ""
	n := 0
	var walk func(node ast.Node, inLit bool)
	walk = func(node ast.Node, inLit bool) {
		ast.Inspect(node, func(m ast.Node) bool {
			switch x := m.(type) {
			case *ast.FuncLit:
				if m != node {
					walk(x.Body, true)
					return false
				}
			case *ast.DeferStmt:
				if !inLit {
					why = "uses defer"
				}
			case *ast.CallExpr:
				if id, ok := ast.Unparen(x.Fun).(*ast.Ident); ok && id.Name == "recover" {
					if _, isB := c.pkg.TypesInfo.Uses[id].(*types.Builtin); isB {
						why = "uses recover"
					}
				}
			case ast.Stmt:
				n++
			}
			return true
		})
	}
	walk(d.Body, false)
	if why != "" {
		return why
	}
	if n > 150 {
		return "body too large"
	}
	return ""
}

type target struct {
	cand *inlCand
	recv ast.Expr // adjusted receiver expression, nil for plain functions
	args []ast.Expr
}

func isPtr(t types.Type) bool {
	_, ok := t.Underlying().(*types.Pointer)
	return ok
}

// targetOf: the call resolves statically to an expandable new function of the
// same package.
func (in *inliner) targetOf(call *ast.CallExpr, ctx *fctx) *target {
	info := ctx.pkg.TypesInfo
	fun := ast.Unparen(call.Fun)
	var fn *types.Func
	var recv ast.Expr
	switch f := fun.(type) {
	case *ast.Ident:
		fn, _ = in.use(info, f).(*types.Func)
	case *ast.SelectorExpr:
		r, _ := in.root(f).(*ast.SelectorExpr)
		if r == nil {
			return nil
		}
		s := info.Selections[r]
		if s == nil || s.Kind() != types.MethodVal {
			return nil
		}
		fn, _ = s.Obj().(*types.Func)
		if fn == nil {
			return nil
		}
		cand := in.cands[fn]
		if cand == nil || cand.pkg != ctx.pkg {
			return nil
		}
		t := in.typeOf(info, f.X)
		if t == nil {
			return nil
		}
		recv = f.X
		idx := s.Index()
		for _, i := range idx[:len(idx)-1] {
			st, ok := deref(t).Underlying().(*types.Struct)
			if !ok {
				return nil
			}
			fld := st.Field(i)
			recv = &ast.SelectorExpr{X: recv, Sel: ast.NewIdent(fld.Name())}
			t = fld.Type()
		}
		rt := fn.Type().(*types.Signature).Recv().Type()
		if isPtr(rt) && !isPtr(t) {
			recv = &ast.UnaryExpr{Op: token.AND, X: recv}
		} else if !isPtr(rt) && isPtr(t) {
			recv = &ast.StarExpr{X: recv}
		}
	}
	if fn == nil {
		return nil
	}
	cand := in.cands[fn]
	if cand == nil || cand.pkg != ctx.pkg {
		return nil
	}
	sig := fn.Type().(*types.Signature)
	if (sig.Recv() != nil) != (recv != nil) {
		return nil // method expression T.m(x, ...) and the like
	}
	n := sig.Params().Len()
	args := call.Args
	if sig.Variadic() && !call.Ellipsis.IsValid() {
		if len(args) < n-1 {
			return nil
		}
		// f(a, x, y) -> the variadic parameter is []T{x, y}; f(a) -> nil
		fixed := append([]ast.Expr{}, args[:n-1]...)
		if len(args) == n-1 {
			fixed = append(fixed, nil)
		} else {
			te, ok := in.typeExpr(sig.Params().At(n-1).Type(), ctx, call.Pos())
			if !ok || !call.Pos().IsValid() {
				return nil
			}
			fixed = append(fixed, &ast.CompositeLit{Type: te, Elts: append([]ast.Expr{}, args[n-1:]...)})
		}
		args = fixed
	} else if len(args) != n {
		return nil
	}
	return &target{cand: cand, recv: recv, args: args}
}

// ---------- names visible at the call site ----------

func (ctx *fctx) lookup(name string, pos token.Pos) types.Object {
	sc := ctx.pkg.Types.Scope().Innermost(pos)
	if sc == nil {
		return nil
	}
	_, o := sc.LookupParent(name, pos)
	return o
}

// importName: local name under which package path is (or will be) visible in
// the caller's file at pos.
func (ctx *fctx) importName(p *types.Package, pos token.Pos) (string, bool) {
	for _, imp := range ctx.file.Imports {
		ip, _ := strconv.Unquote(imp.Path.Value)
		if ip != p.Path() {
			continue
		}
		name := p.Name()
		if imp.Name != nil {
			name = imp.Name.Name
		}
		if name == "_" || name == "." {
			return "", false
		}
		pn, ok := ctx.lookup(name, pos).(*types.PkgName)
		if !ok || pn.Imported().Path() != p.Path() {
			return "", false // shadowed at the call site
		}
		return name, true
	}
	if n, ok := ctx.addImports[p.Path()]; ok {
		return n, true
	}
	name := p.Name()
	if ctx.lookup(name, pos) != nil {
		return "", false
	}
	// the name must be free in the whole function, not only before pos
	clash := false
	ast.Inspect(ctx.decl, func(n ast.Node) bool {
		if id, ok := n.(*ast.Ident); ok && id.Name == name {
			clash = true
		}
		return !clash
	})
	if clash {
		return "", false
	}
	ctx.addImports[p.Path()] = name
	return name, true
}

// typeExpr renders t as syntax valid in the caller's file at pos.
func (in *inliner) typeExpr(t types.Type, ctx *fctx, pos token.Pos) (ast.Expr, bool) {
	ok := true
	var check func(t types.Type, depth int)
	seen := map[types.Type]bool{}
	check = func(t types.Type, depth int) {
		if t == nil || seen[t] || depth > 12 {
			return
		}
		seen[t] = true
		switch x := t.(type) {
		case *types.Named:
			o := x.Obj()
			if o.Pkg() == nil {
				if ctx.lookup(o.Name(), pos) != types.Universe.Lookup(o.Name()) {
					ok = false
				}
			} else if o.Pkg() == ctx.pkg.Types {
				if o.Parent() != ctx.pkg.Types.Scope() || ctx.lookup(o.Name(), pos) != types.Object(o) {
					ok = false // local type of the callee, or shadowed
				}
			} else if !o.Exported() {
				ok = false
			}
			if ta := x.TypeArgs(); ta != nil {
				for i := 0; i < ta.Len(); i++ {
					check(ta.At(i), depth+1)
				}
			}
		case *types.Alias:
			check(types.Unalias(x), depth+1)
		case *types.Basic:
			if x.Kind() == types.UnsafePointer || x.Info()&types.IsUntyped != 0 {
				ok = false
			} else if ctx.lookup(x.Name(), pos) != types.Universe.Lookup(x.Name()) {
				ok = false
			}
		case *types.Pointer:
			check(x.Elem(), depth+1)
		case *types.Slice:
			check(x.Elem(), depth+1)
		case *types.Array:
			check(x.Elem(), depth+1)
		case *types.Map:
			check(x.Key(), depth+1)
			check(x.Elem(), depth+1)
		case *types.Chan:
			check(x.Elem(), depth+1)
		case *types.Signature:
			for i := 0; i < x.Params().Len(); i++ {
				check(x.Params().At(i).Type(), depth+1)
			}
			for i := 0; i < x.Results().Len(); i++ {
				check(x.Results().At(i).Type(), depth+1)
			}
		case *types.Struct:
			if x.NumFields() > 0 {
				ok = false
			}
		case *types.Interface:
			if !x.Empty() {
				ok = false // only named interfaces, error and interface{}
			}
		case *types.TypeParam, *types.Tuple, *types.Union:
			ok = false
		}
	}
	check(t, 0)
	if !ok {
		return nil, false
	}
	s := types.TypeString(t, func(p *types.Package) string {
		if p == ctx.pkg.Types {
			return ""
		}
		n, good := ctx.importName(p, pos)
		if !good {
			ok = false
		}
		return n
	})
	if !ok {
		return nil, false
	}
	e, err := parser.ParseExpr(s)
	if err != nil {
		return nil, false
	}
	stripPos(e)
	return e, true
}

func stripPos(n ast.Node) {
	ast.Inspect(n, func(m ast.Node) bool {
		if m == nil {
			return false
		}
		v := reflect.ValueOf(m)
		if v.Kind() == reflect.Ptr && v.Elem().Kind() == reflect.Struct {
			s := v.Elem()
			for i := 0; i < s.NumField(); i++ {
				if s.Field(i).Type() == posType {
					name := s.Type().Field(i).Name
					if (name == "Ellipsis" || name == "Assign") && s.Field(i).Interface().(token.Pos).IsValid() {
						s.Field(i).Set(reflect.ValueOf(token.Pos(1)))
						continue
					}
					s.Field(i).Set(reflect.ValueOf(token.NoPos))
				}
			}
		}
		return true
	})
}

// bindFree checks every lexically-resolved identifier of the copied callee code
// against the caller's scope at pos, and rewrites package qualifiers to the
// caller file's local import names.
func (in *inliner) bindFree(code ast.Node, cand *inlCand, ctx *fctx, pos token.Pos) bool {
	info := ctx.pkg.TypesInfo
	good := true
	skip := map[*ast.Ident]bool{}
	ast.Inspect(code, func(n ast.Node) bool {
		switch x := n.(type) {
		case *ast.SelectorExpr:
			// x.Sel is resolved in x.X's type or package, not lexically
			skip[x.Sel] = true
		case *ast.KeyValueExpr:
			if id, ok := x.Key.(*ast.Ident); ok {
				if v, ok := in.use(info, id).(*types.Var); ok && v.IsField() {
					skip[id] = true
				}
			}
		}
		return true
	})
	ast.Inspect(code, func(n ast.Node) bool {
		id, ok := n.(*ast.Ident)
		if !ok || skip[id] || !good {
			return good
		}
		if _, gen := in.genType[id]; gen {
			return true
		}
		r, _ := in.root(id).(*ast.Ident)
		if r == nil {
			return true
		}
		o := info.Uses[r]
		if o == nil {
			return true // definition or generated name
		}
		switch x := o.(type) {
		case *types.PkgName:
			name, ok := ctx.importName(x.Imported(), pos)
			if !ok {
				good = false
				return false
			}
			id.Name = name
		default:
			if o.Parent() == types.Universe || (o.Pkg() == ctx.pkg.Types && o.Parent() == ctx.pkg.Types.Scope()) {
				if ctx.lookup(o.Name(), pos) != o {
					good = false
				}
			}
			// everything else is local to the copied code (or a caller object inside a substituted argument)
		}
		return good
	})
	return good
}

// ---------- mode A: expression substitution ----------

func (in *inliner) exprBody(c *inlCand) ast.Expr {
	d := c.decl
	if d.Body == nil || len(d.Body.List) != 1 {
		return nil
	}
	ret, ok := d.Body.List[0].(*ast.ReturnStmt)
	if !ok || len(ret.Results) != 1 {
		return nil
	}
	sig := c.fn.Type().(*types.Signature)
	if sig.Results().Len() != 1 || sig.Variadic() || sig.TypeParams() != nil || sig.RecvTypeParams() != nil {
		return nil
	}
	return ret.Results[0]
}

func simpleOperand(e ast.Expr) bool {
	switch x := e.(type) {
	case *ast.Ident, *ast.BasicLit:
		return true
	case *ast.SelectorExpr:
		return simpleOperand(x.X)
	case *ast.ParenExpr:
		return simpleOperand(x.X)
	}
	return false
}

func (in *inliner) substitute(call *ast.CallExpr, tg *target, ctx *fctx, pos token.Pos) ast.Expr {
	info := ctx.pkg.TypesInfo
	e := in.exprBody(tg.cand)
	if e == nil {
		return nil
	}
	sig := tg.cand.fn.Type().(*types.Signature)
	// parameter objects -> argument expressions
	type bind struct {
		v   *types.Var
		arg ast.Expr
	}
	var binds []bind
	if tg.recv != nil {
		binds = append(binds, bind{sig.Recv(), tg.recv})
	}
	for i, a := range tg.args {
		binds = append(binds, bind{sig.Params().At(i), a})
	}
	// One argument with a side effect (typically a getter call) is accepted when substituting cannot change when
	// or whether it is evaluated: its parameter is used exactly once, the body has no call, no short circuit and
	// reads nothing but its parameters and constants (checked below, once the uses are counted).
	var impure []*types.Var
	for _, b := range binds {
		if !in.pure(info, b.arg) {
			impure = append(impure, b.v)
		}
	}
	if len(impure) > 1 {
		return nil
	}
	hasLit, hasCall := false, false
	ast.Inspect(e, func(n ast.Node) bool {
		switch x := n.(type) {
		case *ast.FuncLit:
			hasLit = true
		case *ast.CallExpr:
			if !in.isPureCall(info, x) {
				hasCall = true
			}
		}
		return true
	})
	if hasLit {
		return nil
	}
	uses := map[*types.Var]int{}
	addrTaken := false
	ast.Inspect(e, func(n ast.Node) bool {
		switch x := n.(type) {
		case *ast.Ident:
			if v, ok := in.use(info, x).(*types.Var); ok {
				uses[v]++
			}
		case *ast.UnaryExpr:
			if x.Op == token.AND {
				if id, ok := ast.Unparen(x.X).(*ast.Ident); ok {
					if v, ok := in.use(info, id).(*types.Var); ok {
						for _, b := range binds {
							if b.v == v {
								addrTaken = true
							}
						}
					}
				}
			}
		}
		return true
	})
	if addrTaken {
		return nil
	}
	if len(impure) == 1 {
		if uses[impure[0]] != 1 || hasCall {
			return nil
		}
		okBody := true
		ast.Inspect(e, func(n ast.Node) bool {
			switch x := n.(type) {
			case *ast.BinaryExpr:
				if x.Op == token.LAND || x.Op == token.LOR {
					okBody = false
				}
			case *ast.IndexExpr, *ast.SliceExpr, *ast.StarExpr, *ast.TypeAssertExpr:
				okBody = false // may panic: the order against the argument's effect would matter
			}
			return okBody
		})
		for v := range uses {
			isParam := false
			for _, b := range binds {
				if b.v == v {
					isParam = true
				}
			}
			if !isParam {
				okBody = false
			}
		}
		if !okBody {
			return nil
		}
	}
	for _, b := range binds {
		if uses[b.v] > 1 && hasCall && !simpleOperand(b.arg) {
			return nil
		}
	}
	cp := in.clone(e).(ast.Expr)
	if !in.bindFree(cp, tg.cand, ctx, pos) {
		return nil
	}
	failed := false
	repl := func(id *ast.Ident) ast.Expr {
		v, ok := in.use(info, id).(*types.Var)
		if !ok {
			return nil
		}
		for _, b := range binds {
			if b.v != v {
				continue
			}
			arg := in.clone(b.arg).(ast.Expr)
			at := in.typeOf(info, b.arg)
			if at == nil {
				failed = true
				return nil
			}
			isConst := false
			if r, ok := in.root(b.arg).(ast.Expr); ok {
				if tv, known := info.Types[r]; known && tv.Value != nil {
					isConst = true // 3 for a float64 parameter must stay float64(3): 3/2 is not 1.5
				}
			}
			if b.v != sig.Recv() && (isConst || !types.Identical(at, b.v.Type())) {
				te, ok := in.typeExpr(b.v.Type(), ctx, pos)
				if !ok {
					failed = true
					return nil
				}
				if _, isPtrT := te.(*ast.StarExpr); isPtrT {
					te = &ast.ParenExpr{X: te}
				}
				return &ast.CallExpr{Fun: te, Args: []ast.Expr{arg}}
			}
			switch arg.(type) {
			case *ast.Ident, *ast.BasicLit, *ast.ParenExpr, *ast.SelectorExpr, *ast.CallExpr, *ast.IndexExpr, *ast.CompositeLit:
				return arg
			}
			return &ast.ParenExpr{X: arg}
		}
		return nil
	}
	skipSel := map[*ast.Ident]bool{}
	ast.Inspect(cp, func(n ast.Node) bool {
		if s, ok := n.(*ast.SelectorExpr); ok {
			skipSel[s.Sel] = true
		}
		return true
	})
	var out ast.Node = astutil.Apply(&ast.ParenExpr{X: cp}, nil, func(c *astutil.Cursor) bool {
		if id, ok := c.Node().(*ast.Ident); ok && !skipSel[id] {
			if _, isKV := c.Parent().(*ast.KeyValueExpr); isKV && c.Name() == "Key" {
				if v, ok := in.use(info, id).(*types.Var); ok && v.IsField() {
					return true
				}
			}
			if r := repl(id); r != nil {
				c.Replace(r)
			}
		}
		return true
	})
	if failed {
		return nil
	}
	res := out.(ast.Expr)
	rt := sig.Results().At(0).Type()
	constBody := false
	if tv, known := info.Types[e]; known && tv.Value != nil {
		constBody = true
	}
	if et := in.typeOf(info, e); et == nil || constBody || !types.Identical(et, rt) {
		te, ok := in.typeExpr(rt, ctx, pos)
		if !ok {
			return nil
		}
		if _, isPtrT := te.(*ast.StarExpr); isPtrT {
			te = &ast.ParenExpr{X: te}
		}
		res = &ast.CallExpr{Fun: te, Args: []ast.Expr{res}}
	}
	in.genExprType(res, rt)
	return res
}

// genExprType remembers the type of a generated expression (only identifiers
// and parenthesised/converted wrappers are ever asked for).
func (in *inliner) genExprType(e ast.Expr, t types.Type) {
	in.exprTypes[e] = t
}

// ---------- mode B: block expansion ----------

func ident(name string) *ast.Ident { return ast.NewIdent(name) }

func varDecl(name string, typ ast.Expr, val ast.Expr) ast.Stmt {
	spec := &ast.ValueSpec{Names: []*ast.Ident{ident(name)}, Type: typ}
	if val != nil {
		spec.Values = []ast.Expr{val}
	}
	return &ast.DeclStmt{Decl: &ast.GenDecl{Tok: token.VAR, Specs: []ast.Spec{spec}}}
}

func blankUse(name string) ast.Stmt {
	return &ast.AssignStmt{Lhs: []ast.Expr{ident("_")}, Tok: token.ASSIGN, Rhs: []ast.Expr{ident(name)}}
}

// expandBlock builds the statements that replace a call in block mode and the
// identifiers standing for its results.
func (in *inliner) expandBlock(tg *target, ctx *fctx, pos token.Pos) (pre []ast.Stmt, results []*ast.Ident, ok bool) {
	info := ctx.pkg.TypesInfo
	c := tg.cand
	if c.why != "" {
		return nil, nil, false
	}
	sig := c.fn.Type().(*types.Signature)
	in.seq++
	pfx := fmt.Sprintf("__pdsa%d_", in.seq)
	rename := map[types.Object]string{}
	var head []ast.Stmt
	bindParam := func(v *types.Var, arg ast.Expr, i int) bool {
		name := pfx + "p" + strconv.Itoa(i)
		if i < 0 {
			name = pfx + "recv"
		}
		if v.Name() != "" && v.Name() != "_" {
			name = pfx + v.Name()
			rename[v] = name
		}
		te, good := in.typeExpr(v.Type(), ctx, pos)
		if !good {
			// the type cannot be written at the call site (its name is shadowed there, as in
			// `allocatorGroup.reset()` with a local called like the type): `name := arg` needs no
			// type expression and means the same when the argument already has exactly that type
			if arg != nil {
				if at := in.typeOf(info, arg); at != nil && types.Identical(at, v.Type()) {
					head = append(head, &ast.AssignStmt{Lhs: []ast.Expr{ident(name)}, Tok: token.DEFINE, Rhs: []ast.Expr{arg}}, blankUse(name))
					return true
				}
			}
			return false
		}
		head = append(head, varDecl(name, te, arg), blankUse(name)) // arg == nil: zero value (empty variadic)
		return true
	}
	if tg.recv != nil {
		if !bindParam(sig.Recv(), tg.recv, -1) {
			return nil, nil, false
		}
	}
	for i, a := range tg.args {
		if !bindParam(sig.Params().At(i), a, i) {
			return nil, nil, false
		}
	}
	// a parameterless, resultless function literal passed for a parameter the helper only ever calls as a
	// statement (`revert()`): the call is the literal's body, run in the caller's scope
	litBody := map[string]*ast.BlockStmt{}
	for i, a := range tg.args {
		lit, isLit := a.(*ast.FuncLit)
		v := sig.Params().At(i)
		if !isLit || rename[v] == "" || lit.Type.Params.NumFields() != 0 || lit.Type.Results.NumFields() != 0 {
			continue
		}
		plain := true
		free := map[string]bool{}
		ast.Inspect(lit.Body, func(n ast.Node) bool {
			switch x := n.(type) {
			case *ast.ReturnStmt, *ast.DeferStmt, *ast.FuncLit, *ast.LabeledStmt, *ast.BranchStmt:
				plain = false
			case *ast.Ident:
				free[x.Name] = true
			}
			return plain
		})
		// every use of the parameter is `p()` as a statement, and no name the helper declares is used by the literal
		uses, stmtCalls := 0, 0
		ast.Inspect(c.decl.Body, func(n ast.Node) bool {
			switch x := n.(type) {
			case *ast.Ident:
				r, _ := in.root(x).(*ast.Ident)
				if r == nil {
					r = x
				}
				if c.pkg.TypesInfo.Uses[r] == v {
					uses++
				}
				if o := c.pkg.TypesInfo.Defs[r]; o != nil && o != v && free[x.Name] {
					plain = false
				}
			case *ast.ExprStmt:
				if call, ok := x.X.(*ast.CallExpr); ok && len(call.Args) == 0 {
					if id, ok := call.Fun.(*ast.Ident); ok && in.use(c.pkg.TypesInfo, id) == v {
						stmtCalls++
					}
				}
			}
			return true
		})
		if plain && uses > 0 && uses == stmtCalls {
			litBody[rename[v]] = lit.Body
		}
	}
	var resNames []string
	for i := 0; i < sig.Results().Len(); i++ {
		v := sig.Results().At(i)
		name := pfx + "r" + strconv.Itoa(i)
		if v.Name() != "" && v.Name() != "_" {
			rename[v] = name
		}
		te, good := in.typeExpr(v.Type(), ctx, pos)
		if !good {
			return nil, nil, false
		}
		pre = append(pre, varDecl(name, te, nil), blankUse(name))
		id := ident(name)
		in.genType[id] = v.Type()
		results = append(results, id)
		resNames = append(resNames, name)
	}
	body := in.clone(c.decl.Body).(*ast.BlockStmt)
	if !in.bindFree(body, c, ctx, pos) {
		return nil, nil, false
	}
	// rename parameters, named results and labels
	ast.Inspect(body, func(n ast.Node) bool {
		id, isId := n.(*ast.Ident)
		if !isId {
			return true
		}
		o := in.use(info, id)
		if o == nil {
			return true
		}
		if nn, ok := rename[o]; ok {
			id.Name = nn
		} else if _, isLabel := o.(*types.Label); isLabel {
			id.Name = pfx + id.Name
		}
		return true
	})
	label := pfx + "done"
	usedGoto := false
	var rewritten ast.Node = astutil.Apply(body, func(cur *astutil.Cursor) bool {
		switch x := cur.Node().(type) {
		case *ast.FuncLit:
			return false
		case *ast.ExprStmt:
			if call, ok := x.X.(*ast.CallExpr); ok && len(call.Args) == 0 {
				if id, ok := call.Fun.(*ast.Ident); ok && litBody[id.Name] != nil {
					blk := in.clone(litBody[id.Name]).(*ast.BlockStmt)
					cur.Replace(blk)
					return false
				}
			}
		case *ast.ReturnStmt:
			usedGoto = true
			var list []ast.Stmt
			if len(x.Results) > 0 {
				var lhs []ast.Expr
				for _, n := range resNames {
					lhs = append(lhs, ident(n))
				}
				list = append(list, &ast.AssignStmt{Lhs: lhs, Tok: token.ASSIGN, Rhs: x.Results})
			}
			list = append(list, &ast.BranchStmt{Tok: token.GOTO, Label: ident(label)})
			blk := &ast.BlockStmt{List: list}
			in.orig[blk] = in.root(x) // keeps the original line
			cur.Replace(blk)
			return false
		}
		return true
	}, nil)
	body = rewritten.(*ast.BlockStmt)
	blk := &ast.BlockStmt{List: append(head, body.List...)}
	pre = append(pre, blk)
	if usedGoto {
		pre = append(pre, &ast.LabeledStmt{Label: ident(label), Stmt: &ast.EmptyStmt{}})
	}
	return pre, results, true
}

// finder walks the expressions a statement evaluates immediately, in
// evaluation order, and stops at the first call that may be hoisted.
type finder struct {
	in     *inliner
	ctx    *fctx
	impure bool
	found  *ast.CallExpr
	tg     *target
	multi  map[*ast.CallExpr]bool // calls allowed to yield several values (sole RHS / sole result)
	// a && / || chain evaluated first in the statement, one of whose later operands
	// starts with a call that could be expanded if that operand stood alone
	chain   ast.Expr
	chainOp token.Token
	ops     []ast.Expr
	opIdx   int
}

func flattenOp(e ast.Expr, op token.Token) []ast.Expr {
	switch x := e.(type) {
	case *ast.BinaryExpr:
		if x.Op == op {
			return append(flattenOp(x.X, op), flattenOp(x.Y, op)...)
		}
	case *ast.ParenExpr:
		if b, ok := x.X.(*ast.BinaryExpr); ok && b.Op == op {
			return flattenOp(b, op)
		}
	}
	return []ast.Expr{e}
}

func joinOp(ops []ast.Expr, op token.Token) ast.Expr {
	e := ops[0]
	for _, o := range ops[1:] {
		e = &ast.BinaryExpr{X: e, Op: op, Y: o}
	}
	return e
}

func (w *finder) expr(e ast.Expr, cond bool) {
	if e == nil || w.found != nil {
		return
	}
	info := w.ctx.pkg.TypesInfo
	switch x := e.(type) {
	case *ast.Ident, *ast.BasicLit, *ast.FuncLit:
	case *ast.ParenExpr:
		w.expr(x.X, cond)
	case *ast.SelectorExpr:
		w.expr(x.X, cond)
	case *ast.StarExpr:
		w.expr(x.X, cond)
	case *ast.UnaryExpr:
		w.expr(x.X, cond)
		if x.Op == token.ARROW {
			w.impure = true
		}
	case *ast.BinaryExpr:
		if (x.Op == token.LAND || x.Op == token.LOR) && !cond && !w.impure && w.chain == nil {
			ops := flattenOp(x, x.Op)
			w.expr(ops[0], false)
			if w.found != nil {
				return
			}
			for i := 1; i < len(ops); i++ {
				sub := &finder{in: w.in, ctx: w.ctx, multi: map[*ast.CallExpr]bool{}}
				sub.chain = x // no nested chains
				sub.expr(ops[i], false)
				if sub.found != nil {
					w.chain, w.chainOp, w.ops, w.opIdx = x, x.Op, ops, i
					w.impure = true // nothing after the chain may move
					return
				}
				if sub.impure {
					w.impure = true
				}
			}
			return
		}
		w.expr(x.X, cond)
		if x.Op == token.LAND || x.Op == token.LOR {
			w.expr(x.Y, true)
		} else {
			w.expr(x.Y, cond)
		}
	case *ast.IndexExpr:
		w.expr(x.X, cond)
		w.expr(x.Index, cond)
	case *ast.SliceExpr:
		w.expr(x.X, cond)
		w.expr(x.Low, cond)
		w.expr(x.High, cond)
		w.expr(x.Max, cond)
	case *ast.TypeAssertExpr:
		w.expr(x.X, cond)
	case *ast.KeyValueExpr:
		if _, isId := x.Key.(*ast.Ident); !isId {
			w.expr(x.Key, cond)
		}
		w.expr(x.Value, cond)
	case *ast.CompositeLit:
		for _, el := range x.Elts {
			w.expr(el, cond)
		}
	case *ast.CallExpr:
		if w.in.isPureCall(info, x) {
			for _, a := range x.Args {
				w.expr(a, cond)
			}
			return
		}
		before := w.impure // the call's own operands move with it
		w.expr(x.Fun, cond)
		for _, a := range x.Args {
			w.expr(a, cond)
		}
		if w.found != nil {
			return
		}
		if tg := w.in.targetOf(x, w.ctx); tg != nil && !cond && !before && tg.cand.why == "" {
			n := tg.cand.fn.Type().(*types.Signature).Results().Len()
			if n == 1 || w.multi[x] {
				w.found, w.tg = x, tg
				return
			}
		}
		w.impure = true
	default:
		w.impure = true
	}
}

func (w *finder) simple(s ast.Stmt) {
	switch x := s.(type) {
	case nil:
	case *ast.ExprStmt:
		if c, ok := ast.Unparen(x.X).(*ast.CallExpr); ok {
			w.multi[c] = true
		}
		w.expr(x.X, false)
	case *ast.AssignStmt:
		if len(x.Rhs) == 1 {
			if c, ok := ast.Unparen(x.Rhs[0]).(*ast.CallExpr); ok {
				w.multi[c] = true
			}
		}
		if x.Tok != token.DEFINE {
			for _, l := range x.Lhs {
				w.expr(l, false)
			}
		}
		for _, r := range x.Rhs {
			w.expr(r, false)
		}
	case *ast.DeclStmt:
		gd, ok := x.Decl.(*ast.GenDecl)
		if !ok || gd.Tok != token.VAR {
			w.impure = true
			return
		}
		for _, sp := range gd.Specs {
			vs := sp.(*ast.ValueSpec)
			if len(vs.Values) == 1 {
				if c, ok := ast.Unparen(vs.Values[0]).(*ast.CallExpr); ok {
					w.multi[c] = true
				}
			}
			for _, v := range vs.Values {
				w.expr(v, false)
			}
		}
	case *ast.IncDecStmt:
		w.expr(x.X, false)
	case *ast.SendStmt:
		w.expr(x.Chan, false)
		w.expr(x.Value, false)
	default:
		w.impure = true
	}
}

func (w *finder) stmt(s ast.Stmt) {
	switch x := s.(type) {
	case *ast.ExprStmt, *ast.AssignStmt, *ast.DeclStmt, *ast.IncDecStmt, *ast.SendStmt:
		w.simple(x)
	case *ast.ReturnStmt:
		if len(x.Results) == 1 {
			if c, ok := ast.Unparen(x.Results[0]).(*ast.CallExpr); ok {
				w.multi[c] = true
			}
		}
		for _, r := range x.Results {
			w.expr(r, false)
		}
	case *ast.IfStmt:
		if x.Init != nil {
			w.simple(x.Init)
		} else {
			w.expr(x.Cond, false)
		}
	case *ast.SwitchStmt:
		if x.Init != nil {
			w.simple(x.Init)
		} else {
			w.expr(x.Tag, false)
		}
	case *ast.TypeSwitchStmt:
		if x.Init != nil {
			w.simple(x.Init)
		} else if as, ok := x.Assign.(*ast.AssignStmt); ok && len(as.Rhs) == 1 {
			w.expr(as.Rhs[0], false)
		} else if es, ok := x.Assign.(*ast.ExprStmt); ok {
			w.expr(es.X, false)
		}
	case *ast.ForStmt:
		w.simple(x.Init)
	case *ast.RangeStmt:
		w.expr(x.X, false)
	}
}

// declaredInside: some identifier used in the call's operands is declared
// within s itself (if x := ...; helper(x)), so the call cannot move in front of s.
func (in *inliner) declaredInside(call *ast.CallExpr, s ast.Stmt, ctx *fctx) bool {
	info := ctx.pkg.TypesInfo
	bad := false
	ast.Inspect(call, func(n ast.Node) bool {
		if id, ok := n.(*ast.Ident); ok {
			if o := in.use(info, id); o != nil && o.Pos().IsValid() && s.Pos().IsValid() && o.Pos() >= s.Pos() && o.Pos() < s.End() &&
				!(call.Pos().IsValid() && o.Pos() >= call.Pos() && o.Pos() < call.End()) {
				if _, isField := o.(*types.Var); !isField || !o.(*types.Var).IsField() {
					if o.Parent() != nil && o.Parent() != ctx.pkg.Types.Scope() && o.Parent() != types.Universe {
						bad = true
					}
				}
			}
		}
		return !bad
	})
	return bad
}

// replaceCall puts the result identifiers in place of call inside s. It
// returns the statement to keep (nil when s was just the call).
func replaceCall(s ast.Stmt, call *ast.CallExpr, res []*ast.Ident) (ast.Stmt, bool) {
	if es, ok := s.(*ast.ExprStmt); ok && ast.Unparen(es.X) == ast.Expr(call) {
		return nil, true
	}
	exprs := make([]ast.Expr, len(res))
	for i, r := range res {
		exprs[i] = r
	}
	if len(res) == 1 {
		done := false
		astutil.Apply(s, func(c *astutil.Cursor) bool {
			if c.Node() == ast.Node(call) {
				c.Replace(res[0])
				done = true
				return false
			}
			return !done
		}, nil)
		return s, done
	}
	sole := func(list []ast.Expr) bool { return len(list) == 1 && ast.Unparen(list[0]) == ast.Expr(call) }
	var fix func(st ast.Stmt) bool
	fix = func(st ast.Stmt) bool {
		switch x := st.(type) {
		case *ast.AssignStmt:
			if sole(x.Rhs) {
				x.Rhs = exprs
				return true
			}
		case *ast.ReturnStmt:
			if sole(x.Results) {
				x.Results = exprs
				return true
			}
		case *ast.DeclStmt:
			if gd, ok := x.Decl.(*ast.GenDecl); ok {
				for _, sp := range gd.Specs {
					if vs, ok := sp.(*ast.ValueSpec); ok && sole(vs.Values) {
						vs.Values = exprs
						return true
					}
				}
			}
		case *ast.IfStmt:
			return x.Init != nil && fix(x.Init)
		case *ast.SwitchStmt:
			return x.Init != nil && fix(x.Init)
		case *ast.TypeSwitchStmt:
			return x.Init != nil && fix(x.Init)
		case *ast.ForStmt:
			return x.Init != nil && fix(x.Init)
		}
		return false
	}
	return s, fix(s)
}

func (in *inliner) processList(list []ast.Stmt, ctx *fctx) []ast.Stmt {
	var out []ast.Stmt
	for _, s := range list {
		in.recurse(s, ctx)
		if _, labelled := s.(*ast.LabeledStmt); labelled || !s.Pos().IsValid() {
			out = append(out, s)
			continue
		}
		if ifs, ok := s.(*ast.IfStmt); ok && ifs.Init == nil {
			in.splitAnd(ifs, ctx, 0) // nested ifs read better than a flag variable
		}
		if fs, ok := s.(*ast.ForStmt); ok {
			in.loopCond(fs, ctx)
		}
		pre, cur := in.hoistStmt(s, s.Pos(), ctx)
		out = append(out, pre...)
		if cur != nil {
			out = append(out, cur)
			if ifs, ok := cur.(*ast.IfStmt); ok {
				in.splitAnd(ifs, ctx, 0)
				in.elseChain(ifs, ctx)
			}
		}
	}
	return out
}

// loopCond: `for init; helper(x); post { body }` is `for init; ; post { if !helper(x) { break }; body }`;
// the test is then an ordinary statement of the body.
func (in *inliner) loopCond(fs *ast.ForStmt, ctx *fctx) {
	if fs.Cond == nil || !fs.Body.Lbrace.IsValid() {
		return
	}
	has := false
	ast.Inspect(fs.Cond, func(n ast.Node) bool {
		if call, ok := n.(*ast.CallExpr); ok && call.Pos().IsValid() {
			if tg := in.targetOf(call, ctx); tg != nil && tg.cand.why == "" {
				has = true
			}
		}
		return !has
	})
	if !has {
		return
	}
	test := &ast.IfStmt{If: fs.Body.Lbrace, Cond: &ast.UnaryExpr{Op: token.NOT, X: &ast.ParenExpr{X: fs.Cond}},
		Body: &ast.BlockStmt{Lbrace: fs.Body.Lbrace, List: []ast.Stmt{&ast.BranchStmt{Tok: token.BREAK}}}}
	in.orig[test] = in.root(fs)
	// the body was already processed; process the new test as a statement of its own
	pre, cur := in.hoistStmt(test, fs.Body.Lbrace, ctx)
	if len(pre) == 0 {
		// the call sits behind something that cannot move: try the && / || forms
		if ue, ok := test.Cond.(*ast.UnaryExpr); ok {
			_ = ue
		}
		return
	}
	fs.Cond = nil
	fs.Body.List = append(append(pre, cur), fs.Body.List...)
	ctx.modified = true
}

// elseChain: `else if init; cond {...}` is `else { if init; cond {...} }`; in
// the block form a helper call in init/cond has a statement list to expand into.
func (in *inliner) elseChain(ifs *ast.IfStmt, ctx *fctx) {
	for cur := ifs; cur != nil; {
		e, ok := cur.Else.(*ast.IfStmt)
		if !ok || !e.Pos().IsValid() {
			return
		}
		pre, rest := in.hoistStmt(e, e.Pos(), ctx)
		if len(pre) > 0 {
			cur.Else = &ast.BlockStmt{List: append(pre, rest)}
		}
		in.splitAnd(e, ctx, 0)
		cur = e
	}
}

// hoistStmt expands, in front of cur, every call of a new helper that cur
// evaluates before anything with a side effect. pos is where names are looked up.
func (in *inliner) hoistStmt(cur ast.Stmt, pos token.Pos, ctx *fctx) (out []ast.Stmt, rest ast.Stmt) {
	for iter := 0; iter < 8 && cur != nil; iter++ {
		w := &finder{in: in, ctx: ctx, multi: map[*ast.CallExpr]bool{}}
		w.stmt(cur)
		if w.found == nil && w.chain != nil {
			// c := a && helper(x)  ->  var c bool; if a { <helper expanded>; c = r }
			if in.chainDeclaredInside(w, cur, ctx) {
				break
			}
			in.seq++
			flag := ident(fmt.Sprintf("__pdsa%d_c", in.seq))
			in.genType[flag] = types.Typ[types.Bool]
			inner := &ast.AssignStmt{Lhs: []ast.Expr{ident(flag.Name)}, Tok: token.ASSIGN, Rhs: []ast.Expr{joinOp(w.ops[w.opIdx:], w.chainOp)}}
			pre2, rest2 := in.hoistStmt(inner, pos, ctx)
			if len(pre2) == 0 {
				break
			}
			body := append(pre2, rest2)
			decl := varDecl(flag.Name, ident("bool"), nil)
			var guard ast.Stmt
			if w.chainOp == token.LAND {
				guard = &ast.IfStmt{Cond: joinOp(w.ops[:w.opIdx], token.LAND), Body: &ast.BlockStmt{List: body}}
				out = append(out, decl, guard)
			} else {
				first := &ast.AssignStmt{Lhs: []ast.Expr{ident(flag.Name)}, Tok: token.ASSIGN, Rhs: []ast.Expr{joinOp(w.ops[:w.opIdx], token.LOR)}}
				guard = &ast.IfStmt{Cond: &ast.UnaryExpr{Op: token.NOT, X: ident(flag.Name)}, Body: &ast.BlockStmt{List: body}}
				out = append(out, decl, first, guard)
			}
			in.orig[guard] = in.root(cur)
			done := false
			chain := w.chain
			astutil.Apply(cur, func(c *astutil.Cursor) bool {
				if c.Node() == ast.Node(chain) {
					c.Replace(flag)
					done = true
					return false
				}
				return !done
			}, nil)
			if !done {
				break
			}
			ctx.modified = true
			continue
		}
		if w.found == nil || in.declaredInside(w.found, cur, ctx) {
			break
		}
		pre, res, ok := in.expandBlock(w.tg, ctx, pos)
		if !ok {
			in.note("not expanded: call of %s in %s at %s (types or names not expressible at the call site)", shortFn(w.tg.cand.fn), ctx.decl.Name.Name, in.P.pos(pos))
			break
		}
		next, ok := replaceCall(cur, w.found, res)
		if !ok {
			break
		}
		in.note("expanded %s into %s at %s (block)", shortFn(w.tg.cand.fn), ctx.decl.Name.Name, in.P.pos(pos))
		in.nExp[w.tg.cand.fn]++
		ctx.modified = true
		out = append(out, pre...)
		cur = next
	}
	return out, cur
}

// chainDeclaredInside: an identifier used by the chain is declared within s
// (the chain cannot be evaluated in front of s then).
func (in *inliner) chainDeclaredInside(w *finder, s ast.Stmt, ctx *fctx) bool {
	info := ctx.pkg.TypesInfo
	bad := false
	ast.Inspect(w.chain, func(n ast.Node) bool {
		if id, ok := n.(*ast.Ident); ok && s.Pos().IsValid() && w.chain.Pos().IsValid() {
			if o := in.use(info, id); o != nil && o.Pos().IsValid() && o.Pos() >= s.Pos() && o.Pos() < s.End() &&
				!(o.Pos() >= w.chain.Pos() && o.Pos() < w.chain.End()) {
				if v, isVar := o.(*types.Var); !isVar || !v.IsField() {
					if o.Parent() != nil && o.Parent() != ctx.pkg.Types.Scope() && o.Parent() != types.Universe {
						bad = true
					}
				}
			}
		}
		return !bad
	})
	return bad
}

func flattenAnd(e ast.Expr) []ast.Expr {
	switch x := e.(type) {
	case *ast.BinaryExpr:
		if x.Op == token.LAND {
			return append(flattenAnd(x.X), flattenAnd(x.Y)...)
		}
	case *ast.ParenExpr:
		if b, ok := x.X.(*ast.BinaryExpr); ok && b.Op == token.LAND {
			return flattenAnd(b)
		}
	}
	return []ast.Expr{e}
}

func joinAnd(ops []ast.Expr) ast.Expr {
	e := ops[0]
	for _, o := range ops[1:] {
		e = &ast.BinaryExpr{X: e, Op: token.LAND, Y: o}
	}
	return e
}

// splitAnd: `if a && helper(x) && c { S }` (no else) is `if a { if helper(x) && c { S } }`;
// in the inner statement the helper call is evaluated first and can be expanded.
func (in *inliner) splitAnd(ifs *ast.IfStmt, ctx *fctx, depth int) {
	if ifs.Else != nil || depth > 4 || !ifs.Body.Lbrace.IsValid() {
		return
	}
	ops := flattenAnd(ifs.Cond)
	for i := 1; i < len(ops); i++ {
		w := &finder{in: in, ctx: ctx, multi: map[*ast.CallExpr]bool{}}
		w.expr(ops[i], false)
		if w.found == nil {
			if w.impure {
				continue
			}
			continue
		}
		inner := &ast.IfStmt{Cond: joinAnd(ops[i:]), Body: ifs.Body}
		in.orig[inner] = in.root(ifs)
		pos := ifs.Body.Lbrace
		pre, cur := in.hoistStmt(inner, pos, ctx)
		if len(pre) == 0 {
			return // nothing expanded: leave the statement as written
		}
		ifs.Cond = joinAnd(ops[:i])
		lb := ifs.Body.Lbrace
		ifs.Body = &ast.BlockStmt{Lbrace: lb, List: append(pre, cur)}
		if ci, ok := cur.(*ast.IfStmt); ok {
			ci.Body.Lbrace = lb
			in.splitAnd(ci, ctx, depth+1)
		}
		return
	}
}

func shortFn(f *types.Func) string { return strings.ReplaceAll(f.FullName(), modPath+"/", "") }

func (in *inliner) recurse(n ast.Node, ctx *fctx) {
	ast.Inspect(n, func(m ast.Node) bool {
		switch x := m.(type) {
		case *ast.BlockStmt:
			x.List = in.processList(x.List, ctx)
			return false
		case *ast.CaseClause:
			for _, e := range x.List {
				in.recurse(e, ctx)
			}
			x.Body = in.processList(x.Body, ctx)
			return false
		case *ast.CommClause:
			if x.Comm != nil {
				in.recurse(x.Comm, ctx)
			}
			x.Body = in.processList(x.Body, ctx)
			return false
		}
		return true
	})
}

// expandDecl runs both modes over one function declaration (in place).
func (in *inliner) expandDecl(ctx *fctx) {
	d := ctx.decl
	// mode A everywhere
	astutil.Apply(d.Body, nil, func(c *astutil.Cursor) bool {
		call, ok := c.Node().(*ast.CallExpr)
		if !ok || !call.Pos().IsValid() {
			return true
		}
		switch c.Parent().(type) {
		case *ast.ExprStmt, *ast.GoStmt, *ast.DeferStmt:
			return true
		}
		tg := in.targetOf(call, ctx)
		if tg == nil {
			return true
		}
		if e := in.substitute(call, tg, ctx, call.Pos()); e != nil {
			in.note("expanded %s into %s at %s (expression)", shortFn(tg.cand.fn), d.Name.Name, in.P.pos(call.Pos()))
			in.nExp[tg.cand.fn]++
			c.Replace(e)
			ctx.modified = true
		}
		return true
	})
	// mode B per statement
	d.Body.List = in.processList(d.Body.List, ctx)
	// what is left
	ast.Inspect(d.Body, func(n ast.Node) bool {
		if call, ok := n.(*ast.CallExpr); ok {
			if tg := in.targetOf(call, ctx); tg != nil {
				why := tg.cand.why
				if why == "" {
					why = "call position: something with a side effect is evaluated before it, or it sits in a condition that is not always evaluated"
				}
				in.note("not expanded: call of %s in %s (%s)", shortFn(tg.cand.fn), d.Name.Name, why)
			}
		}
		return true
	})
}

// ---------- printing with line resynchronisation ----------

const markerFn = "__pdsa_line__"

var markerRe = regexp.MustCompile(`[ \t]*` + markerFn + `\("([^"]*)", (\d+)\)[ \t]*`)

func (in *inliner) lineOf(n ast.Node) (string, int, bool) {
	r := in.root(n)
	if r == nil || !r.Pos().IsValid() {
		return "", 0, false
	}
	p := in.P.Fset.PositionFor(r.Pos(), false)
	return p.Filename, p.Line, true
}

func (in *inliner) addMarkers(body *ast.BlockStmt) {
	mark := func(list []ast.Stmt) []ast.Stmt {
		var out []ast.Stmt
		for _, s := range list {
			if f, l, ok := in.lineOf(s); ok {
				out = append(out, &ast.ExprStmt{X: &ast.CallExpr{Fun: ident(markerFn), Args: []ast.Expr{
					&ast.BasicLit{Kind: token.STRING, Value: strconv.Quote(f)},
					&ast.BasicLit{Kind: token.INT, Value: strconv.Itoa(l)}}}})
			}
			out = append(out, s)
		}
		return out
	}
	ast.Inspect(body, func(n ast.Node) bool {
		switch x := n.(type) {
		case *ast.BlockStmt:
			x.List = mark(x.List)
		case *ast.CaseClause:
			x.Body = mark(x.Body)
		case *ast.CommClause:
			x.Body = mark(x.Body)
		}
		return true
	})
}

func (in *inliner) printDecl(d *ast.FuncDecl) ([]byte, error) {
	in.addMarkers(d.Body)
	// comments attached to declarations inside the body would be interleaved by position
	ast.Inspect(d, func(n ast.Node) bool {
		switch x := n.(type) {
		case *ast.ValueSpec:
			x.Doc, x.Comment = nil, nil
		case *ast.TypeSpec:
			x.Doc, x.Comment = nil, nil
		case *ast.GenDecl:
			x.Doc = nil
		case *ast.Field:
			x.Doc, x.Comment = nil, nil
		}
		return true
	})
	doc := d.Doc
	d.Doc = nil
	var buf bytes.Buffer
	err := (&printer.Config{Mode: printer.UseSpaces | printer.TabIndent, Tabwidth: 8}).Fprint(&buf, in.P.Fset, d)
	d.Doc = doc
	if err != nil {
		return nil, err
	}
	// a marker the printer kept on a line with other tokens ({ marker; stmt }) gets lines of its own;
	// a `;` left behind is an empty statement
	out := markerRe.ReplaceAll(buf.Bytes(), []byte("\n//line $1:$2\n"))
	if i := bytes.Index(out, []byte(markerFn)); i >= 0 {
		j := i + 120
		if j > len(out) {
			j = len(out)
		}
		return nil, fmt.Errorf("line marker in an unexpected form: %q", out[i:j])
	}
	return out, nil
}

type splice struct {
	from, to int
	text     []byte
}

func applySplices(src []byte, sp []splice) []byte {
	sort.Slice(sp, func(i, j int) bool { return sp[i].from > sp[j].from })
	out := src
	for _, s := range sp {
		out = append(append(append([]byte{}, out[:s.from]...), s.text...), out[s.to:]...)
	}
	return out
}

// ---------- driver ----------

type inlineResult struct {
	Overlay map[string][]byte
	Notes   []string
}

// newFunctions: declared functions of the module that the reference tree did
// not have (by full name) and that are not renamed rule subjects.
func (P *Prog) newFunctions() map[*types.Func]bool {
	base := loadBaseline()
	if len(base.Inventory) == 0 {
		return nil
	}
	// (a method whose receiver changed between T and *T is the same function)
	norm := func(n string) string { return strings.Replace(n, "(*", "(", 1) }
	inv := map[string]bool{}
	for _, n := range base.Inventory {
		inv[norm(n)] = true
	}
	renamed := map[*types.Func]bool{}
	for _, parts := range base.FuncKeys {
		rel, typ, name := parts[0], parts[1], parts[2]
		func() {
			defer func() { recover() }()
			var found bool
			if typ == "" {
				found = P.pkg(rel).Types.Scope().Lookup(name) != nil
			} else {
				found = P.methodOpt(rel, typ, name) != nil
			}
			if !found {
				if fn := P.renamedFunc(rel, typ, name); fn != nil {
					if o, ok := fn.Object().(*types.Func); ok {
						renamed[o] = true
					}
				}
			}
		}()
	}
	out := map[*types.Func]bool{}
	for _, p := range P.Pkgs {
		if !strings.HasPrefix(p.PkgPath, modPath) {
			continue
		}
		for _, f := range p.Syntax {
			for _, d := range f.Decls {
				fd, ok := d.(*ast.FuncDecl)
				if !ok || fd.Body == nil {
					continue
				}
				o, _ := p.TypesInfo.Defs[fd.Name].(*types.Func)
				if o == nil || o.Name() == "init" || o.Name() == "_" {
					continue
				}
				if !inv[norm(o.FullName())] && !renamed[o] {
					out[o] = true
				}
			}
		}
	}
	return out
}

func (P *Prog) inventory() []string {
	var out []string
	for _, p := range P.Pkgs {
		if !strings.HasPrefix(p.PkgPath, modPath) {
			continue
		}
		for _, f := range p.Syntax {
			for _, d := range f.Decls {
				if fd, ok := d.(*ast.FuncDecl); ok {
					if o, _ := p.TypesInfo.Defs[fd.Name].(*types.Func); o != nil {
						out = append(out, o.FullName())
					}
				}
			}
		}
	}
	sort.Strings(out)
	return out
}

func planInline(P *Prog, ov map[string][]byte) *inlineResult {
	return planInlineWith(P, ov, P.newFunctions())
}

func planInlineWith(P *Prog, ov map[string][]byte, newFns map[*types.Func]bool) *inlineResult {
	if len(newFns) == 0 {
		return nil
	}
	in := &inliner{P: P, cands: map[*types.Func]*inlCand{}, orig: map[ast.Node]ast.Node{},
		genType: map[*ast.Ident]types.Type{}, noteSet: map[string]bool{}, exprTypes: map[ast.Expr]types.Type{}, nExp: map[*types.Func]int{}}
	declsOf := map[*packages.Package][]*fctx{}
	for _, p := range P.Pkgs {
		if !strings.HasPrefix(p.PkgPath, modPath) {
			continue
		}
		hasNew := false
		for _, f := range p.Syntax {
			for _, d := range f.Decls {
				fd, ok := d.(*ast.FuncDecl)
				if !ok || fd.Body == nil {
					continue
				}
				o, _ := p.TypesInfo.Defs[fd.Name].(*types.Func)
				if o != nil && newFns[o] {
					c := &inlCand{fn: o, decl: fd, pkg: p, file: f}
					c.why = in.bodyProblem(c)
					in.cands[o] = c
					hasNew = true
				}
			}
		}
		if !hasNew {
			continue
		}
		usesCgo := false
		for _, f := range p.Syntax {
			for _, imp := range f.Imports {
				if imp.Path.Value == `"C"` {
					usesCgo = true
				}
			}
		}
		if usesCgo {
			in.note("package %s uses cgo: helpers not expanded", p.PkgPath)
			continue
		}
		for _, f := range p.Syntax {
			for _, d := range f.Decls {
				if fd, ok := d.(*ast.FuncDecl); ok && fd.Body != nil {
					declsOf[p] = append(declsOf[p], &fctx{pkg: p, file: f, decl: fd, addImports: map[string]string{}})
				}
			}
		}
	}
	if len(in.cands) == 0 {
		return nil
	}
	res := &inlineResult{Overlay: map[string][]byte{}}
	for p, ctxs := range declsOf {
		// callees first: order the new functions so that a helper calling another
		// helper is itself expanded before it is copied; cycles are never expanded
		callsNew := func(fd *ast.FuncDecl) []*types.Func {
			var out []*types.Func
			ast.Inspect(fd.Body, func(n ast.Node) bool {
				if call, ok := n.(*ast.CallExpr); ok {
					switch f := ast.Unparen(call.Fun).(type) {
					case *ast.Ident:
						if o, ok := p.TypesInfo.Uses[f].(*types.Func); ok && in.cands[o] != nil {
							out = append(out, o)
						}
					case *ast.SelectorExpr:
						if s := p.TypesInfo.Selections[f]; s != nil {
							if o, ok := s.Obj().(*types.Func); ok && in.cands[o] != nil {
								out = append(out, o)
							}
						}
					}
				}
				return true
			})
			return out
		}
		state := map[*types.Func]int{}
		var order []*fctx
		byFn := map[*types.Func]*fctx{}
		for _, c := range ctxs {
			if o, _ := p.TypesInfo.Defs[c.decl.Name].(*types.Func); o != nil {
				byFn[o] = c
			}
		}
		var visit func(o *types.Func)
		visit = func(o *types.Func) {
			if state[o] != 0 {
				if state[o] == 1 { // cycle
					if c := in.cands[o]; c != nil && c.why == "" {
						c.why = "recursive"
					}
				}
				return
			}
			state[o] = 1
			if c := byFn[o]; c != nil {
				for _, callee := range callsNew(c.decl) {
					if in.cands[callee].pkg == p {
						visit(callee)
					}
				}
				order = append(order, c)
			}
			state[o] = 2
		}
		var newSorted []*types.Func
		for o, c := range in.cands {
			if c.pkg == p {
				newSorted = append(newSorted, o)
			}
		}
		sort.Slice(newSorted, func(i, j int) bool { return newSorted[i].FullName() < newSorted[j].FullName() })
		for _, o := range newSorted {
			visit(o)
		}
		inOrder := map[*fctx]bool{}
		for _, c := range order {
			inOrder[c] = true
		}
		for _, c := range ctxs {
			if !inOrder[c] && len(callsNew(c.decl)) > 0 {
				order = append(order, c)
			}
		}
		// expand, print, validate
		type fileEdit struct {
			file   *ast.File
			name   string
			decls  []*fctx
			texts  map[*fctx][]byte
			orig   []byte
			result []byte
		}
		edits := map[*ast.File]*fileEdit{}
		for _, c := range order {
			if o, _ := p.TypesInfo.Defs[c.decl.Name].(*types.Func); o != nil {
				if cand := in.cands[o]; cand != nil && cand.why == "recursive" {
					continue
				}
			}
			in.expandDecl(c)
		}
		// a new unexported helper every call of which was expanded is dead: remove
		// it, so that rules scanning whole packages see its code once, in context
		refs := map[*types.Func]int{}
		for _, f := range p.Syntax {
			ast.Inspect(f, func(n ast.Node) bool {
				if id, ok := n.(*ast.Ident); ok {
					if o, ok := in.use(p.TypesInfo, id).(*types.Func); ok && in.cands[o] != nil {
						refs[o]++
					}
				}
				return true
			})
		}
		for o, c := range byFn {
			cand := in.cands[o]
			if cand == nil || cand.why != "" || o.Exported() {
				continue
			}
			if refs[o] <= 1 && in.nExp[o] > 0 { // only its own declaration is left; a helper that never had a caller stays
				c.dropped, c.modified = true, true
				in.note("removed %s: every call was expanded", shortFn(o))
			}
		}
		for _, c := range order {
			if !c.modified {
				continue
			}
			fe := edits[c.file]
			if fe == nil {
				name := P.Fset.PositionFor(c.file.Pos(), false).Filename
				src, ok := ov[name]
				if !ok {
					b, err := os.ReadFile(name)
					if err != nil {
						in.note("cannot read %s: %v", name, err)
						continue
					}
					src = b
				}
				fe = &fileEdit{file: c.file, name: name, texts: map[*fctx][]byte{}, orig: src}
				edits[c.file] = fe
			}
			var txt []byte
			var err error
			if c.dropped {
				txt = []byte("// (helper expanded at its call sites)")
			} else {
				txt, err = in.printDecl(c.decl)
			}
			if err != nil {
				in.note("cannot print expanded %s: %v", c.decl.Name.Name, err)
				continue
			}
			fe.decls = append(fe.decls, c)
			fe.texts[c] = txt
		}
		build := func(fe *fileEdit, keep map[*fctx]bool) []byte {
			tf := P.Fset.File(fe.file.Pos())
			var sp []splice
			imports := map[string]string{}
			for _, c := range fe.decls {
				if !keep[c] {
					continue
				}
				endLine := P.Fset.PositionFor(c.decl.End(), false).Line
				txt := append(append([]byte{}, fe.texts[c]...), []byte(fmt.Sprintf("\n//line %s:%d", fe.name, endLine+1))...)
				sp = append(sp, splice{tf.Offset(c.decl.Pos()), tf.Offset(c.decl.End()), txt})
				for path, n := range c.addImports {
					imports[path] = n
				}
			}
			if len(imports) > 0 {
				at := fe.file.Name.End()
				for _, d := range fe.file.Decls {
					if gd, ok := d.(*ast.GenDecl); ok && gd.Tok == token.IMPORT && gd.End() > at {
						at = gd.End()
					}
				}
				var paths []string
				for path := range imports {
					paths = append(paths, path)
				}
				sort.Strings(paths)
				var b bytes.Buffer
				for _, path := range paths {
					fmt.Fprintf(&b, "\nimport %s %q", imports[path], path)
				}
				fmt.Fprintf(&b, "\n//line %s:%d", fe.name, P.Fset.PositionFor(at, false).Line+1)
				off := tf.Offset(at)
				sp = append(sp, splice{off, off, b.Bytes()})
			}
			return applySplices(fe.orig, sp)
		}
		validate := func(contents map[*ast.File][]byte) error {
			fset := token.NewFileSet()
			var files []*ast.File
			for _, f := range p.Syntax {
				name := P.Fset.PositionFor(f.Pos(), false).Filename
				var src interface{}
				if b, ok := contents[f]; ok {
					src = b
				} else if b, ok := ov[name]; ok {
					src = b
				}
				pf, err := parser.ParseFile(fset, name, src, parser.SkipObjectResolution)
				if err != nil {
					return err
				}
				files = append(files, pf)
			}
			var firstErr error
			conf := types.Config{
				Importer: importerFunc(func(path string) (*types.Package, error) {
					if ip := p.Imports[path]; ip != nil && ip.Types != nil {
						return ip.Types, nil
					}
					if path == "unsafe" {
						return types.Unsafe, nil
					}
					return nil, fmt.Errorf("import %s not available", path)
				}),
				Error: func(err error) {
					if firstErr == nil {
						firstErr = err
					}
				},
			}
			conf.Check(p.PkgPath, fset, files, nil)
			return firstErr
		}
		keep := map[*fctx]bool{}
		for _, fe := range edits {
			for _, c := range fe.decls {
				keep[c] = true
			}
		}
		all := func() map[*ast.File][]byte {
			m := map[*ast.File][]byte{}
			for f, fe := range edits {
				any := false
				for _, c := range fe.decls {
					if keep[c] {
						any = true
					}
				}
				if any {
					m[f] = build(fe, keep)
				}
			}
			return m
		}
		contents := all()
		if err := validate(contents); err != nil {
			// drop the expansions that do not type-check on their own
			for _, fe := range edits {
				for _, c := range fe.decls {
					one := map[*fctx]bool{c: true}
					if e := validate(map[*ast.File][]byte{fe.file: build(fe, one)}); e != nil {
						keep[c] = false
						in.note("expansion in %s dropped: generated source does not type-check (%v)", c.decl.Name.Name, e)
					}
				}
			}
			contents = all()
			if err := validate(contents); err != nil {
				in.note("all expansions in package %s dropped: %v", p.PkgPath, err)
				contents = nil
			}
		}
		for f, b := range contents {
			res.Overlay[P.Fset.PositionFor(f.Pos(), false).Filename] = b
		}
	}
	sort.Strings(in.notes)
	res.Notes = in.notes
	return res
}

type importerFunc func(path string) (*types.Package, error)

func (f importerFunc) Import(path string) (*types.Package, error) { return f(path) }
