package main

import (
	"fmt"
	"go/token"
	"go/types"
	"sort"
	"strings"

	"golang.org/x/tools/go/ssa"
)

// sprintfFormats: the constant format strings passed to fmt.Sprintf in fn.
func sprintfFormats(fn *ssa.Function) []string {
	var out []string
	for _, b := range fn.Blocks {
		for _, ins := range b.Instrs {
			cl, ok := ins.(*ssa.Call)
			if !ok {
				continue
			}
			f := cl.Call.StaticCallee()
			if f != nil && f.Pkg != nil && f.Pkg.Pkg.Path() == "fmt" && f.Name() == "Sprintf" && len(cl.Call.Args) > 0 {
				if s, ok := constString(cl.Call.Args[0]); ok {
					out = append(out, s)
				}
			}
		}
	}
	return out
}

func constStringsIn(fn *ssa.Function) map[string]bool {
	out := map[string]bool{}
	for _, b := range fn.Blocks {
		for _, ins := range b.Instrs {
			var ops []*ssa.Value
			for _, op := range ins.Operands(ops) {
				if *op == nil {
					continue
				}
				if s, ok := constString(*op); ok {
					out[s] = true
				}
			}
		}
	}
	return out
}

func ruleKeyFormats(c *Ctx) {
	P := c.P
	rule := c.Prop + "/key-format"
	type kf struct {
		fn  *ssa.Function
		seg string
	}
	fns := []kf{
		{P.Method("server/core", "Storage", "storePath"), "s"},
		{P.Func("server/core", "regionPath"), "r"},
		{P.Func("server", "makeStoreKey"), "s"},
		{P.Func("server", "makeRegionKey"), "r"},
		{P.Method("server/core", "Storage", "storeLeaderWeightPath"), "store_weight"},
		{P.Method("server/core", "Storage", "storeRegionWeightPath"), "store_weight"},
	}
	width := len(fmt.Sprint(uint64(1<<64 - 1)))
	want := fmt.Sprintf("%%0%dd", width)
	for _, k := range fns {
		c.saw(fnName(k.fn))
		fm := sprintfFormats(k.fn)
		c.Check(len(fm) == 1 && fm[0] == want, rule, "id format in "+fnName(k.fn), "ids are rendered with "+want+" (zero-padded to the width of MaxUint64), so that key order equals id order and writer and reader agree", P.pos(k.fn.Pos()), fmt.Sprint(fm))
		c.Check(constStringsIn(k.fn)[k.seg], rule, "segment in "+fnName(k.fn), "path segment "+k.seg, P.pos(k.fn.Pos()), "")
	}
	// the bootstrap transaction's root equals the storage's cluster path
	root := P.Method("server", "Server", "GetClusterRootPath")
	okRoot := false
	for s := range constStringsIn(root) {
		if fmt.Sprintf("%q", s) == constExact(P, "server/core", "clusterPath") {
			okRoot = true
		}
	}
	c.Check(okRoot, rule, "cluster root segment", "the bootstrap writer and the storage reader use the same cluster path segment", P.pos(root.Pos()), "")
}

func constExact(P *Prog, rel, name string) string {
	if cst, ok := P.obj(rel, name).(*types.Const); ok {
		return cst.Val().ExactString()
	}
	return ""
}

// everyIterationCalls: in the loop, no cycle through the header avoids a
// block containing an instruction matching isEvent.
func everyIterationCalls(l loopInfo, isEvent func(ssa.Instruction) bool) bool {
	has := func(b *ssa.BasicBlock) bool {
		for _, ins := range b.Instrs {
			if isEvent(ins) {
				return true
			}
		}
		return false
	}
	seen := map[*ssa.BasicBlock]bool{}
	var dfs func(b *ssa.BasicBlock) bool
	dfs = func(b *ssa.BasicBlock) bool {
		for _, s := range b.Succs {
			if !l.blocks[s] {
				continue
			}
			if s == l.header {
				return true
			}
			if seen[s] || has(s) {
				continue
			}
			seen[s] = true
			if dfs(s) {
				return true
			}
		}
		return false
	}
	if has(l.header) {
		return true
	}
	return !dfs(l.header)
}

func ruleLoadAndPrune(c *Ctx) {
	P := c.P
	rule := c.Prop + "/load-prunes"
	lr := P.Func("server/core", "loadRegions")
	del := F(P.Func("server/core", "deleteRegion"))
	loadRange := P.IMethod("server/kv", "Base", "LoadRange")
	c.saw(fnName(lr))
	// the loop over the callback's result deletes every element
	okEvery, found := false, false
	for _, l := range loopsOf(lr) {
		// innermost loop containing the delete call
		contains := false
		for b := range l.blocks {
			for _, ins := range b.Instrs {
				if isCallTo(ins, del) {
					contains = true
				}
			}
		}
		if !contains {
			continue
		}
		// choose the smallest such loop
		if !found || len(l.blocks) < smallest {
			smallest = len(l.blocks)
			found = true
			okEvery = everyIterationCalls(l, func(x ssa.Instruction) bool { return isCallTo(x, del) })
		}
	}
	c.Check(found && okEvery, rule, "overlap loop in "+fnName(lr), "every region the load callback reports (stale or displaced) is deleted from the same backend — no element is skipped", P.pos(lr.Pos()), "an iteration can continue without deleting its element")
	// deleted from the backend that was read, with the element's own meta; errors abort
	for _, ci := range callsIn(lr, false, del) {
		a := ci.Common().Args
		okKV := len(a) == 2 && len(lr.Params) > 0 && a[0] == ssa.Value(lr.Params[0])
		c.Check(okKV, rule, "backend of deleteRegion in "+fnName(lr), "the backend that is being loaded", P.instrPos(ci), "")
	}
	c.need(rule, lr, "successful return", func(x ssa.Instruction) bool { r, ok := x.(*ssa.Return); return ok && retIsNilErr(r) },
		[]Ev{newSettledEv(lr, "deleteRegion", callMatcher(del))}, all, "a failed prune aborts the load")
	// paging: next page starts after the last decoded id; the loop ends on a short page of the limit that was asked for
	for _, fn := range []*ssa.Function{lr, P.Method("server/core", "Storage", "LoadStores")} {
		c.saw(fnName(fn))
		getID := func(v ssa.Value) bool {
			cl, _ := callOf(v)
			return cl != nil && cl.Call.StaticCallee() != nil && (cl.Call.StaticCallee().Name() == "GetId" || cl.Call.StaticCallee().Name() == "GetID") // the meta's id, directly or through the StoreInfo/RegionInfo wrapper
		}
		okNext := false
		var limitArg ssa.Value
		for _, b := range fn.Blocks {
			for _, ins := range b.Instrs {
				if bo, ok := ins.(*ssa.BinOp); ok && bo.Op == token.ADD && getID(bo.X) && isConstInt(1)(bo.Y) {
					okNext = true
				}
				if ci, ok := ins.(ssa.CallInstruction); ok && loadRange.Match(ci.Common()) {
					if a := callArgs(ci.Common()); len(a) == 3 {
						limitArg = a[2]
					}
				}
			}
		}
		c.Check(okNext, c.Prop+"/paging", "next start id in "+fnName(fn), "the next page starts at (last decoded id) + 1", P.pos(fn.Pos()), "")
		okEnd := limitArg != nil && hasComparison(fn, "<", lenOf(anyVal), same(limitArg))
		if !okEnd && limitArg != nil {
			// the same comparison kept in a flag (`more = len(page) >= limit`; `for more`)
			for _, b := range fn.Blocks {
				for _, ins := range b.Instrs {
					if bo, ok := ins.(*ssa.BinOp); ok && (bo.Op == token.LSS || bo.Op == token.GEQ) && lenOf(anyVal)(bo.X) && sameVal(bo.Y, limitArg) {
						okEnd = true
					}
					if bo, ok := ins.(*ssa.BinOp); ok && (bo.Op == token.GTR || bo.Op == token.LEQ) && lenOf(anyVal)(bo.Y) && sameVal(bo.X, limitArg) {
						okEnd = true
					}
				}
			}
		}
		c.Check(okEnd, c.Prop+"/paging", "termination in "+fnName(fn), "loading stops only on a page shorter than the limit that was requested", P.pos(fn.Pos()), "the compared limit is not the requested one")
		c.need(c.Prop+"/paging", fn, "successful return", func(x ssa.Instruction) bool { r, ok := x.(*ssa.Return); return ok && retIsNilErr(r) },
			[]Ev{guardRel("len(page) < limit", "<", lenOf(anyVal), anyVal)}, all, "success is reported only after a short (last) page")
	}
	// keys are built from the region's / store's own id
	for _, spec := range []struct {
		fn  *ssa.Function
		key Callee
	}{
		{P.Func("server/core", "deleteRegion"), F(P.Func("server/core", "regionPath"))},
		{P.Func("server/core", "saveRegion"), F(P.Func("server/core", "regionPath"))},
		{P.Method("server/core", "RegionStorage", "SaveRegion"), F(P.Func("server/core", "regionPath"))},
		{P.Method("server/core", "Storage", "SaveStore"), F(P.Method("server/core", "Storage", "storePath"))},
		{P.Method("server/core", "Storage", "DeleteStore"), F(P.Method("server/core", "Storage", "storePath"))},
	} {
		okK := false
		for _, ci := range callsIn(spec.fn, false, spec.key) {
			a := callArgs(ci.Common())
			if len(a) == 1 {
				if cl, _ := callOf(a[0]); cl != nil && cl.Call.StaticCallee() != nil && (cl.Call.StaticCallee().Name() == "GetId" || cl.Call.StaticCallee().Name() == "GetID") {
					okK = true
				}
			}
		}
		c.Check(okK, c.Prop+"/own-key", "key in "+fnName(spec.fn), "an item is stored/deleted under the key of its own id", P.pos(spec.fn.Pos()), "")
	}
}

var smallest int

func ruleBatchBuffer(c *Ctx) {
	P := c.P
	rule := c.Prop + "/batch-buffer"
	mu := P.Field("server/core", "RegionStorage", "mu")
	for _, f := range []string{"batchRegions", "cacheSize", "flushTime"} {
		guardedBy(c, c.Prop+"/batch-lock", P.Field("server/core", "RegionStorage", f), mu, nil)
	}
	flush := P.Method("server/core", "RegionStorage", "flush")
	okL, why := callersHold(P, flush, mu, true, 2, map[*ssa.Function]bool{})
	c.Check(okL, c.Prop+"/batch-lock", "callers of "+fnName(flush), "hold the buffer lock", P.pos(flush.Pos()), why)
	saveRegions := F(P.Method("server/kv", "LeveldbKV", "SaveRegions"))
	batch := P.Field("server/core", "RegionStorage", "batchRegions")
	cache := P.Field("server/core", "RegionStorage", "cacheSize")
	// the batch is written while the lock is held (a concurrent Flush that returns has waited for the write)
	n := 0
	for _, fn := range P.Funcs {
		if P.isScaffold(fn) || fnPkgPath(fn) != modPath+"/server/core" {
			continue
		}
		for _, ci := range callsIn(fn, false, saveRegions) {
			n++
			okH, tr := heldAt(P, ci.(ssa.Instruction), mu, true)
			if !okH {
				okH, tr = callersHold(P, fn, mu, true, 2, map[*ssa.Function]bool{})
			}
			c.Check(okH, rule, "SaveRegions in "+fnName(fn), "the batch is written to leveldb under the buffer lock: when Flush/Close returns, every earlier save is durable", P.instrPos(ci), tr)
			a := callArgs(ci.Common())
			c.Check(len(a) == 1 && isLoadOf(a[0], batch), rule, "argument of SaveRegions in "+fnName(fn), "the current batch", P.instrPos(ci), "")
		}
		// the buffer is emptied only after the write succeeded
		if len(callsIn(fn, false, saveRegions)) > 0 || fn == flush {
			okS := newOkEv(fn, "ok(SaveRegions)", callMatcher(saveRegions))
			c.mustPrecede(rule, fn, "reset of the batch", func(x ssa.Instruction) bool {
				st, ok := x.(*ssa.Store)
				if !ok {
					return false
				}
				if fieldOfAddr(st.Addr) == cache {
					return isConstInt(0)(st.Val)
				}
				return fieldOfAddr(st.Addr) == batch
			}, []Ev{okS}, all, "the buffer is emptied only after its content was written successfully (a failed write keeps the batch)")
		}
	}
	if n == 0 {
		c.Undec(rule, "SaveRegions call", "found", "", "")
	}
	// Close flushes before it closes leveldb
	cl := P.Method("server/core", "RegionStorage", "Close")
	flushR := F(P.Method("server/core", "RegionStorage", "FlushRegion"))
	c.need(rule, cl, "close of leveldb", func(x ssa.Instruction) bool {
		ci, ok := x.(ssa.CallInstruction)
		if !ok {
			return false
		}
		f := ci.Common().StaticCallee()
		return f != nil && f.Name() == "Close" && f != cl
	}, []Ev{&calledEv{name: "FlushRegion()", match: instrCallMatcher(flushR)}}, all, "pending regions are flushed before the store is closed")
	// a full buffer is flushed by the save that filled it
	sr := P.Method("server/core", "RegionStorage", "SaveRegion")
	c.need(rule, sr, "successful return", func(x ssa.Instruction) bool { r, ok := x.(*ssa.Return); return ok && retIsNilErr(r) },
		[]Ev{&calledEv{name: "region buffered", match: func(x ssa.Instruction) bool {
			mu, ok := x.(*ssa.MapUpdate)
			return ok && isLoadOf(mu.Map, batch)
		}}, newSettledEv(sr, "flush", callMatcher(F(flush)))}, all, "a save returns success only with the region in the buffer and no failed flush")
	// flush writes whenever something is buffered. It may skip the write on an empty buffer; judging
	// emptiness by the counter is sound only if every buffered region is counted (or flushed) after it
	// was put into the buffer — otherwise a region sits in the batch with a zero count and neither
	// Flush nor Close ever writes it.
	isBuffer := func(x ssa.Instruction) bool {
		mu, ok := x.(*ssa.MapUpdate)
		return ok && isLoadOf(mu.Map, batch)
	}
	buffered := &calledEv{name: "region buffered", match: isBuffer}
	counted := &calledEv{name: "counted (cacheSize advanced) or flushed after buffering", reset: isBuffer, match: func(x ssa.Instruction) bool {
		if st, ok := x.(*ssa.Store); ok && fieldOfAddr(st.Addr) == cache {
			return !isConstInt(0)(st.Val) && derivesFrom(st.Val, loadOfField(cache), 3)
		}
		return instrCallMatcher(F(flush))(x)
	}}
	_, fails := requireAt(P, sr, 0, []Ev{buffered, counted}, func(x ssa.Instruction) bool { _, ok := x.(*ssa.Return); return ok }, func(h []bool) bool { return !h[0] || h[1] })
	countExact := len(fails) == 0
	// (success: `return nil`, or the write's own error handed on as it is)
	c.needOnSuccess(rule, flush,
		[]Ev{&calledEv{name: "SaveRegions called", match: instrCallMatcher(saveRegions)}, newSettledEv(flush, "SaveRegions", callMatcher(saveRegions)),
			guardRel("len(batchRegions) == 0", "== <=", lenOf(loadOfField(batch)), isConstInt(0)),
			guardRel("cacheSize == 0", "== <=", loadOfField(cache), isConstInt(0))},
		func(h []bool) bool { return (h[0] && h[1]) || h[2] || (h[3] && countExact) },
		"flush returns success only after writing the batch, or when the buffer is empty (by length, or by a counter that covers every buffered region)")
}

// ruleLoadCallbackChecked: what the loader deletes from storage is what the
// callback reports. Only the checked insertion reports a stale record itself
// (and leaves the cache alone); the unchecked one lets whichever record is
// visited last win and has the loader delete the live regions it displaced.
func ruleLoadCallbackChecked(c *Ctx) {
	P := c.P
	rule := c.Prop + "/load-prunes"
	checked := P.Method("server/core", "BasicCluster", "CheckAndPutRegion")
	n := 0
	for _, name := range []string{"LoadRegionsOnce", "LoadRegions"} {
		lf := P.methodOpt("server/core", "Storage", name)
		if lf == nil {
			continue
		}
		sites, _ := c.nonScaffoldCallers(lf)
		for _, s := range sites {
			if fnPkgPath(s.Caller) == modPath+"/server/core" {
				continue
			}
			a := callArgs(s.Instr.Common())
			if len(a) == 0 {
				continue
			}
			n++
			ok := false
			why := "the callback is not CheckAndPutRegion"
			for _, alt := range valueAlternatives(a[len(a)-1], 3) {
				mc, isC := strip(alt).(*ssa.MakeClosure)
				if !isC {
					ok = false
					break
				}
				f := mc.Fn.(*ssa.Function)
				if f.Object() != nil && f.Object() == checked.Object() {
					ok = true
					continue
				}
				if f.Synthetic == "" && len(callsIn(f, false, F(checked))) > 0 {
					ok = true
					continue
				}
				ok = false
				why = "callback " + fnName(f)
				break
			}
			c.saw(fnName(s.Caller))
			c.Check(ok, rule, "load callback in "+fnName(s.Caller), "loaded records enter the cache through the checked insertion, which reports a stale record itself instead of the live regions it overlaps", P.instrPos(s.Instr.(ssa.Instruction)), why)
		}
	}
	if n < 2 {
		c.Undec(rule, "callers of Storage.LoadRegionsOnce/LoadRegions", "at least 2", "", fmt.Sprint(n))
	}
}

// ruleEveryRecordDelivered: a full load hands every record it read to the
// callback: in the loops over a page of LoadStores and loadRegions no iteration
// goes on to the next record without calling it (errors leave the function).
func ruleEveryRecordDelivered(c *Ctx) {
	P := c.P
	rule := c.Prop + "/paging"
	for _, fn := range []*ssa.Function{P.Method("server/core", "Storage", "LoadStores"), P.Func("server/core", "loadRegions")} {
		c.saw(fnName(fn))
		var cb ssa.Value
		for _, p := range fn.Params {
			if _, isF := p.Type().Underlying().(*types.Signature); isF {
				cb = p
			}
		}
		if cb == nil {
			c.Undec(rule, "callback of "+fnName(fn), "a function parameter", "", "")
			continue
		}
		isCB := func(x ssa.Instruction) bool {
			cl, ok := x.(*ssa.Call)
			return ok && cl.Call.Value == cb
		}
		found, every := false, true
		for _, l := range loopsOf(fn) {
			has := false
			for b := range l.blocks {
				for _, ins := range b.Instrs {
					if isCB(ins) {
						has = true
					}
				}
			}
			if !has {
				continue
			}
			// the innermost loop around the call is the loop over the page; the outer one pages (and retries)
			inner := true
			for _, l2 := range loopsOf(fn) {
				if len(l2.blocks) < len(l.blocks) && l.blocks[l2.header] {
					for b := range l2.blocks {
						for _, ins := range b.Instrs {
							if isCB(ins) {
								inner = false
							}
						}
					}
				}
			}
			if !inner {
				continue
			}
			found = true
			if !everyIterationCalls(l, isCB) {
				every = false
			}
		}
		c.Check(found && every, rule, "records of a page in "+fnName(fn), "every record read is handed to the callback (no record is skipped)", P.pos(fn.Pos()), "an iteration can go on to the next record without calling the callback")
	}
}

// ruleScanCoversAllIDs: the paged scans of stores and regions end at the key of
// the largest id there is (MaxUint64) — a smaller bound leaves records above
// it unloaded and, for regions, stale leftovers above it unpruned.
func ruleScanCoversAllIDs(c *Ctx) {
	P := c.P
	rule := c.Prop + "/paging"
	loadRange := P.IMethod("server/kv", "Base", "LoadRange")
	for _, fn := range []*ssa.Function{P.Method("server/core", "Storage", "LoadStores"), P.Func("server/core", "loadRegions")} {
		c.saw(fnName(fn))
		n := 0
		for _, ci := range callsIn(fn, false, loadRange) {
			a := callArgs(ci.Common())
			if len(a) != 3 {
				continue
			}
			n++
			// the end key: a key helper given the constant MaxUint64
			okEnd := false
			for _, alt := range valueAlternatives(a[1], 3) {
				cl, _ := callOf(alt)
				if cl == nil {
					continue
				}
				for _, arg := range cl.Call.Args {
					if cst, ok := strip(arg).(*ssa.Const); ok && cst.Value != nil && cst.Value.ExactString() == "18446744073709551615" {
						okEnd = true
					}
				}
			}
			c.Check(okEnd, rule, fmt.Sprintf("end of scan #%d in %s", n, fnName(fn)), "the key of id MaxUint64: every id is inside the scanned range", P.instrPos(ci), "")
		}
		if n == 0 {
			c.Undec(rule, "LoadRange in "+fnName(fn), "found", "", "")
		}
	}
}

// ruleStaleReportsItself: when the checked insertion refuses a loaded record as
// stale, the record it reports for deletion is that record — the argument — and
// not the cached region it lost against (nil when it merely overlaps newer
// regions of other ids: the loader would then delete "region 0" and keep the
// stale record for ever).
func ruleStaleReportsItself(c *Ctx) {
	P := c.P
	rule := c.Prop + "/load-prunes"
	fn := P.Method("server/core", "BasicCluster", "CheckAndPutRegion")
	c.saw(fnName(fn))
	if len(fn.Params) < 2 {
		c.Undec(rule, fnName(fn), "a region parameter", "", "")
		return
	}
	region := fn.Params[1]
	n := 0
	for _, b := range fn.Blocks {
		r, ok := b.Instrs[len(b.Instrs)-1].(*ssa.Return)
		if !ok || len(r.Results) != 1 {
			continue
		}
		for _, alt := range valueAlternatives(retVal(r, 0), 3) {
			sl, ok := strip(alt).(*ssa.Slice)
			if !ok {
				continue
			}
			al, ok := sl.X.(*ssa.Alloc)
			if !ok {
				continue
			}
			n++
			okElem, k := true, 0
			for _, ref := range *al.Referrers() {
				ia, ok := ref.(*ssa.IndexAddr)
				if !ok {
					continue
				}
				for _, rr := range *ia.Referrers() {
					if st, ok := rr.(*ssa.Store); ok && st.Addr == ssa.Value(ia) {
						k++
						if strip(st.Val) != ssa.Value(region) {
							okElem = false
						}
					}
				}
			}
			c.Check(okElem && k > 0, rule, fmt.Sprintf("records reported by the refusing branch #%d of %s", n, fnName(fn)), "the refused record itself (the argument), which the loader then deletes from storage", P.instrPos(r), "")
		}
	}
	if n == 0 {
		c.Undec(rule, "refusing branch of "+fnName(fn), "a literal list of records to delete", "", "")
	}
}

// fieldWrites: every instruction of fn that writes field f — a plain store or
// a sync/atomic Store/Swap/CompareAndSwap/Add on its address — with the value
// written (nil when it is not a single value).
func fieldWrites(fn *ssa.Function, f *types.Var) (out []struct {
	Ins ssa.Instruction
	Val ssa.Value
}) {
	for _, b := range fn.Blocks {
		for _, ins := range b.Instrs {
			switch t := ins.(type) {
			case *ssa.Store:
				if fieldOfAddr(t.Addr) == f {
					out = append(out, struct {
						Ins ssa.Instruction
						Val ssa.Value
					}{t, t.Val})
				}
			case *ssa.Call:
				c := t.Call.StaticCallee()
				if c == nil || c.Pkg == nil || c.Pkg.Pkg.Path() != "sync/atomic" || len(t.Call.Args) < 2 || fieldOfAddr(t.Call.Args[0]) != f {
					continue
				}
				switch {
				case strings.HasPrefix(c.Name(), "Store"), strings.HasPrefix(c.Name(), "Swap"), strings.HasPrefix(c.Name(), "Add"):
					out = append(out, struct {
						Ins ssa.Instruction
						Val ssa.Value
					}{t, t.Call.Args[1]})
				case strings.HasPrefix(c.Name(), "CompareAndSwap") && len(t.Call.Args) == 3:
					out = append(out, struct {
						Ins ssa.Instruction
						Val ssa.Value
					}{t, t.Call.Args[2]})
				}
			}
		}
	}
	return out
}

// ruleLoadedOnceAfterSuccess: LoadRegionsOnce remembers "loaded" only after
// the load returned without an error; a failed first load is repeated. And
// nothing ever forgets it again: the flag is written by LoadRegionsOnce alone
// and only to a non-zero value — a second load from the follower's own region
// storage would overwrite what region sync delivered (leaders, flow) with bare
// metas of equal epoch.
func ruleLoadedOnceAfterSuccess(c *Ctx) {
	P := c.P
	rule := c.Prop + "/load-prunes"
	entry := P.Method("server/core", "Storage", "LoadRegionsOnce")
	loaded := P.Field("server/core", "Storage", "regionLoaded")
	lr := F(P.Func("server/core", "loadRegions"))
	// the function that sets the flag: LoadRegionsOnce itself, or a part of it moved into an unexported method that
	// only LoadRegionsOnce calls
	fn := entry
	if len(fieldWrites(entry, loaded)) == 0 {
		for _, b := range entry.Blocks {
			for _, ins := range b.Instrs {
				cl, ok := ins.(ssa.CallInstruction)
				if !ok {
					continue
				}
				g := cl.Common().StaticCallee()
				if g == nil || len(g.Blocks) == 0 || fnPkgPath(g) != modPath+"/server/core" || (g.Object() != nil && g.Object().Exported()) || len(fieldWrites(g, loaded)) == 0 {
					continue
				}
				sites, uses := P.CallersAll(g)
				only := len(uses) == 0
				for _, cs := range sites {
					if !P.isScaffold(cs.Caller) && cs.Caller != entry {
						only = false
					}
				}
				if only {
					fn = g
				}
			}
		}
	}
	ws := fieldWrites(fn, loaded)
	isSet := func(x ssa.Instruction) bool {
		for _, w := range ws {
			if w.Ins == x && !isConstInt(0)(w.Val) {
				return true
			}
		}
		return false
	}
	c.need(rule, fn, "regionLoaded = 1", isSet, []Ev{newOkEv(fn, "ok(loadRegions)", callMatcher(lr))}, all, "the regions are marked as loaded only after loadRegions succeeded")
	for _, g := range P.Funcs {
		if fnPkgPath(g) != modPath+"/server/core" || P.isScaffold(g) {
			continue
		}
		for i, w := range fieldWrites(g, loaded) {
			okW := g == fn && !isConstInt(0)(w.Val)
			c.Check(okW, rule, fmt.Sprintf("write #%d of regionLoaded in %s", i+1, fnName(g)), "only LoadRegionsOnce sets the flag, and nothing clears it (regions are loaded from the region storage once per process)", P.instrPos(w.Ins), "the flag is cleared or set elsewhere: the next LoadRegionsOnce reloads over the synchronised view")
		}
	}
}

// ruleWeightsAlwaysWritten: a store's weights are loaded back as "the key's
// value, or 1.0 when there is no key"; so the last saved weight is loaded back
// only if every SaveStoreWeight writes both keys — a value that is skipped
// leaves the key of an earlier save in place.
func ruleWeightsAlwaysWritten(c *Ctx) {
	P := c.P
	rule := c.Prop + "/weights-written"
	fn := P.Method("server/core", "Storage", "SaveStoreWeight")
	save := P.IMethod("server/kv", "Base", "Save")
	written := func(pathFn string) Ev {
		pf := F(P.Method("server/core", "Storage", pathFn))
		return &calledEv{name: "Save(" + pathFn + "(id), …)", match: func(x ssa.Instruction) bool {
			ci, ok := x.(ssa.CallInstruction)
			if !ok || !save.Match(ci.Common()) {
				return false
			}
			a := callArgs(ci.Common())
			return len(a) == 2 && derivesFrom(a[0], resultOfCall(pf), 4)
		}}
	}
	c.needOnSuccess(rule, fn, []Ev{written("storeLeaderWeightPath"), written("storeRegionWeightPath")}, all,
		"both weight keys are written on every successful save, whatever the values")
	// a forwarded error (return s.Save(...)) is the last write itself: the first key must have been written before it
	c.need(rule, fn, "write of the region weight", func(x ssa.Instruction) bool {
		ev := written("storeRegionWeightPath").(*calledEv)
		return ev.match(x)
	}, []Ev{written("storeLeaderWeightPath")}, all, "the leader weight was written first")
}

// ruleStorageErrorDiscipline: what PD loads back after a restart is what the
// kv layer returned; a read or write error that is turned into "nothing there"
// or "done" silently changes the reloaded state. Every function of
// server/core's storage files that calls the kv layer reports success only when
// each Load/LoadRange/Save/Remove made so far returned a nil error.
func ruleStorageErrorDiscipline(c *Ctx) {
	P := c.P
	rule := c.Prop + "/storage-errors"
	base := func(m string) Callee { return P.IMethod("server/kv", "Base", m) }
	kvCalls := []Callee{base("Load"), base("LoadRange"), base("Save"), base("Remove")}
	// best-effort calls whose error is deliberately not part of the result, confirmed by reading
	bestEffort := map[string]string{
		"(*server/core.Storage).LoadMinServiceGCSafePoint": "Remove", // pruning of an expired service entry: retried on the next load
	}
	n := 0
	for _, fn := range P.Funcs {
		if fnPkgPath(fn) != modPath+"/server/core" || fn.Parent() != nil || P.isScaffold(fn) || !fn.Pos().IsValid() {
			continue
		}
		file := P.Fset.Position(fn.Pos()).Filename
		if !strings.HasSuffix(file, "/storage.go") && !strings.HasSuffix(file, "/region_storage.go") {
			continue
		}
		res := fn.Signature.Results()
		if res.Len() == 0 || !isErrorType(res.At(res.Len()-1).Type()) {
			continue
		}
		var evs []Ev
		for _, k := range kvCalls {
			if bestEffort[fnName(fn)] == k.CName() {
				continue
			}
			if len(callsIn(fn, false, k)) > 0 {
				evs = append(evs, newSettledEv(fn, k.CName(), callMatcher(k)))
			}
		}
		if len(evs) == 0 {
			continue
		}
		n++
		c.needOnSuccess(rule, fn, evs, all, "success is reported only when every kv call made so far returned a nil error")
	}
	if n < 12 {
		c.Undec(rule, "storage functions calling the kv layer", "at least 12", "", fmt.Sprintf("found %d", n))
	}
}

// ruleRegionBackendSelection: region records live either in the dedicated
// region storage or in the default backend, selected by the useRegionStorage
// flag. Load, save and delete must agree on that selection, otherwise a record
// saved in one backend is deleted from (or loaded from) the other: every use of
// s.regionStorage as the region backend is under `useRegionStorage > 0`, every
// use of the default backend for region records under the opposite edge.
// (Flush and Close act on the region storage whenever it is attached: exempt.)
func ruleRegionBackendSelection(c *Ctx) {
	P := c.P
	rule := c.Prop + "/backend-selection"
	flag := P.Field("server/core", "Storage", "useRegionStorage")
	rs := P.Field("server/core", "Storage", "regionStorage")
	isFlagLoad := func(v ssa.Value) bool {
		cl, _ := callOf(v)
		if cl == nil || cl.Call.StaticCallee() == nil || cl.Call.StaticCallee().Name() != "LoadInt32" || len(cl.Call.Args) != 1 {
			return false
		}
		return fieldOfAddr(cl.Call.Args[0]) == flag
	}
	on := guardRel("useRegionStorage > 0", "> !=", isFlagLoad, isConstInt(0))
	off := guardRel("useRegionStorage == 0", "== <=", isFlagLoad, isConstInt(0))
	helpers := []Callee{F(P.Func("server/core", "loadRegion")), F(P.Func("server/core", "loadRegions")), F(P.Func("server/core", "saveRegion")), F(P.Func("server/core", "deleteRegion"))}
	n := 0
	for _, name := range []string{"LoadRegion", "LoadRegions", "LoadRegionsOnce", "SaveRegion", "DeleteRegion"} {
		fn := P.Method("server/core", "Storage", name)
		c.saw(fnName(fn))
		k := 0
		for _, b := range fn.Blocks {
			for _, ins := range b.Instrs {
				ci, ok := ins.(ssa.CallInstruction)
				if !ok {
					continue
				}
				// the backend operand: receiver of a RegionStorage method, or first argument of a region helper
				var backend ssa.Value
				if isCallTo(ins, helpers...) {
					if a := ci.Common().Args; len(a) > 0 {
						backend = a[0]
					}
				} else if f := ci.Common().StaticCallee(); f != nil && f.Signature.Recv() != nil && namedOf(f.Signature.Recv().Type()) != nil &&
					namedOf(f.Signature.Recv().Type()).Obj().Name() == "RegionStorage" && len(ci.Common().Args) > 0 {
					backend = ci.Common().Args[0]
				}
				if backend == nil {
					continue
				}
				k++
				n++
				target := ins
				construct := fmt.Sprintf("region backend #%d in %s", k, fnName(fn))
				if phi, isPhi := strip(backend).(*ssa.Phi); isPhi {
					// the backend was chosen first and used once (b := s.Base; if flag { b = s.regionStorage }; f(b), or a
					// helper returning it): on every path the choice agrees with the flag test taken on that path
					n++ // one use standing for both backends
					trackPhis[fn] = append(trackPhis[fn], phi)
					isRS := &calledEv{name: "the chosen backend is the region storage", match: func(x ssa.Instruction) bool {
						return x == ssa.Instruction(phi) && derivesFrom(resolved(phi), loadOfField(rs), 3)
					}, reset: func(x ssa.Instruction) bool { return x == ssa.Instruction(phi) }}
					c.need(rule, fn, construct+" (chosen backend)", func(x ssa.Instruction) bool { return x == target }, []Ev{isRS, on, off},
						func(h []bool) bool { return (h[0] && h[1]) || (!h[0] && h[2]) },
						"the region storage is chosen exactly on the paths where useRegionStorage is set, the default backend on the others")
				} else if derivesFrom(backend, loadOfField(rs), 3) {
					c.need(rule, fn, construct+" (region storage)", func(x ssa.Instruction) bool { return x == target }, []Ev{on}, all,
						"the dedicated region storage is used only while useRegionStorage is set")
				} else {
					c.need(rule, fn, construct+" (default backend)", func(x ssa.Instruction) bool { return x == target }, []Ev{off}, all,
						"the default backend holds region records only while useRegionStorage is not set")
				}
			}
		}
	}
	if n < 9 {
		c.Undec(rule, "region backend uses", "at least 9 in LoadRegion, LoadRegions, LoadRegionsOnce, SaveRegion, DeleteRegion", "", fmt.Sprintf("found %d", n))
	}
}

func init() {
	register("C17", "Persisted stores and regions are loaded back completely and pruned consistently", func(c *Ctx) {
		c.Group("C17/key-format", "all store/region key builders (storage, bootstrap, weights) render ids with the same zero-padded width and segments", func() { ruleKeyFormats(c); ruleKeyFamilies(c) })
		c.Group("C17/load-prunes", "loading deletes every region the callback reports from the backend being read, pages by last id + 1 and stops only on a short page; items live under their own id's key", func() {
			ruleLoadAndPrune(c)
			ruleLoadedOnceAfterSuccess(c)
			ruleLoadCallbackChecked(c)
			ruleStaleReportsItself(c)
			ruleEveryRecordDelivered(c)
			ruleScanCoversAllIDs(c)
			ruleFlushReachesRegionStorage(c)
			ruleWeightsOfTheLoadedStore(c)
		})
		c.Group("C17/weights-written", "SaveStoreWeight writes both weight keys unconditionally", func() { ruleWeightsAlwaysWritten(c) })
		c.Group("C17/storage-errors", "no storage function reports success after a kv call whose error was not found nil", func() { ruleStorageErrorDiscipline(c) })
		c.Group("C17/backend-selection", "load, save and delete of region records select the backend by the same useRegionStorage test", func() { ruleRegionBackendSelection(c) })
		c.Group("C17/memo-after-outcome", "(shared with C18) a Storage method updates the object's own state only after, and on the success side of, its storage calls", func() { ruleStorageMemoAfterOutcome(c) })
		c.Group("C17/batch-buffer", "region batch buffer: fields under its lock, written under the lock, emptied only after a successful write, flushed before close", func() { ruleBatchBuffer(c) })
	})
}

// ruleStorageMemoAfterOutcome: whatever a Storage method remembers in the
// Storage object itself (a flag, a cached copy of what the backend holds) is
// written only when the outcome of that call's storage operations is known:
// not before a fallible storage call, and after one only on its success side.
// A memo written ahead of a write that then fails claims the backend holds
// what it refused, and later calls act on that claim (skip the write, skip the
// load).
func ruleStorageMemoAfterOutcome(c *Ctx) {
	P := c.P
	rule := c.Prop + "/memo-after-outcome"
	n := 0
	for _, fn := range P.Funcs {
		if P.isScaffold(fn) || fnPkgPath(fn) != modPath+"/server/core" || fn.Signature.Recv() == nil || fn.Parent() != nil || len(fn.Params) == 0 {
			continue
		}
		rn := namedOf(fn.Signature.Recv().Type())
		if rn == nil || rn.Obj().Name() != "Storage" {
			continue
		}
		recv := fn.Params[0]
		ownField := func(v ssa.Value) bool {
			fa, ok := strip(v).(*ssa.FieldAddr)
			return ok && strip(fa.X) == ssa.Value(recv)
		}
		isMemoWrite := func(x ssa.Instruction) bool {
			switch t := x.(type) {
			case *ssa.Store:
				if !ownField(t.Addr) {
					return false
				}
				// x = x ± c is a statistics counter, not a claim about what the backend holds
				if f := fieldOfAddr(t.Addr); f != nil && derivesFrom(t.Val, loadOfField(f), 3) {
					return false
				}
				return true
			case *ssa.MapUpdate:
				if u, ok := strip(t.Map).(*ssa.UnOp); ok {
					return ownField(u.X)
				}
			case *ssa.Call:
				f := t.Call.StaticCallee()
				if f == nil || len(t.Call.Args) == 0 || !ownField(t.Call.Args[0]) {
					return false
				}
				for _, p := range []string{"Store", "Swap", "CompareAndSwap", "Delete", "LoadOrStore"} {
					if strings.HasPrefix(f.Name(), p) {
						return true
					}
				}
			}
			return false
		}
		has := false
		for _, b := range fn.Blocks {
			for _, ins := range b.Instrs {
				has = has || isMemoWrite(ins)
			}
		}
		if !has {
			continue
		}
		// the fallible storage calls of this method
		fallible := errorReturningCallees(fn)
		var names []string
		for k := range fallible {
			names = append(names, k)
		}
		sort.Strings(names)
		if len(names) == 0 {
			continue
		}
		n++
		var settled []Ev
		isFallible := func(x ssa.Instruction) bool {
			cl, ok := x.(*ssa.Call)
			if !ok {
				return false
			}
			for _, k := range names {
				if fallible[k](cl) {
					return true
				}
			}
			return false
		}
		for _, k := range names {
			settled = append(settled, newSettledEv(fn, k, fallible[k]))
		}
		c.mustPrecede(rule, fn, "write to the Storage object's own state", isMemoWrite, settled, all,
			"the object's own state is updated only on the success side of the storage calls made so far")
		c.mustPrecede(rule, fn, "fallible storage call", isFallible, []Ev{&calledEv{name: "own state already updated", match: isMemoWrite}},
			func(h []bool) bool { return !h[0] }, "nothing is remembered in the Storage object before a storage call whose outcome is still open")
	}
	if n == 0 {
		c.Undec(rule, "Storage methods that both call the backend and update the object's own state", "at least 1 (LoadRegionsOnce)", "", "0")
	}
}

// ruleKeyFamilies: the methods that save, load and delete one kind of record
// agree on where it lives. For every noun (Rule, RuleGroup, Store, Region,
// ScheduleConfig, …) the Save…/Load…/Delete…/Remove… methods of Storage build
// their keys from the same path constants; a delete that addresses another
// family's prefix removes nothing and reports success.
func ruleKeyFamilies(c *Ctx) {
	P := c.P
	rule := c.Prop + "/key-format"
	noun := func(name string) string {
		for _, p := range []string{"LoadRangeBy", "LoadAll", "LoadMin", "GetAll", "Save", "Load", "Delete", "Remove"} {
			if strings.HasPrefix(name, p) && len(name) > len(p) {
				n := strings.TrimSuffix(strings.TrimPrefix(name, p), "Once")
				if strings.HasSuffix(n, "s") && !strings.HasSuffix(n, "ss") && !strings.HasSuffix(n, "Status") {
					n = strings.TrimSuffix(n, "s")
				}
				return n
			}
		}
		return ""
	}
	// path constants a function builds keys from: constant string arguments of path.Join, in the method and in
	// the helpers of the package it calls
	var pathConsts func(fn *ssa.Function, depth int, out map[string]bool, seen map[*ssa.Function]bool)
	pathConsts = func(fn *ssa.Function, depth int, out map[string]bool, seen map[*ssa.Function]bool) {
		if fn == nil || seen[fn] || depth < 0 {
			return
		}
		seen[fn] = true
		for _, b := range fn.Blocks {
			for _, ins := range b.Instrs {
				cl, ok := ins.(*ssa.Call)
				if !ok {
					continue
				}
				f := cl.Call.StaticCallee()
				if f == nil {
					continue
				}
				if f.Pkg != nil && f.Pkg.Pkg.Path() == "path" && f.Name() == "Join" {
					elems, _ := sliceElems(cl.Call.Args[0], map[ssa.Value]bool{})
					for _, e := range elems {
						if sv, ok := constString(e); ok && sv != "" {
							out[sv] = true
						}
					}
					continue
				}
				if fnPkgPath(f) == modPath+"/server/core" {
					// a prefix handed to a generic helper (saveJSON(rulesPath, key, v), LoadRangeByPrefix(rulesPath+"/", f))
					for _, a := range cl.Call.Args {
						if sv, ok := constString(a); ok && strings.Trim(sv, "/") != "" {
							out[strings.Trim(sv, "/")] = true
						}
					}
					if f.Signature.Results().Len() >= 1 {
						pathConsts(f, depth-1, out, seen)
					}
				}
			}
		}
	}
	groups := map[string][]*ssa.Function{}
	for _, fn := range P.Funcs {
		if P.isScaffold(fn) || fnPkgPath(fn) != modPath+"/server/core" || fn.Signature.Recv() == nil || fn.Parent() != nil {
			continue
		}
		if rn := namedOf(fn.Signature.Recv().Type()); rn == nil || rn.Obj().Name() != "Storage" {
			continue
		}
		if n := noun(fn.Name()); n != "" {
			groups[n] = append(groups[n], fn)
		}
	}
	var nouns []string
	for n := range groups {
		nouns = append(nouns, n)
	}
	sort.Strings(nouns)
	nFam := 0
	for _, n := range nouns {
		fns := groups[n]
		if len(fns) < 2 {
			continue
		}
		sets := map[string][]string{}
		var names []string
		for _, fn := range fns {
			out := map[string]bool{}
			pathConsts(fn, 2, out, map[*ssa.Function]bool{})
			if len(out) == 0 {
				continue // generic helper (SaveJSON …): the key is the caller's
			}
			var ks []string
			for k := range out {
				ks = append(ks, k)
			}
			sort.Strings(ks)
			sets[fn.Name()] = ks
			names = append(names, fn.Name())
		}
		if len(names) < 2 {
			continue
		}
		sort.Strings(names)
		nFam++
		// agreement on the family's prefix: the first path segment (the one no member may differ in)
		ref := sets[names[0]]
		ok, detail := true, ""
		for _, m := range names[1:] {
			common := false
			for _, a := range sets[m] {
				for _, b := range ref {
					if a == b {
						common = true
					}
				}
			}
			if !common {
				ok = false
				detail = fmt.Sprintf("%s builds keys from %v, %s from %v", names[0], ref, m, sets[m])
			}
		}
		c.saw("(*server/core.Storage)." + names[0])
		c.Check(ok, rule, "key family of "+n+" records ("+strings.Join(names, ", ")+")", "the save, load and delete methods of one kind of record share their path prefix", P.pos(fns[0].Pos()), detail)
	}
	if nFam < 8 {
		c.Undec(rule, "record families in Storage", "at least 8", "", fmt.Sprint(nFam))
	}
}

// ruleWeightsOfTheLoadedStore: the weights attached to a store loaded back are
// read under that store's own id — the id inside the record just decoded, not
// the paging cursor (which is the previous id + 1) or anything else.
func ruleWeightsOfTheLoadedStore(c *Ctx) {
	P := c.P
	rule := c.Prop + "/paging"
	fn := P.Method("server/core", "Storage", "LoadStores")
	c.saw(fnName(fn))
	mpb := "github.com/pingcap/kvproto/pkg/metapb"
	getID := F(P.Method(mpb, "Store", "GetId"))
	idF := P.Field(mpb, "Store", "Id")
	newStore := F(P.Func("server/core", "NewStoreInfo"))
	// the record handed to NewStoreInfo
	var rec ssa.Value
	for _, ci := range callsIn(fn, false, newStore) {
		if a := callArgs(ci.Common()); len(a) > 0 {
			rec = a[0]
		}
	}
	if rec == nil {
		c.Undec(rule, "NewStoreInfo in "+fnName(fn), "found", P.pos(fn.Pos()), "")
		return
	}
	n := 0
	for _, name := range []string{"storeLeaderWeightPath", "storeRegionWeightPath"} {
		path := F(P.Method("server/core", "Storage", name))
		for _, ci := range callsIn(fn, false, path) {
			a := callArgs(ci.Common())
			if len(a) != 1 {
				continue
			}
			n++
			ok := false
			if cl, _ := callOf(a[0]); cl != nil && getID.Match(cl.Common()) && sameVal(callRecv(cl.Common()), rec) {
				ok = true
			}
			if u, isU := strip(a[0]).(*ssa.UnOp); isU && fieldOfAddr(u.X) == idF {
				if fa, isFA := u.X.(*ssa.FieldAddr); isFA && sameVal(fa.X, rec) {
					ok = true
				}
			}
			c.Check(ok, rule, name+" in "+fnName(fn), "the weight is read under the id of the store record just decoded", P.instrPos(ci.(ssa.Instruction)), "")
		}
	}
	if n < 2 {
		c.Undec(rule, "weight lookups in "+fnName(fn), "2 (leader, region)", "", fmt.Sprint(n))
	}
}

// ruleFlushReachesRegionStorage: Storage.Flush and Storage.Close hand on to the
// region storage whenever there is one — whichever backend new writes go to at
// the moment. Regions buffered while the option was on are otherwise left in the
// batch when the process stops.
func ruleFlushReachesRegionStorage(c *Ctx) {
	P := c.P
	rule := c.Prop + "/batch-buffer"
	rsF := P.Field("server/core", "Storage", "regionStorage")
	for _, sp := range []struct{ name, callee string }{{"Flush", "FlushRegion"}, {"Close", "Close"}} {
		fn := P.Method("server/core", "Storage", sp.name)
		inner := F(P.Method("server/core", "RegionStorage", sp.callee))
		reached := &calledEv{name: "regionStorage." + sp.callee + "()", match: instrCallMatcher(inner)}
		none := guardRel("no region storage", "==", loadOfField(rsF), isNilConst)
		c.need(rule, fn, "return", func(x ssa.Instruction) bool { _, ok := x.(*ssa.Return); return ok }, []Ev{reached, none}, anyOf,
			"the region storage is flushed / closed whenever it exists")
	}
}
