package main

// Values that are never nil, decided from the SSA of the program itself
// (including the dependencies' constructors): addresses, interface boxes,
// makes, and calls whose every returned value is such a value. Used by the
// explorer to discard the `== nil` edge of a test on such a value — after
// `if err := f(); err != nil { return fmt.Errorf(...) }` moved into a helper
// the caller's `if err != nil` is a test of exactly such a value.

import (
	"go/token"

	"golang.org/x/tools/go/ssa"
)

type nnKey struct {
	fn   *ssa.Function
	idx  int
	mask uint32
}

var nnMemo = map[nnKey]int{} // 1 true, 2 false, 3 in progress (optimistic)

// tableNonNil: library entry points whose non-nil result depends on a constant
// argument rather than on the shape of the code.
func tableNonNil(c *ssa.Call) bool {
	f := c.Call.StaticCallee()
	if f == nil || f.Pkg == nil {
		return false
	}
	if f.Pkg.Pkg.Path() == "google.golang.org/grpc/status" && (f.Name() == "Errorf" || f.Name() == "Error") && len(c.Call.Args) > 0 {
		if k, ok := constInt(c.Call.Args[0]); ok && k != 0 { // codes.OK == 0 yields nil
			return true
		}
	}
	return false
}

func knownNonNil(v ssa.Value) bool { return nnVal(v, nil, 0, map[ssa.Value]bool{}) }

func nnVal(v ssa.Value, argNN []bool, depth int, seen map[ssa.Value]bool) bool {
	if depth > 6 {
		return false
	}
	if seen[v] {
		return true // cycle through a φ: decided by the other operands
	}
	switch x := v.(type) {
	case *ssa.Alloc, *ssa.FieldAddr, *ssa.IndexAddr, *ssa.MakeClosure, *ssa.Function, *ssa.MakeMap, *ssa.MakeChan, *ssa.MakeSlice, *ssa.Global, *ssa.MakeInterface:
		return true
	case *ssa.ChangeInterface:
		return nnVal(x.X, argNN, depth, seen)
	case *ssa.ChangeType:
		return nnVal(x.X, argNN, depth, seen)
	case *ssa.Const:
		return !x.IsNil()
	case *ssa.Parameter:
		for i, p := range x.Parent().Params {
			if p == x {
				return i < len(argNN) && argNN[i]
			}
		}
		return false
	case *ssa.Phi:
		seen[v] = true
		defer delete(seen, v)
		for _, e := range x.Edges {
			if !nnVal(e, argNN, depth, seen) {
				return false
			}
		}
		return true
	case *ssa.Extract:
		if c, ok := x.Tuple.(*ssa.Call); ok {
			return nnCall(c, x.Index, argNN, depth, seen)
		}
	case *ssa.Call:
		return nnCall(x, 0, argNN, depth, seen)
	}
	return false
}

func nnCall(c *ssa.Call, idx int, argNN []bool, depth int, seen map[ssa.Value]bool) bool {
	if tableNonNil(c) {
		return true
	}
	f := c.Call.StaticCallee()
	if f == nil || f.Blocks == nil || len(f.Params) > 30 {
		return false
	}
	var mask uint32
	args := make([]bool, len(c.Call.Args))
	for i, a := range c.Call.Args {
		if nnVal(a, argNN, depth+1, seen) {
			args[i] = true
			mask |= 1 << uint(i)
		}
	}
	k := nnKey{f, idx, mask}
	switch nnMemo[k] {
	case 1, 3:
		return true
	case 2:
		return false
	}
	nnMemo[k] = 3
	ok := true
	nRet := 0
	reach := reachableGiven(f, args)
	for _, b := range f.Blocks {
		r, isRet := b.Instrs[len(b.Instrs)-1].(*ssa.Return)
		if !isRet || !reach[b] {
			continue
		}
		nRet++
		if idx >= len(r.Results) || !nnVal(r.Results[idx], args, depth+1, map[ssa.Value]bool{}) {
			ok = false
			break
		}
	}
	if nRet == 0 || f.Recover != nil {
		ok = false
	}
	if ok {
		nnMemo[k] = 1
	} else {
		nnMemo[k] = 2
	}
	return ok
}

// reachableGiven: blocks of f reachable from its entry when the `== nil` edge
// of a test of a parameter known to be non-nil is never taken
// (func WithStack(err error) error { if err == nil { return nil }; ... }).
func reachableGiven(f *ssa.Function, argNN []bool) map[*ssa.BasicBlock]bool {
	paramNN := func(v ssa.Value) bool {
		p, ok := v.(*ssa.Parameter)
		if !ok {
			return false
		}
		for i, q := range f.Params {
			if q == p {
				return i < len(argNN) && argNN[i]
			}
		}
		return false
	}
	seen := map[*ssa.BasicBlock]bool{}
	var walk func(b *ssa.BasicBlock)
	walk = func(b *ssa.BasicBlock) {
		if seen[b] {
			return
		}
		seen[b] = true
		skip := -1
		if iff, ok := b.Instrs[len(b.Instrs)-1].(*ssa.If); ok && len(b.Succs) == 2 {
			c, pos := normCond(iff.Cond, true)
			if bo, ok := c.(*ssa.BinOp); ok && (bo.Op == token.EQL || bo.Op == token.NEQ) {
				var tested ssa.Value
				if isNilConst(bo.Y) {
					tested = bo.X
				} else if isNilConst(bo.X) {
					tested = bo.Y
				}
				if tested != nil && paramNN(tested) {
					if (bo.Op == token.EQL) == pos { // succ 0 asserts nil
						skip = 0
					} else {
						skip = 1
					}
				}
			}
		}
		for i, s := range b.Succs {
			if i != skip {
				walk(s)
			}
		}
	}
	if len(f.Blocks) > 0 {
		walk(f.Blocks[0])
	}
	return seen
}
