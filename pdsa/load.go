package main

// Loading of /repo into a type-checked, SSA-built program and the indexes
// every rule works on. Nothing here executes pd code.

import (
	"fmt"
	"go/ast"
	"go/token"
	"go/types"
	"os"
	"sort"
	"strings"

	"golang.org/x/tools/go/packages"
	"golang.org/x/tools/go/ssa"
	"golang.org/x/tools/go/ssa/ssautil"
)

const modPath = "github.com/tikv/pd"

// Packages that do not type-check in the pinned tree (generated assets absent)
// and their dependants; excluded by name, echoed in every evidence file.
var excludedPkgs = []string{
	modPath + "/pkg/dashboard/uiserver",
	modPath + "/pkg/dashboard",
	modPath + "/cmd/pd-server",
	modPath + "/tests",
	modPath + "/tests/pdctl",
}

type CallSite struct {
	Instr  ssa.CallInstruction
	Caller *ssa.Function
}

type Prog struct {
	Repo     string
	Fset     *token.FileSet
	Pkgs     []*packages.Package
	PkgByID  map[string]*packages.Package
	SSA      *ssa.Program
	Funcs    []*ssa.Function // every function with a body that belongs to a loaded module package (incl. closures)
	callers  map[*ssa.Function][]CallSite
	invokes  map[string][]CallSite // method name -> interface-call sites
	isTestFn map[*ssa.Function]bool
	LoadS    float64
}

type undecided struct{ msg string }

func undecidedf(format string, a ...interface{}) { panic(undecided{fmt.Sprintf(format, a...)}) }

func loadProg(repo string, thorough bool, overlay map[string][]byte) (*Prog, error) {
	os.Unsetenv("GOWORK")
	os.Setenv("GOFLAGS", "-mod=mod")
	os.Setenv("GOPROXY", "off")
	os.Setenv("GOSUMDB", "off")
	os.Setenv("GOTOOLCHAIN", "local")
	cfg := &packages.Config{
		Mode:    packages.LoadAllSyntax,
		Dir:     repo,
		Tests:   false,
		Overlay: overlay,
		Env:     os.Environ(),
	}
	patterns := []string{"./server/...", "./pkg/...", "./client/..."}
	if thorough {
		patterns = append(patterns, "./plugin/...", "./tools/...")
	}
	pkgs, err := packages.Load(cfg, patterns...)
	if err != nil {
		return nil, err
	}
	excl := map[string]bool{}
	for _, e := range excludedPkgs {
		excl[e] = true
	}
	var keep []*packages.Package
	for _, p := range pkgs {
		if excl[p.PkgPath] {
			continue
		}
		bad := false
		for imp := range p.Imports {
			if excl[imp] {
				bad = true
			}
		}
		if bad { // e.g. tools importing the dashboard: cannot be analysed
			continue
		}
		keep = append(keep, p)
	}
	var errsFound []string
	packages.Visit(keep, nil, func(p *packages.Package) {
		if excl[p.PkgPath] {
			return
		}
		for _, e := range p.Errors {
			errsFound = append(errsFound, p.PkgPath+": "+e.Error())
		}
	})
	if len(errsFound) > 0 {
		sort.Strings(errsFound)
		if len(errsFound) > 8 {
			errsFound = errsFound[:8]
		}
		return nil, fmt.Errorf("type-check/load errors outside the excluded dashboard packages:\n  %s", strings.Join(errsFound, "\n  "))
	}
	if len(keep) < 50 {
		return nil, fmt.Errorf("only %d packages loaded (expected >= 50)", len(keep))
	}
	prog, _ := ssautil.AllPackages(keep, ssa.InstantiateGenerics)
	prog.Build()
	P := &Prog{Repo: repo, Pkgs: keep, SSA: prog, PkgByID: map[string]*packages.Package{},
		callers: map[*ssa.Function][]CallSite{}, invokes: map[string][]CallSite{}, isTestFn: map[*ssa.Function]bool{}}
	if len(keep) > 0 {
		P.Fset = keep[0].Fset
	}
	packages.Visit(keep, nil, func(p *packages.Package) { P.PkgByID[p.PkgPath] = p })
	for fn := range ssautil.AllFunctions(prog) {
		if fn.Blocks == nil || fn.Pkg == nil && fn.Parent() == nil && fn.Origin() == nil {
			continue
		}
		pk := fnPkgPath(fn)
		if !strings.HasPrefix(pk, modPath) {
			continue
		}
		P.Funcs = append(P.Funcs, fn)
	}
	sort.Slice(P.Funcs, func(i, j int) bool {
		a, b := P.Funcs[i], P.Funcs[j]
		if a.Pos() != b.Pos() {
			return a.Pos() < b.Pos()
		}
		return a.String() < b.String()
	})
	for _, fn := range P.Funcs {
		for _, b := range fn.Blocks {
			for _, ins := range b.Instrs {
				ci, ok := ins.(ssa.CallInstruction)
				if !ok {
					continue
				}
				cc := ci.Common()
				if cc.IsInvoke() {
					P.invokes[cc.Method.Name()] = append(P.invokes[cc.Method.Name()], CallSite{ci, fn})
					continue
				}
				if callee := cc.StaticCallee(); callee != nil {
					callee = origin(callee)
					P.callers[callee] = append(P.callers[callee], CallSite{ci, fn})
				}
			}
		}
	}
	bindSliceHelpers(P)
	return P, nil
}

// paramBind: the parameters of a module function that returns one slice and is called from exactly one site (a
// list-building helper split off its only user) stand for the arguments of that site: the slice walkers look through
// the call into the helper's returns, and access paths of its parameters are those of the caller's values.
var paramBind = map[*ssa.Parameter]ssa.Value{}

func bindSliceHelpers(P *Prog) {
	paramBind = map[*ssa.Parameter]ssa.Value{}
	for callee, sites := range P.callers {
		if len(sites) != 1 || callee.Blocks == nil || !strings.HasPrefix(fnPkgPath(callee), modPath) {
			continue
		}
		res := callee.Signature.Results()
		if res.Len() != 1 {
			continue
		}
		if _, isSl := res.At(0).Type().Underlying().(*types.Slice); !isSl {
			continue
		}
		if sites[0].Caller == callee {
			continue
		}
		args := sites[0].Instr.Common().Args
		if len(args) != len(callee.Params) {
			continue
		}
		for i, p := range callee.Params {
			paramBind[p] = args[i]
		}
	}
}

// sliceHelperReturns: the values a bound list-building helper may return for this call, nil when the call is not one.
func sliceHelperReturns(c *ssa.Call) []ssa.Value {
	callee := c.Call.StaticCallee()
	if callee == nil || callee.Blocks == nil || len(callee.Params) == 0 && callee.Signature.Results().Len() != 1 {
		return nil
	}
	callee = origin(callee)
	if callee.Signature.Results().Len() != 1 {
		return nil
	}
	if _, isSl := callee.Signature.Results().At(0).Type().Underlying().(*types.Slice); !isSl {
		return nil
	}
	for _, p := range callee.Params {
		if paramBind[p] != c.Call.Args[indexOfParam(callee, p)] {
			return nil
		}
	}
	if !strings.HasPrefix(fnPkgPath(callee), modPath) {
		return nil
	}
	var out []ssa.Value
	for _, b := range callee.Blocks {
		for _, ins := range b.Instrs {
			if r, ok := ins.(*ssa.Return); ok && len(r.Results) == 1 {
				out = append(out, retVal(r, 0))
			}
		}
	}
	return out
}

func indexOfParam(fn *ssa.Function, p *ssa.Parameter) int {
	for i, q := range fn.Params {
		if q == p {
			return i
		}
	}
	return 0
}

func origin(fn *ssa.Function) *ssa.Function {
	if o := fn.Origin(); o != nil {
		return o
	}
	return fn
}

func fnPkgPath(fn *ssa.Function) string {
	for f := fn; f != nil; f = f.Parent() {
		if f.Pkg != nil {
			return f.Pkg.Pkg.Path()
		}
		if o := f.Origin(); o != nil && o.Pkg != nil {
			return o.Pkg.Pkg.Path()
		}
		if f.Object() != nil && f.Object().Pkg() != nil {
			return f.Object().Pkg().Path()
		}
		// wrappers / bound methods: receiver's package
		if f.Signature != nil && f.Signature.Recv() != nil {
			if n := namedOf(f.Signature.Recv().Type()); n != nil && n.Obj().Pkg() != nil {
				return n.Obj().Pkg().Path()
			}
		}
	}
	return ""
}

func namedOf(t types.Type) *types.Named {
	for {
		switch x := t.(type) {
		case *types.Pointer:
			t = x.Elem()
		case *types.Named:
			return x
		case *types.Alias:
			t = types.Unalias(x)
		default:
			return nil
		}
	}
}

// outer returns the outermost enclosing declared function of fn (closures are
// attributed to the function that lexically contains them).
func outer(fn *ssa.Function) *ssa.Function {
	for fn.Parent() != nil {
		fn = fn.Parent()
	}
	return fn
}

func (P *Prog) pos(p token.Pos) string {
	if !p.IsValid() {
		return "-"
	}
	ps := P.Fset.Position(p)
	f := ps.Filename
	if strings.HasPrefix(f, P.Repo+"/") {
		f = f[len(P.Repo)+1:]
	}
	return fmt.Sprintf("%s:%d", f, ps.Line)
}

func (P *Prog) instrPos(ins ssa.Instruction) string {
	if ins == nil {
		return "-"
	}
	if p := ins.Pos(); p.IsValid() {
		return P.pos(p)
	}
	// fall back to any operand / the function
	if v, ok := ins.(ssa.Value); ok {
		_ = v
	}
	var ops []*ssa.Value
	for _, op := range ins.Operands(ops) {
		if *op != nil && (*op).Pos().IsValid() {
			return P.pos((*op).Pos())
		}
	}
	return P.pos(ins.Parent().Pos())
}

// isTestFile reports whether a function lives in test scaffolding that may
// legally poke internals: _test.go (never loaded with Tests:false), pkg/mock,
// */test_util.go, testutil.go, tools/.
func (P *Prog) isScaffold(fn *ssa.Function) bool {
	fn = outer(fn)
	pk := fnPkgPath(fn)
	if strings.HasPrefix(pk, modPath+"/pkg/mock") || strings.HasPrefix(pk, modPath+"/tools/") ||
		strings.HasPrefix(pk, modPath+"/pkg/testutil") || strings.HasPrefix(pk, modPath+"/plugin/") {
		return true
	}
	if !fn.Pos().IsValid() {
		return false
	}
	f := P.Fset.Position(fn.Pos()).Filename
	base := f[strings.LastIndex(f, "/")+1:]
	return strings.HasSuffix(base, "_test.go") || base == "test_util.go" || base == "testutil.go"
}

// ---- symbol resolution (through go/types objects, never text search) ----

func (P *Prog) pkg(rel string) *packages.Package {
	path := modPath
	if rel != "" {
		path += "/" + rel
	}
	p := P.PkgByID[path]
	if p == nil {
		p = P.PkgByID[rel] // external package by full path
	}
	if p == nil {
		undecidedf("package %s not loaded", rel)
	}
	return p
}

func (P *Prog) obj(rel, name string) types.Object {
	o := P.pkg(rel).Types.Scope().Lookup(name)
	if o == nil {
		undecidedf("symbol %s.%s not found", rel, name)
	}
	return o
}

func (P *Prog) named(rel, name string) *types.Named {
	n, ok := P.obj(rel, name).Type().(*types.Named)
	if !ok {
		undecidedf("%s.%s is not a named type", rel, name)
	}
	return n
}

// Func resolves a package-level function.
func (P *Prog) Func(rel, name string) *ssa.Function {
	o := P.pkg(rel).Types.Scope().Lookup(name)
	if o == nil {
		if fn := P.renamedFunc(rel, "", name); fn != nil {
			return fn
		}
		undecidedf("symbol %s.%s not found", rel, name)
	}
	f, ok := o.(*types.Func)
	if !ok {
		undecidedf("%s.%s is not a function", rel, name)
	}
	fn := P.SSA.FuncValue(f)
	if fn == nil {
		undecidedf("no SSA for %s.%s", rel, name)
	}
	P.noteFunc(rel, "", name, fn)
	return fn
}

// funcOpt: a package-level function that may have been inlined away (nil then);
// a renamed one is still found through its fingerprint.
func (P *Prog) funcOpt(rel, name string) *ssa.Function {
	if o := P.pkg(rel).Types.Scope().Lookup(name); o != nil {
		if f, ok := o.(*types.Func); ok {
			fn := P.SSA.FuncValue(f)
			P.noteFunc(rel, "", name, fn)
			return fn
		}
		return nil
	}
	return P.renamedFunc(rel, "", name)
}

// methodOptR: like methodOpt for a rule subject that may have been inlined away:
// found by name, or — renamed — by the fingerprint the baseline keeps of it.
func (P *Prog) methodOptR(rel, typ, name string) *ssa.Function {
	if fn := P.methodOpt(rel, typ, name); fn != nil {
		P.noteFunc(rel, typ, name, fn)
		return fn
	}
	return P.renamedFunc(rel, typ, name)
}

// Method resolves method name of type typ (pointer or value receiver).
func (P *Prog) Method(rel, typ, name string) *ssa.Function {
	fn := P.methodOpt(rel, typ, name)
	if fn == nil {
		if fn = P.renamedFunc(rel, typ, name); fn != nil {
			return fn
		}
		undecidedf("method %s.%s.%s not found", rel, typ, name)
	}
	P.noteFunc(rel, typ, name, fn)
	return fn
}

func (P *Prog) methodOpt(rel, typ, name string) *ssa.Function {
	n := P.named(rel, typ)
	for i := 0; i < n.NumMethods(); i++ {
		if m := n.Method(i); m.Name() == name {
			return P.SSA.FuncValue(m)
		}
	}
	// promoted through embedding
	ms := types.NewMethodSet(types.NewPointer(n))
	for i := 0; i < ms.Len(); i++ {
		// an unexported method of another package is not this type's method of that name
		if f, ok := ms.At(i).Obj().(*types.Func); ok && f.Name() == name && (f.Exported() || f.Pkg() == n.Obj().Pkg()) {
			return P.SSA.FuncValue(f)
		}
	}
	return nil
}

// Field resolves a (possibly nested) field path of a named struct type, e.g.
// Field("server/tso","timestampOracle","tsoMux","physical").
func (P *Prog) Field(rel, typ string, path ...string) *types.Var {
	var t types.Type = P.named(rel, typ)
	var v *types.Var
	for _, name := range path {
		st, ok := deref(t).Underlying().(*types.Struct)
		if !ok {
			undecidedf("%s.%s: %s is not a struct on path %v", rel, typ, t, path)
		}
		v = nil
		for i := 0; i < st.NumFields(); i++ {
			if st.Field(i).Name() == name {
				v = st.Field(i)
			}
		}
		if v == nil && name == path[len(path)-1] {
			v = P.renamedField(rel, typ, path, st)
		}
		if v == nil {
			undecidedf("field %s not found in %s.%s (path %v)", name, rel, typ, path)
		}
		t = v.Type()
	}
	P.noteField(rel, typ, path, v)
	return v
}

// IMethod resolves a method of a named interface type as a Callee.
func (P *Prog) IMethod(rel, iface, name string) Callee {
	n := P.named(rel, iface)
	it, ok := n.Underlying().(*types.Interface)
	if !ok {
		undecidedf("%s.%s is not an interface", rel, iface)
	}
	for i := 0; i < it.NumMethods(); i++ {
		if it.Method(i).Name() == name {
			return imCallee{it.Method(i), it}
		}
	}
	undecidedf("interface method %s.%s.%s not found", rel, iface, name)
	return nil
}

func deref(t types.Type) types.Type {
	if p, ok := t.Underlying().(*types.Pointer); ok {
		return p.Elem()
	}
	return t
}

// Callers returns every static call site of fn (including go/defer).
func (P *Prog) Callers(fn *ssa.Function) []CallSite { return P.callers[origin(fn)] }

// CallersVia also includes interface-method call sites that may dispatch to
// fn (same method name, receiver type implements the interface), and sites
// that take fn as a bound-method / function value.
func (P *Prog) CallersAll(fn *ssa.Function) (sites []CallSite, valueUses []ssa.Instruction) {
	sites = append(sites, P.callers[origin(fn)]...)
	if fn.Signature.Recv() != nil {
		recv := fn.Signature.Recv().Type()
		for _, cs := range P.invokes[fn.Name()] {
			it, ok := cs.Instr.Common().Value.Type().Underlying().(*types.Interface)
			if !ok {
				continue
			}
			if types.Implements(recv, it) || types.Implements(types.NewPointer(recv), it) {
				sites = append(sites, cs)
			}
		}
	}
	// function values: MakeClosure of a bound wrapper, or fn used as operand
	for _, f := range P.Funcs {
		for _, b := range f.Blocks {
			for _, ins := range b.Instrs {
				var ops []*ssa.Value
				for _, op := range ins.Operands(ops) {
					if *op == nil {
						continue
					}
					if g, ok := (*op).(*ssa.Function); ok {
						if origin(g) == origin(fn) || isBoundOf(g, fn) {
							if ci, ok := ins.(ssa.CallInstruction); ok && ci.Common().StaticCallee() == g {
								continue
							}
							valueUses = append(valueUses, ins)
						}
					}
				}
			}
		}
	}
	return
}

func isBoundOf(g, fn *ssa.Function) bool {
	// bound method wrappers are synthetic functions named "(T).m$bound" whose
	// body calls fn.
	if g.Synthetic == "" || g.Blocks == nil {
		return false
	}
	for _, b := range g.Blocks {
		for _, ins := range b.Instrs {
			if ci, ok := ins.(ssa.CallInstruction); ok {
				if c := ci.Common().StaticCallee(); c != nil && origin(c) == origin(fn) {
					return true
				}
			}
		}
	}
	return false
}

func fnName(fn *ssa.Function) string {
	if fn == nil {
		return "<nil>"
	}
	s := fn.String()
	s = strings.ReplaceAll(s, modPath+"/", "")
	return s
}

// declOf finds the *ast.FuncDecl of a declared function.
func (P *Prog) declOf(fn *ssa.Function) *ast.FuncDecl {
	if d, ok := fn.Syntax().(*ast.FuncDecl); ok {
		return d
	}
	return nil
}

func (P *Prog) typesInfo(fn *ssa.Function) *types.Info {
	p := P.PkgByID[fnPkgPath(fn)]
	if p == nil {
		return nil
	}
	return p.TypesInfo
}
