package main

// E4: etcd transaction shape. Every clientv3.OpPut / OpDelete call site in
// module code is enumerated; the key's provenance (which helper, field or
// constant built it), the builder chain it feeds (If/Then/Commit) and the
// comparators of the If are recovered from SSA.

import (
	"fmt"
	"go/constant"
	"go/token"
	"go/types"
	"sort"
	"strings"

	"golang.org/x/tools/go/ssa"
)

const clientv3Path = "go.etcd.io/etcd/clientv3"

type Cmp struct {
	Target string    // CreateRevision | Value | ModRevision | Version | leaderCmp | param | unknown
	Key    ssa.Value // compared key (nil for param/unknown)
	Op     string
	Val    ssa.Value
	Desc   string
}

type TxnSite struct {
	Op       *ssa.Call
	Kind     string // put | delete
	Fn       *ssa.Function
	Key      ssa.Value
	KeyAtoms *keyAtoms
	Lease    bool // WithLease option present
	Then     ssa.CallInstruction
	Origin   string // LeaderTxn | NewSlowLogTxn | client.Txn | unknown
	HasIf    bool
	Cmps     []Cmp
	Commit   *ssa.Call
	If       *ssa.Call // the If(...) call closest to the Then, when visible in this function
}

// keyAtoms: what a key expression is made of.
type keyAtoms struct {
	Funcs  map[*ssa.Function]bool // module helper functions whose result flows into the key
	Fields map[*types.Var]bool
	Consts map[string]bool // constant string fragments
	Objs   map[types.Object]bool
	Params map[string]bool
}

func newKeyAtoms() *keyAtoms {
	return &keyAtoms{map[*ssa.Function]bool{}, map[*types.Var]bool{}, map[string]bool{}, map[types.Object]bool{}, map[string]bool{}}
}

func (k *keyAtoms) String() string {
	var parts []string
	for f := range k.Funcs {
		parts = append(parts, "fn:"+f.Name())
	}
	for f := range k.Fields {
		parts = append(parts, "field:"+f.Name())
	}
	for s := range k.Consts {
		parts = append(parts, fmt.Sprintf("%q", s))
	}
	for p := range k.Params {
		parts = append(parts, "param:"+p)
	}
	sort.Strings(parts)
	return strings.Join(parts, "+")
}

// collectKeyAtoms walks the key expression backwards, entering module helper
// functions (depth-bounded) so that constants used inside them are seen.
func (P *Prog) collectKeyAtoms(v ssa.Value, k *keyAtoms, depth int, seen map[ssa.Value]bool) {
	if v == nil || seen[v] || depth < 0 {
		return
	}
	seen[v] = true
	v = strip(v)
	switch x := v.(type) {
	case *ssa.Const:
		if x.Value != nil && x.Value.Kind() == constant.String {
			k.Consts[constant.StringVal(x.Value)] = true
		}
	case *ssa.Parameter:
		k.Params[x.Name()] = true
	case *ssa.Global:
		if x.Object() != nil {
			k.Objs[x.Object()] = true
		}
	case *ssa.UnOp:
		if x.Op == token.MUL {
			if f := fieldOfAddr(x.X); f != nil {
				k.Fields[f] = true
				return
			}
			if a, ok := x.X.(*ssa.Alloc); ok {
				for _, r := range *a.Referrers() {
					if st, ok := r.(*ssa.Store); ok && st.Addr == a {
						P.collectKeyAtoms(st.Val, k, depth, seen)
					}
				}
				return
			}
		}
		P.collectKeyAtoms(x.X, k, depth, seen)
	case *ssa.Field:
		if f := fieldOfField(x); f != nil {
			k.Fields[f] = true
		}
	case *ssa.BinOp:
		P.collectKeyAtoms(x.X, k, depth, seen)
		P.collectKeyAtoms(x.Y, k, depth, seen)
	case *ssa.Phi:
		for _, e := range x.Edges {
			P.collectKeyAtoms(e, k, depth, seen)
		}
	case *ssa.Extract:
		P.collectKeyAtoms(x.Tuple, k, depth, seen)
	case *ssa.Slice:
		P.collectKeyAtoms(x.X, k, depth, seen)
	case *ssa.Alloc:
		// varargs array: follow element stores
		for _, r := range *x.Referrers() {
			if ia, ok := r.(*ssa.IndexAddr); ok {
				for _, rr := range *ia.Referrers() {
					if st, ok := rr.(*ssa.Store); ok && st.Addr == ia {
						P.collectKeyAtoms(st.Val, k, depth, seen)
					}
				}
			}
		}
	case *ssa.Call:
		callee := x.Call.StaticCallee()
		if callee != nil && strings.HasPrefix(fnPkgPath(callee), modPath) && callee.Blocks != nil {
			k.Funcs[callee] = true
			// constants and fields used inside the helper
			for _, b := range callee.Blocks {
				for _, ins := range b.Instrs {
					if r, ok := ins.(*ssa.Return); ok {
						for i := range r.Results {
							P.collectKeyAtoms(retVal(r, i), k, depth-1, seen)
						}
					}
				}
			}
			return
		}
		for _, a := range x.Call.Args {
			P.collectKeyAtoms(a, k, depth, seen)
		}
	}
}

func isClientv3Func(c *ssa.CallCommon, name string) bool {
	f := c.StaticCallee()
	return f != nil && f.Pkg != nil && f.Pkg.Pkg.Path() == clientv3Path && f.Name() == name
}

// sliceElems resolves the elements of a slice value built from a varargs
// array, append() chains and phis. unknown is set when part of the slice comes
// from somewhere the walk cannot see (e.g. a parameter).
func sliceElems(v ssa.Value, seen map[ssa.Value]bool) (elems []ssa.Value, unknown []ssa.Value) {
	if v == nil || seen[v] {
		return
	}
	seen[v] = true
	switch x := v.(type) {
	case *ssa.Const:
		return // nil slice
	case *ssa.Slice:
		return sliceElems(x.X, seen)
	case *ssa.Alloc:
		for _, r := range *x.Referrers() {
			if ia, ok := r.(*ssa.IndexAddr); ok {
				for _, rr := range *ia.Referrers() {
					if st, ok := rr.(*ssa.Store); ok && st.Addr == ia {
						elems = append(elems, st.Val)
					}
				}
			}
		}
		return
	case *ssa.Phi:
		for _, e := range x.Edges {
			a, b := sliceElems(e, seen)
			elems = append(elems, a...)
			unknown = append(unknown, b...)
		}
		return
	case *ssa.Call:
		if b, ok := x.Call.Value.(*ssa.Builtin); ok && b.Name() == "append" {
			for _, a := range x.Call.Args {
				e, u := sliceElems(a, seen)
				elems = append(elems, e...)
				unknown = append(unknown, u...)
			}
			return
		}
		if b, ok := x.Call.Value.(*ssa.Builtin); ok && b.Name() == "make" {
			return
		}
		if rs := sliceHelperReturns(x); len(rs) > 0 {
			for _, r := range rs {
				e, u := sliceElems(r, seen)
				elems = append(elems, e...)
				unknown = append(unknown, u...)
			}
			return
		}
	case *ssa.Parameter:
		if b, ok := paramBind[x]; ok {
			return sliceElems(b, seen)
		}
	case *ssa.MakeSlice:
		return
	case *ssa.UnOp:
		if x.Op == token.MUL {
			if a, ok := x.X.(*ssa.Alloc); ok {
				for _, r := range *a.Referrers() {
					if st, ok := r.(*ssa.Store); ok && st.Addr == a {
						e, u := sliceElems(st.Val, seen)
						elems = append(elems, e...)
						unknown = append(unknown, u...)
					}
				}
				return
			}
		}
	}
	unknown = append(unknown, v)
	return
}

func (P *Prog) resolveCmp(v ssa.Value, depth int) []Cmp {
	c, ok := strip(v).(*ssa.Call)
	if !ok {
		return []Cmp{{Target: "unknown", Desc: v.String()}}
	}
	if isClientv3Func(&c.Call, "Compare") && len(c.Call.Args) == 3 {
		cmp := Cmp{Target: "unknown", Val: c.Call.Args[2]}
		if s, ok := constString(c.Call.Args[1]); ok {
			cmp.Op = s
		}
		if t, ok := strip(c.Call.Args[0]).(*ssa.Call); ok {
			for _, n := range []string{"CreateRevision", "Value", "ModRevision", "Version"} {
				if isClientv3Func(&t.Call, n) && len(t.Call.Args) == 1 {
					cmp.Target = n
					cmp.Key = t.Call.Args[0]
				}
			}
		}
		cmp.Desc = fmt.Sprintf("%s(%s) %s …", cmp.Target, keyDesc(P, cmp.Key), cmp.Op)
		return []Cmp{cmp}
	}
	// a module helper returning a Cmp (e.g. leaderCmp): look inside
	if callee := c.Call.StaticCallee(); callee != nil && callee.Blocks != nil && depth > 0 && strings.HasPrefix(fnPkgPath(callee), modPath) {
		var out []Cmp
		for _, b := range callee.Blocks {
			for _, ins := range b.Instrs {
				if r, ok := ins.(*ssa.Return); ok && len(r.Results) == 1 {
					for _, cm := range P.resolveCmp(retVal(r, 0), depth-1) {
						cm.Desc = callee.Name() + "→" + cm.Desc
						out = append(out, cm)
					}
				}
			}
		}
		return out
	}
	return []Cmp{{Target: "unknown", Desc: v.String()}}
}

func keyDesc(P *Prog, v ssa.Value) string {
	if v == nil {
		return "?"
	}
	k := newKeyAtoms()
	P.collectKeyAtoms(v, k, 2, map[ssa.Value]bool{})
	return k.String()
}

// txnOrigin walks back from the receiver of Then()/If() to the creation of the
// transaction and collects comparators on the way.
func (P *Prog) txnOrigin(recv ssa.Value, site *TxnSite, depth int, seen map[ssa.Value]bool) {
	if recv == nil || seen[recv] || depth < 0 {
		return
	}
	seen[recv] = true
	switch x := strip(recv).(type) {
	case *ssa.Call:
		cc := &x.Call
		if cc.IsInvoke() {
			switch cc.Method.Name() {
			case "If":
				site.HasIf = true
				if site.If == nil {
					site.If = x
				}
				if len(cc.Args) == 1 {
					elems, unknown := sliceElems(cc.Args[0], map[ssa.Value]bool{})
					for _, e := range elems {
						site.Cmps = append(site.Cmps, P.resolveCmp(e, 2)...)
					}
					for _, u := range unknown {
						if p, ok := u.(*ssa.Parameter); ok {
							site.Cmps = append(site.Cmps, Cmp{Target: "param", Desc: "caller-supplied " + p.Name()})
						} else {
							site.Cmps = append(site.Cmps, Cmp{Target: "unknown", Desc: u.String()})
						}
					}
				}
				P.txnOrigin(cc.Value, site, depth-1, seen)
			case "Then", "Else":
				P.txnOrigin(cc.Value, site, depth-1, seen)
			case "Txn":
				site.Origin = "client.Txn"
			default:
				site.Origin = "unknown:" + cc.Method.Name()
			}
			return
		}
		callee := cc.StaticCallee()
		if callee == nil {
			site.Origin = "unknown"
			return
		}
		switch {
		case callee.Name() == "NewSlowLogTxn":
			site.Origin = "NewSlowLogTxn"
		case callee.Name() == "Txn":
			site.Origin = "client.Txn"
		case strings.HasPrefix(fnPkgPath(callee), modPath) && callee.Blocks != nil && depth > 0:
			// a module helper returning a Txn (LeaderTxn): analyse its body once
			sub := &TxnSite{}
			for _, b := range callee.Blocks {
				for _, ins := range b.Instrs {
					if r, ok := ins.(*ssa.Return); ok && len(r.Results) == 1 {
						P.txnOrigin(retVal(r, 0), sub, depth-1, map[ssa.Value]bool{})
					}
				}
			}
			site.Origin = callee.Name() + "→" + sub.Origin
			site.HasIf = site.HasIf || sub.HasIf
			for _, cm := range sub.Cmps {
				if cm.Target == "param" {
					// caller-supplied comparators of the helper: resolve from this call's args
					args := callArgs(cc)
					for _, a := range args {
						elems, _ := sliceElems(a, map[ssa.Value]bool{})
						for _, e := range elems {
							site.Cmps = append(site.Cmps, P.resolveCmp(e, 2)...)
						}
					}
					continue
				}
				cm.Desc = callee.Name() + ":" + cm.Desc
				site.Cmps = append(site.Cmps, cm)
			}
		default:
			site.Origin = "unknown:" + callee.Name()
		}
	case *ssa.Phi:
		for _, e := range x.Edges {
			P.txnOrigin(e, site, depth, seen)
		}
	case *ssa.UnOp:
		if x.Op == token.MUL {
			if a, ok := x.X.(*ssa.Alloc); ok {
				for _, r := range *a.Referrers() {
					if st, ok := r.(*ssa.Store); ok && st.Addr == a {
						P.txnOrigin(st.Val, site, depth, seen)
					}
				}
				return
			}
		}
		site.Origin = "unknown"
	default:
		site.Origin = "unknown"
	}
}

// flowsToThen follows an Op value forward to the Then()/Else() call that
// consumes it.
func flowsToThen(v ssa.Value, seen map[ssa.Value]bool, depth int) ssa.CallInstruction {
	if v == nil || seen[v] || depth < 0 {
		return nil
	}
	seen[v] = true
	refs := v.Referrers()
	if refs == nil {
		return nil
	}
	for _, r := range *refs {
		switch x := r.(type) {
		case *ssa.Store:
			if x.Val != v {
				continue
			}
			// element of an array/slice or a local cell
			switch a := x.Addr.(type) {
			case *ssa.IndexAddr:
				if t := flowsToThen(a.X, seen, depth-1); t != nil {
					return t
				}
			case *ssa.Alloc:
				if t := flowsToThen(a, seen, depth-1); t != nil {
					return t
				}
			}
		case *ssa.Slice:
			if t := flowsToThen(x, seen, depth-1); t != nil {
				return t
			}
		case *ssa.Phi:
			if t := flowsToThen(x, seen, depth-1); t != nil {
				return t
			}
		case *ssa.UnOp:
			if x.Op == token.MUL {
				if t := flowsToThen(x, seen, depth-1); t != nil {
					return t
				}
			}
		case *ssa.Call:
			cc := &x.Call
			if cc.IsInvoke() && (cc.Method.Name() == "Then" || cc.Method.Name() == "Else") {
				return x
			}
			if b, ok := cc.Value.(*ssa.Builtin); ok && b.Name() == "append" {
				if t := flowsToThen(x, seen, depth-1); t != nil {
					return t
				}
			}
		}
	}
	return nil
}

// txnSites enumerates all put/delete sites of the program (scaffolding excluded).
func (P *Prog) txnSites() []*TxnSite {
	var out []*TxnSite
	for _, fn := range P.Funcs {
		if P.isScaffold(fn) {
			continue
		}
		for _, b := range fn.Blocks {
			for _, ins := range b.Instrs {
				c, ok := ins.(*ssa.Call)
				if !ok {
					continue
				}
				kind := ""
				if isClientv3Func(&c.Call, "OpPut") {
					kind = "put"
				} else if isClientv3Func(&c.Call, "OpDelete") {
					kind = "delete"
				}
				if kind == "" || len(c.Call.Args) == 0 {
					continue
				}
				s := &TxnSite{Op: c, Kind: kind, Fn: fn, Key: c.Call.Args[0], KeyAtoms: newKeyAtoms()}
				P.collectKeyAtoms(s.Key, s.KeyAtoms, 2, map[ssa.Value]bool{})
				// options: WithLease
				if len(c.Call.Args) >= 2 {
					last := c.Call.Args[len(c.Call.Args)-1]
					elems, _ := sliceElems(last, map[ssa.Value]bool{})
					for _, e := range elems {
						if oc, ok := strip(e).(*ssa.Call); ok && isClientv3Func(&oc.Call, "WithLease") {
							s.Lease = true
						}
					}
				}
				s.Then = flowsToThen(c, map[ssa.Value]bool{}, 8)
				if s.Then != nil {
					P.txnOrigin(s.Then.Common().Value, s, 3, map[ssa.Value]bool{})
					if tv, ok := s.Then.(*ssa.Call); ok {
						s.Commit = findCommit(tv, map[ssa.Value]bool{}, 4)
					}
				}
				out = append(out, s)
			}
		}
	}
	sort.SliceStable(out, func(i, j int) bool { return out[i].Op.Pos() < out[j].Op.Pos() })
	return out
}

func findCommit(v ssa.Value, seen map[ssa.Value]bool, depth int) *ssa.Call {
	if v == nil || seen[v] || depth < 0 || v.Referrers() == nil {
		return nil
	}
	seen[v] = true
	for _, r := range *v.Referrers() {
		if c, ok := r.(*ssa.Call); ok && c.Call.IsInvoke() && c.Call.Value == v {
			if c.Call.Method.Name() == "Commit" {
				return c
			}
			if c.Call.Method.Name() == "Else" || c.Call.Method.Name() == "Then" {
				if x := findCommit(c, seen, depth-1); x != nil {
					return x
				}
			}
		}
	}
	return nil
}

// leaderGuarded: the transaction is conditional on the leader record: its If
// contains leaderCmp (via LeaderTxn) or an explicit Value(<…leader…>) == x.
func (s *TxnSite) leaderGuarded(P *Prog) (bool, string) {
	if !s.HasIf {
		return false, "transaction has no If(...)"
	}
	leaderKey := P.Field("server/election", "Leadership", "leaderKey")
	isLeaderCmp := func(cm Cmp) bool {
		if cm.Target != "Value" || cm.Op != "=" || cm.Key == nil {
			return false
		}
		k := newKeyAtoms()
		P.collectKeyAtoms(cm.Key, k, 2, map[ssa.Value]bool{})
		return k.Fields[leaderKey] || k.Consts["leader"]
	}
	if ok, why, decided := s.everyAlternativeHas(P, isLeaderCmp, "leader comparator"); decided {
		return ok, why
	}
	for _, cm := range s.Cmps {
		if isLeaderCmp(cm) {
			return true, cm.Desc
		}
	}
	var ds []string
	for _, cm := range s.Cmps {
		ds = append(ds, cm.Desc)
	}
	return false, "comparators: [" + strings.Join(ds, "; ") + "]"
}

// everyAlternativeHas: when the If(...) is visible in this function its
// argument is examined per control-flow alternative (φ edges of the slice, of
// its elements): a comparator satisfying pred must be present on each one.
// decided is false when the If argument cannot be enumerated.
func (s *TxnSite) everyAlternativeHas(P *Prog, pred func(Cmp) bool, what string) (ok bool, why string, decided bool) {
	if s.If == nil || len(s.If.Call.Args) != 1 {
		return false, "", false
	}
	alts := sliceAlternatives(s.If.Call.Args[0], 6)
	for ai, alt := range alts {
		has := false
		for _, e := range alt {
			vals := valueAlternatives(e, 3)
			allOK := len(vals) > 0
			for _, v := range vals {
				one := false
				for _, cm := range P.resolveCmp(v, 2) {
					if pred(cm) {
						one = true
					}
				}
				if !one {
					allOK = false
				}
			}
			if allOK {
				has = true
			}
		}
		if !has {
			return false, fmt.Sprintf("comparator alternative #%d of %d carries no %s", ai+1, len(alts), what), true
		}
	}
	if len(alts) > 0 {
		return true, what + " on every comparator alternative", true
	}
	return false, "", false
}

func (s *TxnSite) hasCreateRevisionZero(P *Prog, key ssa.Value) bool {
	pred := func(cm Cmp) bool {
		if cm.Target == "CreateRevision" && cm.Op == "=" && cm.Key != nil {
			if z, ok := constInt(cm.Val); ok && z == 0 && (key == nil || sameVal(cm.Key, key)) {
				return true
			}
		}
		return false
	}
	// on every control-flow alternative of the If argument, not just on one
	if ok, _, decided := s.everyAlternativeHas(P, pred, "CreateRevision(key) = 0"); decided {
		return ok
	}
	for _, cm := range s.Cmps {
		if pred(cm) {
			return true
		}
	}
	return false
}

// committedEvents: the pair of events "Commit returned nil error" and
// "resp.Succeeded is true" for the site's Commit call.
func (s *TxnSite) committedEvents() []Ev {
	commit := s.Commit
	okE := newOkEv(s.Fn, "ok(Commit)", func(c *ssa.Call) bool { return c == commit })
	succ := &guardEv{name: "resp.Succeeded", match: func(cond ssa.Value, pos bool) bool {
		if !pos {
			return false
		}
		f := loadedField(cond)
		if f == nil || f.Name() != "Succeeded" {
			return false
		}
		return derivesFrom(cond, func(v ssa.Value) bool { return v == ssa.Value(commit) }, 5)
	}}
	return []Ev{okE, succ}
}

// sliceAlternatives: the possible element lists of a slice value, one per
// control-flow alternative (phi edges are alternatives, append is a product).
// Bounded to 16 alternatives.
func sliceAlternatives(v ssa.Value, depth int) [][]ssa.Value {
	if depth < 0 || v == nil {
		return [][]ssa.Value{nil}
	}
	switch x := v.(type) {
	case *ssa.Const:
		return [][]ssa.Value{nil}
	case *ssa.Slice:
		return sliceAlternatives(x.X, depth-1)
	case *ssa.Alloc:
		e, _ := sliceElems(x, map[ssa.Value]bool{})
		return [][]ssa.Value{e}
	case *ssa.MakeSlice:
		return [][]ssa.Value{nil}
	case *ssa.Phi:
		var out [][]ssa.Value
		for _, e := range x.Edges {
			if e == ssa.Value(x) {
				continue
			}
			out = append(out, sliceAlternatives(e, depth-1)...)
			if len(out) > 16 {
				return out[:16]
			}
		}
		return out
	case *ssa.Call:
		if b, ok := x.Call.Value.(*ssa.Builtin); ok && b.Name() == "append" && len(x.Call.Args) == 2 {
			as := sliceAlternatives(x.Call.Args[0], depth-1)
			bs := sliceAlternatives(x.Call.Args[1], depth-1)
			var out [][]ssa.Value
			for _, a := range as {
				for _, b2 := range bs {
					out = append(out, append(append([]ssa.Value{}, a...), b2...))
					if len(out) > 16 {
						return out
					}
				}
			}
			return out
		}
		if rs := sliceHelperReturns(x); len(rs) > 0 {
			var out [][]ssa.Value
			for _, r := range rs {
				out = append(out, sliceAlternatives(r, depth-1)...)
				if len(out) > 16 {
					return out[:16]
				}
			}
			return out
		}
	case *ssa.Parameter:
		if b, ok := paramBind[x]; ok {
			return sliceAlternatives(b, depth-1)
		}
	}
	return [][]ssa.Value{{v}} // opaque: the value itself stands for unknown content
}

// valueAlternatives expands phis of a scalar value.
func valueAlternatives(v ssa.Value, depth int) []ssa.Value {
	if phi, ok := v.(*ssa.Phi); ok && depth > 0 {
		var out []ssa.Value
		for _, e := range phi.Edges {
			out = append(out, valueAlternatives(e, depth-1)...)
		}
		return out
	}
	if u, ok := v.(*ssa.UnOp); ok && u.Op == token.MUL && depth > 0 {
		if a, ok := u.X.(*ssa.Alloc); ok {
			var out []ssa.Value
			for _, r := range *a.Referrers() {
				if st, ok := r.(*ssa.Store); ok && st.Addr == a {
					out = append(out, valueAlternatives(st.Val, depth-1)...)
				}
			}
			if len(out) > 0 {
				return out
			}
		}
	}
	return []ssa.Value{v}
}
