package main

// Rule-level helpers shared by the per-property files.

import (
	"fmt"
	"go/ast"
	"go/constant"
	"go/token"
	"go/types"
	"sort"
	"strings"

	"golang.org/x/tools/go/ssa"
)

// mustPrecede emits one obligation per target instruction of fn: in every
// product state reaching the target, formula(events) holds.
func (c *Ctx) mustPrecede(rule string, fn *ssa.Function, targetDesc string, isTarget func(ssa.Instruction) bool, evs []Ev, formula func([]bool) bool, req string) int {
	c.saw(fnName(fn))
	targets, fails := requireAt(c.P, fn, 0, evs, isTarget, formula)
	failed := map[ssa.Instruction]pathFail{}
	for _, f := range fails {
		failed[f.Ins] = f
	}
	for i, t := range targets {
		construct := fmt.Sprintf("%s in %s", targetDesc, fnName(fn))
		if len(targets) > 1 {
			construct += fmt.Sprintf(" #%d", i+1)
		}
		if f, bad := failed[t]; bad {
			c.Viol(rule, construct, req, c.P.instrPos(t), "reached with "+f.State+" via "+f.Trace)
		} else {
			c.OK(rule, construct, req, c.P.instrPos(t))
		}
	}
	return len(targets)
}

// needOnSuccess: in every product state in which fn returns a nil error —
// `return x, nil`, or a returned variable that is nil on that path (named
// results, `return v, err` after the error was cleared) — formula(events) holds.
func (c *Ctx) needOnSuccess(rule string, fn *ssa.Function, evs []Ev, formula func([]bool) bool, req string) {
	c.saw(fnName(fn))
	isRet := func(x ssa.Instruction) bool {
		r, ok := x.(*ssa.Return)
		return ok && len(r.Results) > 0 && isErrorType(r.Results[len(r.Results)-1].Type())
	}
	ex := explore(c.P, fn, 0, evs, isRet)
	n, k := 0, 0
	for _, b := range fn.Blocks {
		r, ok := b.Instrs[len(b.Instrs)-1].(*ssa.Return)
		if !ok || !isRet(r) {
			continue
		}
		k++
		success, bad := false, ""
		type forwarder interface {
			HoldsForwarded(uint8) bool
			Carries(ssa.Value) bool
		}
		for i, st := range ex.at[r] {
			op := ex.resolveAt(retVal(r, len(r.Results)-1), ex.atSel[r][i])
			if !isNilConst(op) {
				// `return err` handing on the untested error of the latest call: it may well be nil, and
				// then every *earlier* call must have been accounted for
				h := ex.holdsVec(st)
				forwards := false
				for k, e := range evs {
					if f, ok := e.(forwarder); ok && f.Carries(op) {
						forwards = true
						h[k] = f.HoldsForwarded(getSt(st, k))
					}
				}
				if forwards {
					success = true
					if bad == "" && !formula(h) {
						bad = "the returned error is that of the last call only; reached with " + ex.describe(st) + " via " + ex.findTrace(b.Index, st, r)
					}
				}
				continue
			}
			success = true
			if bad == "" && !formula(ex.holdsVec(st)) {
				bad = "reached with " + ex.describe(st) + " via " + ex.findTrace(b.Index, st, r)
			}
		}
		if !success {
			continue
		}
		n++
		construct := fmt.Sprintf("successful return #%d of %s", k, fnName(fn))
		c.Check(bad == "", rule, construct, req, c.P.instrPos(r), bad)
	}
	if n == 0 {
		if k == 0 {
			c.Undec(rule, "returns of "+fnName(fn), req, c.P.pos(fn.Pos()), "no return with an error result found")
			return
		}
		// every return hands on an error value as it is (return s.Save(k, v)): nothing is turned into success here
		c.OK(rule, "returns of "+fnName(fn), "no return reports success on its own: the error of the last call is handed on", c.P.pos(fn.Pos()))
	}
}

// need: like mustPrecede but an absent target is UNDECIDED (the rule's
// subject moved) rather than vacuous.
func (c *Ctx) need(rule string, fn *ssa.Function, targetDesc string, isTarget func(ssa.Instruction) bool, evs []Ev, formula func([]bool) bool, req string) {
	if n := c.mustPrecede(rule, fn, targetDesc, isTarget, evs, formula, req); n == 0 {
		c.Undec(rule, targetDesc+" in "+fnName(fn), req, c.P.pos(fn.Pos()), "target site not found in this function")
	}
}

// callsIn returns the call instructions in fn (and optionally its closures) to any of fns.
func callsIn(fn *ssa.Function, withClosures bool, fns ...Callee) []ssa.CallInstruction {
	var out []ssa.CallInstruction
	var walk func(f *ssa.Function)
	walk = func(f *ssa.Function) {
		for _, b := range f.Blocks {
			for _, ins := range b.Instrs {
				if ci, ok := ins.(ssa.CallInstruction); ok && isCallTo(ins, fns...) {
					out = append(out, ci)
				}
			}
		}
		if withClosures {
			for _, a := range f.AnonFuncs {
				walk(a)
			}
		}
	}
	walk(fn)
	return out
}

// nonScaffoldCallers: distinct outermost functions calling fn (static,
// interface and function-value uses), scaffolding excluded.
func (c *Ctx) nonScaffoldCallers(fn *ssa.Function) (sites []CallSite, escapes []ssa.Instruction) {
	all, vus := c.P.CallersAll(fn)
	for _, s := range all {
		if !c.P.isScaffold(s.Caller) {
			sites = append(sites, s)
		}
	}
	for _, v := range vus {
		if !c.P.isScaffold(v.Parent()) {
			escapes = append(escapes, v)
		}
	}
	sort.SliceStable(sites, func(i, j int) bool { return sites[i].Instr.Pos() < sites[j].Instr.Pos() })
	return
}

// onlyCalledFrom: E1 who-may-call. allowed maps outermost caller name -> reason.
func (c *Ctx) onlyCalledFrom(rule string, fn *ssa.Function, allowed map[string]string) {
	sites, escapes := c.nonScaffoldCallers(fn)
	seen := map[string]bool{}
	for _, s := range sites {
		n := fnName(outer(s.Caller))
		if seen[n] {
			continue
		}
		seen[n] = true
		_, ok := allowed[n]
		c.Check(ok, rule, fmt.Sprintf("caller %s of %s", n, fnName(fn)), "caller is one of the confirmed owners", c.P.instrPos(s.Instr),
			"unexpected caller; confirmed owners: "+keys(allowed))
	}
	for _, e := range escapes {
		n := fnName(outer(e.Parent()))
		if _, ok := allowed[n]; ok {
			continue
		}
		c.Viol(rule, fmt.Sprintf("function value of %s taken in %s", fnName(fn), n), "not handed out as a function value outside the owners", c.P.instrPos(e), "")
	}
}

func keys(m map[string]string) string {
	var ks []string
	for k := range m {
		ks = append(ks, k)
	}
	sort.Strings(ks)
	return strings.Join(ks, ", ")
}

// onlyWrittenBy: E1 who-may-write for a struct field.
func (c *Ctx) onlyWrittenBy(rule string, f *types.Var, allowed map[string]string) {
	ws := c.P.writersOf(f)
	var names []string
	for n := range ws {
		names = append(names, n)
	}
	sort.Strings(names)
	for _, n := range names {
		_, ok := allowed[n]
		c.Check(ok, rule, fmt.Sprintf("writer %s of field %s", n, f.Name()), "writer is one of the confirmed owners", c.P.instrPos(ws[n][0].Ins),
			"unexpected writer; confirmed owners: "+keys(allowed))
	}
	if len(names) == 0 {
		c.Undec(rule, "writers of "+f.Name(), "at least one writer found", "", "no writer found: rule subject moved")
	}
}

// ---- AST-side helpers ----

// constUses: functions (FuncDecl names, qualified) that reference a
// package-level constant/var object.
func (P *Prog) usesOfObject(obj types.Object) map[*ast.FuncDecl]*types.Info {
	out := map[*ast.FuncDecl]*types.Info{}
	for _, p := range P.Pkgs {
		if p.TypesInfo == nil {
			continue
		}
		for _, file := range p.Syntax {
			for _, d := range file.Decls {
				fd, ok := d.(*ast.FuncDecl)
				if !ok || fd.Body == nil {
					continue
				}
				found := false
				ast.Inspect(fd.Body, func(n ast.Node) bool {
					if id, ok := n.(*ast.Ident); ok && p.TypesInfo.Uses[id] == obj {
						found = true
					}
					return !found
				})
				if found {
					out[fd] = p.TypesInfo
				}
			}
		}
	}
	return out
}

func (P *Prog) ssaOfDecl(info *types.Info, fd *ast.FuncDecl) *ssa.Function {
	if o, ok := info.Defs[fd.Name].(*types.Func); ok {
		return P.SSA.FuncValue(o)
	}
	return nil
}

// constValue evaluates a constant expression through go/types.
func constValueOf(info *types.Info, e ast.Expr) (constant.Value, bool) {
	tv, ok := info.Types[e]
	if !ok || tv.Value == nil {
		return nil, false
	}
	return tv.Value, true
}

// returnsErrorUnder: every path on which guard holds ... helper for E6:
// hasGuardedErrorReturn reports whether fn contains an If edge matching
// `match` from which some Return with a non-nil error (or, for bool
// functions, the constant `retBool`) is reachable without passing the
// opposite edge — i.e. the comparison participates in the decision.
func guardControlsReturn(fn *ssa.Function, match func(cond ssa.Value, pos bool) bool, isBadReturn func(*ssa.Return) bool) (found bool, controls bool) {
	for _, b := range fn.Blocks {
		iff, ok := b.Instrs[len(b.Instrs)-1].(*ssa.If)
		if !ok {
			continue
		}
		for si := 0; si < 2; si++ {
			cond, pos := normCond(iff.Cond, si == 0)
			if !match(cond, pos) {
				continue
			}
			found = true
			// does the matched edge lead to a bad return that the other edge does not *only* lead to?
			if reachesReturn(b.Succs[si], isBadReturn, b) {
				controls = true
			}
		}
	}
	return
}

func reachesReturn(start *ssa.BasicBlock, isBad func(*ssa.Return) bool, avoid *ssa.BasicBlock) bool {
	seen := map[*ssa.BasicBlock]bool{}
	var dfs func(b *ssa.BasicBlock) bool
	dfs = func(b *ssa.BasicBlock) bool {
		if seen[b] {
			return false
		}
		seen[b] = true
		if r, ok := b.Instrs[len(b.Instrs)-1].(*ssa.Return); ok && isBad(r) {
			return true
		}
		for _, s := range b.Succs {
			if dfs(s) {
				return true
			}
		}
		return false
	}
	return dfs(start)
}

// errReturn: a Return whose last result is a non-nil error value.
func errReturn(r *ssa.Return) bool {
	if len(r.Results) == 0 {
		return false
	}
	last := retVal(r, len(r.Results)-1)
	if !isErrorType(r.Results[len(r.Results)-1].Type()) {
		return false
	}
	return !isNilConst(last)
}

func boolReturn(want bool) func(*ssa.Return) bool {
	return func(r *ssa.Return) bool {
		for i := range r.Results {
			if b, ok := constBool(retVal(r, i)); ok && b == want {
				return true
			}
		}
		return false
	}
}

// immediateErrEdge: the matched edge leads *directly* (through blocks with a
// single successor) to a bad return: the canonical "if bad { return err }".
func edgeLeadsStraightTo(from *ssa.BasicBlock, si int, isBad func(*ssa.Return) bool) bool {
	// Every way on from the edge ends in a rejecting return: branches taken on
	// the way (building the error message, counting) are followed on both sides;
	// boolean φs and nil tests of φs are resolved to the operand selected by the
	// path walked, so "x := a || b; if x { return err }" holds for a's edge and
	// "r = errors.New(..); goto done; done: if r != nil { return r }" for the helper form.
	type frame struct {
		b   *ssa.BasicBlock
		idx int
		env map[*ssa.Phi]ssa.Value
	}
	nRet, budget := 0, 200
	onPath := map[*ssa.BasicBlock]int{}
	var walk func(f frame) bool
	walk = func(f frame) bool {
		budget--
		if budget < 0 || onPath[f.b] > 1 {
			return false // too branchy, or looping: not a plain rejection
		}
		onPath[f.b]++
		defer func() { onPath[f.b]-- }()
		env := f.env
		for _, ins := range f.b.Instrs {
			phi, ok := ins.(*ssa.Phi)
			if !ok {
				break
			}
			if f.idx >= 0 && f.idx < len(phi.Edges) {
				v := phi.Edges[f.idx]
				if q, isPhi := v.(*ssa.Phi); isPhi {
					if r, known := env[q]; known {
						v = r
					}
				}
				ne := make(map[*ssa.Phi]ssa.Value, len(env)+1)
				for k, x := range env {
					ne[k] = x
				}
				ne[phi] = v
				env = ne
			}
		}
		last := f.b.Instrs[len(f.b.Instrs)-1]
		if r, ok := last.(*ssa.Return); ok {
			nRet++
			retPhiEnv = env
			bad := isBad(r)
			retPhiEnv = nil
			return bad
		}
		if _, isPanic := last.(*ssa.Panic); isPanic {
			return true
		}
		next := func(k int) bool {
			return walk(frame{f.b.Succs[k], predIndex(f.b.Succs[k], f.b, k), env})
		}
		switch len(f.b.Succs) {
		case 1:
			return next(0)
		case 2:
			iff, ok := last.(*ssa.If)
			if !ok {
				return false
			}
			cond, pos := normCond(iff.Cond, true)
			truth, decided := false, false
			if phi, isPhi := cond.(*ssa.Phi); isPhi {
				if v, known := env[phi]; known {
					truth, decided = constBool(v)
				}
			} else if bo, isCmp := cond.(*ssa.BinOp); isCmp && (bo.Op == token.EQL || bo.Op == token.NEQ) {
				var tested ssa.Value
				if isNilConst(bo.Y) {
					tested = bo.X
				} else if isNilConst(bo.X) {
					tested = bo.Y
				}
				if phi, isPhi := tested.(*ssa.Phi); isPhi {
					if v, known := env[phi]; known {
						if knownNonNil(v) {
							truth, decided = bo.Op == token.NEQ, true
						} else if isNilConst(v) {
							truth, decided = bo.Op == token.EQL, true
						}
					}
				}
			}
			if decided {
				if truth == pos {
					return next(0)
				}
				return next(1)
			}
			return next(0) && next(1)
		}
		return false
	}
	b := from.Succs[si]
	ok := walk(frame{b, predIndex(b, from, si), map[*ssa.Phi]ssa.Value{}})
	return ok && nRet > 0
}

// condLeaves: the non-constant values a boolean condition can be on some path
// (the condition itself, or the operands of the φ it is), each with the
// polarity under which the condition is true.
func condLeaves(v ssa.Value) []condRes {
	var out []condRes
	seen := map[ssa.Value]bool{}
	var walk func(v ssa.Value, flip bool, depth int)
	walk = func(v ssa.Value, flip bool, depth int) {
		v, pos := normCond(v, true)
		if !pos {
			flip = !flip
		}
		if seen[v] || depth > 4 {
			return
		}
		seen[v] = true
		if phi, ok := v.(*ssa.Phi); ok {
			for _, e := range phi.Edges {
				walk(e, flip, depth+1)
			}
			return
		}
		if _, isConst := v.(*ssa.Const); isConst {
			return
		}
		out = append(out, condRes{v, flip})
	}
	walk(v, false, 0)
	return out
}

type namedAtom struct {
	name  string
	match func(cond ssa.Value, pos bool) bool
}

// trueOnlyIf: E6 obligation on a predicate — fn (one boolean result) can yield
// true only on paths on which every atom holds: each atom is either a guard
// taken on the way to the return, or the very comparison that is returned
// (`return a == b && c == d` returns the last comparison under the guards of
// the others). Shape-independent: if-chains, && chains and early returns agree.
func (c *Ctx) trueOnlyIf(rule string, fn *ssa.Function, atoms []namedAtom) {
	c.saw(fnName(fn))
	var evs []Ev
	for _, a := range atoms {
		evs = append(evs, &guardEv{name: a.name, match: a.match})
	}
	isRet := func(x ssa.Instruction) bool { _, ok := x.(*ssa.Return); return ok }
	ex := explore(c.P, fn, 0, evs, isRet)
	nRet := 0
	missing := map[string]string{}
	for _, b := range fn.Blocks {
		r, ok := b.Instrs[len(b.Instrs)-1].(*ssa.Return)
		if !ok || len(r.Results) != 1 {
			continue
		}
		nRet++
		for i, st := range ex.at[r] {
			v := ex.resolveAt(retVal(r, 0), ex.atSel[r][i])
			if bv, isConst := constBool(v); isConst && !bv {
				continue
			}
			h := ex.holdsVec(st)
			for k, a := range atoms {
				if h[k] {
					continue
				}
				if _, isConst := v.(*ssa.Const); !isConst {
					if cv, pos := normCond(v, true); a.match(cv, pos) {
						continue
					}
				}
				if _, seen := missing[a.name]; !seen {
					missing[a.name] = "a result that may be true is returned without it: " + ex.findTrace(b.Index, st, r)
				}
			}
		}
	}
	if nRet == 0 {
		c.Undec(rule, "returns of "+fnName(fn), "a function with one boolean result", c.P.pos(fn.Pos()), "")
	}
	for _, a := range atoms {
		d, bad := missing[a.name]
		c.Check(!bad, rule, fmt.Sprintf("atom %q in %s", a.name, fnName(fn)), "the result can be true only when this holds", c.P.pos(fn.Pos()), d)
	}
}

// atomRejects: E6 obligation — fn rejects (returns an error / the given bool)
// straight from an edge on which the atom holds.
func (c *Ctx) atomRejects(rule string, fn *ssa.Function, atom string, match func(cond ssa.Value, pos bool) bool, isBad func(*ssa.Return) bool) {
	c.saw(fnName(fn))
	ok := false
	for _, f := range withCallees(fn, 2) {
		for _, b := range f.Blocks {
			iff, isIf := b.Instrs[len(b.Instrs)-1].(*ssa.If)
			if !isIf {
				continue
			}
			for si := 0; si < 2; si++ {
				cond, pos := normCond(iff.Cond, si == 0)
				if match(cond, pos) && edgeLeadsStraightTo(b, si, isBad) {
					ok = true
				}
				// the condition is a boolean variable: the atom may be one of the values it takes
				if _, isPhi := cond.(*ssa.Phi); isPhi {
					for _, leaf := range condLeaves(iff.Cond) {
						lc, lpos := normCond(leaf.v, (si == 0) != leaf.flip)
						if match(lc, lpos) && edgeLeadsStraightTo(b, si, isBad) {
							ok = true
						}
					}
				}
			}
		}
	}
	c.Check(ok, rule, fmt.Sprintf("atom %q in %s", atom, fnName(fn)), "the decision rejects on this comparison", c.P.pos(fn.Pos()),
		"no conditional edge on which the atom holds leads straight to a rejecting return")
}

// withCallees: fn plus its static module callees to the given depth (so that
// extracting a helper does not raise an alarm).
func withCallees(fn *ssa.Function, depth int) []*ssa.Function {
	seen := map[*ssa.Function]bool{fn: true}
	out := []*ssa.Function{fn}
	frontier := []*ssa.Function{fn}
	for d := 0; d < depth; d++ {
		var next []*ssa.Function
		for _, f := range frontier {
			for _, b := range f.Blocks {
				for _, ins := range b.Instrs {
					if ci, ok := ins.(ssa.CallInstruction); ok {
						if g := ci.Common().StaticCallee(); g != nil && g.Blocks != nil && !seen[g] && strings.HasPrefix(fnPkgPath(g), modPath) {
							seen[g] = true
							out = append(out, g)
							next = append(next, g)
						}
					}
				}
			}
		}
		frontier = next
	}
	return out
}

// relMatcher builds an edge matcher for "x op y".
func relMatcher(ops string, xp, yp valPred) func(cond ssa.Value, pos bool) bool {
	return func(cond ssa.Value, pos bool) bool {
		r, ok := relOf(cond, pos)
		return ok && matchRel(r, ops, xp, yp)
	}
}

func loadOfField(f *types.Var) valPred { return func(v ssa.Value) bool { return isLoadOf(v, f) } }
func resultOfCall(fn Callee) valPred {
	return func(v ssa.Value) bool { return valueIsCallTo(v, fn) }
}
func isConstInt(n int64) valPred {
	return func(v ssa.Value) bool { i, ok := constInt(v); return ok && i == n }
}
func isConstStr(s string) valPred {
	return func(v ssa.Value) bool { x, ok := constString(v); return ok && x == s }
}
func lenOf(p valPred) valPred {
	return func(v ssa.Value) bool {
		c, ok := strip(v).(*ssa.Call)
		if !ok {
			return false
		}
		b, ok := c.Call.Value.(*ssa.Builtin)
		return ok && b.Name() == "len" && len(c.Call.Args) == 1 && p(c.Call.Args[0])
	}
}
func same(v ssa.Value) valPred { return func(w ssa.Value) bool { return sameVal(v, w) } }
func derived(p valPred, depth int) valPred {
	return func(v ssa.Value) bool { return derivesFrom(v, p, depth) }
}
func orPred(ps ...valPred) valPred {
	return func(v ssa.Value) bool {
		for _, p := range ps {
			if p(v) {
				return true
			}
		}
		return false
	}
}

var _ = token.ADD

// hasComparison: fn contains a comparison "x op y" (mirrored forms accepted),
// wherever its result is used.
func hasComparison(fn *ssa.Function, ops string, xp, yp valPred) bool {
	for _, b := range fn.Blocks {
		for _, ins := range b.Instrs {
			if bo, ok := ins.(*ssa.BinOp); ok {
				if r, ok := relOf(bo, true); ok && matchRel(r, ops, xp, yp) {
					return true
				}
			}
		}
	}
	return false
}

// ---------- must-follow (completeness) rules ----------
//
// The path rules above say "X happens only if G held". The rules here say the
// converse: once a trigger was passed — an instruction, or the edge of a test —
// every way on passes an effect before the function is left or control comes
// back round a loop to (a dominator of) the trigger. They decide that an
// essential action is neither missing nor skipped on some path.

// followsOnAllPaths walks from instruction index idx of block b. okExit says
// which function exits need no effect (an error return, say).
func followsOnAllPaths(b *ssa.BasicBlock, idx int, origin *ssa.BasicBlock, isEffect func(ssa.Instruction) bool, okExit func(ssa.Instruction) bool) (bool, ssa.Instruction) {
	seen := map[*ssa.BasicBlock]bool{}
	var walk func(x *ssa.BasicBlock, from int, first bool) (bool, ssa.Instruction)
	walk = func(x *ssa.BasicBlock, from int, first bool) (bool, ssa.Instruction) {
		if !first {
			if x.Dominates(origin) {
				// round a loop (or back at the trigger) without the effect
				return false, x.Instrs[0]
			}
			if seen[x] {
				return true, nil
			}
			seen[x] = true
		}
		for i := from; i < len(x.Instrs); i++ {
			if isEffect(x.Instrs[i]) {
				return true, nil
			}
		}
		last := x.Instrs[len(x.Instrs)-1]
		if len(x.Succs) == 0 {
			if _, isPanic := last.(*ssa.Panic); isPanic {
				return true, nil
			}
			if okExit != nil && okExit(last) {
				return true, nil
			}
			return false, last
		}
		for _, s := range x.Succs {
			if ok, at := walk(s, 0, false); !ok {
				return false, at
			}
		}
		return true, nil
	}
	return walk(b, idx, true)
}

// errorExit: a return whose error result is not the constant nil.
func errorExit(x ssa.Instruction) bool {
	r, ok := x.(*ssa.Return)
	if !ok || len(r.Results) == 0 {
		return false
	}
	v := r.Results[len(r.Results)-1]
	if !isErrorType(v.Type()) {
		return false
	}
	return !isNilConst(spilledResult(r, len(r.Results)-1))
}

// spilledResult: result idx of a return; a function with defers returns
// through spilled result variables (`*res = v; rundefers; return *res`), which
// is resolved to the value stored in the return's own block.
func spilledResult(r *ssa.Return, idx int) ssa.Value {
	v := r.Results[idx]
	if u, ok := v.(*ssa.UnOp); ok && u.Op == token.MUL {
		if cell, isCell := u.X.(*ssa.Alloc); isCell {
			instrs := r.Block().Instrs
			for i := len(instrs) - 1; i >= 0; i-- {
				if st, isSt := instrs[i].(*ssa.Store); isSt && st.Addr == ssa.Value(cell) {
					return st.Val
				}
			}
		}
	}
	return v
}

// pendingEv: "the trigger was passed and the effect has not happened since".
type pendingEv struct {
	name string
	trig func(ssa.Instruction) bool
	edge func(cond ssa.Value, pos bool) bool
	eff  func(ssa.Instruction) bool
}

func (p *pendingEv) Name() string { return p.name }
func (p *pendingEv) Instr(st uint8, ins ssa.Instruction) uint8 {
	// a trigger that is also an effect of its own kind (a Set… followed by another Set…) starts a new obligation
	if p.trig != nil && p.trig(ins) {
		return bEST
	}
	if p.eff(ins) {
		return 0
	}
	return st
}
func (p *pendingEv) Edge(st uint8, from *ssa.BasicBlock, succ int) uint8 {
	if p.edge == nil || len(from.Succs) != 2 {
		return st
	}
	if iff, ok := from.Instrs[len(from.Instrs)-1].(*ssa.If); ok {
		if cond, pos := ifCond(iff, succ == 0); p.edge(cond, pos) {
			return bEST
		}
	}
	return st
}
func (p *pendingEv) Holds(st uint8) bool { return st != 0 }

// mustFollowCore decides a must-follow obligation on the product of the flow
// graph with the pending event: the effect is still pending at no exit of the
// function that counts (okExit exempts exits; a returned error is resolved on
// the path: spilled results, φs selected by the tests taken) and not when
// control comes round to the trigger again. Being path-sensitive to boolean and
// nil-compared φs it is not fooled by `err = f(); …; if err != nil` written
// through a variable (which is also what helper expansion produces).
func (c *Ctx) mustFollowCore(rule string, fn *ssa.Function, construct string, pend *pendingEv, isTrigSite func(ssa.Instruction) bool, okExit func(ssa.Instruction) bool, req string) int {
	c.saw(fnName(fn))
	isTarget := func(x ssa.Instruction) bool {
		if _, ok := x.(*ssa.Return); ok {
			return true
		}
		return isTrigSite(x)
	}
	ex := explore(c.P, fn, 0, []Ev{pend}, isTarget)
	n, bad, where := 0, "", ""
	for _, b := range fn.Blocks {
		for _, ins := range b.Instrs {
			if isTrigSite(ins) {
				n++
			}
			sts, ok := ex.at[ins]
			if !ok || !isTarget(ins) {
				continue
			}
			for i, st := range sts {
				if !pend.Holds(getSt(st, 0)) {
					continue
				}
				if _, isRet := ins.(*ssa.Return); !isRet && pend.eff(ins) {
					continue // a trigger that also discharges the previous obligation (set again: a rollback)
				}
				if r, isRet := ins.(*ssa.Return); isRet {
					if okExit != nil {
						if okExit(ins) {
							// the error operand as it is on this path
							if len(r.Results) > 0 {
								op := ex.resolveAt(spilledResult(r, len(r.Results)-1), ex.atSel[ins][i])
								if !isNilConst(op) {
									continue
								}
							} else {
								continue
							}
						} else if len(r.Results) > 0 && isErrorType(r.Results[len(r.Results)-1].Type()) {
							op := ex.resolveAt(spilledResult(r, len(r.Results)-1), ex.atSel[ins][i])
							if !isNilConst(op) {
								continue
							}
						}
					}
				}
				if bad == "" {
					bad = "reached " + c.P.instrPos(ins) + " with the effect outstanding via " + ex.findTrace(b.Index, st, ins)
					where = c.P.instrPos(ins)
				}
			}
		}
	}
	_ = where
	if n == 0 {
		return 0
	}
	c.Check(bad == "", rule, construct, req, c.P.pos(fn.Pos()), bad)
	return n
}

// mustFollow: after every instruction matching trig, an instruction matching eff follows on all paths.
func (c *Ctx) mustFollow(rule string, fn *ssa.Function, trigDesc string, trig func(ssa.Instruction) bool, effDesc string, eff func(ssa.Instruction) bool, okExit func(ssa.Instruction) bool, req string) int {
	construct := fmt.Sprintf("%s after %s in %s", effDesc, trigDesc, fnName(fn))
	pend := &pendingEv{name: effDesc + " outstanding", trig: trig, eff: eff}
	n := c.mustFollowCore(rule, fn, construct, pend, trig, okExit, req)
	if n == 0 {
		c.Undec(rule, trigDesc+" in "+fnName(fn), req, c.P.pos(fn.Pos()), "trigger not found in this function")
	}
	return n
}

// mustFollowEdge: the same with the edge of a test as trigger (match is given the condition and the edge's truth).
func (c *Ctx) mustFollowEdge(rule string, fn *ssa.Function, trigDesc string, match func(cond ssa.Value, pos bool) bool, effDesc string, eff func(ssa.Instruction) bool, okExit func(ssa.Instruction) bool, req string) int {
	construct := fmt.Sprintf("%s when %s in %s", effDesc, trigDesc, fnName(fn))
	isTest := func(x ssa.Instruction) bool {
		iff, ok := x.(*ssa.If)
		if !ok {
			return false
		}
		for si := 0; si < 2; si++ {
			if cond, pos := ifCond(iff, si == 0); match(cond, pos) {
				return true
			}
		}
		return false
	}
	pend := &pendingEv{name: effDesc + " outstanding", edge: match, eff: eff}
	n := c.mustFollowCore(rule, fn, construct, pend, isTest, okExit, req)
	if n == 0 {
		c.Undec(rule, "test "+trigDesc+" in "+fnName(fn), req, c.P.pos(fn.Pos()), "test not found in this function")
	}
	return n
}
