package main

import (
	"fmt"
	"go/token"
	"go/types"
	"sort"

	"golang.org/x/tools/go/ssa"
)

// stateOptionCtors: the StoreCreateOption constructors that assign
// metapb.Store.State, keyed by the constant state they assign.
func stateOptionCtors(P *Prog) map[*ssa.Function]int64 {
	state := P.Field("github.com/pingcap/kvproto/pkg/metapb", "Store", "State")
	out := map[*ssa.Function]int64{}
	for _, fn := range P.Funcs {
		if P.isScaffold(fn) {
			continue
		}
		for _, st := range storesToField(fn, state) {
			if k, ok := constInt(st.Val); ok {
				out[outer(fn)] = k
			} else {
				out[outer(fn)] = -1
			}
		}
	}
	return out
}

func ruleStoreStateMachine(c *Ctx) {
	P := c.P
	rule := c.Prop + "/state-machine"
	ctors := stateOptionCtors(P)
	if len(ctors) < 3 {
		undecidedf("expected 3 state-setting store options, found %d", len(ctors))
	}
	si := func(m string) Callee { return F(P.Method("server/core", "StoreInfo", m)) }
	isTomb, isDestroyed, isUp := si("IsTombstone"), si("IsPhysicallyDestroyed"), si("IsUp")
	clone := si("Clone")
	rcLock := P.Field("server/cluster", "RaftCluster", "RWMutex")
	getStore := F(P.Method("server/cluster", "RaftCluster", "GetStore"))
	putLocked := F(P.Method("server/cluster", "RaftCluster", "putStoreLocked"))
	stateName := map[int64]string{0: "Up", 1: "Offline", 2: "Tombstone"}
	var ctorList []*ssa.Function
	for f := range ctors {
		ctorList = append(ctorList, f)
	}
	sort.Slice(ctorList, func(i, j int) bool { return ctorList[i].Name() < ctorList[j].Name() })
	nSites := 0
	for _, ctor := range ctorList {
		st := ctors[ctor]
		c.OK(rule, "state option "+fnName(ctor), "assigns the constant state "+stateName[st], P.pos(ctor.Pos()))
		if st < 0 {
			c.Viol(rule, "state option "+fnName(ctor), "assigns a constant state", P.pos(ctor.Pos()), "non-constant state assigned")
			continue
		}
		sites, escapes := c.nonScaffoldCallers(ctor)
		for _, e := range escapes {
			c.Viol(rule, "function value of "+fnName(ctor), "state options are applied only at guarded sites", P.instrPos(e), "")
		}
		for _, s := range sites {
			fn := s.Caller
			nSites++
			c.saw(fnName(fn))
			// the store being cloned: receiver of the Clone call that consumes this option
			var recv ssa.Value
			for _, ci := range callsIn(fn, false, clone) {
				elems, _ := sliceElems(ci.Common().Args[len(ci.Common().Args)-1], map[ssa.Value]bool{})
				for _, e := range elems {
					if e == s.Instr.Value() {
						recv = ci.Common().Args[0]
					}
				}
			}
			construct := fmt.Sprintf("transition to %s in %s", stateName[st], fnName(fn))
			if recv == nil {
				c.Viol(rule, construct, "the option is applied by Clone on a store obtained under the lock", P.instrPos(s.Instr), "option not consumed by StoreInfo.Clone in this function")
				continue
			}
			on := func(cal Callee, want bool, name string) Ev {
				return &guardEv{name: name, match: func(cond ssa.Value, pos bool) bool {
					cl, ok := cond.(*ssa.Call)
					return ok && pos == want && cal.Match(cl.Common()) && len(cl.Call.Args) > 0 && sameVal(cl.Call.Args[0], recv)
				}}
			}
			var evs []Ev
			var req string
			switch st {
			case 0, 1:
				evs = []Ev{on(isTomb, false, "!IsTombstone()"), on(isDestroyed, false, "!IsPhysicallyDestroyed()")}
				req = "dominated by !IsTombstone() ∧ !IsPhysicallyDestroyed() on the same store (a tombstone or destroyed store never becomes " + stateName[st] + " again)"
			case 2:
				evs = []Ev{on(isUp, false, "!IsUp()")}
				req = "dominated by !IsUp() on the same store (only an offline store is buried)"
			}
			target := func(x ssa.Instruction) bool { return x == s.Instr.(ssa.Instruction) }
			_, fails := requireAt(P, fn, 0, evs, target, all)
			c.Check(len(fails) == 0, rule, construct, req, P.instrPos(s.Instr), failDesc(fails))
			// atomic check-then-act: the store was read under the cluster write lock which is still held at the write
			okRecv := valueIsCallTo(recv, getStore)
			c.Check(okRecv, c.Prop+"/state-atomic", construct+" (source)", "the store whose state is tested is the one read by GetStore in this function", P.instrPos(s.Instr), "cloned store is not the result of GetStore here")
			for _, ci := range callsIn(fn, false, getStore, putLocked) {
				okL, tr := heldAt(P, ci.(ssa.Instruction), rcLock, true)
				c.Check(okL, c.Prop+"/state-atomic", fmt.Sprintf("%s in %s", ci.Common().StaticCallee().Name(), fnName(fn)), "the cluster write lock is held from reading the store to publishing its new state", P.instrPos(ci), tr)
			}
		}
	}
	if nSites < 3 {
		c.Undec(rule, "sites applying state options", "at least 3 (up, offline, tombstone)", "", fmt.Sprint(nSites))
	}
	// PhysicallyDestroyed is assigned only by the offline option
	pd := P.Field("github.com/pingcap/kvproto/pkg/metapb", "Store", "PhysicallyDestroyed")
	for name, accs := range P.writersOf(pd) {
		okW := false
		for f, st := range ctors {
			if fnName(f) == name && st == 1 {
				okW = true
			}
		}
		c.Check(okW, rule, "writer "+name+" of PhysicallyDestroyed", "assigned only together with the Offline state", P.instrPos(accs[0].Ins), "")
	}
}

func ruleBuryWhenEmpty(c *Ctx) {
	P := c.P
	rule := c.Prop + "/bury-when-empty"
	bury := P.Method("server/cluster", "RaftCluster", "buryStore")
	count := F(P.Method("server/core", "BasicCluster", "GetStoreRegionCount"))
	sites, escapes := c.nonScaffoldCallers(bury)
	for _, e := range escapes {
		c.Viol(rule, "function value of buryStore", "bury only at guarded sites", P.instrPos(e), "")
	}
	for _, s := range sites {
		c.need(rule, s.Caller, "call buryStore", func(x ssa.Instruction) bool { return x == s.Instr.(ssa.Instruction) },
			[]Ev{guardRel("GetStoreRegionCount(id) == 0", "==", resultOfCall(count), isConstInt(0))}, all,
			"a store is buried only when the region index (not a cached counter) says it holds no peer")
		// same id counted and buried
		for _, ci := range callsIn(s.Caller, false, count) {
			a, b := callArgs(ci.Common()), callArgs(s.Instr.Common())
			if len(a) == 1 && len(b) == 1 {
				c.Check(sameVal(a[0], b[0]), rule, "store id counted vs buried in "+fnName(s.Caller), "the same store id", P.instrPos(s.Instr), "")
			}
		}
	}
	if len(sites) == 0 {
		c.Undec(rule, "callers of buryStore", "found", "", "")
	}
	// the count that decides covers every role a peer can have: leaders, followers and learners
	roles := map[*types.Var]string{}
	for _, n := range []string{"leaders", "followers", "learners"} {
		roles[P.Field("server/core", "RegionsInfo", n)] = n
	}
	seenFn := map[*ssa.Function]bool{}
	got := map[string]bool{}
	var collect func(v ssa.Value, depth int, seen map[ssa.Value]bool)
	collect = func(v ssa.Value, depth int, seen map[ssa.Value]bool) {
		if v == nil || seen[v] || depth < 0 {
			return
		}
		seen[v] = true
		if f := fieldOfAddr(v); f != nil && roles[f] != "" {
			got[roles[f]] = true
		}
		if cl, ok := v.(*ssa.Call); ok {
			if f := cl.Call.StaticCallee(); f != nil && len(f.Blocks) > 0 && fnPkgPath(f) == modPath+"/server/core" && !seenFn[f] {
				seenFn[f] = true
				for _, b := range f.Blocks {
					if r, ok := b.Instrs[len(b.Instrs)-1].(*ssa.Return); ok {
						for i := range r.Results {
							collect(retVal(r, i), depth-1, map[ssa.Value]bool{})
						}
					}
				}
			}
		}
		if ins, ok := v.(ssa.Instruction); ok {
			var ops []*ssa.Value
			for _, op := range ins.Operands(ops) {
				collect(*op, depth-1, seen)
			}
		}
	}
	cf := P.Method("server/core", "BasicCluster", "GetStoreRegionCount")
	c.saw(fnName(cf))
	for _, b := range cf.Blocks {
		if r, ok := b.Instrs[len(b.Instrs)-1].(*ssa.Return); ok && len(r.Results) == 1 {
			collect(retVal(r, 0), 12, map[ssa.Value]bool{})
		}
	}
	for _, n := range []string{"leaders", "followers", "learners"} {
		c.Check(got[n], rule, "GetStoreRegionCount counts the "+n+" index", "the count a store is buried on includes every role a peer can have (a store holding only learners is not empty)", P.pos(cf.Pos()), "the result does not depend on RegionsInfo."+n)
	}
	// RemoveTombStoneRecords deletes only tombstones
	rm := P.Method("server/cluster", "RaftCluster", "RemoveTombStoneRecords")
	// (the deletion itself: the cluster's helper, or the storage / cache deletions written in place)
	dels := []Callee{F(P.Method("server/core", "Storage", "DeleteStore")), F(P.Method("server/core", "BasicCluster", "DeleteStore"))}
	if h := P.methodOptR("server/cluster", "RaftCluster", "deleteStoreLocked"); h != nil {
		dels = append(dels, F(h))
	}
	isTomb := F(P.Method("server/core", "StoreInfo", "IsTombstone"))
	c.need(rule, rm, "deletion of a store record", func(x ssa.Instruction) bool { return isCallTo(x, dels...) }, []Ev{guardCall("IsTombstone()", true, callMatcher(isTomb))}, all, "only tombstone records are deleted")
}

func ruleStorePersistBeforeServe(c *Ctx) {
	P := c.P
	rule := c.Prop + "/persist-before-serve"
	corePut := P.Method("server/core", "BasicCluster", "PutStore")
	coreDel := P.Method("server/core", "BasicCluster", "DeleteStore")
	saveStore := F(P.Method("server/core", "Storage", "SaveStore"))
	delStore := F(P.Method("server/core", "Storage", "DeleteStore"))
	storageF := P.Field("server/cluster", "RaftCluster", "storage")
	volatile := map[string]bool{"SetStoreStats": true, "SetLastHeartbeatTS": true, "SetLastPersistTime": true}
	clone := F(P.Method("server/core", "StoreInfo", "Clone"))
	for _, spec := range []struct {
		pub   *ssa.Function
		store Callee
		what  string
	}{{corePut, saveStore, "PutStore"}, {coreDel, delStore, "DeleteStore"}} {
		sites, _ := c.nonScaffoldCallers(spec.pub)
		n := 0
		for _, s := range sites {
			fn := s.Caller
			if fnPkgPath(fn) == modPath+"/server/core" {
				continue
			}
			n++
			c.saw(fnName(fn))
			construct := fmt.Sprintf("core.%s in %s", spec.what, fnName(fn))
			args := callArgs(s.Instr.Common())
			// heartbeat-style publication: only volatile (never persisted) attributes changed
			if spec.what == "PutStore" && len(args) == 1 {
				onlyVolatile, sawClone := true, false
				for _, v := range valueAlternatives(args[0], 3) {
					cl, _ := callOf(v)
					if cl == nil || !clone.Match(cl.Common()) {
						onlyVolatile = false
						continue
					}
					sawClone = true
					elems, unk := sliceElems(cl.Call.Args[len(cl.Call.Args)-1], map[ssa.Value]bool{})
					if len(unk) > 0 {
						onlyVolatile = false
					}
					for _, e := range elems {
						oc, _ := callOf(e)
						if oc == nil || oc.Call.StaticCallee() == nil || !volatile[oc.Call.StaticCallee().Name()] {
							onlyVolatile = false
						}
					}
					// the clone base must itself be a volatile clone or the served store
				}
				if sawClone && onlyVolatile {
					c.OK(rule, construct, "publishes only volatile attributes (stats, heartbeat/persist time) of the served store", P.instrPos(s.Instr))
					continue
				}
			}
			okSave := newOkEv(fn, "ok(storage."+spec.store.CName()+")", callMatcher(spec.store))
			noStorage := guardRel("storage == nil", "==", loadOfField(storageF), isNilConst)
			_, fails := requireAt(P, fn, 0, []Ev{okSave, noStorage}, func(x ssa.Instruction) bool { return x == s.Instr.(ssa.Instruction) }, anyOf)
			c.Check(len(fails) == 0, rule, construct, "the served store set changes only after the storage write succeeded (a failed write leaves the served state unchanged)", P.instrPos(s.Instr), failDesc(fails))
			// same store saved and served
			if len(args) == 1 {
				okSame := false
				for _, ci := range callsIn(fn, false, spec.store) {
					a := callArgs(ci.Common())
					if len(a) == 1 && derivesFrom(a[0], same(args[0]), 3) {
						okSame = true
					}
				}
				c.Check(okSame, rule, construct+" (same record)", "the record written to storage is the meta of the store that is served", P.instrPos(s.Instr), "")
			}
		}
		if n == 0 {
			c.Undec(rule, "callers of core."+spec.what, "found", "", "")
		}
	}
}

func ruleStoreAdmission(c *Ctx) {
	P := c.P
	rule := c.Prop + "/admission"
	impl := P.Method("server/cluster", "RaftCluster", "putStoreImpl")
	mpb := "github.com/pingcap/kvproto/pkg/metapb"
	getID := F(P.Method(mpb, "Store", "GetId"))
	getAddrM := F(P.Method(mpb, "Store", "GetAddress"))
	getAddrS := F(P.Method("server/core", "StoreInfo", "GetAddress"))
	c.atomRejects(rule, impl, "store id == 0", relMatcher("==", resultOfCall(getID), isConstInt(0)), errReturn)
	c.atomRejects(rule, impl, "same address as another store", relMatcher("==", orPred(resultOfCall(getAddrS), resultOfCall(getAddrM)), orPred(resultOfCall(getAddrS), resultOfCall(getAddrM))), errReturn)
	// the address test applies to every store that is neither tombstone nor physically destroyed
	isTomb := F(P.Method("server/core", "StoreInfo", "IsTombstone"))
	isDestroyed := F(P.Method("server/core", "StoreInfo", "IsPhysicallyDestroyed"))
	c.need(rule, impl, "address comparison", func(x ssa.Instruction) bool {
		b, ok := x.(*ssa.BinOp)
		return ok && (resultOfCall(getAddrS)(b.X) || resultOfCall(getAddrS)(b.Y)) && (resultOfCall(getAddrM)(b.X) || resultOfCall(getAddrM)(b.Y))
	}, []Ev{guardCall("!IsTombstone()", false, callMatcher(isTomb)), guardCall("!IsPhysicallyDestroyed()", false, callMatcher(isDestroyed))}, all,
		"only tombstone or physically destroyed stores are skipped by the duplicate-address test")
	// … and by nothing else: inside the scan, the only tests standing between a registered store and the address
	// comparison are "tombstone", "physically destroyed", "is it the store being put" (id ≠ id) and nil tests; an
	// offline store, or a store with a smaller id, is compared like any other
	ruleAddressScanSkips(c, rule, impl, getAddrS, getAddrM, isTomb, isDestroyed)
	// a re-registration keeps the store's lifecycle state: what is stored for a known id is a clone of the
	// registered store (address, version, labels, start time updated), never a fresh record built from the request —
	// the request always says Up
	getStore := F(P.Method("server/cluster", "RaftCluster", "GetStore"))
	putLocked := F(P.Method("server/cluster", "RaftCluster", "putStoreLocked"))
	clone := F(P.Method("server/core", "StoreInfo", "Clone"))
	isCloneOfRegistered := func(v ssa.Value) bool {
		cl, _ := callOf(v)
		if cl == nil || !clone.Match(cl.Common()) || len(cl.Call.Args) == 0 {
			return false
		}
		return derivesFrom(cl.Call.Args[0], resultOfCall(getStore), 3)
	}
	for _, ci := range callsIn(impl, false, putLocked) {
		a := callArgs(ci.Common())
		if len(a) != 1 {
			continue
		}
		unknown := guardRel("no store registered under the id", "==", resultOfCall(getStore), isNilConst)
		evs := []Ev{unknown}
		formula := func(h []bool) bool { return h[0] }
		if isCloneOfRegistered(a[0]) {
			formula = func(h []bool) bool { return true }
		} else if phi, ok := a[0].(*ssa.Phi); ok {
			trackPhis[impl] = append(trackPhis[impl], phi)
			evs = append(evs, &calledEv{name: "the record is a clone of the registered store", match: func(x ssa.Instruction) bool { return x == ssa.Instruction(phi) && isCloneOfRegistered(resolved(phi)) },
				reset: func(x ssa.Instruction) bool { return x == ssa.Instruction(phi) }})
			formula = func(h []bool) bool { return h[0] || h[1] }
		}
		target := ci.(ssa.Instruction)
		c.need(rule, impl, "record handed to putStoreLocked", func(x ssa.Instruction) bool { return x == target }, evs, formula,
			"for a known id the stored record is a clone of the registered store, so the lifecycle state survives a re-registration")
	}
	// the RPC layer refuses tombstones
	check := P.Func("server", "checkStore")
	getState := F(P.Method("server/core", "StoreInfo", "GetState"))
	found, _ := guardControlsReturn(check, relMatcher("==", resultOfCall(getState), isConstInt(2)), func(r *ssa.Return) bool { return !isNilConst(retVal(r, 0)) })
	c.Check(found, rule, "checkStore", "answers an error for a tombstone store", P.pos(check.Pos()), "")
	// …on the tombstone edge itself (not on its complement)
	c.atomRejects(rule, check, "state == Tombstone ⇒ error answer", relMatcher("==", resultOfCall(getState), isConstInt(2)), func(r *ssa.Return) bool {
		v := retVal(r, 0)
		return v != nil && !isNilConst(v)
	})
	rcPut := F(P.Method("server/cluster", "RaftCluster", "PutStore"))
	rcHB := F(P.Method("server/cluster", "RaftCluster", "HandleStoreHeartbeat"))
	for _, h := range []struct {
		fn  *ssa.Function
		tgt Callee
	}{{P.Method("server", "Server", "PutStore"), rcPut}, {P.Method("server", "Server", "StoreHeartbeat"), rcHB}} {
		g := guardRel("checkStore(...) == nil", "==", resultOfCall(F(check)), isNilConst)
		c.need(rule, h.fn, "call "+h.tgt.CName(), instrCallMatcher(h.tgt), []Ev{g}, all, "re-registrations and heartbeats of a tombstone store are refused")
	}
}

// ruleStoreRMW: a store record is changed by cloning the cached record with
// options and putting the clone back. Reading the cached record and publishing
// the clone must happen under one hold of the cluster lock — a lifecycle
// command that commits in between is otherwise undone by the stale clone
// (a tombstone comes back to life through a heartbeat).
func ruleStoreRMW(c *Ctx) {
	P := c.P
	rule := c.Prop + "/store-rmw-atomic"
	corePut := P.Method("server/core", "BasicCluster", "PutStore")
	getStore := P.Method("server/cluster", "RaftCluster", "GetStore")
	sites, _ := c.nonScaffoldCallers(corePut)
	done := map[*ssa.Function]bool{}
	n := 0
	for _, s := range sites {
		fn := s.Caller
		if fnPkgPath(fn) != modPath+"/server/cluster" || done[fn] {
			continue
		}
		done[fn] = true
		if len(callsIn(fn, false, F(getStore))) == 0 {
			continue
		}
		n++
		c.atomicRMW(rule, fn, F(getStore), F(corePut))
	}
	// … and the same through the persisting helper: a function that derives the record it hands to
	// putStoreLocked from a store it looked up holds the lock from the lookup on (a label update that clones
	// a store read before the lock writes back a lifecycle state that may have changed meanwhile)
	putLocked := P.Method("server/cluster", "RaftCluster", "putStoreLocked")
	sites2, _ := c.nonScaffoldCallers(putLocked)
	for _, s := range sites2 {
		fn := s.Caller
		if fnPkgPath(fn) != modPath+"/server/cluster" || done[fn] {
			continue
		}
		done[fn] = true
		if len(callsIn(fn, false, F(getStore))) == 0 {
			continue
		}
		n++
		c.atomicRMW(rule, fn, F(getStore), F(putLocked))
	}
	if n == 0 {
		c.Undec(rule, "functions that read a store and put it back", "at least one", "", "")
	}
}

// ruleAddressScanAlways: the duplicate-address scan is part of every accepted
// put — also of a known store id re-registering with a new address.
func ruleAddressScanAlways(c *Ctx) {
	P := c.P
	rule := c.Prop + "/admission"
	impl := P.Method("server/cluster", "RaftCluster", "putStoreImpl")
	putLocked := F(P.Method("server/cluster", "RaftCluster", "putStoreLocked"))
	getStores := F(P.Method("server/cluster", "RaftCluster", "GetStores"))
	scanned := &calledEv{name: "the other stores were enumerated (GetStores)", match: instrCallMatcher(getStores)}
	c.need(rule, impl, "call putStoreLocked", instrCallMatcher(putLocked), []Ev{scanned}, all,
		"every put that is persisted went through the duplicate-address scan, whether the store id is new or known")
}

func init() {
	register("C14", "Store lifecycle is a one-way state machine and stays durable", func(c *Ctx) {
		c.Group("C14/state-machine", "State is assigned only by three constant options; each is applied only under its typestate guard on the store read under the cluster write lock (held until the new state is published)", func() { ruleStoreStateMachine(c) })
		c.Group("C14/bury-when-empty", "buryStore is called only under GetStoreRegionCount(id) == 0; only tombstones are deleted", func() { ruleBuryWhenEmpty(c) })
		c.Group("C14/role-index-table", "(shared with C07) the count a store is buried on is complete: every voter, learner and pending peer of a region is filed in its per-store index, whatever its joint-consensus role", func() { ruleRoleIndexTable(c) })
		c.Group("C14/persist-before-serve", "the served store set changes only after the storage write succeeded, with the same record; heartbeats publish volatile attributes only", func() { ruleStorePersistBeforeServe(c); ruleSavedStoreIsServed(c); ruleWeightsStoredAsServed(c) })
		c.Group("C14/admission", "id 0 and duplicate addresses (among live stores) are rejected; tombstones are refused at the RPC", func() { ruleStoreAdmission(c); ruleAddressScanAlways(c) })
		c.Group("C14/store-rmw-atomic", "reading a cached store and publishing its modified clone happen under one hold of the cluster lock", func() { ruleStoreRMW(c); ruleRegistrationChecksUnderLock(c) })
	})
}

// ruleSavedStoreIsServed: the converse of persist-before-serve. A function of
// the cluster that writes a store record to storage and reports success has
// published that record in the served store set (and one that deletes a record
// has dropped it): what is stored and what is served stay equal.
func ruleSavedStoreIsServed(c *Ctx) {
	P := c.P
	rule := c.Prop + "/persist-before-serve"
	pairs := []struct {
		store, pub Callee
		what       string
	}{
		{F(P.Method("server/core", "Storage", "SaveStore")), F(P.Method("server/core", "BasicCluster", "PutStore")), "saved → served"},
		{F(P.Method("server/core", "Storage", "DeleteStore")), F(P.Method("server/core", "BasicCluster", "DeleteStore")), "deleted → dropped"},
	}
	n := 0
	for _, fn := range P.Funcs {
		if P.isScaffold(fn) || fnPkgPath(fn) != modPath+"/server/cluster" || fn.Parent() != nil {
			continue
		}
		for _, pr := range pairs {
			if len(callsIn(fn, false, pr.store)) == 0 {
				continue
			}
			n++
			c.mustFollow(rule, fn, "the storage write ("+pr.what+")", instrCallMatcher(pr.store), "the matching update of the served store set", instrCallMatcher(pr.pub), errorExit,
				"after a store record was written (deleted) and the function goes on to report success, the served store set is updated with it")
		}
	}
	if n < 2 {
		c.Undec(rule, "cluster functions writing store records", "at least 2 (putStoreLocked, the tombstone removal)", "", fmt.Sprint(n))
	}
}

// ruleWeightsStoredAsServed: SetStoreWeight writes to storage the very values
// it installs in the served store: leader weight with leader weight, region
// weight with region weight.
func ruleWeightsStoredAsServed(c *Ctx) {
	P := c.P
	rule := c.Prop + "/persist-before-serve"
	fn := P.Method("server/cluster", "RaftCluster", "SetStoreWeight")
	save := F(P.Method("server/core", "Storage", "SaveStoreWeight"))
	optL := F(P.Func("server/core", "SetLeaderWeight"))
	optR := F(P.Func("server/core", "SetRegionWeight"))
	var savedL, savedR, servedL, servedR ssa.Value
	for _, ci := range callsIn(fn, false, save) {
		if a := callArgs(ci.Common()); len(a) == 3 {
			savedL, savedR = a[1], a[2]
		}
	}
	for _, ci := range callsIn(fn, false, optL) {
		if a := callArgs(ci.Common()); len(a) == 1 {
			servedL = a[0]
		}
	}
	for _, ci := range callsIn(fn, false, optR) {
		if a := callArgs(ci.Common()); len(a) == 1 {
			servedR = a[0]
		}
	}
	if savedL == nil || servedL == nil || servedR == nil {
		c.Undec(rule, "weights in "+fnName(fn), "SaveStoreWeight and the SetLeaderWeight / SetRegionWeight options found", P.pos(fn.Pos()), "")
		return
	}
	c.Check(sameVal(savedL, servedL) && sameVal(savedR, servedR), rule, "weights written by "+fnName(fn), "the leader (region) weight written to storage is the leader (region) weight installed in the served store", P.pos(fn.Pos()), "stored and served weights are different values")
}

// ruleRegistrationChecksUnderLock: everything putStoreImpl decides on — the
// address scan over the registered stores, the lookup of the store itself — is
// read with the cluster lock held, the same hold under which the record is
// written.
func ruleRegistrationChecksUnderLock(c *Ctx) {
	P := c.P
	rule := c.Prop + "/store-rmw-atomic"
	impl := P.Method("server/cluster", "RaftCluster", "putStoreImpl")
	lock := P.Field("server/cluster", "RaftCluster", "RWMutex")
	n := 0
	for _, name := range []string{"GetStores", "GetStore"} {
		g := F(P.Method("server/cluster", "RaftCluster", name))
		for _, ci := range callsIn(impl, false, g) {
			n++
			held, tr := heldAt(P, ci.(ssa.Instruction), lock, true)
			c.Check(held, rule, fmt.Sprintf("read of the registered stores (%s) in %s #%d", name, fnName(impl), n), "made with the cluster's write lock held", P.instrPos(ci.(ssa.Instruction)), tr)
		}
	}
	if n < 2 {
		c.Undec(rule, "reads of the registered stores in "+fnName(impl), "at least 2 (address scan, lookup)", "", fmt.Sprint(n))
	}
}

func ruleAddressScanSkips(c *Ctx, rule string, impl *ssa.Function, getAddrS, getAddrM, isTomb, isDestroyed Callee) {
	P := c.P
	mpb := "github.com/pingcap/kvproto/pkg/metapb"
	idGetters := []Callee{F(P.Method(mpb, "Store", "GetId")), F(P.Method("server/core", "StoreInfo", "GetID"))}
	isID := func(v ssa.Value) bool {
		for _, g := range idGetters {
			if resultOfCall(g)(v) {
				return true
			}
		}
		return false
	}
	isAddr := func(v ssa.Value) bool { return resultOfCall(getAddrS)(v) || resultOfCall(getAddrM)(v) }
	n := 0
	for _, fn := range withCallees(impl, 1) {
		var cmpBlock *ssa.BasicBlock
		for _, b := range fn.Blocks {
			for _, ins := range b.Instrs {
				if bo, ok := ins.(*ssa.BinOp); ok && isAddr(bo.X) && isAddr(bo.Y) {
					cmpBlock = b
				}
			}
		}
		if cmpBlock == nil {
			continue
		}
		var loop *loopInfo
		for _, l := range loopsOf(fn) {
			l := l
			if l.blocks[cmpBlock] && (loop == nil || len(l.blocks) < len(loop.blocks)) {
				loop = &l
			}
		}
		if loop == nil {
			continue
		}
		n++
		bad, where := "", P.pos(fn.Pos())
		for b := range loop.blocks {
			iff, ok := b.Instrs[len(b.Instrs)-1].(*ssa.If)
			if !ok {
				continue
			}
			if b == loop.header && (!loop.blocks[b.Succs[0]] || !loop.blocks[b.Succs[1]]) {
				continue // the loop's own exit test
			}
			for _, leaf := range condLeaves(iff.Cond) {
				v, _ := normCond(leaf.v, true)
				v = strip(v)
				okLeaf := false
				switch x := v.(type) {
				case *ssa.Call:
					okLeaf = isTomb.Match(&x.Call) || isDestroyed.Match(&x.Call)
				case *ssa.BinOp:
					switch {
					case isAddr(x.X) && isAddr(x.Y):
						okLeaf = x.Op == token.EQL || x.Op == token.NEQ
					case isID(x.X) && isID(x.Y):
						okLeaf = x.Op == token.EQL || x.Op == token.NEQ
						if !okLeaf && bad == "" {
							bad, where = "the put store is told apart by an ordering of ids ("+x.Op.String()+"), not by identity", P.instrPos(iff)
						}
					case isNilConst(x.X) || isNilConst(x.Y):
						okLeaf = true
					}
				}
				if !okLeaf && bad == "" {
					bad, where = "a further test decides whether a registered store is compared: "+v.String(), P.instrPos(iff)
				}
			}
		}
		c.Check(bad == "", rule, "tests inside the duplicate-address scan of "+fnName(fn), "a registered store is left out of the comparison only for being tombstone, physically destroyed or the put store itself (id identity)", where, bad)
	}
	if n == 0 {
		c.Undec(rule, "duplicate-address scan loop in "+fnName(impl), "found", P.pos(impl.Pos()), "no loop holds an address comparison")
	}
}
