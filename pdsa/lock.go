package main

// E2: lockset analysis over the same product-reachability engine.
// A lock is identified by the struct field that declares the mutex (embedded
// sync.RWMutex fields included); instances are not distinguished (no pointer
// analysis available) — every guarded access in pd goes through the declaring
// type's own methods, which E1 ownership rules confirm separately.

import (
	"fmt"
	"go/token"
	"go/types"
	"sort"
	"strings"

	"golang.org/x/tools/go/ssa"
)

// lockOp classifies a call as a mutex operation on a declared field.
func lockOp(ins ssa.Instruction) (field *types.Var, op string, deferred bool) {
	ci, ok := ins.(ssa.CallInstruction)
	if !ok {
		return nil, "", false
	}
	if _, isGo := ins.(*ssa.Go); isGo {
		return nil, "", false
	}
	_, deferred = ins.(*ssa.Defer)
	cc := ci.Common()
	callee := cc.StaticCallee()
	if callee == nil || callee.Signature.Recv() == nil || len(cc.Args) == 0 {
		return nil, "", false
	}
	n := namedOf(callee.Signature.Recv().Type())
	if n == nil || n.Obj().Pkg() == nil || n.Obj().Pkg().Path() != "sync" {
		return nil, "", false
	}
	if n.Obj().Name() != "Mutex" && n.Obj().Name() != "RWMutex" {
		return nil, "", false
	}
	switch callee.Name() {
	case "Lock", "RLock", "Unlock", "RUnlock":
	default:
		return nil, "", false
	}
	f := fieldOfAddr(cc.Args[0])
	if f == nil {
		return nil, "", false
	}
	return f, callee.Name(), deferred
}

const (
	lkW uint8 = 1
	lkR uint8 = 2
)

type lockEv struct {
	field *types.Var
	needW bool
}

func (l *lockEv) Name() string {
	m := "R"
	if l.needW {
		m = "W"
	}
	return "holds(" + l.field.Name() + ":" + m + ")"
}
func (l *lockEv) Instr(st uint8, ins ssa.Instruction) uint8 {
	f, op, deferred := lockOp(ins)
	if f != l.field || deferred {
		return st
	}
	switch op {
	case "Lock":
		return st | lkW
	case "RLock":
		return st | lkR
	case "Unlock":
		return st &^ lkW
	case "RUnlock":
		return st &^ lkR
	}
	return st
}
func (l *lockEv) Edge(st uint8, _ *ssa.BasicBlock, _ int) uint8 { return st }
func (l *lockEv) Holds(st uint8) bool {
	if l.needW {
		return st&lkW != 0
	}
	return st&(lkW|lkR) != 0
}

// heldAt: is the lock held (in the required mode) in every product state
// reaching ins inside its own function?
func heldAt(P *Prog, ins ssa.Instruction, lock *types.Var, needW bool) (bool, string) {
	fn := ins.Parent()
	ev := &lockEv{lock, needW}
	_, fails := requireAt(P, fn, 0, []Ev{ev}, func(i ssa.Instruction) bool { return i == ins }, all)
	if len(fails) > 0 {
		return false, fails[0].Trace
	}
	return true, ""
}

// callersHold: every call site of fn holds the lock, directly or because the
// calling function is itself only called with the lock held (depth-bounded).
func callersHold(P *Prog, fn *ssa.Function, lock *types.Var, needW bool, depth int, seen map[*ssa.Function]bool) (bool, string) {
	if seen[fn] {
		return true, ""
	}
	seen[fn] = true
	if fn.Parent() != nil {
		// closure: find how it is used in the parent
		return closureHeld(P, fn, lock, needW, depth, seen)
	}
	sites, valueUses := P.CallersAll(fn)
	if len(sites) == 0 && len(valueUses) == 0 {
		if fn.Object() != nil && !fn.Object().Exported() {
			// unexported and unreferenced in non-test code: dead outside tests, cannot race in production
			return true, ""
		}
		return false, fmt.Sprintf("%s has no callers and does not take the lock itself", fnName(fn))
	}
	for _, vu := range valueUses {
		if P.isScaffold(vu.Parent()) {
			continue
		}
		// a method value that is only ever called where it was made (f := m.step; … f()) is a call at those
		// places; anything else (passed on, stored, returned) escapes
		if calls, local := localCallsOfFuncValue(vu); local {
			for _, cl := range calls {
				if ok, _ := heldAt(P, cl, lock, needW); !ok {
					if depth <= 0 {
						return false, fmt.Sprintf("call of %s (through a function value) at %s without %s", fnName(fn), P.instrPos(cl), lock.Name())
					}
					if ok2, why := callersHold(P, cl.Parent(), lock, needW, depth-1, seen); !ok2 {
						return false, fmt.Sprintf("call of %s (through a function value) at %s without %s; and %s", fnName(fn), P.instrPos(cl), lock.Name(), why)
					}
				}
			}
			continue
		}
		// a bound method handed as a callback to a call made right there (storage.LoadX(m.loadOne)) runs inside that
		// call, like a function literal in the same place would
		if mc, isMC := vu.(*ssa.MakeClosure); isMC {
			okAll, why := true, ""
			refs := *mc.Referrers()
			if len(refs) == 0 {
				okAll = false
			}
			for _, ref := range refs {
				ci, isCall := ref.(ssa.CallInstruction)
				if _, isGo := ref.(*ssa.Go); !isCall || isGo {
					okAll, why = false, fmt.Sprintf("%s escapes as a function value at %s", fnName(fn), P.instrPos(vu))
					break
				}
				if ok, _ := heldAt(P, ci, lock, needW); ok {
					continue
				}
				if depth <= 0 {
					okAll, why = false, fmt.Sprintf("%s used as a callback at %s without %s", fnName(fn), P.instrPos(ci), lock.Name())
					break
				}
				if ok2, w := callersHold(P, vu.Parent(), lock, needW, depth-1, seen); !ok2 {
					okAll, why = false, w
					break
				}
			}
			if okAll {
				continue
			}
			return false, why
		}
		return false, fmt.Sprintf("%s escapes as a function value at %s", fnName(fn), P.instrPos(vu))
	}
	for _, cs := range sites {
		if P.isScaffold(cs.Caller) {
			continue
		}
		if _, isGo := cs.Instr.(*ssa.Go); isGo {
			return false, fmt.Sprintf("%s started as goroutine at %s", fnName(fn), P.instrPos(cs.Instr))
		}
		ok, _ := heldAt(P, cs.Instr, lock, needW)
		if ok {
			continue
		}
		// constructor: the receiver was allocated in the calling function and has not escaped yet
		if r := callRecv(cs.Instr.Common()); r != nil && isFreshBase(r) {
			continue
		}
		if depth <= 0 {
			return false, fmt.Sprintf("call of %s at %s (%s) without %s", fnName(fn), P.instrPos(cs.Instr), fnName(cs.Caller), lock.Name())
		}
		ok2, why := callersHold(P, cs.Caller, lock, needW, depth-1, seen)
		if !ok2 {
			return false, fmt.Sprintf("call of %s at %s (%s) without %s; and %s", fnName(fn), P.instrPos(cs.Instr), fnName(cs.Caller), lock.Name(), why)
		}
	}
	return true, ""
}

// closureHeld: an anonymous function inherits the lockset of the point where
// it is invoked synchronously (called or deferred inside the critical section,
// or passed to a callee invoked there); a `go` closure holds nothing.
func closureHeld(P *Prog, fn *ssa.Function, lock *types.Var, needW bool, depth int, seen map[*ssa.Function]bool) (bool, string) {
	parent := fn.Parent()
	for _, b := range parent.Blocks {
		for _, ins := range b.Instrs {
			mc, ok := ins.(*ssa.MakeClosure)
			if !ok || mc.Fn != fn {
				continue
			}
			for _, ref := range *mc.Referrers() {
				switch r := ref.(type) {
				case *ssa.Go:
					return false, fmt.Sprintf("closure %s runs as a goroutine (%s)", fnName(fn), P.instrPos(r))
				case *ssa.Defer:
					// runs at function exit: lock must be held by defer (i.e. still held at exit).
					// Conservative: require lock held at the defer statement and never unlocked explicitly.
					if ok, _ := heldAt(P, r, lock, needW); ok {
						continue
					}
					if ok2, why := callersHold(P, parent, lock, needW, depth-1, seen); !ok2 {
						return false, why
					}
				case ssa.CallInstruction:
					if ok, _ := heldAt(P, r, lock, needW); ok {
						continue
					}
					if depth <= 0 {
						return false, fmt.Sprintf("closure used at %s without %s", P.instrPos(r), lock.Name())
					}
					if ok2, why := callersHold(P, parent, lock, needW, depth-1, seen); !ok2 {
						return false, why
					}
				default:
					// stored somewhere: unknown invocation context
					return false, fmt.Sprintf("closure %s escapes at %s", fnName(fn), P.instrPos(ref))
				}
			}
		}
	}
	return true, ""
}

// fieldAccess is one access to a struct field found in the program.
type fieldAccess struct {
	Ins   ssa.Instruction // the FieldAddr / Field instruction
	Fn    *ssa.Function
	Write bool
	Init  bool // base object was allocated in the same function (construction)
}

// accessesOf enumerates every access to field f in non-scaffold module code.
func (P *Prog) accessesOf(f *types.Var) []fieldAccess {
	var out []fieldAccess
	for _, fn := range P.Funcs {
		for _, b := range fn.Blocks {
			for _, ins := range b.Instrs {
				switch x := ins.(type) {
				case *ssa.FieldAddr:
					if fieldOfAddr(x) != f {
						continue
					}
					out = append(out, fieldAccess{x, fn, addrWritten(x), isFreshBase(x.X)})
				case *ssa.Field:
					if fieldOfField(x) == f {
						out = append(out, fieldAccess{x, fn, false, false})
					}
				}
			}
		}
	}
	return out
}

// addrWritten: is the addressed location (or the map/slice stored in it)
// mutated through this address?
func addrWritten(addr ssa.Value) bool {
	refs := addr.Referrers()
	if refs == nil {
		return false
	}
	for _, r := range *refs {
		switch x := r.(type) {
		case *ssa.Store:
			if x.Addr == addr {
				return true
			}
		case *ssa.UnOp:
			if x.Op == token.MUL && contentMutated(x) {
				return true
			}
		case *ssa.FieldAddr: // nested struct field: written if the nested address is written
			if addrWritten(x) {
				return true
			}
		case *ssa.IndexAddr: // array field element
			if addrWritten(x) {
				return true
			}
		case ssa.CallInstruction:
			// address passed to sync/atomic store-like functions
			if c := x.Common().StaticCallee(); c != nil && c.Pkg != nil && c.Pkg.Pkg.Path() == "sync/atomic" {
				n := c.Name()
				if strings.HasPrefix(n, "Store") || strings.HasPrefix(n, "Add") || strings.HasPrefix(n, "Swap") || strings.HasPrefix(n, "CompareAndSwap") {
					return true
				}
			}
		}
	}
	return false
}

// contentMutated: v is a loaded map/slice whose content is mutated.
func contentMutated(v ssa.Value) bool {
	refs := v.Referrers()
	if refs == nil {
		return false
	}
	for _, r := range *refs {
		switch x := r.(type) {
		case *ssa.MapUpdate:
			if x.Map == v {
				return true
			}
		case *ssa.IndexAddr:
			if x.X == v && addrWritten(x) {
				return true
			}
		case *ssa.Call:
			if b, ok := x.Call.Value.(*ssa.Builtin); ok && b.Name() == "delete" && len(x.Call.Args) > 0 && x.Call.Args[0] == v {
				return true
			}
		}
	}
	return false
}

func isFreshBase(v ssa.Value) bool {
	for {
		switch x := v.(type) {
		case *ssa.Alloc:
			return true
		case *ssa.Phi:
			return false
		case *ssa.Call:
			// result of a constructor called in this function: created here, not yet shared
			if f := x.Call.StaticCallee(); f != nil && strings.HasPrefix(f.Name(), "New") {
				if rn, cn := namedOf(x.Type()), namedOf(f.Signature.Results().At(0).Type()); rn != nil && rn == cn {
					return true
				}
			}
			return false
		case *ssa.FieldAddr:
			v = x.X
		case *ssa.IndexAddr:
			v = x.X
		default:
			return false
		}
	}
}

// guardedBy checks obligation (i): every access to field f holds lock (W for
// writes). exempt lists functions (by SSA name) excused with a reason.
func guardedBy(c *Ctx, rule string, f *types.Var, lock *types.Var, exempt map[string]string) int {
	P := c.P
	n := 0
	type key struct {
		fn    string
		write bool
	}
	done := map[key]bool{}
	accs := P.accessesOf(f)
	sort.SliceStable(accs, func(i, j int) bool { return accs[i].Ins.Pos() < accs[j].Ins.Pos() })
	for _, a := range accs {
		if P.isScaffold(a.Fn) || a.Init {
			continue
		}
		name := fnName(a.Fn)
		c.saw(name)
		mode := "read"
		if a.Write {
			mode = "write"
		}
		construct := fmt.Sprintf("%s of %s in %s", mode, f.Name(), name)
		req := fmt.Sprintf("holds %s (%s)", lock.Name(), map[bool]string{true: "W", false: ">=R"}[a.Write])
		if why, ok := exempt[name]; ok {
			if !done[key{name, a.Write}] {
				c.Info(rule, construct, req, P.instrPos(a.Ins), "exempt: "+why)
				done[key{name, a.Write}] = true
			}
			continue
		}
		ok, trace := heldAt(P, a.Ins, lock, a.Write)
		detail := ""
		if !ok {
			ok2, why := callersHold(P, a.Fn, lock, a.Write, 3, map[*ssa.Function]bool{})
			ok = ok2
			if !ok {
				detail = "not held on path " + trace + "; callers: " + why
			}
		}
		if ok && done[key{name, a.Write}] {
			continue
		}
		done[key{name, a.Write}] = true
		n++
		c.Check(ok, rule, construct, req, P.instrPos(a.Ins), detail)
	}
	return n
}

// writersOf lists the (outermost) functions that write field f outside
// construction and scaffolding.
func (P *Prog) writersOf(f *types.Var) map[string][]fieldAccess {
	out := map[string][]fieldAccess{}
	for _, a := range P.accessesOf(f) {
		if !a.Write || a.Init || P.isScaffold(a.Fn) {
			continue
		}
		n := fnName(outer(a.Fn))
		out[n] = append(out[n], a)
	}
	return out
}

// localCallsOfFuncValue: ins creates a function value (MakeClosure of a bound
// wrapper). If every use of that value — through φs and local variables — is
// being called, the calls are returned and local is true.
func localCallsOfFuncValue(ins ssa.Instruction) (calls []ssa.Instruction, local bool) {
	mc, ok := ins.(*ssa.MakeClosure)
	if !ok {
		return nil, false
	}
	seen := map[ssa.Value]bool{}
	var walk func(v ssa.Value) bool
	walk = func(v ssa.Value) bool {
		if seen[v] {
			return true
		}
		seen[v] = true
		refs := v.Referrers()
		if refs == nil {
			return false
		}
		for _, r := range *refs {
			switch t := r.(type) {
			case *ssa.Call:
				if t.Call.Value != v {
					return false // passed as an argument
				}
				calls = append(calls, t)
			case *ssa.Phi:
				if !walk(t) {
					return false
				}
			case *ssa.Store:
				al, isLocal := t.Addr.(*ssa.Alloc)
				if !isLocal || t.Val != v || al.Heap {
					return false
				}
				for _, lr := range *al.Referrers() {
					switch u := lr.(type) {
					case *ssa.Store:
						if u.Addr != ssa.Value(al) {
							return false
						}
					case *ssa.UnOp:
						if !walk(u) {
							return false
						}
					case *ssa.DebugRef:
					default:
						return false
					}
				}
			case *ssa.DebugRef:
			default:
				return false
			}
		}
		return true
	}
	if !walk(mc) {
		return nil, false
	}
	return calls, len(calls) > 0
}
