package main

import (
	"flag"
	"fmt"
	"os"
	"sort"
	"strings"
	"time"
)

type propCheck struct {
	ID    string
	Title string
	Run   func(c *Ctx)
}

var registry = map[string]*propCheck{}

func register(id, title string, run func(c *Ctx)) { registry[id] = &propCheck{id, title, run} }

func main() {
	if len(os.Args) < 2 {
		usage()
	}
	switch os.Args[1] {
	case "check":
		os.Exit(cmdCheck(os.Args[2:]))
	case "list":
		var ids []string
		for id := range registry {
			ids = append(ids, id)
		}
		sort.Strings(ids)
		for _, id := range ids {
			fmt.Println(id, registry[id].Title)
		}
	case "txns":
		P, err := loadProg("/repo", false, nil)
		if err != nil {
			fmt.Println(err)
			os.Exit(2)
		}
		for _, s := range P.txnSites() {
			g, why := false, ""
			func() {
				defer func() { recover() }()
				g, why = s.leaderGuarded(P)
			}()
			fmt.Printf("%s %-6s %-60s key=%s lease=%v then=%v origin=%s if=%v leaderGuard=%v (%s) commit=%v\n", P.instrPos(s.Op), s.Kind, fnName(s.Fn), s.KeyAtoms, s.Lease, s.Then != nil, s.Origin, s.HasIf, g, why, s.Commit != nil)
		}
	case "idkind":
		P, err := loadProg("/repo", false, nil)
		if err != nil {
			fmt.Println(err)
			os.Exit(2)
		}
		ki := runKindInference(P)
		fmt.Printf("%d functions, %d nodes, %d raw conflicts\n", ki.nFuncs, len(ki.nodes), len(ki.conflicts))
		for _, c := range ki.report() {
			fmt.Printf("%s in %s: %s (%s) vs %s (%s) at: %s\n", P.pos(c.Pos), fnName(c.Fn), c.A, c.SeedA, c.B, c.SeedB, c.Detail)
		}
	case "filters":
		P, err := loadProg("/repo", false, nil)
		if err != nil {
			fmt.Println(err)
			os.Exit(2)
		}
		for _, fn := range P.Funcs {
			pk := fnPkgPath(fn)
			if P.isScaffold(fn) || !(strings.HasSuffix(pk, "/schedulers") || strings.HasSuffix(pk, "/schedule") || strings.HasSuffix(pk, "/checker")) {
				continue
			}
			for _, fs := range P.filterSetsIn(fn) {
				fmt.Printf("%s %-70s %s %-18s %s\n", P.instrPos(fs.Site), fnName(fn), fs.Mode, fs.Callee, fs)
			}
		}
	case "errdisc":
		P, err := loadProg("/repo", false, nil)
		if err != nil {
			fmt.Println(err)
			os.Exit(2)
		}
		cmdErrDisc(P, os.Args[2:])
	case "selftest":
		os.Exit(cmdSelftest(os.Args[2:]))
	default:
		usage()
	}
}

func usage() {
	fmt.Fprintln(os.Stderr, "usage: pdsa check -prop Cnn[,Cmm|all] [-tier quick|thorough] [-repo /repo] [-verif /verif]\n       pdsa selftest -prop Cnn|all\n       pdsa list")
	os.Exit(2)
}

func cmdCheck(args []string) int {
	fs := flag.NewFlagSet("check", flag.ExitOnError)
	prop := fs.String("prop", "", "property id(s), comma separated, or all")
	tier := fs.String("tier", envOr("VERIF_TIER", "quick"), "quick|thorough")
	repo := fs.String("repo", "/repo", "pd working tree")
	verif := fs.String("verif", "/verif", "verif dir (evidence, known findings)")
	overlay := fs.String("overlay", "", "internal: file=replacement pairs (comma separated) analysed in memory instead of the on-disk file")
	noMut := fs.Bool("no-mutants", false, "thorough tier: skip the mutant sensitivity self-test")
	recBase := fs.Bool("record-baseline", false, "maintenance: record fingerprints of every resolved rule subject into <verif>/baseline/fingerprints.json")
	fs.Parse(args)
	if *tier != "quick" && *tier != "thorough" {
		*tier = "quick"
	}
	var ids []string
	if *prop == "all" {
		for id := range registry {
			ids = append(ids, id)
		}
		sort.Strings(ids)
	} else {
		ids = strings.Split(*prop, ",")
	}
	for _, id := range ids {
		if registry[id] == nil {
			fmt.Fprintf(os.Stderr, "unknown property %q\n", id)
			return 2
		}
	}
	start := time.Now()
	recordBase = *recBase
	verifDirG = *verif
	ov := map[string][]byte{}
	if *overlay != "" {
		for _, kv := range strings.Split(*overlay, ",") {
			p := strings.SplitN(kv, "=", 2)
			b, err := os.ReadFile(p[1])
			if err != nil {
				fmt.Fprintln(os.Stderr, err)
				return 2
			}
			ov[p[0]] = b
		}
	}
	P, err := loadProg(*repo, *tier == "thorough", ov)
	if err != nil {
		fmt.Printf("UNDECIDED: cannot load %s: %v\n", *repo, err)
		return 2
	}
	var inlineNotes []string
	if !*recBase {
		if res := planInline(P, ov); res != nil {
			inlineNotes = res.Notes
			if os.Getenv("PDSA_DUMP_INLINE") != "" && len(res.Overlay) == 0 {
				for _, n := range res.Notes {
					fmt.Println("inline:", n)
				}
			}
			if len(res.Overlay) > 0 {
				merged := map[string][]byte{}
				for k, v := range ov {
					merged[k] = v
				}
				for k, v := range res.Overlay {
					merged[k] = v
				}
				if os.Getenv("PDSA_DUMP_INLINE") != "" {
					for _, n := range res.Notes {
						fmt.Println("inline:", n)
					}
					for k, v := range res.Overlay {
						fmt.Printf("---- expanded %s ----\n%s\n", k, v)
					}
				}
				inv := P.inventory()
				P = nil
				P2, err := loadProg(*repo, *tier == "thorough", merged)
				if err != nil {
					fmt.Printf("UNDECIDED: cannot load %s with new helpers expanded: %v\n", *repo, err)
					return 2
				}
				P = P2
				_ = inv
			}
		}
	}
	P.LoadS = time.Since(start).Seconds()
	exit := 0
	for _, id := range ids {
		t0 := start // wall time includes loading and SSA construction of /repo
		c := &Ctx{P: P, Prop: id, Tier: *tier}
		registry[id].Run(c)
		c.Group(id+"/error-discipline", "in the property's anchor files no function reports success after a call of one of the module's own fallible functions whose error was not found nil, logged, matched with a sentinel, or listed as deliberately ignored", func() { ruleErrorDiscipline(c); ruleNoSwallowedFailure(c) })
		extra := map[string]interface{}{"load_s": P.LoadS}
		if len(renamesSeen) > 0 {
			extra["subjects_resolved_by_fingerprint"] = dedupe(renamesSeen)
		}
		if len(inlineNotes) > 0 {
			extra["new_helpers_expanded"] = inlineNotes
		}
		if *tier == "thorough" && !*noMut && *overlay == "" {
			runMutants(c, *repo, *verif, extra)
		}
		if *overlay != "" {
			// mutant run: never touch the real evidence
			e := c.finishQuiet()
			if e > exit {
				exit = e
			}
			continue
		}
		e := c.Finish(*verif, t0, extra)
		if e == 1 || (e == 2 && exit == 0) {
			exit = e
		}
	}
	if *recBase {
		if err := writeRecordedBaseline(*verif, P.inventory()); err != nil {
			fmt.Println("cannot write baseline:", err)
			return 2
		}
		fmt.Printf("baseline: %d functions, %d fields recorded\n", len(recorded.Funcs), len(recorded.Fields))
	}
	return exit
}

func envOr(k, d string) string {
	if v := os.Getenv(k); v != "" {
		return v
	}
	return d
}

// finishQuiet prints only non-OK obligations and returns the exit code
// without writing evidence (used for overlay/mutant runs).
func (c *Ctx) finishQuiet() int {
	findings := loadFindings("/verif")
	known := map[string]bool{}
	for _, f := range findings {
		if f.Property == c.Prop && f.Status == "known" {
			known[f.Rule+"|"+f.Construct] = true
		}
	}
	nV, nU := 0, 0
	for _, o := range c.Obls {
		switch o.Verdict {
		case VIOLATION:
			if known[o.Key()] {
				continue
			}
			nV++
			fmt.Printf("MUTANT-VIOLATION %s [%s] %s :: %s\n", o.Pos, o.Key(), o.Req, o.Detail)
		case UNDECIDED:
			nU++
			fmt.Printf("MUTANT-UNDECIDED %s [%s] %s :: %s\n", o.Pos, o.Key(), o.Req, o.Detail)
		}
	}
	if nV > 0 {
		return 1
	}
	if nU > 0 {
		return 2
	}
	return 0
}

func dedupe(in []string) []string {
	seen := map[string]bool{}
	var out []string
	for _, s := range in {
		if !seen[s] {
			seen[s] = true
			out = append(out, s)
		}
	}
	return out
}
