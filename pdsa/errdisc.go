package main

// Exploratory/shared engine: error discipline over a set of files. For every
// function declared in one of the files that returns an error, and every
// callee (static or interface) it calls that itself returns an error, a nil
// error is returned only when each such call made so far was found nil, or
// its error was deliberately handled (found non-nil and acted on).

import (
	"fmt"
	"go/types"
	"sort"
	"strings"

	"golang.org/x/tools/go/ssa"
)

type errCallKey struct {
	name string
}

// errorReturningCallees: distinct callees (by name) called in fn whose last result is error.
func errorReturningCallees(fn *ssa.Function) map[string]func(*ssa.Call) bool {
	out := map[string]func(*ssa.Call) bool{}
	for _, b := range fn.Blocks {
		for _, ins := range b.Instrs {
			cl, ok := ins.(*ssa.Call)
			if !ok {
				continue
			}
			sig := cl.Call.Signature()
			if sig == nil || sig.Results().Len() == 0 || !isErrorType(sig.Results().At(sig.Results().Len()-1).Type()) {
				continue
			}
			var name string
			if cl.Call.IsInvoke() {
				// interface methods declared in the module (kv.Base, tso.Allocator, id.Allocator, ...)
				if m := cl.Call.Method; m.Pkg() == nil || !strings.HasPrefix(m.Pkg().Path(), modPath) {
					continue
				}
				name = "~" + cl.Call.Method.Name()
			} else if f := cl.Call.StaticCallee(); f != nil {
				if !strings.HasPrefix(fnPkgPath(f), modPath) {
					continue // the property's own mechanisms only, not the standard library
				}
				name = fnName(f)
			} else {
				continue
			}
			if _, seen := out[name]; seen {
				continue
			}
			if knownNonNil(errorResultOf(cl)) {
				continue // an error constructor, not a fallible call
			}
			n := name
			out[n] = func(c *ssa.Call) bool {
				if c.Call.IsInvoke() {
					return "~"+c.Call.Method.Name() == n
				}
				f := c.Call.StaticCallee()
				return f != nil && fnName(f) == n
			}
		}
	}
	return out
}

// anchorFiles: the files each property is anchored in (anchors.files of /verif/properties.jsonl).
var anchorFiles = map[string][]string{
	"C01": {"server/tso/tso.go", "server/tso/global_allocator.go", "server/tso/local_allocator.go", "server/tso/allocator_manager.go", "server/grpc_service.go", "pkg/tsoutil/tso.go", "client/client.go"},
	"C02": {"server/tso/tso.go", "server/tso/global_allocator.go", "server/tso/allocator_manager.go", "server/server.go", "pkg/typeutil/time.go"},
	"C03": {"server/election/leadership.go", "server/election/lease.go", "server/member/member.go", "server/server.go", "server/tso/tso.go", "server/id/id.go", "server/tso/allocator_manager.go", "server/encryptionkm/key_manager.go", "server/grpc_service.go"},
	"C04": {"server/id/id.go", "server/server.go", "server/cluster/cluster_worker.go", "server/grpc_service.go"},
	"C05": {"server/tso/global_allocator.go", "server/tso/local_allocator.go", "server/tso/allocator_manager.go", "server/grpc_service.go", "server/tso/tso.go"},
	"C06": {"server/cluster/cluster.go", "server/core/basic_cluster.go", "server/core/region.go", "server/grpc_service.go"},
	"C07": {"server/core/region.go", "server/core/region_tree.go", "server/core/basic_cluster.go", "pkg/btree/btree.go"},
	"C08": {"server/schedule/operator/builder.go", "server/schedule/operator/step.go", "server/schedule/operator/create_operator.go"},
	"C09": {"server/schedule/operator_controller.go", "server/schedule/operator/operator.go", "server/schedule/operator/step.go", "server/schedule/operator/status.go", "server/schedule/operator/status_tracker.go", "server/schedule/waiting_operator.go", "server/schedule/hbstream/heartbeat_streams.go"},
	"C10": {"server/schedule/checker/replica_checker.go", "server/schedule/checker/rule_checker.go", "server/schedule/checker/replica_strategy.go", "server/schedule/filter/filters.go", "server/schedule/filter/candidates.go", "server/schedule/checker_controller.go"},
	"C11": {"server/schedule/region_scatterer.go", "server/schedulers/balance_region.go", "server/schedulers/balance_leader.go", "server/schedulers/hot_region.go", "server/schedulers/utils.go", "server/schedule/filter/filters.go", "server/schedule/operator/create_operator.go"},
	"C12": {"server/schedule/placement/fit.go", "server/schedule/placement/label_constraint.go", "server/schedule/placement/rule.go"},
	"C13": {"server/schedule/placement/rule_manager.go", "server/schedule/placement/rule_list.go", "server/schedule/placement/config.go", "server/schedule/placement/rule.go", "server/core/storage.go"},
	"C14": {"server/cluster/cluster.go", "server/grpc_service.go", "server/core/store.go", "server/core/store_option.go", "server/core/storage.go"},
	"C15": {"server/grpc_service.go", "server/core/storage.go", "server/api/service_gc_safepoint.go"},
	"C16": {"server/region_syncer/history_buffer.go", "server/region_syncer/server.go", "server/region_syncer/client.go"},
	"C17": {"server/core/storage.go", "server/core/region_storage.go", "server/kv/etcd_kv.go", "server/kv/mem_kv.go", "server/kv/levedb_kv.go"},
	"C18": {"server/server.go", "server/config/persist_options.go", "server/config/config.go", "server/api/config.go", "server/core/storage.go"},
	"C19": {"server/replication/replication_mode.go", "server/cluster/cluster.go", "server/core/storage.go"},
	"C20": {"server/server.go", "server/util.go", "server/grpc_service.go", "server/cluster/cluster.go"},
}

// deliberateIgnores: (function, callee) pairs of the reference tree where an
// error of one of the module's own fallible functions is dropped on purpose
// and without a log line; confirmed by reading, one reason each.
var deliberateIgnores = map[string]string{
	"(*server/encryptionkm.KeyManager).rotateKeyIfNeeded|pkg/encryption.NewDataKey":                                          "key rotation is retried by the next tick; a failed key generation is not an error of the check loop",
	"(*server/core.Storage).LoadMinServiceGCSafePoint|~Remove":                                                               "pruning of an expired service entry is best effort; the entry is skipped in the minimum either way and pruned again next time",
	"(*server/config.Config).Adjust|(*pkg/encryption.Config).Adjust":                                                         "result discarded explicitly; the encryption section is validated separately",
	"(*server/config.Config).Adjust|(*server/config.configMetaData).CheckUndecoded":                                          "undecoded items are turned into a warning message kept in the config, not into a failure",
	"(*server/config.PersistOptions).Reload|(*server/config.Config).Adjust":                                                  "Adjust(nil, true) only fills defaults into an empty value and cannot fail on it",
	"(*server/tso.AllocatorManager).getOrCreateLocalTSOSuffix|(*server/tso.AllocatorManager).getDCLocationSuffixMapFromEtcd": "reports suffix -1 (not assigned) so that the caller retries in its next round",
	"(*server/schedule.RegionScatterer).ScatterRegions|(*server/schedule.RegionScatterer).Scatter":                           "per-region failures are collected in the failures map handed back to the caller",
	"(*server.Server).startServer|(*server/member.Member).SetMemberBinaryVersion":                                            "informational member attribute, best effort",
	"(*server.Server).startServer|(*server/member.Member).SetMemberDeployPath":                                               "informational member attribute, best effort",
	"(*server.Server).startServer|(*server/member.Member).SetMemberGitHash":                                                  "informational member attribute, best effort",
	"(*server/cluster.RaftCluster).RemoveStore|(*server/cluster.RaftCluster).SetStoreLimit":                                  "discarded with `_ =`: the store is already offline and persisted, the limit is a convenience (see the TODO in the code)",
	"(*server/config.PDServerConfig).adjust|(*server/config.PDServerConfig).migrateConfigurationFromFile":                    "copies deprecated file items; its result is not part of adjust's contract, Validate() decides",
	"(*server.Server).RegionHeartbeat|(*server/cluster.RaftCluster).HandleRegionHeartbeat":                                   "the error is answered on the heartbeat stream (SendErr) and the stream goes on",
}

// ruleErrorDiscipline: in the files the property is anchored in, a function
// that returns an error reports success only when every call it made to one of
// the module's own fallible functions or interfaces (storage, kv, allocators,
// transactions, ...) was found to have returned nil — or its error was found
// non-nil and reported through the logger (the repo's idiom for best-effort
// steps), compared with a sentinel, or is one of the listed deliberate ignores.
// An error overwritten by the next call before anyone looked at it is lost.
func ruleErrorDiscipline(c *Ctx) {
	P := c.P
	rule := c.Prop + "/error-discipline"
	fileSet := map[string]bool{}
	for _, f := range anchorFiles[c.Prop] {
		fileSet[f] = true
	}
	nFn, nPairs := 0, 0
	used := map[string]bool{}
	for _, fn := range P.Funcs {
		if fn.Parent() != nil || !fn.Pos().IsValid() || P.isScaffold(fn) {
			continue
		}
		file := strings.TrimPrefix(P.Fset.Position(fn.Pos()).Filename, P.Repo+"/")
		if !fileSet[file] {
			continue
		}
		res := fn.Signature.Results()
		if res.Len() == 0 || !isErrorType(res.At(res.Len()-1).Type()) {
			continue
		}
		callees := errorReturningCallees(fn)
		if len(callees) == 0 {
			continue
		}
		nFn++
		var names []string
		for n := range callees {
			names = append(names, n)
		}
		sort.Strings(names)
		var evs []Ev
		for _, n := range names {
			if _, ok := deliberateIgnores[fnName(fn)+"|"+n]; ok {
				used[fnName(fn)+"|"+n] = true
				continue
			}
			ev := newSettledEv(fn, n, callees[n])
			ev.sentinelOK, ev.logOK = true, true
			evs = append(evs, ev)
			nPairs++
		}
		if len(evs) == 0 {
			continue
		}
		if len(evs) > 16 {
			evs = evs[:16]
		}
		c.needOnSuccess(rule, fn, evs, all, "success is reported only when every call of one of the module's own fallible functions made so far returned nil (or its error was logged / matched a sentinel)")
	}
	c.Info(rule, "scope", fmt.Sprintf("%d functions returning an error in %d anchor files, %d (function, callee) pairs, %d deliberate ignores applied", nFn, len(fileSet), nPairs, len(used)), "", "")
	_ = nFn // anchor files without such functions (pure planners, comparators) simply have no obligation here
}

func cmdErrDisc(P *Prog, files []string) {
	fileSet := map[string]bool{}
	for _, f := range files {
		fileSet[f] = true
	}
	type finding struct{ fn, callee, detail, pos string }
	var findings []finding
	nFn, nPairs := 0, 0
	for _, fn := range P.Funcs {
		if fn.Parent() != nil || !fn.Pos().IsValid() || P.isScaffold(fn) {
			continue
		}
		file := strings.TrimPrefix(P.Fset.Position(fn.Pos()).Filename, P.Repo+"/")
		if !fileSet[file] {
			continue
		}
		res := fn.Signature.Results()
		if res.Len() == 0 || !isErrorType(res.At(res.Len()-1).Type()) {
			continue
		}
		nFn++
		callees := errorReturningCallees(fn)
		var names []string
		for n := range callees {
			names = append(names, n)
		}
		sort.Strings(names)
		for _, n := range names {
			nPairs++
			c := &Ctx{P: P, Prop: "X"}
			func() {
				defer func() { recover() }()
				ev := newSettledEv(fn, n, callees[n])
				ev.sentinelOK = true
				ev.logOK = true
				c.needOnSuccess("X/err", fn, []Ev{ev}, all, "")
			}()
			for _, o := range c.Obls {
				if o.Verdict == VIOLATION {
					findings = append(findings, finding{fnName(fn), n, o.Detail, o.Pos})
				}
			}
		}
	}
	fmt.Printf("%d functions, %d (function, callee) pairs, %d findings\n", nFn, nPairs, len(findings))
	for _, f := range findings {
		d := f.detail
		if len(d) > 160 {
			d = d[:160]
		}
		fmt.Printf("%s  %s  ignores %s :: %s\n", f.pos, f.fn, f.callee, d)
	}
	_ = types.Typ
}

// errorResultOf: the value carrying the error result of a call (the call itself or its last Extract).
func errorResultOf(cl *ssa.Call) ssa.Value {
	sig := cl.Call.Signature()
	if sig.Results().Len() == 1 {
		return cl
	}
	if cl.Referrers() != nil {
		for _, r := range *cl.Referrers() {
			if e, ok := r.(*ssa.Extract); ok && e.Index == sig.Results().Len()-1 {
				return e
			}
		}
	}
	return cl
}
