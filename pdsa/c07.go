package main

import (
	"fmt"
	"go/token"
	"go/types"
	"strings"

	"golang.org/x/tools/go/ssa"
)

func ruleTreeAccounting(c *Ctx) {
	P := c.P
	rule := c.Prop + "/size-accounting"
	total := P.Field("server/core", "regionTree", "totalSize")
	treeF := P.Field("server/core", "regionTree", "tree")
	size := P.Field("server/core", "RegionInfo", "approximateSize")
	isAdj := func(op token.Token) func(ssa.Instruction) bool {
		return func(x ssa.Instruction) bool {
			st, ok := x.(*ssa.Store)
			if !ok || fieldOfAddr(st.Addr) != total {
				return false
			}
			b, ok := st.Val.(*ssa.BinOp)
			return ok && b.Op == op && isLoadOf(b.X, total) && isLoadOf(b.Y, size)
		}
	}
	bt := func(m string) Callee { return F(P.Method("pkg/btree", "BTree", m)) }
	upd := P.Method("server/core", "regionTree", "update")
	// insert ⇒ size added before
	c.need(rule, upd, "tree.ReplaceOrInsert", instrCallMatcher(bt("ReplaceOrInsert")), []Ev{&calledEv{name: "totalSize += size", match: isAdj(token.ADD)}}, all, "every insertion into the tree is accompanied by adding the region's size")
	// every displaced region: deleted and subtracted, for every element of the overlap list
	okLoop := false
	for _, l := range loopsOf(upd) {
		if everyIterationCalls(l, instrCallMatcher(bt("Delete"))) && everyIterationCalls(l, isAdj(token.SUB)) {
			okLoop = true
		}
	}
	c.Check(okLoop, rule, "overlap loop in "+fnName(upd), "each displaced region is deleted from the tree and its size subtracted, in every iteration", P.pos(upd.Pos()), "")
	rm := P.Method("server/core", "regionTree", "remove")
	c.need(rule, rm, "tree.Delete", instrCallMatcher(bt("Delete")), []Ev{&calledEv{name: "totalSize -= size", match: isAdj(token.SUB)}}, all, "every removal subtracts the region's size")
	// … and only then: a removal that does not happen subtracts nothing
	c.need(rule, rm, "return nil (nothing removed)", func(x ssa.Instruction) bool {
		r, ok := x.(*ssa.Return)
		return ok && len(r.Results) == 1 && isNilConst(retVal(r, 0))
	}, []Ev{&calledEv{name: "totalSize -= size", match: isAdj(token.SUB)}}, func(h []bool) bool { return !h[0] }, "when nothing is removed the size is left alone")
	us := P.Method("server/core", "regionTree", "updateStat")
	isRet := func(x ssa.Instruction) bool { _, ok := x.(*ssa.Return); return ok }
	c.need(rule, us, "return", isRet, []Ev{&calledEv{name: "+= new size", match: isAdj(token.ADD)}, &calledEv{name: "-= old size", match: isAdj(token.SUB)}}, all, "an in-place replacement adds the new and subtracts the old size")
	// … the new size is the one of the region that replaces, the old one of the region replaced: identified at the
	// call in SetRegion (the argument that is SetRegion's own parameter is the new region)
	setR := P.Method("server/core", "RegionsInfo", "SetRegion")
	newIdx := -1
	for _, ci := range callsIn(setR, false, F(us)) {
		for i, a := range callArgs(ci.Common()) {
			if len(setR.Params) >= 2 && strip(a) == ssa.Value(setR.Params[1]) {
				newIdx = i
			}
		}
	}
	if newIdx >= 0 && newIdx+1 < len(us.Params) {
		newP := us.Params[newIdx+1]
		dirOK := true
		n := 0
		for _, st := range storesToField(us, total) {
			b, ok := st.Val.(*ssa.BinOp)
			if !ok || !isLoadOf(b.Y, size) {
				continue
			}
			n++
			fromNew := derivesFrom(b.Y, same(newP), 3)
			if (b.Op == token.ADD) != fromNew {
				dirOK = false
			}
		}
		c.Check(dirOK && n >= 2, rule, "direction in "+fnName(us), "the size added is the new region's, the size subtracted the replaced region's", P.pos(us.Pos()), "")
	} else {
		c.Undec(rule, "call of updateStat in SetRegion", "with SetRegion's region parameter as the new region", P.pos(us.Pos()), "")
	}
	// remove deletes what it found only when that is the region it was asked to remove (same id): the item found
	// by start key may be another region that now covers the key
	getID := F(P.Method("server/core", "RegionInfo", "GetID"))
	c.need(rule, rm, "tree.Delete (identity)", instrCallMatcher(bt("Delete")), []Ev{guardRel("found.GetID() == region.GetID()", "==", resultOfCall(getID), resultOfCall(getID))}, all,
		"the item found under the region's start key is deleted only if it is the same region")
	// who writes the tree and its size
	for _, f := range []*types.Var{total, treeF} {
		for name, accs := range P.writersOf(f) {
			ok := strings.Contains(name, "regionTree).") || strings.HasSuffix(name, "newRegionTree")
			c.Check(ok, c.Prop+"/encapsulation", "writer "+name+" of regionTree."+f.Name(), "only the tree's own methods", P.instrPos(accs[0].Ins), "")
		}
	}
	// the tree is mutated only by update/remove
	for _, m := range []string{"ReplaceOrInsert", "Delete"} {
		sites, _ := c.nonScaffoldCallers(P.Method("pkg/btree", "BTree", m))
		for _, s := range sites {
			if fnPkgPath(s.Caller) != modPath+"/server/core" {
				continue
			}
			recv := callRecv(s.Instr.Common())
			if recv == nil || !isLoadOf(recv, treeF) {
				continue
			}
			n := fnName(s.Caller)
			c.Check(strings.HasSuffix(n, "regionTree).update") || strings.HasSuffix(n, "regionTree).remove"), c.Prop+"/encapsulation", "BTree."+m+" on a region tree in "+n, "region trees change only through update/remove (where the size is kept in step)", P.instrPos(s.Instr), "")
		}
	}
}

// ruleRemoveIsAtomic: RemoveRegion cleans the per-store indexes from the peers
// and size of the region object it is given; that object must be the one in
// the cache *at the moment of removal*: a cluster function that looks a region
// up and removes it holds the cluster lock from the lookup to the removal
// (heartbeat processing puts under the write lock).
func ruleRemoveIsAtomic(c *Ctx) {
	P := c.P
	rule := c.Prop + "/index-discipline"
	rm := P.Method("server/core", "BasicCluster", "RemoveRegion")
	get := P.Method("server/cluster", "RaftCluster", "GetRegion")
	sites, _ := c.nonScaffoldCallers(rm)
	n := 0
	done := map[*ssa.Function]bool{}
	for _, s := range sites {
		fn := s.Caller
		if fnPkgPath(fn) != modPath+"/server/cluster" || done[fn] || len(callsIn(fn, false, F(get))) == 0 {
			continue
		}
		done[fn] = true
		n++
		atomicRMWShared = true // the read lock excludes heartbeat processing, which puts under the write lock
		c.atomicRMW(rule, fn, F(get), F(rm))
		atomicRMWShared = false
	}
	if n == 0 {
		c.Undec(rule, "lookup-then-remove in server/cluster", "at least one (DropCacheRegion)", "", "")
	}
}

// ruleTreeLookups: two lookups the queries rest on. (1) A predecessor lookup
// (DescendLessOrEqual) yields the region that starts at or before a key, not
// necessarily one that contains it; only find() checks containment, so every
// other query obtains its start item from find(). (2) RandomRegion computes the
// candidate index interval of each key range afresh; an end index carried over
// from the previous range truncates the candidates of an unbounded range.
func ruleTreeLookups(c *Ctx) {
	P := c.P
	rule := c.Prop + "/tree-lookups"
	treeF := P.Field("server/core", "regionTree", "tree")
	desc := P.Method("pkg/btree", "BTree", "DescendLessOrEqual")
	sites, _ := c.nonScaffoldCallers(desc)
	n := 0
	for _, s := range sites {
		if fnPkgPath(s.Caller) != modPath+"/server/core" {
			continue
		}
		recv := callRecv(s.Instr.Common())
		if recv == nil || !isLoadOf(recv, treeF) {
			continue
		}
		n++
		name := fnName(outer(s.Caller))
		ok := strings.HasSuffix(name, "regionTree).find") || strings.HasSuffix(name, "regionTree).getAdjacentRegions")
		c.Check(ok, rule, "predecessor lookup in "+name, "only find() (which checks that the found region contains the key) and getAdjacentRegions() look up a predecessor directly", P.instrPos(s.Instr), "")
	}
	if n < 2 {
		c.Undec(rule, "DescendLessOrEqual on region trees", "at least 2 sites", "", fmt.Sprint(n))
	}
	find := P.Method("server/core", "regionTree", "find")
	contains := F(P.Method("server/core", "regionItem", "Contains"))
	c.need(rule, find, "return of a found item", func(x ssa.Instruction) bool {
		r, ok := x.(*ssa.Return)
		return ok && len(r.Results) == 1 && !isNilConst(retVal(r, 0))
	}, []Ev{guardCall("found.Contains(key)", true, callMatcher(contains))}, all, "find returns an item only if it contains the key")
	// searchPrev answers only a region that really ends where the current one starts
	sp := P.Method("server/core", "regionTree", "searchPrev")
	c.need(rule, sp, "return of a previous region", func(x ssa.Instruction) bool {
		r, ok := x.(*ssa.Return)
		return ok && len(r.Results) == 1 && !isNilConst(retVal(r, 0))
	}, []Ev{guardCall("bytes.Equal(prev end key, current start key)", true, func(cl *ssa.Call) bool {
		f := cl.Call.StaticCallee()
		return f != nil && f.Pkg != nil && f.Pkg.Pkg.Path() == "bytes" && f.Name() == "Equal"
	})}, all, "the previous region is reported only when its end key equals the start key of the region holding the key (no gap)")
	// … and it pivots on the region that holds the key (its start key), not on the probe key itself: for a key
	// strictly inside a region the probe has no equal start key and the predecessor found would be the holder itself
	findF := F(P.Method("server/core", "regionTree", "find"))
	adjF := F(P.Method("server/core", "regionTree", "getAdjacentRegions"))
	itemRegionF := P.Field("server/core", "regionItem", "region")
	for _, ci := range callsIn(sp, false, adjF) {
		a := callArgs(ci.Common())
		okPivot := len(a) == 1 && isLoadOf(a[0], itemRegionF) && derivesFrom(a[0], resultOfCall(findF), 4)
		c.Check(okPivot, rule, "pivot of the adjacent lookup in "+fnName(sp), "the region found to hold the key (find(key).region)", P.instrPos(ci), "the lookup is made around something else than the holding region")
	}
	// getAdjacentRegions: (previous, next) — the first result is filled by the descending walk, the second by the ascending one
	ga := P.Method("server/core", "regionTree", "getAdjacentRegions")
	c.saw(fnName(ga))
	filledBy := map[*ssa.Alloc]string{}
	for _, b := range ga.Blocks {
		for _, ins := range b.Instrs {
			cl, ok := ins.(*ssa.Call)
			if !ok || cl.Call.StaticCallee() == nil {
				continue
			}
			dir := ""
			switch {
			case strings.HasPrefix(cl.Call.StaticCallee().Name(), "Descend"):
				dir = "descending"
			case strings.HasPrefix(cl.Call.StaticCallee().Name(), "Ascend"):
				dir = "ascending"
			default:
				continue
			}
			for _, a := range cl.Call.Args {
				mc, ok := a.(*ssa.MakeClosure)
				if !ok {
					if ch, isC := a.(*ssa.ChangeType); isC {
						mc, ok = ch.X.(*ssa.MakeClosure)
					}
					if !ok {
						continue
					}
				}
				cf := mc.Fn.(*ssa.Function)
				for _, cb := range cf.Blocks {
					for _, ci := range cb.Instrs {
						st, ok := ci.(*ssa.Store)
						if !ok {
							continue
						}
						fv, ok := st.Addr.(*ssa.FreeVar)
						if !ok {
							continue
						}
						for i, f := range cf.FreeVars {
							if f == fv {
								if al, ok := mc.Bindings[i].(*ssa.Alloc); ok {
									if filledBy[al] != "" && filledBy[al] != dir {
										filledBy[al] = "both"
									} else {
										filledBy[al] = dir
									}
								}
							}
						}
					}
				}
			}
		}
	}
	okAdj, nRet := true, 0
	for _, b := range ga.Blocks {
		r, ok := b.Instrs[len(b.Instrs)-1].(*ssa.Return)
		if !ok || len(r.Results) != 2 {
			continue
		}
		nRet++
		for i, want := range []string{"descending", "ascending"} {
			al := cellOf(r.Results[i])
			if al == nil || filledBy[al] != want {
				okAdj = false
			}
		}
	}
	c.Check(okAdj && nRet > 0, rule, "results of "+fnName(ga), "(previous, next): the first result comes from the descending walk, the second from the ascending walk", P.pos(ga.Pos()), "")
	// RandomRegion: per-range interval
	rr := P.Method("server/core", "regionTree", "RandomRegion")
	loops := loopsOf(rr)
	intn := 0
	for _, b := range rr.Blocks {
		for _, ins := range b.Instrs {
			cl, ok := ins.(*ssa.Call)
			if !ok || cl.Call.StaticCallee() == nil || cl.Call.StaticCallee().Name() != "Intn" || len(cl.Call.Args) != 1 {
				continue
			}
			var inner *loopInfo
			for i := range loops {
				if loops[i].blocks[b] && (inner == nil || len(loops[i].blocks) < len(inner.blocks)) {
					inner = &loops[i]
				}
			}
			if inner == nil {
				continue
			}
			intn++
			carried := false
			seen := map[ssa.Value]bool{}
			var walk func(v ssa.Value, depth int)
			walk = func(v ssa.Value, depth int) {
				if v == nil || seen[v] || depth > 6 {
					return
				}
				seen[v] = true
				switch x := v.(type) {
				case *ssa.Phi:
					if x.Block() == inner.header {
						if _, isIter := x.Type().Underlying().(*types.Basic); isIter && x.Comment != "rangeindex" {
							carried = true
						}
						return
					}
					for _, e := range x.Edges {
						walk(e, depth+1)
					}
				case *ssa.BinOp:
					walk(x.X, depth+1)
					walk(x.Y, depth+1)
				case *ssa.Convert:
					walk(x.X, depth+1)
				}
			}
			walk(cl.Call.Args[0], 0)
			c.Check(!carried, rule, "candidate interval in "+fnName(rr), "start and end index of a key range are computed for that range (not carried over from the previous one)", P.instrPos(cl), "an index bound is a loop-carried variable")
		}
	}
	if intn == 0 {
		c.Undec(rule, "rand.Intn(end-start) in "+fnName(rr), "found", P.pos(rr.Pos()), "")
	}
}

// ruleRoleIndexTable: which peers feed which per-store index. In SetRegion and
// updateSubTreeStat every access of leaders/followers is keyed by a peer taken
// from the voters (leaders on the `peer is the leader` edge, followers on the
// other one), of learners by a learner, of pendingPeers by a pending peer — a
// learner run through the follower branch makes the follower sizes drift.
// (removeRegionFromSubTree removes from every index for every peer: exempt.)
func ruleRoleIndexTable(c *Ctx) {
	P := c.P
	rule := c.Prop + "/role-index-table"
	ri := func(m string) Callee { return F(P.Method("server/core", "RegionInfo", m)) }
	allowed := map[string][]Callee{
		"leaders":      {ri("GetVoters")},
		"followers":    {ri("GetVoters"), ri("GetFollowers")},
		"learners":     {ri("GetLearners")},
		"pendingPeers": {ri("GetPendingPeers")},
	}
	getPeerID := F(P.Method("github.com/pingcap/kvproto/pkg/metapb", "Peer", "GetId"))
	isLeaderEq := func(pos bool) *guardEv {
		op := "=="
		if !pos {
			op = "!="
		}
		return guardRel("peer id "+op+" leader id", op, resultOfCall(getPeerID), resultOfCall(getPeerID))
	}
	// the slice a key's peer was taken from: key <- GetStoreId(peer), peer <- *IndexAddr(slice, i)
	sourceOf := func(key ssa.Value) ssa.Value {
		var src ssa.Value
		derivesFrom(key, func(v ssa.Value) bool {
			u, ok := v.(*ssa.UnOp)
			if !ok || u.Op != token.MUL {
				return false
			}
			ia, ok := u.X.(*ssa.IndexAddr)
			if !ok {
				return false
			}
			src = ia.X
			return true
		}, 5)
		return src
	}
	n := 0
	for _, fn := range []*ssa.Function{P.Method("server/core", "RegionsInfo", "SetRegion"), P.Method("server/core", "RegionsInfo", "updateSubTreeStat")} {
		c.saw(fnName(fn))
		for _, name := range []string{"leaders", "followers", "learners", "pendingPeers"} {
			getters := allowed[name]
			k := 0
			f := P.Field("server/core", "RegionsInfo", name)
			for _, b := range fn.Blocks {
				for _, ins := range b.Instrs {
					var m, key ssa.Value
					switch x := ins.(type) {
					case *ssa.Lookup:
						m, key = x.X, x.Index
					case *ssa.MapUpdate:
						m, key = x.Map, x.Key
					default:
						continue
					}
					if !isLoadOf(m, f) {
						continue
					}
					n++
					k++
					src := sourceOf(key)
					ok := false
					for _, g := range getters {
						if src != nil && valueIsCallTo(src, g) {
							ok = true
						}
					}
					construct := fmt.Sprintf("access #%d of %s in %s", k, name, fnName(fn))
					c.Check(ok, rule, construct, "keyed by a peer of the role this index is for", P.instrPos(ins), "the peer does not come from the role's own peer list")
					if name == "leaders" || name == "followers" {
						target := ins
						c.need(rule, fn, construct+" (leader test)", func(x ssa.Instruction) bool { return x == target },
							[]Ev{isLeaderEq(name == "leaders")}, all, "leaders on the edge where the peer is the region's leader, followers on the other edge")
					}
				}
			}
		}
	}
	// every peer of a role is filed: each iteration of the loop over the voters reaches the leaders or the
	// followers index, each learner the learners index, each pending peer the pending index — whatever the
	// peer's joint-consensus role (a demoting voter still is a peer on its store)
	roleIdx := map[string][]string{"GetVoters": {"leaders", "followers"}, "GetLearners": {"learners"}, "GetPendingPeers": {"pendingPeers"}}
	nLoops := 0
	loopOK, loopPos := map[string]bool{}, map[string]string{}
	var loopOrder []string
	for _, fn := range []*ssa.Function{P.Method("server/core", "RegionsInfo", "SetRegion"), P.Method("server/core", "RegionsInfo", "updateSubTreeStat")} {
		for _, l := range loopsOf(fn) {
			getter := ""
			for b := range l.blocks {
				for _, ins := range b.Instrs {
					if u, ok := ins.(*ssa.UnOp); ok && u.Op == token.MUL {
						if ia, ok := u.X.(*ssa.IndexAddr); ok {
							if cl, _ := callOf(ia.X); cl != nil && cl.Call.StaticCallee() != nil && roleIdx[cl.Call.StaticCallee().Name()] != nil && len(cl.Call.Args) == 1 {
								// the region being inserted/updated, not the origin
								getter = cl.Call.StaticCallee().Name()
							}
						}
					}
				}
			}
			if getter == "" {
				continue
			}
			var fields []*types.Var
			for _, name := range roleIdx[getter] {
				fields = append(fields, P.Field("server/core", "RegionsInfo", name))
			}
			isAccess := func(x ssa.Instruction) bool {
				var m ssa.Value
				switch t := x.(type) {
				case *ssa.Lookup:
					m = t.X
				case *ssa.MapUpdate:
					m = t.Map
				default:
					return false
				}
				// the map may be chosen first and indexed once (trees := r.followers; if leader { trees = r.leaders })
				alts := valueAlternatives(m, 3)
				if len(alts) == 0 {
					return false
				}
				for _, a := range alts {
					okA := false
					for _, f := range fields {
						if isLoadOf(a, f) {
							okA = true
						}
					}
					if !okA {
						return false
					}
				}
				return true
			}
			key := getter + " " + fnName(fn)
			if _, seen := loopOK[key]; !seen {
				loopOK[key] = true
				loopOrder = append(loopOrder, key)
				loopPos[key] = P.pos(fn.Pos())
			}
			if !everyIterationCalls(l, isAccess) {
				loopOK[key] = false
			}
		}
	}
	for _, key := range loopOrder {
		nLoops++
		parts := strings.SplitN(key, " ", 2)
		c.Check(loopOK[key], rule, fmt.Sprintf("loop over %s() in %s", parts[0], parts[1]), "every peer of the role reaches its per-store index ("+strings.Join(roleIdx[parts[0]], "/")+"): no peer is skipped", loopPos[key], "an iteration can pass without touching the index")
	}
	if nLoops < 6 {
		c.Undec(rule, "role loops in SetRegion / updateSubTreeStat", "6 (voters, learners, pending peers in each)", "", fmt.Sprint(nLoops))
	}
	if n < 10 {
		c.Undec(rule, "index accesses", "at least 10 keyed accesses of the four per-store indexes in SetRegion and updateSubTreeStat", "", fmt.Sprintf("found %d", n))
	}
}

func ruleRegionsInfoDiscipline(c *Ctx) {
	P := c.P
	rule := c.Prop + "/index-discipline"
	itemRegion := P.Field("server/core", "regionItem", "region")
	set := P.Method("server/core", "RegionsInfo", "SetRegion")
	// writers of the shared item's region
	for name, accs := range P.writersOf(itemRegion) {
		ok := strings.HasSuffix(name, "RegionsInfo).SetRegion") || strings.HasSuffix(name, "regionMap).AddNew")
		c.Check(ok, rule, "writer "+name+" of regionItem.region", "the item shared by the main tree and all sub-trees is re-pointed only by SetRegion / created by AddNew", P.instrPos(accs[0].Ins), "")
	}
	// the item's start key is its key in every tree: the old entries must be removed before the item is re-pointed
	rmTree := F(P.Method("server/core", "regionTree", "remove"))
	rmSub := F(P.Method("server/core", "RegionsInfo", "removeRegionFromSubTree"))
	repointed := &calledEv{name: "item.region = region", match: func(x ssa.Instruction) bool { return isStoreToField(x, itemRegion) }}
	c.mustPrecede(rule, set, "removal of the old entries", instrCallMatcher(rmTree, rmSub), []Ev{repointed}, func(h []bool) bool { return !h[0] },
		"old tree / sub-tree entries are removed while the shared item still carries the old region (its key); re-pointing first would make the removal miss")
	// a range change rebuilds every index: the sub-trees are keyed by the same start key as the main tree and
	// displace overlapped entries only when the item is inserted again
	removedMain := &calledEv{name: "tree.remove(origin)", match: instrCallMatcher(rmTree)}
	removedSub := &calledEv{name: "removeRegionFromSubTree(origin)", match: instrCallMatcher(rmSub)}
	c.need(rule, set, "re-pointing of the shared item (item.region = region)", func(x ssa.Instruction) bool { return isStoreToField(x, itemRegion) },
		[]Ev{removedMain, removedSub}, func(h []bool) bool { return !h[0] || h[1] },
		"when the region left the main tree (its range changed) it also left the per-store sub-trees: a range change is a change of all peers")
	// …and on every path the main tree is either rebuilt (range changed) or has its statistics refreshed
	treeUpdate := &calledEv{name: "tree.update(item)", match: instrCallMatcher(F(P.Method("server/core", "regionTree", "update")))}
	treeStat := &calledEv{name: "tree.updateStat(origin, region)", match: instrCallMatcher(F(P.Method("server/core", "regionTree", "updateStat")))}
	subStat := &calledEv{name: "updateSubTreeStat(origin, region)", match: instrCallMatcher(F(P.Method("server/core", "RegionsInfo", "updateSubTreeStat")))}
	subInsert := &calledEv{name: "sub-tree rebuild (the voters are enumerated)", match: instrCallMatcher(F(P.Method("server/core", "RegionInfo", "GetVoters")))}
	c.need(rule, set, "return", func(x ssa.Instruction) bool { _, ok := x.(*ssa.Return); return ok },
		[]Ev{treeUpdate, treeStat, subStat, subInsert, &calledEv{name: "the region was taken in (item re-pointed or added)", match: func(x ssa.Instruction) bool {
			return isStoreToField(x, itemRegion) || isCallTo(x, F(P.Method("server/core", "regionMap", "AddNew")))
		}}}, func(h []bool) bool { return !h[4] || ((h[0] || h[1]) && (h[2] || h[3])) },
		"every call that takes the region in leaves the main tree rebuilt or its size statistics refreshed, and the sub-trees rebuilt or their statistics refreshed")
	// whether the sub-trees are rebuilt is decided, for an unchanged range, by shouldRemoveFromSubTree: the flag tested
	// before removeRegionFromSubTree can be the answer of that comparison
	shF := F(P.Method("server/core", "RegionsInfo", "shouldRemoveFromSubTree"))
	decided := false
	for _, ci := range callsIn(set, false, rmSub) {
		for _, cond := range controllingConds(ci.Block(), 2) {
			for _, alt := range valueAlternatives(cond, 4) {
				if valueIsCallTo(alt, shF) {
					decided = true
				}
			}
		}
	}
	c.Check(decided, rule, "rebuild decision in "+fnName(set), "with an unchanged range the sub-trees are rebuilt when shouldRemoveFromSubTree says the peers changed", P.pos(set.Pos()), "the test before removeRegionFromSubTree never takes the answer of shouldRemoveFromSubTree")
	// a sub-tree created for a store that had none is filed in its index before it is filled
	newTree := F(P.Func("server/core", "newRegionTree"))
	nNew := 0
	for _, b := range set.Blocks {
		for i, ins := range b.Instrs {
			cl, ok := ins.(*ssa.Call)
			if !ok || !newTree.Match(cl.Common()) {
				continue
			}
			nNew++
			okFiled, _ := followsOnAllPaths(b, i+1, b, func(x ssa.Instruction) bool {
				mu, isMU := x.(*ssa.MapUpdate)
				return isMU && mu.Value == ssa.Value(cl)
			}, nil)
			c.Check(okFiled, rule, fmt.Sprintf("new sub-tree #%d in %s", nNew, fnName(set)), "a sub-tree created for a store is stored in the per-store index it was created for", P.instrPos(cl), "the new tree is filled but never reachable from the index")
		}
	}
	if nNew < 4 {
		c.Undec(rule, "sub-trees created in "+fnName(set), "4 (leaders, followers, learners, pending peers)", "", fmt.Sprint(nNew))
	}
	// differential update is exhaustive
	sh := P.Method("server/core", "RegionsInfo", "shouldRemoveFromSubTree")
	peersEq := F(P.Func("server/core", "SortedPeersEqual"))
	ri := func(m string) Callee { return F(P.Method("server/core", "RegionInfo", m)) }
	nEq := 0
	for _, g := range []Callee{ri("GetVoters"), ri("GetLearners"), ri("GetPendingPeers")} {
		for _, ci := range callsIn(sh, false, peersEq) {
			a := callArgs(ci.Common())
			if len(a) == 2 && valueIsCallTo(a[0], g) && valueIsCallTo(a[1], g) {
				nEq++
			}
		}
	}
	leader := P.Field("server/core", "RegionInfo", "leader")
	okLeader := hasComparison(sh, "!=", func(v ssa.Value) bool { return derivesFrom(v, loadOfField(leader), 3) }, func(v ssa.Value) bool { return derivesFrom(v, loadOfField(leader), 3) })
	c.Check(nEq == 3 && okLeader, rule, fnName(sh), "sub-trees are rebuilt when the leader, the voters, the learners or the pending peers differ", P.pos(sh.Pos()), fmt.Sprintf("%d of 3 peer-set comparisons, leader compared: %v", nEq, okLeader))
	// …as a truth table: for each of the 16 combinations of (leader differs, voters equal, learners equal, pending
	// peers equal) the function, evaluated abstractly (ordeval.go), says "rebuild" exactly when something differs
	getID := F(P.Method("github.com/pingcap/kvproto/pkg/metapb", "Peer", "GetId"))
	okTT, ttDetail := true, ""
	for m := 0; m < 16; m++ {
		leaderNE, eqV, eqL, eqP := m&1 != 0, m&2 != 0, m&4 != 0, m&8 != 0
		want := leaderNE || !eqV || !eqL || !eqP
		got, okE := ordEval(sh, nil, ordAssume{
			cmp: func(x, y ssa.Value) (int, bool) {
				if valueIsCallTo(x, getID) && valueIsCallTo(y, getID) {
					if leaderNE {
						return 1, true
					}
					return 0, true
				}
				return 0, false
			},
			call: func(cl *ssa.Call) (ordVal, bool) {
				if !peersEq.Match(cl.Common()) || len(cl.Call.Args) != 2 {
					return ordVal{}, false
				}
				for i, g := range []Callee{ri("GetVoters"), ri("GetLearners"), ri("GetPendingPeers")} {
					if valueIsCallTo(cl.Call.Args[0], g) && valueIsCallTo(cl.Call.Args[1], g) {
						return ordVal{b: []bool{eqV, eqL, eqP}[i], kind: 'b'}, true
					}
				}
				return ordVal{}, false
			}}, 2)
		if !okE || got.kind != 'b' || got.b != want {
			okTT = false
			ttDetail = fmt.Sprintf("leader differs=%v voters equal=%v learners equal=%v pending equal=%v: answers %v (evaluated: %v), want %v", leaderNE, eqV, eqL, eqP, got.b, okE, want)
		}
	}
	c.Check(okTT, rule, "truth table of "+fnName(sh), "rebuild ⇔ the leader differs ∨ some peer set differs (all 16 combinations)", P.pos(sh.Pos()), ttDetail)
	// range change is detected on both keys
	okKeys := 0
	for _, g := range []Callee{ri("GetStartKey"), ri("GetEndKey")} {
		for _, b := range set.Blocks {
			for _, ins := range b.Instrs {
				if cl, ok := ins.(*ssa.Call); ok {
					f := cl.Call.StaticCallee()
					if f != nil && f.Pkg != nil && f.Pkg.Pkg.Path() == "bytes" && f.Name() == "Equal" && valueIsCallTo(cl.Call.Args[0], g) && valueIsCallTo(cl.Call.Args[1], g) {
						okKeys++
					}
				}
			}
		}
	}
	c.Check(okKeys == 2, rule, "range change in "+fnName(set), "detected by comparing both the start and the end key", P.pos(set.Pos()), "")
	// every role's sub-tree receives the item when peers changed: four per-store maps updated
	for _, m := range []string{"leaders", "followers", "learners", "pendingPeers"} {
		f := P.Field("server/core", "RegionsInfo", m)
		okU := false
		for _, b := range set.Blocks {
			for _, ins := range b.Instrs {
				if cl, ok := ins.(*ssa.Call); ok && F(P.Method("server/core", "regionTree", "update")).Match(cl.Common()) {
					if derivesFrom(cl.Call.Args[0], loadOfField(f), 4) {
						okU = true
					}
				}
			}
		}
		c.Check(okU, rule, "sub-tree "+m+" in "+fnName(set), "updated with the item", P.pos(set.Pos()), "")
		for name, accs := range P.writersOf(f) {
			ok := strings.HasSuffix(name, "RegionsInfo).SetRegion") || strings.HasSuffix(name, "NewRegionsInfo")
			c.Check(ok, c.Prop+"/encapsulation", "writer "+name+" of RegionsInfo."+m, "per-store sub-tree maps are filled only by SetRegion", P.instrPos(accs[0].Ins), "")
		}
	}
	// removal removes from the main tree, the id map and every sub-tree
	rr := P.Method("server/core", "RegionsInfo", "RemoveRegion")
	isRet := func(x ssa.Instruction) bool { _, ok := x.(*ssa.Return); return ok }
	c.need(rule, rr, "return", isRet, []Ev{
		&calledEv{name: "tree.remove", match: instrCallMatcher(rmTree)},
		&calledEv{name: "regions.Delete", match: instrCallMatcher(F(P.Method("server/core", "regionMap", "Delete")))},
		&calledEv{name: "removeRegionFromSubTree", match: instrCallMatcher(rmSub)}}, all, "a removed region leaves the key index, the id map and all per-store sub-trees")
	sub := P.Method("server/core", "RegionsInfo", "removeRegionFromSubTree")
	n := 0
	for _, m := range []string{"leaders", "followers", "learners", "pendingPeers"} {
		f := P.Field("server/core", "RegionsInfo", m)
		for _, ci := range callsIn(sub, false, rmTree) {
			if derivesFrom(ci.Common().Args[0], loadOfField(f), 4) {
				n++
				break
			}
		}
	}
	c.Check(n == 4, rule, fnName(sub), "removes from all four role sub-trees of every peer's store", P.pos(sub.Pos()), fmt.Sprintf("%d of 4", n))
	// … for every peer that can be filed there: leaders and followers hold voters, learners hold learners, pending
	// peers hold either. The loops the removals sit in must range over a peer list that covers those classes
	// (all peers cover both), and remove in every iteration.
	needs := map[string][]string{"leaders": {"voters"}, "followers": {"voters"}, "learners": {"learners"}, "pendingPeers": {"voters", "learners"}}
	covers := map[string][]string{"GetPeers": {"voters", "learners"}, "GetStoreIds": {"voters", "learners"}, "GetVoters": {"voters"}, "GetLearners": {"learners"}}
	for _, m := range []string{"leaders", "followers", "learners", "pendingPeers"} {
		f := P.Field("server/core", "RegionsInfo", m)
		got := map[string]bool{}
		for _, l := range loopsOf(sub) {
			// the list this loop ranges over
			src := ""
			for b := range l.blocks {
				for _, ins := range b.Instrs {
					var coll ssa.Value
					switch x := ins.(type) {
					case *ssa.IndexAddr:
						coll = x.X
					case *ssa.Next: // range over a map (the set of store ids)
						if rg, ok := x.Iter.(*ssa.Range); ok {
							coll = rg.X
						}
					}
					if coll != nil {
						if cl, _ := callOf(coll); cl != nil && cl.Call.StaticCallee() != nil {
							if _, known := covers[cl.Call.StaticCallee().Name()]; known {
								src = cl.Call.StaticCallee().Name()
							}
						}
					}
				}
			}
			if src == "" {
				continue
			}
			if everyIterationCalls(l, func(x ssa.Instruction) bool {
				ci, ok := x.(ssa.CallInstruction)
				return ok && rmTree.Match(ci.Common()) && derivesFrom(ci.Common().Args[0], loadOfField(f), 4)
			}) {
				for _, cls := range covers[src] {
					got[cls] = true
				}
			}
		}
		okCov := true
		for _, cls := range needs[m] {
			okCov = okCov && got[cls]
		}
		c.Check(okCov, rule, "peers whose store's "+m+" sub-tree is cleaned in "+fnName(sub), "every peer that can be filed in the sub-tree ("+strings.Join(needs[m], " and ")+") has the region removed from its store's sub-tree", P.pos(sub.Pos()), fmt.Sprintf("covered: %v", got))
	}
	// BasicCluster wraps every RegionsInfo mutator in its write lock
	bcLock := P.Field("server/core", "BasicCluster", "RWMutex")
	for _, m := range []string{"SetRegion", "RemoveRegion"} {
		fn := P.Method("server/core", "RegionsInfo", m)
		sites, _ := c.nonScaffoldCallers(fn)
		for _, s := range sites {
			rn := ""
			if s.Caller.Signature.Recv() != nil && namedOf(s.Caller.Signature.Recv().Type()) != nil {
				rn = namedOf(s.Caller.Signature.Recv().Type()).Obj().Name()
			}
			if rn != "BasicCluster" {
				continue
			}
			okL, tr := heldAt(P, s.Instr.(ssa.Instruction), bcLock, true)
			c.Check(okL, c.Prop+"/locking", "RegionsInfo."+m+" in "+fnName(s.Caller), "called with the BasicCluster write lock held", P.instrPos(s.Instr), tr)
		}
	}
	regionsF := P.Field("server/core", "BasicCluster", "Regions")
	guardedBy(c, c.Prop+"/locking", regionsF, bcLock, map[string]string{
		"server/core.NewBasicCluster": "construction",
	})
}

// ruleBTreeRecycling: a node that goes back to the free list is empty in all
// of its slices (items, children and the rank indices added by pd).
func ruleBTreeRecycling(c *Ctx) {
	P := c.P
	rule := c.Prop + "/btree-recycling"
	free := P.Method("pkg/btree", "copyOnWriteContext", "freeNode")
	node := P.named("pkg/btree", "node")
	st := node.Underlying().(*types.Struct)
	flFree := F(P.Method("pkg/btree", "FreeList", "freeNode"))
	for i := 0; i < st.NumFields(); i++ {
		f := st.Field(i)
		if _, isSlice := f.Type().Underlying().(*types.Slice); !isSlice {
			continue
		}
		trunc := &calledEv{name: f.Name() + ".truncate(0)", match: func(x ssa.Instruction) bool {
			cl, ok := x.(*ssa.Call)
			if !ok || cl.Call.StaticCallee() == nil || cl.Call.StaticCallee().Name() != "truncate" || len(cl.Call.Args) != 2 {
				return false
			}
			return fieldOfAddr(cl.Call.Args[0]) == f && isConstInt(0)(cl.Call.Args[1])
		}}
		c.need(rule, free, "node put on the free list ("+f.Name()+")", instrCallMatcher(flFree), []Ev{trunc}, all,
			"a recycled node carries nothing over: "+f.Name()+" is truncated before the node is stored for reuse")
	}
	// newNode hands out recycled nodes as they are (so the clearing above is what makes them empty)
	// rank indices are maintained wherever items move between a node and its children
	for _, m := range []string{"insert", "remove", "growChildAndRemove", "split", "maybeSplitChild"} {
		fn := P.methodOpt("pkg/btree", "node", m)
		if fn == nil {
			continue
		}
		idx := P.Field("pkg/btree", "node", "indices")
		touches := false
		for _, b := range fn.Blocks {
			for _, ins := range b.Instrs {
				if fa, ok := ins.(*ssa.FieldAddr); ok && fieldOfAddr(fa) == idx {
					touches = true
				}
			}
		}
		c.Check(touches, rule, "rank indices in node."+m, "maintained together with the items/children it moves", P.pos(fn.Pos()), "")
	}
}

func init() {
	register("C07", "Region lookups and per-store statistics match the cached region set", func(c *Ctx) {
		c.Group("C07/size-accounting", "every tree insertion/deletion/in-place replacement moves totalSize by the region's size; tree and size are written only by the tree's own methods", func() { ruleTreeAccounting(c) })
		c.Group("C07/heartbeat-fields", "(shared with C06) the region built from a heartbeat carries the peers, leader, pending peers and approximate size the per-store statistics are computed from", func() {
			ruleHeartbeatFields(c, map[string]string{"meta": "GetRegion", "leader": "GetLeader", "pendingPeers": "GetPendingPeers", "downPeers": "GetDownPeers", "approximateSize": "GetApproximateSize", "approximateKeys": "GetApproximateKeys"})
		})
		c.Group("C07/tree-lookups", "queries start from find() (containment checked); random picks compute each range's index interval afresh", func() { ruleAdjacentAndScanBounds(c); ruleTreeLookups(c) })
		c.Group("C07/role-index-table", "leaders/followers are fed from the voters (split on the leader test), learners from the learners, pending peers from the pending peers, both when inserting and when updating sizes", func() { ruleRoleIndexTable(c) })
		c.Group("C07/index-discipline", "the shared item is re-pointed only after the old tree/sub-tree entries were removed; sub-tree rebuild is decided on leader, voters, learners and pending peers; range change on both keys; removals hit every index; mutators run under the BasicCluster write lock", func() { ruleRegionsInfoDiscipline(c); ruleRemoveIsAtomic(c) })
		c.Group("C07/btree-recycling", "recycled btree nodes are cleared in every slice (items, children, rank indices); rank indices are maintained by the structural operations", func() { ruleBTreeRecycling(c) })
		c.Group("C07/saved-copy-not-aliased", "(shared with C06) the keys the trees are ordered by are never rewritten in place: encryption for storage works on a deep copy", func() { ruleSavedCopyNotAliased(c) })
		c.Group("C07/keys-immutable", "(shared with C06) the keys of a region meta are assigned only on a meta created in the same function", func() { ruleRegionKeysImmutable(c) })
		c.Group("C07/end-key-infinity", "(shared with C06) an end key is ordered against other keys only where it was tested non-empty: the empty end key means +∞", func() { ruleEndKeyInfinity(c) })
	})
}

// ruleRegionKeysImmutable: the trees are ordered by the start key of the
// region meta they hold, and the served ranges are those byte slices. A region
// meta's StartKey/EndKey field is therefore assigned only on an object made in
// the same function — a literal, or proto.Clone of an existing meta — never
// through a pointer that may be the cached region's meta (a log formatter that
// hex-encodes "its" copy in place rewrites the index under the tree).
func ruleRegionKeysImmutable(c *Ctx) {
	P := c.P
	rule := c.Prop + "/keys-immutable"
	mpb := "github.com/pingcap/kvproto/pkg/metapb"
	fields := []*types.Var{P.Field(mpb, "Region", "StartKey"), P.Field(mpb, "Region", "EndKey")}
	isClone := func(v ssa.Value) bool {
		cl, _ := callOf(v)
		if cl == nil || cl.Call.StaticCallee() == nil || cl.Call.StaticCallee().Pkg == nil {
			return false
		}
		return cl.Call.StaticCallee().Name() == "Clone" && strings.HasSuffix(cl.Call.StaticCallee().Pkg.Pkg.Path(), "protobuf/proto")
	}
	n := 0
	for _, fn := range P.Funcs {
		if P.isScaffold(fn) || !strings.HasPrefix(fnPkgPath(fn), modPath) {
			continue
		}
		k := 0
		for _, f := range fields {
			for _, st := range storesToField(fn, f) {
				fa, ok := st.Addr.(*ssa.FieldAddr)
				if !ok {
					continue
				}
				k++
				n++
				base := fa.X
				fresh := isFreshBase(base) || derivesFrom(base, isClone, 3)
				if !fresh {
					// a local pointer variable assigned a fresh object earlier in this function (r := &metapb.Region{}; r.StartKey = …)
					if u, ok := strip(base).(*ssa.UnOp); ok && u.Op == token.MUL {
						if al, ok := u.X.(*ssa.Alloc); ok {
							fresh = true
							for _, ref := range *al.Referrers() {
								if s2, ok := ref.(*ssa.Store); ok && s2.Addr == ssa.Value(al) && !(isFreshBase(s2.Val) || derivesFrom(s2.Val, isClone, 3)) {
									fresh = false
								}
							}
						}
					}
				}
				if !fresh && fn.Parent() != nil && fn.Parent().Signature.Results().Len() == 1 {
					// a RegionCreateOption: applied by NewRegionInfo/Clone to the region under construction
					if rn := namedOf(fn.Parent().Signature.Results().At(0).Type()); rn != nil && rn.Obj().Name() == "RegionCreateOption" {
						fresh = true
					}
				}
				c.saw(fnName(outer(fn)))
				c.Check(fresh, rule, fmt.Sprintf("assignment #%d of a region meta's %s in %s", k, f.Name(), fnName(fn)), "only on a meta created in this function (literal or proto.Clone)", P.instrPos(st), "the meta may be the one a cached region holds")
			}
		}
	}
	if n < 2 {
		c.Undec(rule, "assignments of region meta keys in the module", "at least 2 (the hex formatter)", "", fmt.Sprint(n))
	}
}

// ruleAdjacentAndScanBounds: two lookups whose boundary tests are the whole
// point. GetAdjacentRegions answers a neighbour only when it is contiguous with
// the region (prev.end == start, end == next.start): across a hole there is no
// neighbour. ScanRange stops at the first region that *starts at or after* the
// exclusive end key.
func ruleAdjacentAndScanBounds(c *Ctx) {
	P := c.P
	rule := c.Prop + "/tree-lookups"
	adj := P.Method("server/core", "RegionsInfo", "GetAdjacentRegions")
	getRegion := F(P.Method("server/core", "RegionsInfo", "GetRegion"))
	isEqual := func(cl *ssa.Call) bool {
		f := cl.Call.StaticCallee()
		return f != nil && f.Pkg != nil && f.Pkg.Pkg.Path() == "bytes" && f.Name() == "Equal"
	}
	n := c.mustPrecede(rule, adj, "neighbour answered by", instrCallMatcher(getRegion), []Ev{guardCall("bytes.Equal(end key, start key) of the two regions", true, isEqual)}, all,
		"a neighbour is answered only when its range is contiguous with the region's (no key hole in between)")
	if n < 2 {
		c.Undec(rule, "neighbour lookups in "+fnName(adj), "2 (previous, next)", P.pos(adj.Pos()), fmt.Sprint(n))
	}
	scan := P.Method("server/core", "RegionsInfo", "ScanRange")
	getStart := F(P.Method("server/core", "RegionInfo", "GetStartKey"))
	okStop := false
	for _, f := range append([]*ssa.Function{scan}, scan.AnonFuncs...) {
		for _, b := range f.Blocks {
			iff, ok := b.Instrs[len(b.Instrs)-1].(*ssa.If)
			if !ok {
				continue
			}
			for si := 0; si < 2; si++ {
				cond, pos := normCond(iff.Cond, si == 0)
				r, okR := relOf(cond, pos)
				if !okR {
					continue
				}
				cl, _ := callOf(r.X)
				k, isC := constInt(r.Y)
				if cl == nil || !isC || k != 0 || r.Op != token.GEQ {
					continue
				}
				g := cl.Call.StaticCallee()
				if g == nil || g.Pkg == nil || g.Pkg.Pkg.Path() != "bytes" || g.Name() != "Compare" || len(cl.Call.Args) != 2 || !valueIsCallTo(cl.Call.Args[0], getStart) {
					continue
				}
				if edgeLeadsStraightTo(b, si, boolReturn(false)) {
					okStop = true
				}
			}
		}
	}
	c.Check(okStop, rule, "end of "+fnName(scan), "the scan stops at the first region whose start key is >= the end key (the end key is exclusive)", P.pos(scan.Pos()), "no `bytes.Compare(region start, end key) >= 0 ⇒ stop` edge")
}
