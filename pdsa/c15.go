package main

import (
	"fmt"
	"go/ast"
	"go/token"
	"go/types"
	"math"
	"sort"
	"strings"

	"golang.org/x/tools/go/ssa"
)

// heldSince: mutex L has been held continuously since a call to `load`.
type heldSinceEv struct {
	lock   *types.Var
	isLoad func(ssa.Instruction) bool
	shared bool // a read lock counts as well (the writers it must exclude take the write lock)
}

func (h *heldSinceEv) Name() string { return "held(" + h.lock.Name() + ") since load" }
func (h *heldSinceEv) Instr(st uint8, ins ssa.Instruction) uint8 {
	if f, op, deferred := lockOp(ins); f == h.lock && !deferred {
		switch op {
		case "Lock":
			return st | 1
		case "Unlock":
			return 0
		case "RLock":
			if h.shared {
				return st | 1
			}
		case "RUnlock":
			if h.shared {
				return 0
			}
		}
		return st
	}
	if h.isLoad(ins) {
		if st&1 != 0 {
			return st | 2
		}
		return st &^ 2
	}
	return st
}
func (h *heldSinceEv) Edge(st uint8, _ *ssa.BasicBlock, _ int) uint8 { return st }
func (h *heldSinceEv) Holds(st uint8) bool                           { return st == 3 }

// mutexFieldsLockedIn: mutex fields with a Lock() call in fn.
var atomicRMWShared bool // set around a call of atomicRMW that accepts read locks

func mutexFieldsLockedIn(fn *ssa.Function) []*types.Var {
	seen := map[*types.Var]bool{}
	var out []*types.Var
	for _, b := range fn.Blocks {
		for _, ins := range b.Instrs {
			if f, op, _ := lockOp(ins); f != nil && (op == "Lock" || (atomicRMWShared && op == "RLock")) && !seen[f] {
				seen[f] = true
				out = append(out, f)
			}
		}
	}
	return out
}

// atomicRMW: E2(iii). In fn every call of `save` is reached only while one
// mutex has been held continuously since the call of `load` whose result the
// decision is based on.
func (c *Ctx) atomicRMW(rule string, fn *ssa.Function, load, save Callee) {
	c.saw(fnName(fn))
	isLoad := instrCallMatcher(load)
	isSave := instrCallMatcher(save)
	locks := mutexFieldsLockedIn(fn)
	var evs []Ev
	init := uint64(0)
	for _, l := range locks {
		evs = append(evs, &heldSinceEv{l, isLoad, atomicRMWShared})
	}
	// locks held by every caller count as held at entry
	for _, cs := range c.P.Callers(fn) {
		for _, l := range mutexFieldsLockedIn(cs.Caller) {
			dup := false
			for _, k := range locks {
				if k == l {
					dup = true
				}
			}
			if dup {
				continue
			}
			if ok, _ := callersHold(c.P, fn, l, true, 2, map[*ssa.Function]bool{}); ok {
				locks = append(locks, l)
				evs = append(evs, &heldSinceEv{l, isLoad, atomicRMWShared})
				init = setSt(init, len(evs)-1, 1)
			}
		}
	}
	req := fmt.Sprintf("one mutex is held continuously from %s to %s (check-then-act must be atomic over all schedules)", load.CName(), save.CName())
	if len(evs) == 0 {
		for i, s := range callsIn(fn, false, save) {
			c.Viol(rule, fmt.Sprintf("%s→%s in %s #%d", load.CName(), save.CName(), fnName(fn), i+1), req, c.P.instrPos(s),
				"no mutex is taken in this function or held by its callers; two requests can both load the old value and save in either order")
		}
		return
	}
	targets, fails := requireAt(c.P, fn, init, evs, isSave, anyOf)
	failed := map[ssa.Instruction]pathFail{}
	for _, f := range fails {
		failed[f.Ins] = f
	}
	for i, t := range targets {
		construct := fmt.Sprintf("%s→%s in %s #%d", load.CName(), save.CName(), fnName(fn), i+1)
		if f, bad := failed[t]; bad {
			c.Viol(rule, construct, req, c.P.instrPos(t), "reached with "+f.State+" via "+f.Trace)
		} else {
			c.OK(rule, construct, req, c.P.instrPos(t))
		}
	}
}

// gcKeyWriters classifies the Storage methods that build a key under gcPath
// and write/remove it, by the constant segments they pass to path.Join.
type gcWriter struct {
	fn       *ssa.Function
	segments []string // constant segments after gcPath
	writes   bool
}

func gcKeyFunctions(c *Ctx) []gcWriter {
	P := c.P
	gcPath := P.obj("server/core", "gcPath")
	save := P.IMethod("server/kv", "Base", "Save")
	remove := P.IMethod("server/kv", "Base", "Remove")
	var out []gcWriter
	for fd, info := range P.usesOfObject(gcPath) {
		fn := P.ssaOfDecl(info, fd)
		if fn == nil {
			continue
		}
		w := gcWriter{fn: fn}
		ast.Inspect(fd.Body, func(n ast.Node) bool {
			call, ok := n.(*ast.CallExpr)
			if !ok || len(call.Args) == 0 {
				return true
			}
			if id, ok := call.Args[0].(*ast.Ident); ok && info.Uses[id] == gcPath {
				for _, a := range call.Args[1:] {
					if v, ok := constValueOf(info, a); ok {
						w.segments = append(w.segments, strings.Trim(v.ExactString(), "\""))
					} else {
						w.segments = append(w.segments, "*")
					}
				}
			}
			return true
		})
		w.writes = len(callsIn(fn, true, save, remove)) > 0
		out = append(out, w)
	}
	sort.Slice(out, func(i, j int) bool { return out[i].fn.Name() < out[j].fn.Name() })
	return out
}

// ruleGCStorageErrors: the handlers decide on what the storage returns; a
// failed read that is reported as "nothing stored" lets a smaller value through.
// No storage method of the GC keys, and neither handler, reports success after
// a kv or storage call whose error was not found nil.
func ruleGCStorageErrors(c *Ctx) {
	P := c.P
	rule := c.Prop + "/storage-errors"
	base := func(m string) Callee { return P.IMethod("server/kv", "Base", m) }
	// (the pruning of an expired entry inside LoadMinServiceGCSafePoint is best effort: its Remove is not listed)
	kvCalls := []Callee{base("Load"), base("LoadRange"), base("Save")}
	st := func(m string) *ssa.Function { return P.Method("server/core", "Storage", m) }
	for _, fn := range []*ssa.Function{st("LoadGCSafePoint"), st("SaveGCSafePoint"), st("LoadMinServiceGCSafePoint"), st("SaveServiceGCSafePoint"), st("RemoveServiceGCSafePoint"), st("GetAllServiceGCSafePoints")} {
		var evs []Ev
		calls := kvCalls
		if fn == st("RemoveServiceGCSafePoint") {
			calls = append(append([]Callee{}, kvCalls...), base("Remove"))
		}
		for _, k := range calls {
			if len(callsIn(fn, false, k)) > 0 {
				evs = append(evs, newSettledEv(fn, k.CName(), callMatcher(k)))
			}
		}
		if len(evs) == 0 {
			c.Undec(rule, "kv calls in "+fnName(fn), "at least one", P.pos(fn.Pos()), "")
			continue
		}
		c.needOnSuccess(rule, fn, evs, all, "success is reported only when every kv call made so far returned a nil error")
	}
	for _, h := range []*ssa.Function{P.Method("server", "Server", "UpdateGCSafePoint"), P.Method("server", "Server", "UpdateServiceGCSafePoint")} {
		var evs []Ev
		for _, m := range []string{"LoadGCSafePoint", "SaveGCSafePoint", "LoadMinServiceGCSafePoint", "SaveServiceGCSafePoint", "RemoveServiceGCSafePoint"} {
			f := st(m)
			if len(callsIn(h, false, F(f))) > 0 {
				evs = append(evs, newSettledEv(h, m, callMatcher(F(f))))
			}
		}
		if len(evs) == 0 {
			c.Undec(rule, "storage calls in "+fnName(h), "at least one", P.pos(h.Pos()), "")
			continue
		}
		c.needOnSuccess(rule, h, evs, all, "the handler answers without an error only when every storage call made so far succeeded")
	}
}

func init() {
	register("C15", "GC safe points never move backwards", func(c *Ctx) {
		P := c.P
		c.Group("C15/cluster-safepoint", "every writer of the cluster GC safe-point key is called only as load→compare(new>old)→save under one mutex; the response reports max(old,new)", func() {
			loadFn := P.Method("server/core", "Storage", "LoadGCSafePoint")
			var clusterWriters []*ssa.Function
			for _, w := range gcKeyFunctions(c) {
				if w.writes && len(w.segments) == 1 && w.segments[0] == "safe_point" {
					clusterWriters = append(clusterWriters, w.fn)
					c.OK("C15/key-writer", "writer of gc/safe_point: "+fnName(w.fn), "classified by the constant key segments it joins under gcPath", P.pos(w.fn.Pos()))
				}
			}
			if len(clusterWriters) == 0 {
				undecidedf("no Storage method writes gcPath/safe_point")
			}
			nSites := 0
			for _, saveFn := range clusterWriters {
				sites, escapes := c.nonScaffoldCallers(saveFn)
				for _, e := range escapes {
					c.Viol("C15/atomic-rmw", "function value of "+fnName(saveFn), "writer not handed out as a function value", P.instrPos(e), "")
				}
				doneFn := map[*ssa.Function]bool{}
				for _, s := range sites {
					fn := s.Caller
					if doneFn[fn] {
						continue
					}
					doneFn[fn] = true
					nSites++
					c.atomicRMW("C15/atomic-rmw", fn, F(loadFn), F(saveFn))
					// monotone write: save(new) only under new > old (>= would also never decrease)
					for i, call := range callsIn(fn, false, F(saveFn)) {
						args := callArgs(call.Common())
						if len(args) != 1 {
							continue
						}
						newV := args[0]
						g := guardRel("new>old", "> >=", same(newV), resultOfCall(F(loadFn)))
						construct := fmt.Sprintf("%s(new) in %s #%d", saveFn.Name(), fnName(fn), i+1)
						_, fails := requireAt(P, fn, 0, []Ev{g}, func(x ssa.Instruction) bool { return x == call.(ssa.Instruction) }, all)
						if len(fails) > 0 {
							c.Viol("C15/monotone-write", construct, "dominated by the true edge of new > old with old = the loaded safe point", P.instrPos(call), fails[0].State+" via "+fails[0].Trace)
						} else {
							c.OK("C15/monotone-write", construct, "dominated by the true edge of new > old with old = the loaded safe point", P.instrPos(call))
						}
						// response value: wherever new < old the reported value is old
						c.responseMax(fn, newV, loadFn)
					}
				}
			}
			if nSites == 0 {
				c.Undec("C15/atomic-rmw", "callers of cluster safe-point writers", "at least one caller", "", "no caller found")
			}
		})

		c.Group("C15/linearizable-reads", "the etcd reads under the storage layer are linearizable (never WithSerializable)", func() { ruleLinearizableReads(c) })
		c.Group("C15/storage-errors", "errors of the kv layer and of the GC storage methods are never reported as success", func() { ruleGCStorageErrors(c) })
		c.Group("C15/service-safepoint", "service safe points: load-min→save atomic; registration only under TTL>0 ∧ safePoint>=min; TTL<=0 removes; gc_worker is permanent; expired entries are removed", func() {
			st := func(m string) *ssa.Function { return P.Method("server/core", "Storage", m) }
			saveSvc, removeSvc, loadMin := st("SaveServiceGCSafePoint"), st("RemoveServiceGCSafePoint"), st("LoadMinServiceGCSafePoint")
			initGW := st("initServiceGCSafePointForGCWorker")
			fExpired := P.Field("server/core", "ServiceSafePoint", "ExpiredAt")
			fSafe := P.Field("server/core", "ServiceSafePoint", "SafePoint")
			fSvcID := P.Field("server/core", "ServiceSafePoint", "ServiceID")
			gcWorker := P.obj("server/core", "gcWorkerServiceSafePointID").(*types.Const)
			gwName := strings.Trim(gcWorker.Val().ExactString(), "\"")

			// all writers of service keys are the three known roles
			for _, w := range gcKeyFunctions(c) {
				if w.writes && len(w.segments) >= 2 && w.segments[1] == "service" {
					c.OK("C15/key-writer", "writer of gc/safe_point/service/*: "+fnName(w.fn), "classified by key segments", P.pos(w.fn.Pos()))
				}
			}
			// callers outside core: atomic load-min → save
			sites, _ := c.nonScaffoldCallers(saveSvc)
			for _, s := range sites {
				fn := s.Caller
				if fnPkgPath(fn) == modPath+"/server/core" {
					continue
				}
				c.atomicRMW("C15/service-atomic-rmw", fn, F(loadMin), F(saveSvc))
				ttlField := P.Field("github.com/pingcap/kvproto/pkg/pdpb", "UpdateServiceGCSafePointRequest", "TTL")
				reqSafe := P.Field("github.com/pingcap/kvproto/pkg/pdpb", "UpdateServiceGCSafePointRequest", "SafePoint")
				gTTL := guardRel("TTL>0", ">", loadOfField(ttlField), isConstInt(0))
				gMin := guardRel("safePoint>=min", ">=", loadOfField(reqSafe), func(v ssa.Value) bool {
					return isLoadOf(v, fSafe) && derivesFrom(v, resultOfCall(F(loadMin)), 4)
				})
				c.need("C15/service-save-guard", fn, "call SaveServiceGCSafePoint", func(i ssa.Instruction) bool { return i == s.Instr.(ssa.Instruction) },
					[]Ev{gTTL, gMin}, all, "dominated by TTL > 0 ∧ request.SafePoint >= min.SafePoint (min from LoadMinServiceGCSafePoint)")
				// what is reported as the minimum is the loaded minimum, not the request's own value
				respMin := P.Field("github.com/pingcap/kvproto/pkg/pdpb", "UpdateServiceGCSafePointResponse", "MinSafePoint")
				nResp := 0
				for _, rs := range storesToField(fn, respMin) {
					nResp++
					okMin := derivesFrom(rs.Val, func(v ssa.Value) bool { return isLoadOf(v, fSafe) && derivesFrom(v, resultOfCall(F(loadMin)), 6) }, 3) &&
						!derivesFrom(rs.Val, loadOfField(reqSafe), 3)
					c.Check(okMin, "C15/service-response-min", fmt.Sprintf("MinSafePoint of the response #%d in %s", nResp, fnName(fn)), "the safe point of the entry LoadMinServiceGCSafePoint returned", P.instrPos(rs), "")
				}
				if nResp == 0 {
					c.Undec("C15/service-response-min", "response of "+fnName(fn), "a MinSafePoint field", "", "")
				}
				// expiry arithmetic: ExpiredAt = now + TTL is kept only when the sum cannot overflow,
				// otherwise it is clamped to MaxInt64 (a wrapped sum is a record that expired long ago)
				isUnix := func(v ssa.Value) bool {
					cl, _ := callOf(v)
					return cl != nil && isStdMethod(cl, "time", "Time", "Unix")
				}
				headroom := func(v ssa.Value) bool {
					b, ok := strip(v).(*ssa.BinOp)
					return ok && b.Op == token.SUB && isConstInt(math.MaxInt64)(b.X) && isUnix(b.Y)
				}
				fits := guardRel("TTL < MaxInt64 - now", ">", headroom, loadOfField(ttlField))
				// (the value stored may be chosen into a local first: a φ, resolved on the path)
				clamped := &calledEv{name: "ExpiredAt = MaxInt64", match: func(x ssa.Instruction) bool {
					st, ok := x.(*ssa.Store)
					return ok && fieldOfAddr(st.Addr) == fExpired && isConstInt(math.MaxInt64)(resolved(st.Val))
				}}
				sumStored := false
				for _, st := range storesToField(fn, fExpired) {
					if phi, isPhi := st.Val.(*ssa.Phi); isPhi {
						trackPhis[fn] = append(trackPhis[fn], phi)
					}
					for _, alt := range valueAlternatives(st.Val, 3) {
						if b, ok := strip(alt).(*ssa.BinOp); ok && b.Op == token.ADD && (isUnix(b.X) && isLoadOf(b.Y, ttlField) || isUnix(b.Y) && isLoadOf(b.X, ttlField)) {
							sumStored = true
						}
					}
				}
				if sumStored {
					c.need("C15/service-expiry", fn, "call SaveServiceGCSafePoint", func(i ssa.Instruction) bool { return i == s.Instr.(ssa.Instruction) },
						[]Ev{fits, clamped}, anyOf, "now + TTL is saved as the expiry only if it cannot overflow (TTL < MaxInt64 - now); otherwise the expiry was set to MaxInt64")
				} else {
					c.Undec("C15/service-expiry", "ExpiredAt = now + TTL in "+fnName(fn), "found", P.pos(fn.Pos()), "")
				}
				gTTL0 := guardRel("TTL<=0", "<=", loadOfField(ttlField), isConstInt(0))
				c.need("C15/service-remove-guard", fn, "call RemoveServiceGCSafePoint", instrCallMatcher(F(removeSvc)),
					[]Ev{gTTL0}, all, "a registration is removed only under TTL <= 0")
			}
			// Storage-side atoms
			c.atomRejects("C15/gc-worker-permanent", saveSvc, "ServiceID == gc_worker ∧ ExpiredAt != MaxInt64 ⇒ error",
				relMatcher("!=", loadOfField(fExpired), isConstInt(math.MaxInt64)), errReturn)
			c.need("C15/gc-worker-permanent", saveSvc, "the ExpiredAt != MaxInt64 test", func(i ssa.Instruction) bool {
				iff, ok := i.(*ssa.If)
				if !ok {
					return false
				}
				r, ok := relOf(iff.Cond, true)
				return ok && matchRel(r, "!= ==", loadOfField(fExpired), isConstInt(math.MaxInt64))
			}, []Ev{guardRel("ServiceID==gc_worker", "==", loadOfField(fSvcID), isConstStr(gwName))}, all, "the infinity test applies exactly to the gc_worker entry")
			// identity is decided on the key that is used, not on the id as it was sent: the key is built with
			// path.Join, which cleans it, so "gc_worker/" or "x/../gc_worker" address gc_worker's entry as well
			isJoin := func(cl *ssa.Call) bool {
				f := cl.Call.StaticCallee()
				return f != nil && f.Pkg != nil && f.Pkg.Pkg.Path() == "path" && f.Name() == "Join"
			}
			joinsGW := func(v ssa.Value) bool {
				// path.Join(…, "gc_worker") itself, or a key helper of the module given "gc_worker"
				cl, _ := callOf(v)
				if cl == nil {
					return false
				}
				if f := cl.Call.StaticCallee(); !isJoin(cl) && (f == nil || !strings.HasPrefix(fnPkgPath(f), modPath)) {
					return false
				}
				for _, a := range cl.Call.Args {
					if isConstStr(gwName)(a) {
						return true
					}
				}
				k := newKeyAtoms()
				P.collectKeyAtoms(v, k, 6, map[ssa.Value]bool{})
				return k.Consts[gwName]
			}
			denotesGWKey := func(v ssa.Value) bool {
				v = strip(v)
				if sv, ok := constString(v); ok {
					return strings.HasSuffix(sv, "/"+gwName)
				}
				if joinsGW(v) {
					return true
				}
				if u, ok := v.(*ssa.UnOp); ok && u.Op == token.MUL {
					if g, ok := u.X.(*ssa.Global); ok {
						if ini := g.Pkg.Func("init"); ini != nil {
							for _, b := range ini.Blocks {
								for _, ins := range b.Instrs {
									if st, ok := ins.(*ssa.Store); ok && st.Addr == ssa.Value(g) && joinsGW(st.Val) {
										return true
									}
								}
							}
						}
					}
				}
				return false
			}
			cleaned := func(key ssa.Value) bool { cl, _ := callOf(key); return cl != nil && isJoin(cl) }
			kvRemove := P.IMethod("server/kv", "Base", "Remove")
			kvSave := P.IMethod("server/kv", "Base", "Save")
			for _, ci := range callsIn(removeSvc, false, kvRemove) {
				a := callArgs(ci.Common())
				if len(a) != 1 {
					continue
				}
				key := a[0]
				byKey := guardRel("key != gc_worker's key", "!=", same(key), denotesGWKey)
				byID := guardRel("serviceID != gc_worker", "!=", func(v ssa.Value) bool { _, ok := v.(*ssa.Parameter); return ok }, isConstStr(gwName))
				rawOK := !cleaned(key)
				target := ci.(ssa.Instruction)
				c.need("C15/gc-worker-permanent", removeSvc, "call Storage.Remove", func(x ssa.Instruction) bool { return x == target }, []Ev{byKey, byID},
					func(h []bool) bool { return h[0] || (h[1] && rawOK) },
					"gc_worker's entry is never removed: the key that is removed was compared with gc_worker's key (a comparison of the id alone is not enough when the key is cleaned by path.Join)")
			}
			for _, ci := range callsIn(saveSvc, false, kvSave) {
				a := callArgs(ci.Common())
				if len(a) != 2 {
					continue
				}
				key := a[0]
				// a key handed over through a result variable: the one computed value it can hold (the other
				// alternatives being constants that are not gc_worker's key, as the "" returned with an error)
				var computed []ssa.Value
				for _, alt := range valueAlternatives(key, 3) {
					if _, isC := alt.(*ssa.Const); isC && !denotesGWKey(alt) {
						continue
					}
					dup := false
					for _, o := range computed {
						dup = dup || sameVal(o, alt)
					}
					if !dup {
						computed = append(computed, alt)
					}
				}
				if len(computed) == 1 {
					key = computed[0]
				}
				byKey := guardRel("key != gc_worker's key", "!=", same(key), denotesGWKey)
				isGW := guardRel("ServiceID == gc_worker", "==", loadOfField(fSvcID), isConstStr(gwName))
				notGW := guardRel("ServiceID != gc_worker", "!=", loadOfField(fSvcID), isConstStr(gwName))
				inf := guardRel("ExpiredAt == MaxInt64", "==", loadOfField(fExpired), isConstInt(math.MaxInt64))
				rawOK := !cleaned(key)
				target := ci.(ssa.Instruction)
				c.need("C15/gc-worker-permanent", saveSvc, "call Storage.Save", func(x ssa.Instruction) bool { return x == target }, []Ev{byKey, isGW, notGW, inf},
					func(h []bool) bool { return h[0] || (h[1] && h[3]) || (h[2] && rawOK) },
					"what is written under gc_worker's key is gc_worker's own record with unlimited lifetime: the key was found different from gc_worker's, or the record names gc_worker and never expires")
			}
			// the expiry test never sees gc_worker's entry with a finite expiry: a legacy record is repaired first
			unixCall := func(v ssa.Value) bool {
				cl, _ := callOf(v)
				return cl != nil && isStdMethod(cl, "time", "Time", "Unix")
			}
			c.need("C15/gc-worker-permanent", loadMin, "the expiry test (ExpiredAt < now)", func(i ssa.Instruction) bool {
				iff, ok := i.(*ssa.If)
				if !ok {
					return false
				}
				r, ok := relOf(iff.Cond, true)
				return ok && matchRel(r, "< >=", loadOfField(fExpired), unixCall)
			}, []Ev{guardRel("not gc_worker", "!=", loadOfField(fSvcID), isConstStr(gwName)),
				guardRel("ExpiredAt == MaxInt64", "==", loadOfField(fExpired), isConstInt(math.MaxInt64)),
				&calledEv{name: "ExpiredAt = MaxInt64 (repair)", match: func(x ssa.Instruction) bool {
					st, ok := x.(*ssa.Store)
					return ok && fieldOfAddr(st.Addr) == fExpired && isConstInt(math.MaxInt64)(st.Val)
				}, reset: func(x ssa.Instruction) bool { _, isNext := x.(*ssa.Next); return isNext }}},
				anyOf, "an entry is tested for expiry only if it is not gc_worker's, or gc_worker's expiry is (or was just repaired to) MaxInt64")
			// initServiceGCSafePointForGCWorker builds {gc_worker, MaxInt64}
			c.saw(fnName(initGW))
			okID, okExp := false, false
			for _, b := range initGW.Blocks {
				for _, ins := range b.Instrs {
					if s, ok := ins.(*ssa.Store); ok {
						if fieldOfAddr(s.Addr) == fSvcID && isConstStr(gwName)(s.Val) {
							okID = true
						}
						if fieldOfAddr(s.Addr) == fExpired && isConstInt(math.MaxInt64)(s.Val) {
							okExp = true
						}
					}
				}
			}
			c.Check(okID && okExp && len(callsIn(initGW, false, F(saveSvc))) > 0, "C15/gc-worker-permanent", "entry built by "+fnName(initGW),
				"ServiceID = gc_worker, ExpiredAt = MaxInt64, saved", P.pos(initGW.Pos()), "")
			// LoadMin: expired removal, min selection, three re-creation paths
			nowUnix := func(v ssa.Value) bool {
				cl, _ := callOf(v)
				return cl != nil && cl.Call.StaticCallee() != nil && cl.Call.StaticCallee().Name() == "Unix"
			}
			c.need("C15/expired-removed", loadMin, "call Storage.Remove(key)", instrCallMatcher(P.IMethod("server/kv", "Base", "Remove")),
				[]Ev{guardRel("ExpiredAt<now", "<", loadOfField(fExpired), nowUnix)}, all, "an entry is deleted only when ExpiredAt < now")
			// …and every expired entry is: from the expired edge no way back to the loop header (or out of the
			// function) avoids the removal
			{
				rm := P.IMethod("server/kv", "Base", "Remove")
				nExp, okRm := 0, true
				for _, b := range loadMin.Blocks {
					iff, ok := b.Instrs[len(b.Instrs)-1].(*ssa.If)
					if !ok {
						continue
					}
					for si := 0; si < 2; si++ {
						r, okR := relOf(iff.Cond, si == 0)
						if !okR || !matchRel(r, "<", loadOfField(fExpired), nowUnix) {
							continue
						}
						nExp++
						// walk from the expired successor; stop at blocks that remove
						seen := map[*ssa.BasicBlock]bool{}
						var walk func(x *ssa.BasicBlock) bool
						walk = func(x *ssa.BasicBlock) bool {
							if seen[x] {
								return true
							}
							seen[x] = true
							for _, ins := range x.Instrs {
								if isCallTo(ins, rm) {
									return true
								}
							}
							if x == b || len(x.Succs) == 0 || x.Dominates(b) {
								return false // back at the test, at the loop header, or out of the function: not removed
							}
							for _, s := range x.Succs {
								if !walk(s) {
									return false
								}
							}
							return true
						}
						if !walk(b.Succs[si]) {
							okRm = false
						}
					}
				}
				c.Check(nExp > 0 && okRm, "C15/expired-removed", "expired branch of "+fnName(loadMin), "an entry found expired is removed from storage before the scan goes on", P.pos(loadMin.Pos()), fmt.Sprintf("%d expiry tests", nExp))
			}
			// min = ssp only under ssp.SafePoint < min.SafePoint and not expired
			minPhi := func(ins ssa.Instruction) bool {
				// the block that continues the loop with min := ssp is the true successor of SafePoint<SafePoint
				return false
			}
			_ = minPhi
			found, controls := guardControlsReturn(loadMin, relMatcher("<", loadOfField(fSafe), loadOfField(fSafe)), func(*ssa.Return) bool { return true })
			c.Check(found && controls, "C15/min-selection", "ssp.SafePoint < min.SafePoint in "+fnName(loadMin), "the minimum is selected by a strict less-than over safe points", P.pos(loadMin.Pos()), "comparison not found")
			// the expiry test precedes the min comparison (expired entries never become the minimum)
			c.need("C15/min-selection", loadMin, "the SafePoint<min.SafePoint test", func(i ssa.Instruction) bool {
				iff, ok := i.(*ssa.If)
				if !ok {
					return false
				}
				r, ok := relOf(iff.Cond, true)
				return ok && matchRel(r, "<", loadOfField(fSafe), loadOfField(fSafe))
			}, []Ev{guardRel("ExpiredAt>=now", ">=", loadOfField(fExpired), nowUnix)}, all, "only live (not expired) entries compete for the minimum")
			// the scan is unbounded: every registered service takes part
			loadRange := P.IMethod("server/kv", "Base", "LoadRange")
			for _, scanFn := range []*ssa.Function{loadMin, st("GetAllServiceGCSafePoints")} {
				okScan := false
				for _, ci := range callsIn(scanFn, false, loadRange) {
					if a := callArgs(ci.Common()); len(a) == 3 {
						if z, isC := constInt(a[2]); isC && z == 0 {
							okScan = true
						} else {
							okScan = false
							break
						}
					}
				}
				c.Check(okScan, "C15/scan-all-services", "LoadRange in "+fnName(scanFn), "service safe points are scanned without a limit (limit 0)", P.pos(scanFn.Pos()), "bounded scan: services beyond the limit are ignored")
			}
			n := len(callsIn(loadMin, false, F(initGW)))
			c.Check(n >= 3, "C15/gc-worker-recreated", "calls of "+initGW.Name()+" in "+fnName(loadMin),
				"gc_worker is re-created on the three stated paths (no keys, no valid safe point, gc_worker missing)", P.pos(loadMin.Pos()), fmt.Sprintf("found %d", n))
			c.need("C15/gc-worker-recreated", loadMin, "return min", func(i ssa.Instruction) bool {
				r, ok := i.(*ssa.Return)
				if !ok || len(r.Results) != 2 || !retIsNilErr(r) {
					return false
				}
				cl, _ := callOf(retVal(r, 0))
				return cl == nil // the plain `return min, nil`
			}, []Ev{&guardEv{name: "hasGCWorker", match: func(cond ssa.Value, pos bool) bool {
				_, isPhi := cond.(*ssa.Phi)
				return isPhi && pos
			}}}, all, "the loaded minimum is returned only when gc_worker's entry exists")
		})
	})
}

// responseMax: the value reported back must be old wherever new < old. We
// check the structural form: the value stored into the response's NewSafePoint
// is a φ that has the loaded value as an operand on an edge dominated by
// new < old (or new <= old).
func (c *Ctx) responseMax(fn *ssa.Function, newV ssa.Value, loadFnF *ssa.Function) {
	loadFn := F(loadFnF)
	P := c.P
	f := P.Field("github.com/pingcap/kvproto/pkg/pdpb", "UpdateGCSafePointResponse", "NewSafePoint")
	for _, b := range fn.Blocks {
		for _, ins := range b.Instrs {
			st, ok := ins.(*ssa.Store)
			if !ok || fieldOfAddr(st.Addr) != f {
				continue
			}
			construct := "response.NewSafePoint in " + fnName(fn)
			req := "reports old where new < old, otherwise new (max of the two)"
			if _, ok := st.Val.(*ssa.Phi); !ok {
				c.Viol("C15/response-max", construct, req, P.instrPos(st), "stored value is not selected between old and new")
				continue
			}
			// decided per path: the value that reaches the store on a path (φs — also those of a result variable —
			// resolved by the tests taken) is old only where new < old was established, and new only where it was not
			var phis []*ssa.Phi
			var collect func(v ssa.Value, d int)
			seenV := map[ssa.Value]bool{}
			collect = func(v ssa.Value, d int) {
				if v == nil || d < 0 || seenV[v] {
					return
				}
				seenV[v] = true
				if p, isPhi := v.(*ssa.Phi); isPhi {
					phis = append(phis, p)
					for _, e := range p.Edges {
						collect(e, d-1)
					}
				}
			}
			collect(st.Val, 3)
			oldTrack := trackPhis[fn]
			trackPhis[fn] = append(append([]*ssa.Phi{}, oldTrack...), phis...)
			gLE := guardRel("new<old", "< <=", same(newV), resultOfCall(loadFn))
			gLT := guardRel("new<old (strict)", "<", same(newV), resultOfCall(loadFn))
			ex := explore(P, fn, 0, []Ev{gLE, gLT}, func(x ssa.Instruction) bool { return x == ins })
			trackPhis[fn] = oldTrack
			good := true
			hasOld := false
			detail := ""
			for k, stt := range ex.at[ins] {
				r := ex.resolveAt(st.Val, ex.atSel[ins][k])
				h := ex.holdsVec(stt)
				switch {
				case resultOfCall(loadFn)(r):
					hasOld = true
					if !h[0] {
						good = false
						detail = "old is reported on a path where new < old is not established: " + ex.findTrace(b.Index, stt, ins)
					}
				case sameVal(r, newV):
					if h[1] {
						good = false
						detail = "new is reported on a path where new < old holds"
					}
				default:
					if _, stillPhi := r.(*ssa.Phi); stillPhi {
						// could not be resolved on this path: fall back to its operands, each must be old or new
						for _, e := range valueAlternatives(r, 3) {
							if !resultOfCall(loadFn)(e) && !sameVal(e, newV) {
								good = false
								detail = "unexpected operand " + e.String()
							}
						}
					} else {
						good = false
						detail = "unexpected value " + r.String()
					}
				}
			}
			c.Check(good && hasOld, "C15/response-max", construct, req, P.instrPos(st), detail)
		}
	}
}

// ruleLinearizableReads: decisions that compare a request with what is stored
// (the minimum service safe point, the cluster safe point, the time window)
// read through etcd's linearizable Get. A serializable read is answered by the
// contacted member from its own, possibly lagging, state — holding a PD-side
// mutex does not help. No storage or election path asks for one.
func ruleLinearizableReads(c *Ctx) {
	P := c.P
	rule := c.Prop + "/linearizable-reads"
	scope := map[string]bool{}
	for _, rel := range []string{"server/kv", "pkg/etcdutil", "server/core", "server/election", "server/tso", "server/id", "server/member", "server"} {
		scope[modPath+"/"+rel] = true
	}
	nOpts, bad := 0, 0
	for _, fn := range P.Funcs {
		if P.isScaffold(fn) || !scope[fnPkgPath(fn)] {
			continue
		}
		for _, b := range fn.Blocks {
			for _, ins := range b.Instrs {
				cl, ok := ins.(*ssa.Call)
				if !ok {
					continue
				}
				f := cl.Call.StaticCallee()
				if f == nil || f.Pkg == nil || !strings.HasSuffix(f.Pkg.Pkg.Path(), "/clientv3") || !strings.HasPrefix(f.Name(), "With") {
					continue
				}
				nOpts++
				if f.Name() == "WithSerializable" {
					bad++
					c.Viol(rule, fmt.Sprintf("clientv3.WithSerializable #%d in %s", bad, fnName(fn)), "storage and election reads are linearizable", P.instrPos(cl), "a serializable read may be answered from a lagging etcd member")
				}
			}
		}
	}
	if nOpts < 3 {
		c.Undec(rule, "clientv3 read options in the storage/election packages", "at least 3 (WithRange, WithLimit, WithPrefix …)", "", fmt.Sprint(nOpts))
		return
	}
	if bad == 0 {
		c.OK(rule, "clientv3 read options in the storage and election packages", "none asks for a serializable read", "")
	}
}
