package main

// Rename robustness. Rule subjects (functions, fields) are named in the rule
// tables; an unexported helper may be renamed at any time without changing
// behaviour. Every subject the checks resolve on the reference tree is recorded
// with a structural fingerprint (receiver, signature, callees, fields touched,
// string constants) in /verif/baseline/fingerprints.json. When a subject can no
// longer be found by name, a function of the same package with the same
// receiver and signature whose fingerprint is (nearly) identical is taken to be
// the renamed subject; the substitution is reported in the evidence. Anything
// less than a clear, unique match stays UNDECIDED.

import (
	"encoding/json"
	"fmt"
	"go/types"
	"os"
	"path/filepath"
	"sort"
	"strings"
	"sync"

	"golang.org/x/tools/go/ssa"
)

type fnPrint struct {
	Recv    string   `json:"recv,omitempty"`
	Sig     string   `json:"sig"`
	Callees []string `json:"callees,omitempty"`
	Fields  []string `json:"fields,omitempty"`
	// FieldTypes: the same accesses as "struct:type of the field" (a field may be renamed in the same change)
	FieldTypes []string `json:"field_types,omitempty"`
	Consts     []string `json:"consts,omitempty"`
	NInstr     int      `json:"n"`
}

type fieldPrint struct {
	Type  string   `json:"type"`
	Users []string `json:"users"`
	// UserSigs: receiver and signature of every user (robust when users are renamed too)
	UserSigs []string `json:"user_sigs,omitempty"`
	// Index: position of the field in its struct (tie-break when several same-typed fields are renamed at once)
	Index int `json:"index"`
}

type baselineDoc struct {
	Funcs  map[string]fnPrint    `json:"funcs"`
	Fields map[string]fieldPrint `json:"fields"`
	// FuncKeys: key of Funcs -> (package, receiver type, name)
	FuncKeys map[string][3]string `json:"func_keys,omitempty"`
	// Inventory: full name of every function declared in the module on the
	// reference tree (inline.go expands calls to functions not listed here)
	Inventory []string `json:"inventory,omitempty"`
}

var (
	baseMu      sync.Mutex
	baseline    *baselineDoc
	recordBase  bool
	recorded    = &baselineDoc{Funcs: map[string]fnPrint{}, Fields: map[string]fieldPrint{}, FuncKeys: map[string][3]string{}}
	renamesSeen []string
	verifDirG   = "/verif"
)

func loadBaseline() *baselineDoc {
	baseMu.Lock()
	defer baseMu.Unlock()
	if baseline != nil {
		return baseline
	}
	baseline = &baselineDoc{Funcs: map[string]fnPrint{}, Fields: map[string]fieldPrint{}}
	if b, err := os.ReadFile(filepath.Join(verifDirG, "baseline", "fingerprints.json")); err == nil {
		json.Unmarshal(b, baseline)
	}
	return baseline
}

func shortType(t types.Type) string {
	return types.TypeString(t, func(p *types.Package) string { return p.Name() })
}

func fingerprintOf(fn *ssa.Function) fnPrint {
	fp := fnPrint{Sig: shortType(fn.Signature)}
	if fn.Signature.Recv() != nil {
		fp.Recv = shortType(fn.Signature.Recv().Type())
		// signature string without receiver
		fp.Sig = shortType(types.NewSignatureType(nil, nil, nil, fn.Signature.Params(), fn.Signature.Results(), fn.Signature.Variadic()))
	}
	callees, fields, consts, ftypes := map[string]bool{}, map[string]bool{}, map[string]bool{}, map[string]bool{}
	var walk func(f *ssa.Function)
	walk = func(f *ssa.Function) {
		for _, b := range f.Blocks {
			for _, ins := range b.Instrs {
				fp.NInstr++
				switch x := ins.(type) {
				case ssa.CallInstruction:
					cc := x.Common()
					if cc.IsInvoke() {
						callees["~"+cc.Method.Name()] = true
					} else if c := cc.StaticCallee(); c != nil && origin(c) != origin(fn) && c.Parent() == nil {
						callees[fnName(c)] = true
					}
				case *ssa.FieldAddr:
					if fv := fieldOfAddr(x); fv != nil {
						fields[shortType(deref(x.X.Type()))+"."+fv.Name()] = true
						ftypes[shortType(deref(x.X.Type()))+":"+shortType(fv.Type())] = true
					}
				}
				var ops []*ssa.Value
				for _, op := range ins.Operands(ops) {
					if *op != nil {
						if s, ok := constString(*op); ok && len(s) > 2 {
							consts[s] = true
						}
					}
				}
			}
		}
		for _, a := range f.AnonFuncs {
			walk(a)
		}
	}
	walk(fn)
	for k := range callees {
		fp.Callees = append(fp.Callees, k)
	}
	for k := range fields {
		fp.Fields = append(fp.Fields, k)
	}
	for k := range consts {
		fp.Consts = append(fp.Consts, k)
	}
	for k := range ftypes {
		fp.FieldTypes = append(fp.FieldTypes, k)
	}
	sort.Strings(fp.FieldTypes)
	sort.Strings(fp.Callees)
	sort.Strings(fp.Fields)
	sort.Strings(fp.Consts)
	return fp
}

func jaccard(a, b []string) (inter, union int) {
	m := map[string]int{}
	for _, x := range a {
		m[x] |= 1
	}
	for _, x := range b {
		m[x] |= 2
	}
	for _, v := range m {
		union++
		if v == 3 {
			inter++
		}
	}
	return
}

func similarity(a, b fnPrint) float64 {
	s := similarityBy(a, b, a.Fields, b.Fields)
	if len(a.FieldTypes) > 0 {
		if s2 := similarityBy(a, b, a.FieldTypes, b.FieldTypes); s2 > s {
			s = s2
		}
	}
	return s
}

func similarityBy(a, b fnPrint, fa, fb []string) float64 {
	i1, u1 := jaccard(a.Callees, b.Callees)
	i2, u2 := jaccard(fa, fb)
	i3, u3 := jaccard(a.Consts, b.Consts)
	u := u1 + u2 + u3
	if u == 0 {
		if a.NInstr == b.NInstr {
			return 1
		}
		return 0
	}
	s := float64(i1+i2+i3) / float64(u)
	// size must be close as well
	d := a.NInstr - b.NInstr
	if d < 0 {
		d = -d
	}
	if float64(d) > 0.25*float64(a.NInstr)+3 {
		s *= 0.5
	}
	return s
}

func fnKey(rel, typ, name string) string {
	if typ == "" {
		return rel + "." + name
	}
	return rel + "." + typ + "." + name
}

func (P *Prog) noteFunc(rel, typ, name string, fn *ssa.Function) {
	if !recordBase || fn == nil || fn.Blocks == nil {
		return
	}
	baseMu.Lock()
	recorded.Funcs[fnKey(rel, typ, name)] = fingerprintOf(fn)
	recorded.FuncKeys[fnKey(rel, typ, name)] = [3]string{rel, typ, name}
	baseMu.Unlock()
}

// renamedFunc: the function of package rel (method of typ when typ != "")
// that the baseline knew as `name`, found by fingerprint.
func (P *Prog) renamedFunc(rel, typ, name string) *ssa.Function {
	base, ok := loadBaseline().Funcs[fnKey(rel, typ, name)]
	if !ok {
		return nil
	}
	pkgPath := modPath
	if rel != "" {
		pkgPath += "/" + rel
	}
	if P.PkgByID[pkgPath] == nil {
		pkgPath = rel
	}
	var best, second float64
	var bestFn *ssa.Function
	for _, fn := range P.Funcs {
		if fn.Parent() != nil || fn.Synthetic != "" || fnPkgPath(fn) != pkgPath {
			continue
		}
		fp := fingerprintOf(fn)
		if fp.Recv != base.Recv || fp.Sig != base.Sig {
			continue
		}
		// a function that still exists under a baseline name is not a rename target
		if fn.Object() != nil {
			if typ == "" {
				if _, known := loadBaseline().Funcs[fnKey(rel, "", fn.Name())]; known {
					continue
				}
			} else if _, known := loadBaseline().Funcs[fnKey(rel, typ, fn.Name())]; known {
				continue
			}
		}
		s := similarity(base, fp)
		if s > best {
			second, best, bestFn = best, s, fn
		} else if s > second {
			second = s
		}
	}
	if bestFn != nil && best >= 0.7 && best-second >= 0.2 {
		baseMu.Lock()
		renamesSeen = append(renamesSeen, fmt.Sprintf("%s → %s (fingerprint similarity %.2f)", fnKey(rel, typ, name), bestFn.Name(), best))
		baseMu.Unlock()
		return bestFn
	}
	return nil
}

func fieldKey(rel, typ string, path []string) string {
	return rel + "." + typ + "." + strings.Join(path, ".")
}

func (P *Prog) fieldUsers(f *types.Var) []string {
	m := map[string]bool{}
	for _, a := range P.accessesOf(f) {
		m[fnName(outer(a.Fn))] = true
	}
	var out []string
	for k := range m {
		out = append(out, k)
	}
	sort.Strings(out)
	return out
}

func (P *Prog) fieldUserSigs(f *types.Var) []string {
	m := map[*ssa.Function]bool{}
	for _, a := range P.accessesOf(f) {
		m[outer(a.Fn)] = true
	}
	var sigs []string
	for fn := range m {
		sigs = append(sigs, shortType(fn.Signature))
	}
	sort.Strings(sigs)
	// a multiset: the k-th user with the same signature is "sig'k"
	count := map[string]int{}
	var out []string
	for _, s := range sigs {
		count[s]++
		out = append(out, fmt.Sprintf("%s'%d", s, count[s]))
	}
	return out
}

func (P *Prog) noteField(rel, typ string, path []string, f *types.Var) {
	if !recordBase || f == nil {
		return
	}
	fp := fieldPrint{Type: shortType(f.Type()), Users: P.fieldUsers(f), UserSigs: P.fieldUserSigs(f), Index: fieldIndex(f)}
	baseMu.Lock()
	recorded.Fields[fieldKey(rel, typ, path)] = fp
	baseMu.Unlock()
}

// renamedField: among the fields of struct st with the baseline's type, the one
// used by (nearly) the same functions.
func (P *Prog) renamedField(rel, typ string, path []string, st *types.Struct) *types.Var {
	base, ok := loadBaseline().Fields[fieldKey(rel, typ, path)]
	if !ok {
		return nil
	}
	var best, second float64
	var bestF *types.Var
	for i := 0; i < st.NumFields(); i++ {
		f := st.Field(i)
		if shortType(f.Type()) != base.Type {
			continue
		}
		// a field that still carries a baseline name is not the renamed one
		p2 := append(append([]string{}, path[:len(path)-1]...), f.Name())
		if _, known := loadBaseline().Fields[fieldKey(rel, typ, p2)]; known {
			continue
		}
		i2, u2 := jaccard(base.Users, P.fieldUsers(f))
		s := 0.0
		if u2 > 0 {
			s = float64(i2) / float64(u2)
		}
		if len(base.UserSigs) > 0 {
			// the users may have been renamed in the same change: compare them by receiver and signature too
			if i3, u3 := jaccard(base.UserSigs, P.fieldUserSigs(f)); u3 > 0 && float64(i3)/float64(u3) > s {
				s = float64(i3) / float64(u3)
			}
		}
		if s > best {
			second, best, bestF = best, s, f
		} else if s > second {
			second = s
		}
	}
	if bestF != nil && best >= 0.6 && best-second >= 0.2 {
		baseMu.Lock()
		renamesSeen = append(renamesSeen, fmt.Sprintf("field %s → %s (same users %.2f)", fieldKey(rel, typ, path), bestF.Name(), best))
		baseMu.Unlock()
		return bestF
	}
	// several same-typed fields with the same users were renamed together: keep declaration order
	if bestF != nil && best >= 0.6 {
		var cands []*types.Var
		for i := 0; i < st.NumFields(); i++ {
			f := st.Field(i)
			p2 := append(append([]string{}, path[:len(path)-1]...), f.Name())
			if _, known := loadBaseline().Fields[fieldKey(rel, typ, p2)]; !known && shortType(f.Type()) == base.Type {
				cands = append(cands, f)
			}
		}
		type miss struct {
			key string
			idx int
		}
		var missing []miss
		prefix := fieldKey(rel, typ, path[:len(path)-1])
		if len(path) == 1 {
			prefix = rel + "." + typ + "."
		} else {
			prefix += "."
		}
		for k, fp := range loadBaseline().Fields {
			if !strings.HasPrefix(k, prefix) || strings.Contains(k[len(prefix):], ".") || fp.Type != base.Type {
				continue
			}
			name := k[len(prefix):]
			present := false
			for i := 0; i < st.NumFields(); i++ {
				if st.Field(i).Name() == name {
					present = true
				}
			}
			if !present {
				missing = append(missing, miss{k, fp.Index})
			}
		}
		if len(cands) == len(missing) && len(cands) > 1 {
			sort.Slice(missing, func(i, j int) bool { return missing[i].idx < missing[j].idx })
			for i, m := range missing {
				if m.key == fieldKey(rel, typ, path) {
					baseMu.Lock()
					renamesSeen = append(renamesSeen, fmt.Sprintf("field %s → %s (same users, declaration order among %d renamed fields)", m.key, cands[i].Name(), len(cands)))
					baseMu.Unlock()
					return cands[i]
				}
			}
		}
	}
	return nil
}

func fieldIndex(f *types.Var) int {
	// only the relative order among the fields of one struct is used
	return int(f.Pos())
}

func writeRecordedBaseline(verif string, inventory []string) error {
	recorded.Inventory = inventory
	os.MkdirAll(filepath.Join(verif, "baseline"), 0o755)
	b, _ := json.MarshalIndent(recorded, "", " ")
	return os.WriteFile(filepath.Join(verif, "baseline", "fingerprints.json"), b, 0o644)
}
