package main

// SSA pattern helpers. Everything is resolved through types.Object / ssa.Value
// identity; nothing matches on source text.

import (
	"fmt"
	"go/constant"
	"go/token"
	"go/types"
	"strings"

	"golang.org/x/tools/go/ssa"
)

// strip removes value-preserving conversions.
func strip(v ssa.Value) ssa.Value {
	for {
		switch x := v.(type) {
		case *ssa.ChangeType:
			v = x.X
		case *ssa.Convert:
			v = x.X
		case *ssa.ChangeInterface:
			v = x.X
		case *ssa.MakeInterface:
			v = x.X
		default:
			return v
		}
	}
}

// fieldOfAddr returns the struct field a FieldAddr addresses.
func fieldOfAddr(v ssa.Value) *types.Var {
	fa, ok := v.(*ssa.FieldAddr)
	if !ok {
		return nil
	}
	st, ok := deref(fa.X.Type()).Underlying().(*types.Struct)
	if !ok {
		return nil
	}
	return st.Field(fa.Field)
}

func fieldOfField(v ssa.Value) *types.Var {
	f, ok := v.(*ssa.Field)
	if !ok {
		return nil
	}
	st, ok := f.X.Type().Underlying().(*types.Struct)
	if !ok {
		return nil
	}
	return st.Field(f.Field)
}

// loadedField: if v is a load of struct field f (through a pointer or from a
// struct value), return that field.
func loadedField(v ssa.Value) *types.Var {
	v = strip(v)
	if u, ok := v.(*ssa.UnOp); ok && u.Op == token.MUL {
		return fieldOfAddr(u.X)
	}
	return fieldOfField(v)
}

func isLoadOf(v ssa.Value, f *types.Var) bool { return f != nil && loadedField(v) == f }

// callOf returns the call instruction that produced v (directly or through
// Extract of its result tuple), and the tuple index (-1 if not a tuple).
func callOf(v ssa.Value) (*ssa.Call, int) {
	v = strip(v)
	switch x := v.(type) {
	case *ssa.Call:
		return x, -1
	case *ssa.Extract:
		if c, ok := x.Tuple.(*ssa.Call); ok {
			return c, x.Index
		}
	}
	return nil, -1
}

// calleeIs reports whether the call may invoke fn: static callee identity, or an
// interface invoke of a same-named method that fn's receiver type implements.
func calleeIs(cc *ssa.CallCommon, fn *ssa.Function) bool {
	if fn == nil {
		return false
	}
	if cc.IsInvoke() {
		if cc.Method.Name() != fn.Name() || fn.Signature.Recv() == nil {
			return false
		}
		it, ok := cc.Value.Type().Underlying().(*types.Interface)
		if !ok {
			return false
		}
		recv := fn.Signature.Recv().Type()
		return types.Implements(recv, it) || types.Implements(types.NewPointer(recv), it)
	}
	if c := cc.StaticCallee(); c != nil {
		if origin(c) == origin(fn) {
			return true
		}
		// bound-method closure / wrapper
		if c.Synthetic != "" && isBoundOf(c, fn) {
			return true
		}
	}
	// call of a closure value made from fn's bound wrapper — directly, or chosen on the way
	// (f := b.stepsA; if cond { f = b.stepsB }; f(kind))
	for _, alt := range valueAlternatives(cc.Value, 3) {
		if mc, ok := alt.(*ssa.MakeClosure); ok {
			if g, ok := mc.Fn.(*ssa.Function); ok && (origin(g) == origin(fn) || isBoundOf(g, fn)) {
				return true
			}
		}
	}
	// a closure called through the variable it was assigned to — the way a recursive function literal calls itself
	// (var f func(…); f = func(…) { … f(…) … }): the variable's cell holds that one closure
	if u, ok := cc.Value.(*ssa.UnOp); ok && u.Op == token.MUL {
		var cell *ssa.Alloc
		switch x := u.X.(type) {
		case *ssa.Alloc:
			cell = x
		case *ssa.FreeVar:
			cell = freeVarCell(x)
		}
		if cell != nil {
			n, match := 0, false
			for _, r := range *cell.Referrers() {
				if st, isSt := r.(*ssa.Store); isSt && st.Addr == ssa.Value(cell) {
					n++
					if mc, isMC := st.Val.(*ssa.MakeClosure); isMC {
						if g, isFn := mc.Fn.(*ssa.Function); isFn && origin(g) == origin(fn) {
							match = true
						}
					}
				}
			}
			if n == 1 && match {
				return true
			}
		}
	}
	return false
}

// freeVarCell: the variable cell of the enclosing function a closure's free variable is bound to.
func freeVarCell(fv *ssa.FreeVar) *ssa.Alloc {
	cl := fv.Parent()
	parent := cl.Parent()
	if parent == nil {
		return nil
	}
	idx := -1
	for i, v := range cl.FreeVars {
		if v == fv {
			idx = i
		}
	}
	for _, b := range parent.Blocks {
		for _, ins := range b.Instrs {
			if mc, ok := ins.(*ssa.MakeClosure); ok && mc.Fn == cl && idx >= 0 && idx < len(mc.Bindings) {
				if a, isA := mc.Bindings[idx].(*ssa.Alloc); isA {
					return a
				}
			}
		}
	}
	return nil
}

// Callee is something a call site may be matched against: a concrete function
// (static calls, bound wrappers, compatible interface invokes) or an interface
// method (invokes of that method object and static calls of implementations).
type Callee interface {
	Match(cc *ssa.CallCommon) bool
	CName() string
}

type fnCallee struct{ fn *ssa.Function }

func (f fnCallee) Match(cc *ssa.CallCommon) bool { return calleeIs(cc, f.fn) }
func (f fnCallee) CName() string                 { return f.fn.Name() }

// F wraps a concrete function as a Callee.
func F(fn *ssa.Function) Callee { return fnCallee{fn} }

type imCallee struct {
	m  *types.Func
	it *types.Interface
}

func (m imCallee) Match(cc *ssa.CallCommon) bool {
	if cc.IsInvoke() {
		return cc.Method == m.m || (cc.Method.Name() == m.m.Name() && types.Identical(cc.Method.Type(), m.m.Type()) && ifaceHas(cc.Value.Type(), m.m))
	}
	if c := cc.StaticCallee(); c != nil && c.Name() == m.m.Name() && c.Signature.Recv() != nil {
		recv := c.Signature.Recv().Type()
		return types.Implements(recv, m.it) || types.Implements(types.NewPointer(recv), m.it)
	}
	return false
}
func (m imCallee) CName() string { return m.m.Name() }

func ifaceHas(t types.Type, m *types.Func) bool {
	it, ok := t.Underlying().(*types.Interface)
	if !ok {
		return false
	}
	for i := 0; i < it.NumMethods(); i++ {
		if it.Method(i) == m {
			return true
		}
	}
	return false
}

func isCallTo(ins ssa.Instruction, fns ...Callee) bool {
	ci, ok := ins.(ssa.CallInstruction)
	if !ok {
		return false
	}
	for _, fn := range fns {
		if fn.Match(ci.Common()) {
			return true
		}
	}
	return false
}

// valueIsCallTo: v is (a component of) the result of a call to fn.
func valueIsCallTo(v ssa.Value, fn Callee) bool {
	c, _ := callOf(v)
	return c != nil && fn.Match(c.Common())
}

// callArgs returns the actual arguments excluding the receiver.
func callArgs(cc *ssa.CallCommon) []ssa.Value {
	if cc.IsInvoke() {
		return cc.Args
	}
	if c := cc.StaticCallee(); c != nil && c.Signature.Recv() != nil && len(cc.Args) > 0 {
		return cc.Args[1:]
	}
	return cc.Args
}

func callRecv(cc *ssa.CallCommon) ssa.Value {
	if cc.IsInvoke() {
		return cc.Value
	}
	if c := cc.StaticCallee(); c != nil && c.Signature.Recv() != nil && len(cc.Args) > 0 {
		return cc.Args[0]
	}
	return nil
}

// isNilConst reports whether v is the nil constant.
func isNilConst(v ssa.Value) bool {
	c, ok := v.(*ssa.Const)
	return ok && c.Value == nil
}

func constInt(v ssa.Value) (int64, bool) {
	c, ok := strip(v).(*ssa.Const)
	if !ok || c.Value == nil || c.Value.Kind() != constant.Int {
		return 0, false
	}
	i, ok := constant.Int64Val(c.Value)
	return i, ok
}

func constBool(v ssa.Value) (bool, bool) {
	c, ok := strip(v).(*ssa.Const)
	if !ok || c.Value == nil || c.Value.Kind() != constant.Bool {
		return false, false
	}
	return constant.BoolVal(c.Value), true
}

func constString(v ssa.Value) (string, bool) {
	c, ok := strip(v).(*ssa.Const)
	if !ok || c.Value == nil || c.Value.Kind() != constant.String {
		return "", false
	}
	return constant.StringVal(c.Value), true
}

// normCond strips logical negations: returns the underlying condition and
// whether it holds positively on an edge where the original holds as `pos`.
func normCond(v ssa.Value, pos bool) (ssa.Value, bool) {
	for {
		u, ok := v.(*ssa.UnOp)
		if !ok || u.Op != token.NOT {
			return v, pos
		}
		v = u.X
		pos = !pos
	}
}

func negOp(op token.Token) token.Token {
	switch op {
	case token.EQL:
		return token.NEQ
	case token.NEQ:
		return token.EQL
	case token.LSS:
		return token.GEQ
	case token.GEQ:
		return token.LSS
	case token.GTR:
		return token.LEQ
	case token.LEQ:
		return token.GTR
	}
	return token.ILLEGAL
}

func mirrorOp(op token.Token) token.Token {
	switch op {
	case token.LSS:
		return token.GTR
	case token.GTR:
		return token.LSS
	case token.LEQ:
		return token.GEQ
	case token.GEQ:
		return token.LEQ
	}
	return op
}

// Rel is a comparison known to hold on an edge.
type Rel struct {
	Op   token.Token
	X, Y ssa.Value
}

// relOf: the relation that holds when cond evaluates to pos.
func relOf(cond ssa.Value, pos bool) (Rel, bool) {
	cond, pos = normCond(cond, pos)
	b, ok := cond.(*ssa.BinOp)
	if !ok {
		// a predicate method that is nothing but a comparison (func (s *StoreInfo) IsTombstone() bool
		// { return s.GetState() == Tombstone }) stands for that comparison
		if c, isCall := cond.(*ssa.Call); isCall {
			if f := c.Call.StaticCallee(); f != nil && len(f.Blocks) == 1 {
				if r, isRet := f.Blocks[0].Instrs[len(f.Blocks[0].Instrs)-1].(*ssa.Return); isRet && len(r.Results) == 1 {
					if inner, isCmp := r.Results[0].(*ssa.BinOp); isCmp {
						return relOf(inner, pos)
					}
				}
			}
		}
		return Rel{}, false
	}
	op := b.Op
	switch op {
	case token.EQL, token.NEQ, token.LSS, token.LEQ, token.GTR, token.GEQ:
	default:
		return Rel{}, false
	}
	if !pos {
		op = negOp(op)
	}
	return Rel{op, b.X, b.Y}, true
}

type valPred func(ssa.Value) bool

func anyVal(ssa.Value) bool { return true }

// matchRel: does relation r say "X' op Y'" for some op in ops with X' matching
// xp and Y' matching yp (mirrored forms accepted)?
func matchRel(r Rel, ops string, xp, yp valPred) bool {
	has := func(op token.Token) bool {
		for _, o := range strings.Fields(ops) {
			if o == op.String() {
				return true
			}
		}
		return false
	}
	if has(r.Op) && xp(r.X) && yp(r.Y) {
		return true
	}
	if has(mirrorOp(r.Op)) && xp(r.Y) && yp(r.X) {
		return true
	}
	return false
}

// accessPath gives a canonical textual path for a value so that two loads of
// the same location compare equal (go/ssa performs no CSE).
func accessPath(v ssa.Value) string {
	v = strip(v)
	switch x := v.(type) {
	case *ssa.Parameter:
		if b, ok := paramBind[x]; ok {
			return accessPath(b)
		}
		return "param:" + x.Name()
	case *ssa.FreeVar:
		return "free:" + x.Name()
	case *ssa.Global:
		return "global:" + x.String()
	case *ssa.Alloc:
		return fmt.Sprintf("alloc:%s@%d", x.Comment, x.Pos())
	case *ssa.FieldAddr:
		if f := fieldOfAddr(x); f != nil {
			return accessPath(x.X) + "." + f.Name()
		}
	case *ssa.Field:
		if f := fieldOfField(x); f != nil {
			return accessPath(x.X) + "." + f.Name()
		}
	case *ssa.UnOp:
		if x.Op == token.MUL {
			return "*(" + accessPath(x.X) + ")"
		}
	case *ssa.Const:
		return "const:" + x.String()
	case *ssa.Call:
		// pure getters on the same receiver path compare equal
		if c := x.Call.StaticCallee(); c != nil && len(x.Call.Args) <= 1 && strings.HasPrefix(c.Name(), "Get") {
			if len(x.Call.Args) == 1 {
				return "get:" + c.String() + "(" + accessPath(x.Call.Args[0]) + ")"
			}
		}
	}
	return fmt.Sprintf("v:%s@%p", v.Name(), v)
}

func sameVal(a, b ssa.Value) bool {
	a, b = strip(a), strip(b)
	if a == b {
		return true
	}
	pa, pb := accessPath(a), accessPath(b)
	return pa == pb && !strings.HasPrefix(pa, "v:")
}

// derivesFrom: does v data-depend (through SSA operands, to a bounded depth,
// not through memory except local cells) on a value satisfying p?
func derivesFrom(v ssa.Value, p valPred, depth int) bool {
	seen := map[ssa.Value]bool{}
	var rec func(v ssa.Value, d int) bool
	rec = func(v ssa.Value, d int) bool {
		if v == nil || seen[v] || d < 0 {
			return false
		}
		seen[v] = true
		if p(v) {
			return true
		}
		ins, ok := v.(ssa.Instruction)
		if !ok {
			return false
		}
		// loads of a local cell: follow stores to the cell
		if u, ok := v.(*ssa.UnOp); ok && u.Op == token.MUL {
			if a, ok := u.X.(*ssa.Alloc); ok {
				for _, ref := range *a.Referrers() {
					if st, ok := ref.(*ssa.Store); ok && st.Addr == a && rec(st.Val, d-1) {
						return true
					}
				}
			}
		}
		var ops []*ssa.Value
		for _, op := range ins.Operands(ops) {
			if *op != nil && rec(*op, d-1) {
				return true
			}
		}
		return false
	}
	return rec(v, depth)
}

func isErrorType(t types.Type) bool {
	n, ok := t.(*types.Named)
	return ok && n.Obj().Pkg() == nil && n.Obj().Name() == "error"
}

// resultsOf: the SSA values carrying result #idx of call c (idx -1: the call
// value itself when it is not a tuple).
func resultOf(c *ssa.Call, idx int) ssa.Value {
	if _, ok := c.Type().(*types.Tuple); !ok {
		if idx <= 0 {
			return c
		}
		return nil
	}
	for _, ref := range *c.Referrers() {
		if e, ok := ref.(*ssa.Extract); ok && e.Index == idx {
			return e
		}
	}
	return nil
}

// errResults returns the error-typed result values of a call.
func errResults(c *ssa.Call) []ssa.Value {
	var out []ssa.Value
	if t, ok := c.Type().(*types.Tuple); ok {
		for i := 0; i < t.Len(); i++ {
			if isErrorType(t.At(i).Type()) {
				if v := resultOf(c, i); v != nil {
					out = append(out, v)
				}
			}
		}
	} else if isErrorType(c.Type()) {
		out = append(out, c)
	}
	return out
}

func boolResults(c *ssa.Call) []ssa.Value {
	var out []ssa.Value
	isBool := func(t types.Type) bool {
		b, ok := t.Underlying().(*types.Basic)
		return ok && b.Kind() == types.Bool
	}
	if t, ok := c.Type().(*types.Tuple); ok {
		for i := 0; i < t.Len(); i++ {
			if isBool(t.At(i).Type()) {
				if v := resultOf(c, i); v != nil {
					out = append(out, v)
				}
			}
		}
	} else if isBool(c.Type()) {
		out = append(out, c)
	}
	return out
}

// retVal resolves result #i of a Return. With a defer in the function go/ssa
// spills results into local cells ("*t1 = v; rundefers; return *t0, *t1"): the
// value is then the last store to the cell in the same block.
// retPhiEnv: while a rule walks one path to a return (edgeLeadsStraightTo), the
// operand each φ on that path was given; retVal answers with the operand, so
// that `return cond1 && cond2` (a φ of constants and conditions) reads as the
// constant it is on the path walked.
var retPhiEnv map[*ssa.Phi]ssa.Value

func retVal(r *ssa.Return, i int) ssa.Value {
	if i < 0 || i >= len(r.Results) {
		return nil
	}
	v := r.Results[i]
	if phi, isPhi := v.(*ssa.Phi); isPhi && retPhiEnv != nil {
		if x, known := retPhiEnv[phi]; known {
			return x
		}
	}
	u, ok := v.(*ssa.UnOp)
	if !ok || u.Op != token.MUL {
		return v
	}
	cell, ok := u.X.(*ssa.Alloc)
	if !ok {
		return v
	}
	b := r.Block()
	var last ssa.Value
	for _, ins := range b.Instrs {
		if ins == ssa.Instruction(u) {
			break
		}
		if st, ok := ins.(*ssa.Store); ok && st.Addr == cell {
			last = st.Val
		}
	}
	if last != nil {
		return last
	}
	return v
}

func numResults(r *ssa.Return) int { return len(r.Results) }

// retIsNilErr: the Return's last (error) result is the nil constant.
func retIsNilErr(r *ssa.Return) bool {
	n := len(r.Results)
	if n == 0 {
		return false
	}
	v := retVal(r, n-1)
	return v != nil && isErrorType(r.Results[n-1].Type()) && isNilConst(v)
}
