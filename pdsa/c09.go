package main

import (
	"fmt"
	"go/ast"
	"go/constant"
	"go/token"
	"go/types"
	"sort"
	"strings"

	"golang.org/x/tools/go/ssa"
)

var kindCache *kindInfer

func kinds(P *Prog) *kindInfer {
	if kindCache == nil || kindCache.P != P {
		kindCache = runKindInference(P)
	}
	return kindCache
}

// ruleIDKinds: no statement in server/... mixes peer ids, store ids and region
// ids; the step/controller fields have the kinds their names promise.
func ruleIDKinds(c *Ctx, pkgs ...string) {
	P := c.P
	rule := c.Prop + "/id-kind"
	ki := kinds(P)
	n := 0
	for _, cf := range ki.report() {
		pk := fnPkgPath(cf.Fn)
		inPkgs := len(pkgs) == 0
		for _, p := range pkgs {
			if strings.HasPrefix(pk, modPath+"/"+p) {
				inPkgs = true
			}
		}
		if !inPkgs {
			continue
		}
		n++
		c.Viol(rule, fnName(cf.Fn), "a "+cf.A.String()+" and a "+cf.B.String()+" never meet in one assignment, comparison, map key or argument", P.pos(cf.Pos),
			fmt.Sprintf("%s (from %s) is used where a %s (from %s) is expected: %s", cf.A, cf.SeedA, cf.B, cf.SeedB, cf.Detail))
	}
	c.Check(ki.nFuncs > 2000 && len(ki.nodes) > 2000, rule, "inference coverage", "kind inference ran over all of server/...", "", fmt.Sprintf("%d functions, %d kind variables", ki.nFuncs, len(ki.nodes)))
	if n == 0 {
		c.OK(rule, "all statements of server/...", fmt.Sprintf("no unification of differently seeded classes (%d functions, %d kind variables)", ki.nFuncs, len(ki.nodes)), "")
	}
	// the kinds the planner and controller rely on (also guards against a vacuous inference)
	op := "server/schedule/operator"
	expect := []struct {
		typ, field string
		slot       byte
		k          kind
	}{
		{"TransferLeader", "ToStore", 's', kStore}, {"TransferLeader", "FromStore", 's', kStore},
		{"AddPeer", "ToStore", 's', kStore}, {"AddPeer", "PeerID", 's', kPeer},
		{"AddLearner", "ToStore", 's', kStore}, {"AddLearner", "PeerID", 's', kPeer},
		{"PromoteLearner", "ToStore", 's', kStore}, {"PromoteLearner", "PeerID", 's', kPeer},
		{"RemovePeer", "FromStore", 's', kStore},
		{"DemoteVoter", "ToStore", 's', kStore}, {"DemoteVoter", "PeerID", 's', kPeer},
	}
	for _, e := range expect {
		f := P.Field(op, e.typ, e.field)
		got := ki.kindOfFieldSlot(f, e.slot)
		c.Check(got == e.k, rule, "kind of "+e.typ+"."+e.field, "inferred as "+e.k.String(), P.pos(f.Pos()), "inferred "+got.String())
	}
	ops := P.Field("server/schedule", "OperatorController", "operators")
	got := ki.kindOfFieldSlot(ops, 'k')
	c.Check(got == kRegion, rule, "key kind of OperatorController.operators", "region-id (one operator per region)", P.pos(ops.Pos()), "inferred "+got.String())
}

// evalBoolMatrix evaluates a [N][N]bool composite literal with constant keys.
func evalBoolMatrix(info *types.Info, lit *ast.CompositeLit) (map[[2]int64]bool, bool) {
	out := map[[2]int64]bool{}
	idx := int64(0)
	for _, el := range lit.Elts {
		var row ast.Expr = el
		if kv, ok := el.(*ast.KeyValueExpr); ok {
			v, ok := constValueOf(info, kv.Key)
			if !ok {
				return nil, false
			}
			idx, _ = constant.Int64Val(constant.ToInt(v))
			row = kv.Value
		}
		rl, ok := row.(*ast.CompositeLit)
		if !ok {
			return nil, false
		}
		j := int64(0)
		for _, e2 := range rl.Elts {
			var val ast.Expr = e2
			if kv, ok := e2.(*ast.KeyValueExpr); ok {
				v, ok := constValueOf(info, kv.Key)
				if !ok {
					return nil, false
				}
				j, _ = constant.Int64Val(constant.ToInt(v))
				val = kv.Value
			}
			v, ok := constValueOf(info, val)
			if !ok || v.Kind() != constant.Bool {
				return nil, false
			}
			if constant.BoolVal(v) {
				out[[2]int64{idx, j}] = true
			}
			j++
		}
		idx++
	}
	return out, true
}

func ruleStatusMachine(c *Ctx) {
	P := c.P
	rule := c.Prop + "/status-matrix"
	op := "server/schedule/operator"
	pkg := P.pkg(op)
	vt := P.obj(op, "validTrans")
	var lit *ast.CompositeLit
	for _, f := range pkg.Syntax {
		ast.Inspect(f, func(n ast.Node) bool {
			vs, ok := n.(*ast.ValueSpec)
			if !ok {
				return true
			}
			for i, name := range vs.Names {
				if pkg.TypesInfo.Defs[name] == vt && i < len(vs.Values) {
					lit, _ = vs.Values[i].(*ast.CompositeLit)
				}
			}
			return true
		})
	}
	if lit == nil {
		undecidedf("validTrans is not initialised by a composite literal")
	}
	m, ok := evalBoolMatrix(pkg.TypesInfo, lit)
	if !ok {
		undecidedf("validTrans literal is not a constant table")
	}
	cv := func(name string) int64 { v, _ := constIntObj(P.obj(op, name)); return v }
	names := []string{"CREATED", "STARTED", "SUCCESS", "CANCELED", "REPLACED", "EXPIRED", "TIMEOUT"}
	want := map[[2]int64]bool{}
	for _, p := range [][2]string{{"CREATED", "STARTED"}, {"CREATED", "CANCELED"}, {"CREATED", "EXPIRED"}, {"STARTED", "SUCCESS"}, {"STARTED", "CANCELED"}, {"STARTED", "REPLACED"}, {"STARTED", "TIMEOUT"}} {
		want[[2]int64{cv(p[0]), cv(p[1])}] = true
	}
	nameOf := func(v int64) string {
		for _, n := range names {
			if cv(n) == v {
				return n
			}
		}
		return fmt.Sprint(v)
	}
	var diffs []string
	for k := range m {
		if !want[k] {
			diffs = append(diffs, "extra "+nameOf(k[0])+"→"+nameOf(k[1]))
		}
	}
	for k := range want {
		if !m[k] {
			diffs = append(diffs, "missing "+nameOf(k[0])+"→"+nameOf(k[1]))
		}
	}
	sort.Strings(diffs)
	c.Check(len(diffs) == 0, rule, "validTrans", "equals {created→started|cancelled|expired, started→success|cancelled|replaced|timeout}; end statuses have no successor", P.pos(vt.Pos()), strings.Join(diffs, "; "))
	c.Check(cv("firstEndStatus") == cv("SUCCESS") && cv("statusCount") == 7, rule, "firstEndStatus/statusCount", "firstEndStatus == SUCCESS, seven statuses", P.pos(vt.Pos()), "")
	// the table is never modified at run time
	vtGlobal := P.pkg(op)
	_ = vtGlobal
	for _, fn := range P.Funcs {
		if P.isScaffold(fn) {
			continue
		}
		for _, b := range fn.Blocks {
			for _, ins := range b.Instrs {
				st, ok := ins.(*ssa.Store)
				if !ok {
					continue
				}
				root := st.Addr
				for {
					if ia, ok := root.(*ssa.IndexAddr); ok {
						root = ia.X
						continue
					}
					break
				}
				if g, ok := root.(*ssa.Global); ok && g.Object() == vt && fn.Name() != "init" {
					c.Viol(rule, "write to validTrans in "+fnName(fn), "the transition table is constant", P.instrPos(st), "")
				}
			}
		}
	}
	// status writes: only through the table
	cur := P.Field(op, "OpStatusTracker", "current")
	lock := P.Field(op, "OpStatusTracker", "rw")
	guardedBy(c, c.Prop+"/status-lock", cur, lock, nil)
	n := 0
	for _, accs := range P.writersOf(cur) {
		for _, a := range accs {
			for i, st := range storesToField(a.Fn, cur) {
				n++
				c.saw(fnName(a.Fn))
				g := &guardEv{name: "validTrans[current][dst]", match: func(cond ssa.Value, pos bool) bool {
					if !pos {
						return false
					}
					u, ok := cond.(*ssa.UnOp)
					if !ok || u.Op != token.MUL {
						return false
					}
					inner, ok := u.X.(*ssa.IndexAddr)
					if !ok || !sameVal(inner.Index, st.Val) {
						return false
					}
					outerIA, ok := inner.X.(*ssa.IndexAddr)
					if !ok || !isLoadOf(outerIA.Index, cur) {
						return false
					}
					gl, ok := outerIA.X.(*ssa.Global)
					return ok && gl.Object() == vt
				}}
				_, fails := requireAt(P, a.Fn, 0, []Ev{g}, func(x ssa.Instruction) bool { return x == st }, all)
				c.Check(len(fails) == 0, rule, fmt.Sprintf("write of status in %s #%d", fnName(a.Fn), i+1), "dominated by validTrans[current][dst] for the very dst that is stored", P.instrPos(st), failDesc(fails))
			}
		}
	}
	if n == 0 {
		c.Undec(rule, "writes of OpStatusTracker.current", "found", "", "")
	}
	// constructor starts in CREATED
	nt := P.Func(op, "NewOpStatusTracker")
	okInit := false
	for _, st := range storesToField(nt, cur) {
		if isConstInt(cv("CREATED"))(st.Val) {
			okInit = true
		}
	}
	c.Check(okInit, rule, "initial status", "a new tracker starts in CREATED", P.pos(nt.Pos()), "")
}

func ruleOneOperatorPerRegion(c *Ctx) {
	P := c.P
	const sch = "server/schedule"
	rule := c.Prop + "/running-set"
	opsF := P.Field(sch, "OperatorController", "operators")
	ocLock := P.Field(sch, "OperatorController", "RWMutex")
	regionID := F(P.Method("server/schedule/operator", "Operator", "RegionID"))
	addLocked := P.Method(sch, "OperatorController", "addOperatorLocked")
	checkAdd := F(P.Method(sch, "OperatorController", "checkAddOperator"))
	guardedBy(c, c.Prop+"/running-set-lock", opsF, ocLock, map[string]string{
		"(*server/schedule.OperatorController).SetOperator": "test-only helper (exported for tests; no production caller)",
	})
	nIns, nDel := 0, 0
	for _, fn := range P.Funcs {
		if P.isScaffold(fn) {
			continue
		}
		for _, b := range fn.Blocks {
			for _, ins := range b.Instrs {
				switch x := ins.(type) {
				case *ssa.MapUpdate:
					if !isLoadOf(x.Map, opsF) {
						continue
					}
					nIns++
					c.saw(fnName(fn))
					okKey := false
					if cl, _ := callOf(x.Key); cl != nil && regionID.Match(cl.Common()) && len(cl.Call.Args) == 1 && sameVal(cl.Call.Args[0], x.Value) {
						okKey = true
					}
					c.Check(okKey, rule, "insert into operators in "+fnName(fn), "an operator is registered under its own region id", P.instrPos(x), "key is not RegionID() of the stored operator")
				case *ssa.Call:
					bi, ok := x.Call.Value.(*ssa.Builtin)
					if !ok || bi.Name() != "delete" || !isLoadOf(x.Call.Args[0], opsF) {
						continue
					}
					nDel++
					c.saw(fnName(fn))
					key := x.Call.Args[1]
					// identity check: the registered operator for that key is the one being removed
					var opParam ssa.Value
					for _, p := range fn.Params {
						if n := namedOf(p.Type()); n != nil && n.Obj().Name() == "Operator" {
							opParam = p
						}
					}
					g := guardRel("operators[id] == op", "==", func(v ssa.Value) bool {
						l, ok := strip(v).(*ssa.Lookup)
						return ok && isLoadOf(l.X, opsF) && sameVal(l.Index, key)
					}, same(opParam))
					_, fails := requireAt(P, fn, 0, []Ev{g}, func(i ssa.Instruction) bool { return i == ins }, all)
					c.Check(opParam != nil && len(fails) == 0, rule, "delete from operators in "+fnName(fn), "only the operator that is registered for the region is removed (identity test on the same key)", P.instrPos(x), failDesc(fails))
				}
			}
		}
	}
	if nIns == 0 || nDel == 0 {
		c.Undec(rule, "operators map updates", "insert and delete sites found", "", fmt.Sprintf("%d inserts, %d deletes", nIns, nDel))
	}
	// admission
	sites, _ := c.nonScaffoldCallers(addLocked)
	for _, s := range sites {
		fn := s.Caller
		// the accepted check must have covered *this* operator: it was given the very slice the operator is
		// taken from (ops...), or an argument list containing it — not a part of the batch (ops[0])
		opArg := callArgs(s.Instr.Common())
		covers := func(cl *ssa.Call) bool {
			if !checkAdd.Match(cl.Common()) {
				return false
			}
			a := callArgs(cl.Common())
			if len(a) != 1 || len(opArg) != 1 {
				return false
			}
			if u, ok := strip(opArg[0]).(*ssa.UnOp); ok && u.Op == token.MUL {
				if ia, ok := u.X.(*ssa.IndexAddr); ok {
					if sameVal(a[0], ia.X) || sameVal(resolved(a[0]), resolved(ia.X)) {
						return true
					}
					// the batch handed over through a result variable: nil (nothing to range over) or the checked slice
					n := 0
					for _, alt := range valueAlternatives(ia.X, 3) {
						if isNilConst(alt) {
							continue
						}
						if !sameVal(alt, a[0]) {
							return false
						}
						n++
					}
					return n > 0
				}
			}
			if sl, ok := strip(a[0]).(*ssa.Slice); ok {
				if al, ok := sl.X.(*ssa.Alloc); ok {
					for _, r := range *al.Referrers() {
						if ia, ok := r.(*ssa.IndexAddr); ok {
							for _, rr := range *ia.Referrers() {
								if st, ok := rr.(*ssa.Store); ok && st.Addr == ssa.Value(ia) && sameVal(st.Val, opArg[0]) {
									return true
								}
							}
						}
					}
				}
			}
			return false
		}
		g := guardCall("checkAddOperator(all of the batch)", true, covers)
		lk := &lockEv{ocLock, true}
		g.invalidate = func(ins ssa.Instruction) bool {
			f, op, d := lockOp(ins)
			return f == ocLock && !d && op == "Unlock"
		}
		c.need(c.Prop+"/admission", fn, "call addOperatorLocked", func(x ssa.Instruction) bool { return x == s.Instr.(ssa.Instruction) }, []Ev{g, lk}, all,
			"an operator starts running only after checkAddOperator accepted it, with the controller lock held from the check to the insertion")
	}
	if len(sites) == 0 {
		c.Undec(c.Prop+"/admission", "callers of addOperatorLocked", "found", "", "")
	}
	// atoms of checkAddOperator
	ca := P.Method(sch, "OperatorController", "checkAddOperator")
	mpb := "github.com/pingcap/kvproto/pkg/metapb"
	getVer := F(P.Method(mpb, "RegionEpoch", "GetVersion"))
	getConf := F(P.Method(mpb, "RegionEpoch", "GetConfVer"))
	status := F(P.Method("server/schedule/operator", "Operator", "Status"))
	created, _ := constIntObj(P.obj("server/schedule/operator", "CREATED"))
	ar := c.Prop + "/admission-atoms"
	c.atomRejects(ar, ca, "region == nil", relMatcher("==", anyVal, isNilConst), boolReturn(false))
	c.atomRejects(ar, ca, "version != operator's version", relMatcher("!=", resultOfCall(getVer), resultOfCall(getVer)), boolReturn(false))
	c.atomRejects(ar, ca, "conf version != operator's conf version", relMatcher("!=", resultOfCall(getConf), resultOfCall(getConf)), boolReturn(false))
	c.atomRejects(ar, ca, "status != CREATED", relMatcher("!=", resultOfCall(status), isConstInt(created)), boolReturn(false))
	// the priority test, through its helper or written in place: the new operator's level is not above the old one's
	getPrio := F(P.Method("server/schedule/operator", "Operator", "GetPriorityLevel"))
	higherFn := P.funcOpt(sch, "isHigherPriorityOperator")
	c.atomRejects(ar, ca, "existing operator of not lower priority", func(cond ssa.Value, pos bool) bool {
		if cl, ok := cond.(*ssa.Call); ok && higherFn != nil {
			return !pos && F(higherFn).Match(cl.Common())
		}
		r, ok := relOf(cond, pos)
		return ok && matchRel(r, "<=", resultOfCall(getPrio), resultOfCall(getPrio))
	}, boolReturn(false))
	expired := F(P.Method("server/schedule/operator", "Operator", "CheckExpired"))
	c.Check(len(callsIn(ca, false, expired)) > 0, ar, "CheckExpired in "+fnName(ca), "expired operators are not admitted", P.pos(ca.Pos()), "")
	// the epoch comparison is against the region's *current* epoch
	getRegion := P.IMethod("server/schedule/opt", "Cluster", "GetRegion")
	c.Check(len(callsIn(ca, false, getRegion)) > 0, ar, "current region in "+fnName(ca), "the epoch is compared with the region as cached now", P.pos(ca.Pos()), "")
}

// ruleRemovedIsBuried: E3 pairing — an operator that left the running set is
// put into an end status and recorded.
func ruleRemovedIsBuried(c *Ctx) {
	P := c.P
	const sch = "server/schedule"
	rule := c.Prop + "/removed-buried"
	bury := F(P.Method(sch, "OperatorController", "buryOperator"))
	removers := []*ssa.Function{P.Method(sch, "OperatorController", "removeOperatorLocked")}
	seen := map[*ssa.Function]bool{}
	for len(removers) > 0 {
		rm := removers[0]
		removers = removers[1:]
		if seen[rm] {
			continue
		}
		seen[rm] = true
		sites, _ := c.nonScaffoldCallers(rm)
		for _, s := range sites {
			fn := s.Caller
			call, ok := s.Instr.(*ssa.Call)
			if !ok {
				continue
			}
			c.saw(fnName(fn))
			// wrapper: returns the result unchanged → obligation moves to its callers
			isWrapper := false
			for _, b := range fn.Blocks {
				for _, ins := range b.Instrs {
					if r, ok := ins.(*ssa.Return); ok && len(r.Results) == 1 {
						v := retVal(r, 0)
						if v == ssa.Value(call) {
							isWrapper = true
						}
					}
				}
			}
			buriedHere := len(callsIn(fn, false, bury)) > 0
			if isWrapper && !buriedHere {
				removers = append(removers, fn)
				c.Info(rule, "wrapper "+fnName(fn), "returns the removal result; callers are checked", P.instrPos(call), "")
				continue
			}
			removedTrue := newBoolEv(fn, "removal returned true", true, func(x *ssa.Call) bool { return x == call })
			executed := &calledEv{name: "removal executed", match: func(x ssa.Instruction) bool { return x == ssa.Instruction(call) }}
			buried := &calledEv{name: "buryOperator", match: instrCallMatcher(bury), reset: func(x ssa.Instruction) bool { return x == ssa.Instruction(call) }}
			tested := len(removedTrue.carriers) > 0 && carrierTested(fn, removedTrue)
			formula := func(h []bool) bool { return !h[0] || h[2] }
			if !tested {
				formula = func(h []bool) bool { return !h[1] || h[2] }
			}
			args := callArgs(call.Common())
			construct := fmt.Sprintf("%s in %s", rm.Name(), fnName(fn))
			_, fails := requireAt(P, fn, 0, []Ev{removedTrue, executed, buried}, func(x ssa.Instruction) bool { _, ok := x.(*ssa.Return); return ok }, formula)
			c.Check(len(fails) == 0, rule, construct, "whenever the operator was taken out of the running set, buryOperator runs before the function returns", P.instrPos(call), failDesc(fails))
			// the same operator is buried
			if len(args) == 1 {
				okSame := false
				for _, bc := range callsIn(fn, false, bury) {
					if ba := callArgs(bc.Common()); len(ba) >= 1 && sameVal(ba[0], args[0]) {
						okSame = true
					}
				}
				c.Check(okSame, rule, construct+" (same operator)", "the operator that was removed is the one buried", P.instrPos(call), "")
			}
		}
	}
	// buryOperator: non-end status is cancelled; always recorded
	b := P.Method(sch, "OperatorController", "buryOperator")
	put := F(P.Method(sch, "OperatorRecords", "Put"))
	c.need(rule, b, "return", func(x ssa.Instruction) bool { _, ok := x.(*ssa.Return); return ok }, []Ev{&calledEv{name: "opRecords.Put", match: instrCallMatcher(put)}}, all, "every buried operator is remembered")
	isEnd := F(P.Func("server/schedule/operator", "IsEndStatus"))
	cancel := F(P.Method("server/schedule/operator", "Operator", "Cancel"))
	c.need(rule, b, "call Cancel", instrCallMatcher(cancel), []Ev{guardCall("!IsEndStatus(status)", false, callMatcher(isEnd))}, all, "an operator buried in a non-end status is cancelled first")
	found, _ := guardControlsReturn(b, func(cond ssa.Value, pos bool) bool { cl, ok := cond.(*ssa.Call); return ok && isEnd.Match(cl.Common()) }, func(*ssa.Return) bool { return true })
	c.Check(found, rule, "IsEndStatus test in "+fnName(b), "present", P.pos(b.Pos()), "")
}

func carrierTested(fn *ssa.Function, e *okEv) bool {
	for _, b := range fn.Blocks {
		if iff, ok := b.Instrs[len(b.Instrs)-1].(*ssa.If); ok {
			cond, _ := normCond(iff.Cond, true)
			if e.carriers[cond] {
				return true
			}
		}
	}
	return false
}

func ruleCommandsStamped(c *Ctx) {
	P := c.P
	rule := c.Prop + "/command-stamp"
	hb := "server/schedule/hbstream"
	send := P.Method(hb, "HeartbeatStreams", "SendMsg")
	msgCh := P.Field(hb, "HeartbeatStreams", "msgCh")
	// who sends on msgCh
	for _, fn := range P.Funcs {
		if P.isScaffold(fn) {
			continue
		}
		for _, b := range fn.Blocks {
			for _, ins := range b.Instrs {
				var ch ssa.Value
				switch x := ins.(type) {
				case *ssa.Send:
					ch = x.Chan
				case *ssa.Select:
					for _, st := range x.States {
						if st.Dir == types.SendOnly && isLoadOf(st.Chan, msgCh) {
							ch = st.Chan
						}
					}
				}
				if ch != nil && isLoadOf(ch, msgCh) {
					okFn := fn.Name() == "SendMsg" || fn.Name() == "SendErr"
					c.Check(okFn && fnPkgPath(fn) == modPath+"/"+hb, rule, "send on msgCh in "+fnName(fn), "messages enter the heartbeat stream only through SendMsg / SendErr", P.instrPos(ins), "")
				}
			}
		}
	}
	// SendMsg stamps id, epoch and target from the one region parameter before sending
	pdpb := "github.com/pingcap/kvproto/pkg/pdpb"
	var regionParam ssa.Value
	for _, p := range send.Params {
		if n := namedOf(p.Type()); n != nil && n.Obj().Name() == "RegionInfo" {
			regionParam = p
		}
	}
	ri := func(m string) Callee { return F(P.Method("server/core", "RegionInfo", m)) }
	stamps := []struct {
		field string
		from  Callee
	}{{"RegionId", ri("GetID")}, {"RegionEpoch", ri("GetRegionEpoch")}, {"TargetPeer", ri("GetLeader")}}
	var evs []Ev
	for _, s := range stamps {
		f := P.Field(pdpb, "RegionHeartbeatResponse", s.field)
		from := s.from
		evs = append(evs, &calledEv{name: s.field + " := region." + from.CName() + "()", match: func(x ssa.Instruction) bool {
			st, ok := x.(*ssa.Store)
			if !ok || fieldOfAddr(st.Addr) != f {
				return false
			}
			cl, _ := callOf(st.Val)
			return cl != nil && from.Match(cl.Common()) && len(cl.Call.Args) == 1 && sameVal(cl.Call.Args[0], regionParam)
		}})
	}
	c.need(rule, send, "send on msgCh", func(x ssa.Instruction) bool {
		sel, ok := x.(*ssa.Select)
		if !ok {
			_, isSend := x.(*ssa.Send)
			return isSend
		}
		for _, st := range sel.States {
			if st.Dir == types.SendOnly {
				return true
			}
		}
		return false
	}, evs, all, "every command is stamped with the id, epoch and leader of the same (current) region before it is sent")
	// no other writer of the stamp fields on outgoing commands in schedule
	sc := P.Method("server/schedule", "OperatorController", "SendScheduleCommand")
	for _, ci := range callsIn(sc, false, F(send)) {
		a := callArgs(ci.Common())
		var rp ssa.Value
		for _, p := range sc.Params {
			if n := namedOf(p.Type()); n != nil && n.Obj().Name() == "RegionInfo" {
				rp = p
			}
		}
		c.Check(len(a) == 2 && sameVal(a[0], rp), rule, "SendMsg in "+fnName(sc), "the command is sent for the region that was dispatched", P.instrPos(ci), "")
	}
	// exhaustiveness: the type switch covers every step type
	ruleStepSwitchExhaustive(c)
}

// ruleStepSwitchExhaustive: E5(a) — every non-test type implementing OpStep
// has a case in SendScheduleCommand's type switch.
func ruleStepSwitchExhaustive(c *Ctx) {
	P := c.P
	rule := c.Prop + "/step-switch"
	opPkg := P.pkg("server/schedule/operator")
	it, ok := P.named("server/schedule/operator", "OpStep").Underlying().(*types.Interface)
	if !ok {
		undecidedf("OpStep is not an interface")
	}
	var impls []string
	for _, name := range opPkg.Types.Scope().Names() {
		tn, ok := opPkg.Types.Scope().Lookup(name).(*types.TypeName)
		if !ok || tn.IsAlias() {
			continue
		}
		if _, isI := tn.Type().Underlying().(*types.Interface); isI {
			continue
		}
		if types.Implements(tn.Type(), it) || types.Implements(types.NewPointer(tn.Type()), it) {
			impls = append(impls, name)
		}
	}
	sc := P.Method("server/schedule", "OperatorController", "SendScheduleCommand")
	covered := map[string]bool{}
	for _, b := range sc.Blocks {
		for _, ins := range b.Instrs {
			if ta, ok := ins.(*ssa.TypeAssert); ok {
				if n := namedOf(ta.AssertedType); n != nil {
					covered[n.Obj().Name()] = true
				}
			}
		}
	}
	for _, name := range impls {
		c.Check(covered[name], rule, "step type "+name, "has a case in SendScheduleCommand (a step that cannot be sent never finishes)", P.pos(sc.Pos()), "no case for this OpStep implementation")
	}
	if len(impls) < 10 {
		c.Undec(rule, "OpStep implementations", "at least 10", "", fmt.Sprint(len(impls)))
	}
}

func ruleStaleDetection(c *Ctx) {
	P := c.P
	const sch = "server/schedule"
	rule := c.Prop + "/stale-detection"
	disp := P.Method(sch, "OperatorController", "Dispatch")
	stale := F(P.Method(sch, "OperatorController", "checkStaleOperator"))
	send := F(P.Method(sch, "OperatorController", "SendScheduleCommand"))
	// on the heartbeat source the command is sent only after checkStaleOperator said no
	var source ssa.Value
	for _, p := range disp.Params {
		if p.Name() == "source" {
			source = p
		}
	}
	notHB := guardRel("source != heartbeat", "!=", same(source), anyVal)
	notStale := guardCall("!checkStaleOperator", false, callMatcher(stale))
	c.need(rule, disp, "call SendScheduleCommand", instrCallMatcher(send), []Ev{notHB, notStale}, anyOf, "at a heartbeat the next step is sent only if the operator was not judged stale")
	// the region an operator is driven with at a heartbeat is one the cluster accepted: a refused (stale)
	// report would be judged against the operator's steps and stamped on its commands
	hh := P.Method("server/cluster", "RaftCluster", "HandleRegionHeartbeat")
	prh := F(P.Method("server/cluster", "RaftCluster", "processRegionHeartbeat"))
	c.need(rule, hh, "call/defer Dispatch", instrCallMatcher(F(disp)), []Ev{newOkEv(hh, "ok(processRegionHeartbeat)", callMatcher(prh))}, all,
		"the operator controller is driven by a heartbeat only after the cluster accepted that heartbeat")
	// checkStaleOperator depends on the step's own precondition and on the conf-version accounting
	cs := P.Method(sch, "OperatorController", "checkStaleOperator")
	safety := P.IMethod("server/schedule/operator", "OpStep", "CheckSafety")
	confChanged := F(P.Method("server/schedule/operator", "Operator", "ConfVerChanged"))
	remove := F(P.Method(sch, "OperatorController", "RemoveOperator"))
	getConf := F(P.Method("github.com/pingcap/kvproto/pkg/metapb", "RegionEpoch", "GetConfVer"))
	failedSafety := &failEv{okEv: newOkEv(cs, "CheckSafety failed", callMatcher(safety))}
	diffGT := guardRel("Δconf_ver > accounted", ">", func(v ssa.Value) bool {
		b, ok := strip(v).(*ssa.BinOp)
		return ok && b.Op == token.SUB && resultOfCall(getConf)(b.X) && resultOfCall(getConf)(b.Y)
	}, resultOfCall(confChanged))
	c.need(rule, cs, "call RemoveOperator", instrCallMatcher(remove), []Ev{failedSafety, diffGT}, anyOf, "an operator is cancelled as stale only when its step's precondition fails or the conf version advanced by more than its steps account for")
	// … and the other way round: "not stale" is answered only after the step's precondition held and the
	// conf version was found within the steps' accounting, whatever kind of operator it is
	passedSafety := newOkEv(cs, "CheckSafety passed", callMatcher(safety))
	within := guardRel("Δconf_ver <= accounted", "<=", func(v ssa.Value) bool {
		b, ok := strip(v).(*ssa.BinOp)
		return ok && b.Op == token.SUB && resultOfCall(getConf)(b.X) && resultOfCall(getConf)(b.Y)
	}, resultOfCall(confChanged))
	c.need(rule, cs, "answer 'not stale'", func(x ssa.Instruction) bool {
		r, ok := x.(*ssa.Return)
		if !ok || len(r.Results) != 1 {
			return false
		}
		b, isB := constBool(retVal(r, 0))
		return isB && !b
	}, []Ev{passedSafety, within, &calledEv{name: "RemoveOperator attempted", match: instrCallMatcher(remove)},
		&calledEv{name: "RemoveOperator attempted after the conf-version comparison", match: instrCallMatcher(remove), reset: func(x ssa.Instruction) bool {
			b, ok := x.(*ssa.BinOp)
			return ok && b.Op == token.SUB && resultOfCall(getConf)(b.X) && resultOfCall(getConf)(b.Y)
		}},
		// Δ == 0 is within any accounting: both sides are unsigned
		guardRel("Δconf_ver == 0", "== <=", func(v ssa.Value) bool {
			b, ok := strip(v).(*ssa.BinOp)
			return ok && b.Op == token.SUB && resultOfCall(getConf)(b.X) && resultOfCall(getConf)(b.Y)
		}, isConstInt(0))},
		func(h []bool) bool { return (h[0] || h[2]) && (h[1] || h[3] || h[4]) },
		"an operator is kept only if its current step's precondition holds and the conf version advanced by no more than its steps account for (or its removal was attempted and it was no longer registered)")
	// an operator that was just cancelled as stale is reported as such: the caller sends no command for it
	c.need(rule, cs, "answer other than 'stale'", func(x ssa.Instruction) bool {
		r, ok := x.(*ssa.Return)
		if !ok || len(r.Results) != 1 {
			return false
		}
		b, isB := constBool(resolved(retVal(r, 0))) // the value returned on this path (a result variable is a φ)
		return !(isB && b)
	}, []Ev{guardCall("RemoveOperator(op) removed it", true, callMatcher(remove))}, func(h []bool) bool { return !h[0] },
		"once the operator was removed as stale the answer is true: Dispatch must not go on to send its step")
	n := len(callsIn(cs, false, remove))
	c.Check(n >= 2, rule, "stale conditions in "+fnName(cs), "both conditions (precondition, conf-version accounting) cancel the operator", P.pos(cs.Pos()), fmt.Sprintf("%d removal sites", n))
	// latest − origin: minuend from the heartbeat region, subtrahend from the operator's recorded epoch
	opEpoch := F(P.Method("server/schedule/operator", "Operator", "RegionEpoch"))
	regEpoch := F(P.Method("server/core", "RegionInfo", "GetRegionEpoch"))
	okDir := false
	for _, b := range cs.Blocks {
		for _, ins := range b.Instrs {
			if bo, ok := ins.(*ssa.BinOp); ok && bo.Op == token.SUB && resultOfCall(getConf)(bo.X) && resultOfCall(getConf)(bo.Y) {
				x, _ := callOf(bo.X)
				y, _ := callOf(bo.Y)
				if x != nil && y != nil && len(x.Call.Args) == 1 && len(y.Call.Args) == 1 && valueIsCallTo(x.Call.Args[0], regEpoch) && valueIsCallTo(y.Call.Args[0], opEpoch) {
					okDir = true
				}
			}
		}
	}
	c.Check(okDir, rule, "conf-version delta in "+fnName(cs), "current region conf version minus the operator's recorded conf version", P.pos(cs.Pos()), "")
	// Operator.ConfVerChanged sums finished steps and the current one
	ocv := P.Method("server/schedule/operator", "Operator", "ConfVerChanged")
	stepCV := P.IMethod("server/schedule/operator", "OpStep", "ConfVerChanged")
	c.Check(len(callsIn(ocv, false, stepCV)) > 0 && len(loopsOf(ocv)) > 0, rule, fnName(ocv), "sums the steps' own accounting over the steps up to the current one", P.pos(ocv.Pos()), "")
	// every step's ConfVerChanged looks peers up by store id with its store field, and a peer that is gone counts as changed only if the step says so
	ruleStepAccounting(c)
}

// ruleStepAccounting: in the joint-consensus leave step the demoted peers are
// looked up by store and a peer that was already removed by a later step does
// not void the accounting (guarded by its presence).
func ruleStepAccounting(c *Ctx) {
	P := c.P
	rule := c.Prop + "/step-accounting"
	op := "server/schedule/operator"
	leave := P.Method(op, "ChangePeerV2Leave", "ConfVerChanged")
	dvCV := F(P.Method(op, "DemoteVoter", "ConfVerChanged"))
	getStorePeer := F(P.Method("server/core", "RegionInfo", "GetStorePeer"))
	toStore := P.Field(op, "DemoteVoter", "ToStore")
	// DemoteVoter.ConfVerChanged is consulted only for a peer still present on its store
	present := guardRel("GetStorePeer(dv.ToStore) != nil", "!=", func(v ssa.Value) bool {
		cl, _ := callOf(v)
		if cl == nil || !getStorePeer.Match(cl.Common()) {
			return false
		}
		a := callArgs(cl.Common())
		return len(a) == 1 && (isLoadOf(a[0], toStore) || fieldOfField(strip(a[0])) == toStore)
	}, isNilConst)
	if len(callsIn(leave, false, dvCV)) > 0 {
		c.need(rule, leave, "call DemoteVoter.ConfVerChanged", instrCallMatcher(dvCV), []Ev{present}, all,
			"a demoted voter is consulted only while a peer still exists on its store (looked up by store id): once a later step removed it, its demotion stays accounted for")
	} else {
		// the per-voter test written in place: decided like the enter step below
		demoteAccounting(c, rule, leave, "leave")
	}
	// the same in the enter step: a demoted voter that a later step already removed does not void the accounting
	demoteAccounting(c, rule, P.Method(op, "ChangePeerV2Enter", "ConfVerChanged"), "enter")
	// siblings: every step that names the peer it acts on (a PeerID field) decides "my change was applied"
	// by comparing the id of the peer found on its store with that PeerID — the store alone is not enough
	// once a later step of the same operator put another peer there
	getPeerID := F(P.Method("github.com/pingcap/kvproto/pkg/metapb", "Peer", "GetId"))
	pk := P.pkg(op).Types
	names := pk.Scope().Names()
	n := 0
	for _, name := range names {
		tn, ok := pk.Scope().Lookup(name).(*types.TypeName)
		if !ok {
			continue
		}
		st, ok := tn.Type().Underlying().(*types.Struct)
		if !ok {
			continue
		}
		var pid *types.Var
		for i := 0; i < st.NumFields(); i++ {
			if st.Field(i).Name() == "PeerID" {
				pid = st.Field(i)
			}
		}
		if pid == nil {
			continue
		}
		m := P.methodOpt(op, name, "ConfVerChanged")
		if m == nil {
			continue
		}
		n++
		isPID := func(v ssa.Value) bool { return isLoadOf(v, pid) || fieldOfField(strip(v)) == pid }
		okCmp := false
		for _, f := range withCallees(m, 1) {
			if hasComparison(f, "== !=", resultOfCall(getPeerID), isPID) {
				okCmp = true
			}
		}
		c.Check(okCmp, rule, "("+name+").ConfVerChanged", "compares the id of the peer found in the region with the step's own PeerID", P.pos(m.Pos()), "")
	}
	if n < 4 {
		c.Undec(rule, "steps with a PeerID", "at least 4 with a ConfVerChanged method", "", fmt.Sprint(n))
	}
	// …and on nothing else: with "the peer found on the step's store has the step's PeerID" assumed and every other
	// call left unknown, the accounting of an adding / promoting / demoting step evaluates to 1 (ordeval.go). A
	// further condition (a pending peer, a role) would make the operator's own finished step look unaccounted for at
	// the next heartbeat, and the operator is cancelled as stale.
	k := 0
	for _, name := range []string{"AddPeer", "AddLearner", "AddLightPeer", "AddLightLearner", "PromoteLearner", "DemoteFollower"} {
		m := P.methodOpt(op, name, "ConfVerChanged")
		if m == nil {
			continue
		}
		pidF := P.Field(op, name, "PeerID")
		k++
		got, okE := ordEval(m, nil, ordAssume{cmp: func(x, y ssa.Value) (int, bool) {
			isID := func(v ssa.Value) bool { return valueIsCallTo(v, getPeerID) }
			isPID := func(v ssa.Value) bool { return isLoadOf(v, pidF) || fieldOfField(strip(v)) == pidF }
			if (isID(x) && isPID(y)) || (isPID(x) && isID(y)) {
				return 0, true
			}
			return 0, false
		}}, 2)
		c.Check(okE && got.kind == 'i' && got.i == 1, rule, "("+name+").ConfVerChanged counts its own change", "1 whenever the peer on the step's store is the step's peer — whatever else holds", P.pos(m.Pos()),
			fmt.Sprintf("evaluated: %v, result %d: the accounting depends on more than the identity of the peer", okE, got.i))
	}
	if k < 4 {
		c.Undec(rule, "single-peer steps with a ConfVerChanged method", "at least 4", "", fmt.Sprint(k))
	}
	// steps that do not touch the membership account for nothing, whatever the region looks like: a leader transfer,
	// a merge (the merged region's conf version is not the sum of anything this operator did) and a split. A step
	// of these kinds that claims conf changes lets an operator absorb that many changes made by someone else and
	// survive the stale check.
	z := 0
	for _, name := range []string{"TransferLeader", "MergeRegion", "SplitRegion"} {
		m := P.methodOpt(op, name, "ConfVerChanged")
		if m == nil {
			continue
		}
		z++
		okZero := true
		for _, b := range m.Blocks {
			if r, ok := b.Instrs[len(b.Instrs)-1].(*ssa.Return); ok && len(r.Results) == 1 {
				for _, alt := range valueAlternatives(retVal(r, 0), 4) {
					if k, isC := constInt(alt); !isC || k != 0 {
						okZero = false
					}
				}
			}
		}
		c.Check(okZero, rule, "("+name+").ConfVerChanged", "0 on every path: the step changes no membership", P.pos(m.Pos()), "a path returns something other than the constant 0")
	}
	if z < 3 {
		c.Undec(rule, "membership-neutral steps with a ConfVerChanged method", "3", "", fmt.Sprint(z))
	}
}

func init() {
	register("C09", "Operator lifecycle: one per region, epoch-checked, stale ones cancelled", func(c *Ctx) {
		c.Group("C09/status-matrix", "the status transition table equals the stated relation, is constant, and is the only way the status changes", func() { ruleStatusMachine(c) })
		c.Group("C09/running-set", "operators are registered under their own region id, removed only by identity, admitted only after checkAddOperator under the controller lock; its atoms reject missing region, epoch mismatch, lower priority, non-created, expired", func() { ruleOneOperatorPerRegion(c); ruleStartedOperatorIsRegistered(c) })
		c.Group("C09/removed-buried", "leaving the running set ⇒ end status and recorded", func() { ruleRemovedIsBuried(c) })
		c.Group("C09/command-stamp", "commands enter the stream only through SendMsg/SendErr, stamped from the dispatched region; every step type can be sent", func() { ruleCommandsStamped(c) })
		c.Group("C09/stale-detection", "heartbeat dispatch sends only when not stale; staleness = failed step precondition or conf-version delta above the steps' accounting", func() { ruleStaleDetection(c); ruleStepPreconditionsMatchPlanner(c) })
		c.Group("C09/id-kind", "peer ids, store ids and region ids are never mixed in server/...", func() { ruleIDKinds(c) })
	})
}

// ruleStartedOperatorIsRegistered: addOperatorLocked registers what it started
// (otherwise a second operator is admitted for the region while the first
// one's step is already with the store), and an operator it replaces is
// removed and marked REPLACED.
func ruleStartedOperatorIsRegistered(c *Ctx) {
	P := c.P
	const sch = "server/schedule"
	rule := c.Prop + "/running-set"
	fn := P.Method(sch, "OperatorController", "addOperatorLocked")
	opsF := P.Field(sch, "OperatorController", "operators")
	start := F(P.Method("server/schedule/operator", "Operator", "Start"))
	replace := F(P.Method("server/schedule/operator", "Operator", "Replace"))
	rmLocked := F(P.Method(sch, "OperatorController", "removeOperatorLocked"))
	isInsert := func(x ssa.Instruction) bool {
		mu, ok := x.(*ssa.MapUpdate)
		return ok && isLoadOf(mu.Map, opsF)
	}
	c.mustFollowEdge(rule, fn, "op.Start() succeeded", func(cond ssa.Value, pos bool) bool {
		cl, ok := cond.(*ssa.Call)
		return ok && pos && start.Match(cl.Common())
	}, "operators[regionID] = op", isInsert, nil, "an operator that was started is registered as the region's running operator")
	hasOld := func(cond ssa.Value, pos bool) bool {
		// the ok of `old, ok := operators[id]`, or old != nil
		if ex, isEx := cond.(*ssa.Extract); isEx && pos && ex.Index == 1 {
			if l, isL := ex.Tuple.(*ssa.Lookup); isL && isLoadOf(l.X, opsF) {
				return true
			}
		}
		r, ok := relOf(cond, pos)
		return ok && matchRel(r, "!=", func(v ssa.Value) bool {
			l, isL := strip(v).(*ssa.Lookup)
			return isL && isLoadOf(l.X, opsF)
		}, isNilConst)
	}
	c.mustFollowEdge(rule, fn, "the region already has a running operator", hasOld, "old.Replace()", instrCallMatcher(replace), nil,
		"the operator that is replaced ends in status REPLACED")
	c.mustFollowEdge(rule, fn, "the region already has a running operator", hasOld, "removeOperatorLocked(old)", instrCallMatcher(rmLocked), nil,
		"the operator that is replaced is taken out of the running set (and its counters) before the new one is started")
}

// demoteAccounting: a joint-consensus step answers 0 ("my change is not
// applied") over a demoted voter only while a peer still exists on that
// voter's store; once a later step of the operator removed it, the demotion
// stays accounted for.
func demoteAccounting(c *Ctx, rule string, fn *ssa.Function, which string) {
	P := c.P
	op := "server/schedule/operator"
	toStore := P.Field(op, "DemoteVoter", "ToStore")
	getStorePeer := F(P.Method("server/core", "RegionInfo", "GetStorePeer"))
	getStoreVoter := F(P.Method("server/core", "RegionInfo", "GetStoreVoter"))
	isDemotedLookup := func(v ssa.Value) bool {
		cl, _ := callOf(v)
		if cl == nil || (!getStorePeer.Match(cl.Common()) && !getStoreVoter.Match(cl.Common())) {
			return false
		}
		a := callArgs(cl.Common())
		return len(a) == 1 && (isLoadOf(a[0], toStore) || fieldOfField(strip(a[0])) == toStore)
	}
	looked := &calledEv{name: "a demoted voter was looked up", match: func(x ssa.Instruction) bool {
		v, ok := x.(ssa.Value)
		return ok && isDemotedLookup(v)
	}}
	presentE := guardRel("peer on dv.ToStore != nil", "!=", isDemotedLookup, isNilConst)
	c.need(rule, fn, "answer 0 (nothing accounted)", func(x ssa.Instruction) bool {
		r, ok := x.(*ssa.Return)
		if !ok || len(r.Results) != 1 {
			return false
		}
		k, isC := constInt(resolved(r.Results[0]))
		return isC && k == 0
	}, []Ev{looked, presentE}, func(h []bool) bool { return !h[0] || h[1] },
		"the "+which+" step voids its accounting over a demoted voter only while a peer still exists on that store: once a later step removed it, the demotion stays accounted for")
}
