package main

// Sensitivity self-test (thorough tier): each property ships small mutants of
// pd — one rule instance broken, still compiling — described as exact
// find/replace edits in /verif/mutants/<prop>.json. They are applied in memory
// (packages.Config.Overlay; no copy of pd on disk), one subprocess per mutant,
// and the run reports which rule fired. A mutant whose `find` text no longer
// occurs exactly once is stale (pd changed) and is reported, not failed.

import (
	"encoding/json"
	"fmt"
	"os"
	"os/exec"
	"path/filepath"
	"strings"
	"sync"
)

type Mutant struct {
	Name    string `json:"name"`
	File    string `json:"file"`
	Find    string `json:"find"`
	Replace string `json:"replace"`
	Expect  string `json:"expect"` // substring that must occur in a MUTANT-VIOLATION line (rule or construct)
	Note    string `json:"note,omitempty"`
}

type mutantResult struct {
	Name   string `json:"name"`
	Fired  bool   `json:"fired"`
	Stale  bool   `json:"stale,omitempty"`
	Report string `json:"report,omitempty"`
}

func loadMutants(verif, prop string) []Mutant {
	b, err := os.ReadFile(filepath.Join(verif, "mutants", prop+".json"))
	if err != nil {
		return nil
	}
	var ms []Mutant
	if err := json.Unmarshal(b, &ms); err != nil {
		fmt.Println("bad mutants file:", err)
		return nil
	}
	return ms
}

func runMutants(c *Ctx, repo, verif string, extra map[string]interface{}) {
	ms := loadMutants(verif, c.Prop)
	if len(ms) == 0 {
		return
	}
	self, _ := os.Executable()
	tmp, err := os.MkdirTemp("", "pdsa-mut-")
	if err != nil {
		c.Undec("selftest", "tmpdir", "scratch dir for mutant overlays", "", err.Error())
		return
	}
	defer os.RemoveAll(tmp)
	results := make([]mutantResult, len(ms))
	sem := make(chan struct{}, 4) // each subprocess loads the whole program (~1 GB)
	var wg sync.WaitGroup
	for i, m := range ms {
		wg.Add(1)
		go func(i int, m Mutant) {
			defer wg.Done()
			sem <- struct{}{}
			defer func() { <-sem }()
			results[i] = runOneMutant(self, repo, verif, tmp, c.Prop, i, m)
		}(i, m)
	}
	wg.Wait()
	fired, stale := 0, 0
	for i, r := range results {
		if r.Stale {
			stale++
			continue
		}
		if r.Fired {
			fired++
			c.OK("selftest/mutant", ms[i].Name, "the check must report the broken instance ("+ms[i].Expect+")", ms[i].File)
		} else {
			c.Viol("selftest/mutant", ms[i].Name, "the check must report the broken instance ("+ms[i].Expect+")", ms[i].File,
				"mutant not detected (checker lost sensitivity): "+r.Report)
		}
	}
	extra["mutants_total"] = len(ms)
	extra["mutants_fired"] = fired
	extra["mutants_stale"] = stale
	extra["mutants"] = results
}

func runOneMutant(self, repo, verif, tmp, prop string, i int, m Mutant) mutantResult {
	src, err := os.ReadFile(filepath.Join(repo, m.File))
	if err != nil {
		return mutantResult{Name: m.Name, Stale: true, Report: err.Error()}
	}
	if strings.Count(string(src), m.Find) != 1 {
		return mutantResult{Name: m.Name, Stale: true, Report: fmt.Sprintf("find text occurs %d times", strings.Count(string(src), m.Find))}
	}
	mutated := strings.Replace(string(src), m.Find, m.Replace, 1)
	f := filepath.Join(tmp, fmt.Sprintf("m%d.go", i))
	if err := os.WriteFile(f, []byte(mutated), 0o644); err != nil {
		return mutantResult{Name: m.Name, Stale: true, Report: err.Error()}
	}
	cmd := exec.Command(self, "check", "-prop", prop, "-tier", "quick", "-repo", repo, "-verif", verif,
		"-overlay", filepath.Join(repo, m.File)+"="+f)
	out, _ := cmd.CombinedOutput()
	var hits []string
	fired := false
	for _, line := range strings.Split(string(out), "\n") {
		if strings.HasPrefix(line, "MUTANT-VIOLATION") {
			hits = append(hits, line)
			if m.Expect == "" || strings.Contains(line, m.Expect) {
				fired = true
			}
		}
		if strings.HasPrefix(line, "UNDECIDED: cannot load") {
			return mutantResult{Name: m.Name, Stale: true, Report: "mutant does not compile: " + firstN(string(out), 300)}
		}
	}
	rep := strings.Join(hits, " | ")
	if len(rep) > 600 {
		rep = rep[:600] + "…"
	}
	if !fired && rep == "" {
		rep = firstN(string(out), 300)
	}
	return mutantResult{Name: m.Name, Fired: fired, Report: rep}
}

func firstN(s string, n int) string {
	if len(s) > n {
		return s[:n] + "…"
	}
	return s
}

func cmdSelftest(args []string) int {
	fmt.Println("use: pdsa check -prop Cnn -tier thorough (mutants run there)")
	return 0
}
