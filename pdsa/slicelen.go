package main

// E8: length congruence of positionally-paired slices, by optimistic value
// numbering of slice lengths over SSA (Alpern/Wegman/Zadeck-style partition
// refinement of the φ-nodes): lengths are expressions  Const(k) | Sym(s)+k.
// φ-nodes of one block start in one class (optimistically congruent) and are
// split while their operand signatures differ, so loops need no widening.

import (
	"fmt"
	"go/token"
	"go/types"
	"sort"
	"strings"

	"golang.org/x/tools/go/ssa"
)

type lenExpr struct {
	sym string // "" for a pure constant
	off int64
	top bool // not yet known (optimistic)
}

func (e lenExpr) String() string {
	if e.top {
		return "⊤"
	}
	if e.sym == "" {
		return fmt.Sprint(e.off)
	}
	if e.off == 0 {
		return e.sym
	}
	return fmt.Sprintf("%s%+d", e.sym, e.off)
}

type lenVN struct {
	fn     *ssa.Function
	phiSym map[*ssa.Phi]string
	memo   map[ssa.Value]lenExpr
}

func isSliceType(t types.Type) bool {
	_, ok := t.Underlying().(*types.Slice)
	return ok
}

func newLenVN(fn *ssa.Function) *lenVN {
	vn := &lenVN{fn: fn, phiSym: map[*ssa.Phi]string{}}
	// optimistic start: all slice φs of a block share one symbol
	for _, b := range fn.Blocks {
		for _, ins := range b.Instrs {
			if phi, ok := ins.(*ssa.Phi); ok && isSliceType(phi.Type()) {
				vn.phiSym[phi] = fmt.Sprintf("φb%d", b.Index)
			}
		}
	}
	for round := 0; round < 20; round++ {
		vn.memo = map[ssa.Value]lenExpr{}
		changed := false
		for _, b := range fn.Blocks {
			groups := map[string][]*ssa.Phi{} // current symbol -> phis
			for _, ins := range b.Instrs {
				if phi, ok := ins.(*ssa.Phi); ok && isSliceType(phi.Type()) {
					groups[vn.phiSym[phi]] = append(groups[vn.phiSym[phi]], phi)
				}
			}
			for sym, phis := range groups {
				if len(phis) < 2 {
					continue
				}
				bySig := map[string][]*ssa.Phi{}
				var sigs []string
				for _, phi := range phis {
					s := vn.signature(phi)
					if _, ok := bySig[s]; !ok {
						sigs = append(sigs, s)
					}
					bySig[s] = append(bySig[s], phi)
				}
				if len(sigs) > 1 {
					sort.Strings(sigs)
					for i, s := range sigs {
						for _, phi := range bySig[s] {
							vn.phiSym[phi] = fmt.Sprintf("%s.%d", sym, i)
						}
					}
					changed = true
				}
			}
		}
		if !changed {
			break
		}
	}
	vn.memo = map[ssa.Value]lenExpr{}
	return vn
}

func (vn *lenVN) signature(phi *ssa.Phi) string {
	var parts []string
	for _, e := range phi.Edges {
		parts = append(parts, vn.lenOf(e, 0).String())
	}
	return strings.Join(parts, "|")
}

// lenOf: symbolic length of a slice value.
func (vn *lenVN) lenOf(v ssa.Value, depth int) lenExpr {
	if e, ok := vn.memo[v]; ok {
		return e
	}
	if depth > 40 {
		return lenExpr{sym: symOf(v)}
	}
	var out lenExpr
	switch x := v.(type) {
	case *ssa.Const:
		out = lenExpr{} // nil slice
	case *ssa.MakeSlice:
		out = vn.intOf(x.Len, depth+1)
	case *ssa.Slice:
		switch {
		case x.High != nil:
			h := vn.intOf(x.High, depth+1)
			if x.Low != nil {
				l := vn.intOf(x.Low, depth+1)
				if l.sym == "" && !l.top {
					h.off -= l.off
					out = h
				} else {
					out = lenExpr{sym: symOf(v)}
				}
			} else {
				out = h
			}
		case x.Low == nil:
			// x[:] : array or slice in full
			if at, ok := deref(x.X.Type()).Underlying().(*types.Array); ok {
				out = lenExpr{off: at.Len()}
			} else {
				out = vn.lenOf(x.X, depth+1)
			}
		default:
			out = lenExpr{sym: symOf(v)}
		}
	case *ssa.Phi:
		// a φ all of whose (other) operands agree is that value
		vn.memo[v] = lenExpr{sym: vn.phiSym[x]} // break cycles
		var first *lenExpr
		same := true
		for _, e := range x.Edges {
			if e == v {
				continue
			}
			le := vn.lenOf(e, depth+1)
			if le.sym == vn.phiSym[x] && le.off == 0 {
				continue
			}
			if first == nil {
				c := le
				first = &c
			} else if *first != le {
				same = false
			}
		}
		if same && first != nil {
			out = *first
		} else {
			out = lenExpr{sym: vn.phiSym[x]}
		}
	case *ssa.Call:
		if b, ok := x.Call.Value.(*ssa.Builtin); ok && b.Name() == "append" && len(x.Call.Args) == 2 {
			base := vn.lenOf(x.Call.Args[0], depth+1)
			add := vn.lenOf(x.Call.Args[1], depth+1)
			if add.sym == "" && !add.top {
				base.off += add.off
				out = base
			} else if base.sym == "" && !base.top {
				add.off += base.off
				out = add
			} else {
				out = lenExpr{sym: symOf(v)}
			}
		} else {
			out = lenExpr{sym: symOf(v)}
		}
	case *ssa.ChangeType:
		out = vn.lenOf(x.X, depth+1)
	default:
		out = lenExpr{sym: symOf(v)}
	}
	vn.memo[v] = out
	return out
}

// intOf: symbolic value of an int expression (constants, len(x), ±const).
func (vn *lenVN) intOf(v ssa.Value, depth int) lenExpr {
	if k, ok := constInt(v); ok {
		return lenExpr{off: k}
	}
	switch x := strip(v).(type) {
	case *ssa.Call:
		if b, ok := x.Call.Value.(*ssa.Builtin); ok && b.Name() == "len" && len(x.Call.Args) == 1 && isSliceType(x.Call.Args[0].Type()) {
			return vn.lenOf(x.Call.Args[0], depth+1)
		}
	case *ssa.BinOp:
		if k, ok := constInt(x.Y); ok && (x.Op == token.ADD || x.Op == token.SUB) {
			e := vn.intOf(x.X, depth+1)
			if x.Op == token.ADD {
				e.off += k
			} else {
				e.off -= k
			}
			return e
		}
	}
	return lenExpr{sym: symOf(v)}
}

func symOf(v ssa.Value) string {
	p := accessPath(v)
	if strings.HasPrefix(p, "v:") {
		return fmt.Sprintf("%s@%p", v.Name(), v)
	}
	return p
}
