package main

import (
	"fmt"
	"go/token"
	"go/types"

	"golang.org/x/tools/go/ssa"
)

// natural loops of a function: header -> set of blocks.
type loopInfo struct {
	header *ssa.BasicBlock
	blocks map[*ssa.BasicBlock]bool
}

func loopsOf(fn *ssa.Function) []loopInfo {
	var out []loopInfo
	for _, b := range fn.Blocks {
		for _, h := range b.Succs {
			if !h.Dominates(b) {
				continue
			}
			// back edge b -> h
			li := loopInfo{h, map[*ssa.BasicBlock]bool{h: true}}
			stack := []*ssa.BasicBlock{b}
			for len(stack) > 0 {
				x := stack[len(stack)-1]
				stack = stack[:len(stack)-1]
				if li.blocks[x] {
					continue
				}
				li.blocks[x] = true
				stack = append(stack, x.Preds...)
			}
			// several back edges to one header (continue statements) are one loop
			merged := false
			for i := range out {
				if out[i].header == h {
					for x := range li.blocks {
						out[i].blocks[x] = true
					}
					merged = true
				}
			}
			if !merged {
				out = append(out, li)
			}
		}
	}
	return out
}

// sharedBufferInLoop: a slice buffer allocated outside a loop that is both
// element-assigned and retained (stored into an object / appended as an
// element) inside the loop: every retained copy aliases the same backing array.
func sharedBufferInLoop(fn *ssa.Function) []ssa.Instruction {
	var bad []ssa.Instruction
	loops := loopsOf(fn)
	for _, b := range fn.Blocks {
		for _, ins := range b.Instrs {
			ms, ok := ins.(*ssa.MakeSlice)
			if !ok {
				continue
			}
			for _, l := range loops {
				if l.blocks[ms.Block()] {
					continue
				}
				written, retained := false, false
				var where ssa.Instruction
				for _, r := range *ms.Referrers() {
					if !l.blocks[r.Block()] {
						continue
					}
					switch x := r.(type) {
					case *ssa.IndexAddr:
						if addrWritten(x) {
							written = true
						}
					case *ssa.Store:
						if x.Val == ssa.Value(ms) {
							if _, isAlloc := x.Addr.(*ssa.Alloc); !isAlloc {
								retained = true
								where = x
							}
						}
					}
				}
				if written && retained {
					bad = append(bad, where)
				}
			}
		}
	}
	return bad
}

func ruleIDAllocator(c *Ctx) {
	P := c.P
	rule := c.Prop + "/id-window"
	base := P.Field("server/id", "allocatorImpl", "base")
	end := P.Field("server/id", "allocatorImpl", "end")
	mu := P.Field("server/id", "allocatorImpl", "mu")
	allocFn := P.Method("server/id", "allocatorImpl", "Alloc")
	rebase := P.Method("server/id", "allocatorImpl", "rebaseLocked")
	// the window step: a positive constant, or a field of the allocator that only ever receives positive values
	// (a positive constant, or a value stored under `v > 0`) and is not assigned by the allocator's own methods
	isStep := func(v ssa.Value) (bool, string) {
		if k, isC := constInt(v); isC {
			return k > 0, fmt.Sprintf("constant %d", k)
		}
		f := loadedField(v)
		if f == nil || f == base || f == end {
			return false, "neither a constant nor a step field"
		}
		n := 0
		for _, fn := range P.Funcs {
			if fnPkgPath(fn) != modPath+"/server/id" {
				continue
			}
			for _, st := range storesToField(fn, f) {
				n++
				if fn.Signature.Recv() != nil && fn.Parent() == nil {
					return false, "the step field is assigned by " + fnName(fn)
				}
				if k, isC := constInt(st.Val); isC {
					if k <= 0 {
						return false, "non-positive step stored in " + fnName(fn)
					}
					continue
				}
				s := st
				_, fails := requireAt(P, fn, 0, []Ev{guardRel("stored step > 0", "> !=", same(st.Val), isConstInt(0))}, func(x ssa.Instruction) bool { return x == ssa.Instruction(s) }, all)
				if len(fails) > 0 {
					return false, "a step of unknown sign is stored in " + fnName(fn)
				}
			}
		}
		return n > 0, "field " + f.Name()
	}

	// lock discipline
	guardedBy(c, c.Prop+"/id-lock", base, mu, nil)
	guardedBy(c, c.Prop+"/id-lock", end, mu, nil)

	// writers by role: an increment of base guarded by base != end or a successful rebase;
	// window installation only after the transaction was applied
	for _, f := range []*types.Var{base, end} {
		for _, accs := range P.writersOf(f) {
			for _, a := range accs {
				fn := a.Fn
				for i, st := range storesToField(fn, f) {
					construct := fmt.Sprintf("write of %s in %s #%d", f.Name(), fnName(fn), i+1)
					c.saw(fnName(fn))
					if b, isBin := strip(st.Val).(*ssa.BinOp); isBin && f == base && b.Op == token.ADD && isLoadOf(b.X, base) && isConstInt(1)(b.Y) {
						gNE := guardRel("base != end", "!=", loadOfField(base), loadOfField(end))
						okRe := newOkEv(fn, "ok(rebaseLocked)", callMatcher(F(rebase)))
						_, fails := requireAt(P, fn, 0, []Ev{gNE, okRe}, func(x ssa.Instruction) bool { return x == st }, anyOf)
						c.Check(len(fails) == 0, rule, construct, "base++ is dominated by base != end or by a successful rebase (never beyond the stored window)", P.instrPos(st), failDesc(fails))
						continue
					}
					// window installation: must be in a function with the alloc_id transaction, after commit success
					var site *TxnSite
					for _, s := range P.txnSites() {
						if s.Fn == fn && classifyKey(s.KeyAtoms, s.Kind) != nil && classifyKey(s.KeyAtoms, s.Kind).name == "id window" {
							site = s
						}
					}
					if site == nil || site.Commit == nil {
						c.Viol(rule, construct, "the window fields are assigned only by the function that commits the id-window transaction", P.instrPos(st), "no id-window transaction in this function")
						continue
					}
					_, fails := requireAt(P, fn, 0, site.committedEvents(), func(x ssa.Instruction) bool { return x == st }, all)
					c.Check(len(fails) == 0, rule, construct, "assigned only after Commit returned nil ∧ resp.Succeeded", P.instrPos(st), failDesc(fails))
					if f == end {
						// same value that was put
						putVal := site.Op.Call.Args[1]
						c.Check(derivesFrom(putVal, same(st.Val), 8), rule, "value of end in "+fnName(fn), "the in-memory end is the value that was written to the key", P.instrPos(st), "put value does not derive from the stored end")
						// end = loaded + allocStep
						bo, isBin := strip(st.Val).(*ssa.BinOp)
						okStep, why := false, "not an addition"
						if isBin && bo.Op == token.ADD {
							okStep, why = isStep(bo.Y)
						}
						c.Check(okStep, rule, "new end in "+fnName(fn), "new end = previous end + allocStep (a positive step)", P.instrPos(st), why)
					} else {
						bo, isBin := strip(st.Val).(*ssa.BinOp)
						okB := isBin && bo.Op == token.SUB
						if okB {
							// minuend is the new end, subtrahend the step that was added
							es := storesToField(fn, end)
							okB = len(es) > 0 && sameVal(bo.X, es[0].Val)
							if okB {
								eb, isB := strip(es[0].Val).(*ssa.BinOp)
								k1, c1 := constInt(bo.Y)
								okB = isB && (sameVal(eb.Y, bo.Y) || (c1 && isConstInt(k1)(eb.Y)))
							}
						}
						c.Check(okB, rule, "new base in "+fnName(fn), "new base = new end − allocStep", P.instrPos(st), "")
					}
				}
			}
		}
	}
	// rebaseLocked requires the lock
	okL, why := callersHold(P, rebase, mu, true, 2, map[*ssa.Function]bool{})
	c.Check(okL, c.Prop+"/id-lock", "callers of "+fnName(rebase), "hold alloc.mu", P.pos(rebase.Pos()), why)
	// Alloc returns base (the incremented value)
	c.need(rule, allocFn, "successful return", func(x ssa.Instruction) bool {
		r, ok := x.(*ssa.Return)
		return ok && retIsNilErr(r)
	}, []Ev{&calledEv{name: "base incremented", match: func(x ssa.Instruction) bool { return isStoreToField(x, base) }}}, all, "an id is returned only after base was incremented")

	// E4: compare-and-swap shape of the window transaction
	for _, s := range P.txnSites() {
		cl := classifyKey(s.KeyAtoms, s.Kind)
		if cl == nil || cl.name != "id window" {
			continue
		}
		construct := "id-window transaction in " + fnName(s.Fn)
		g, whyG := s.leaderGuarded(P)
		c.Check(g, c.Prop+"/id-cas", construct+" (leader)", "If contains Value(<root>/leader) == member", P.instrPos(s.Op), whyG)
		if s.If == nil || len(s.If.Call.Args) != 1 {
			c.Undec(c.Prop+"/id-cas", construct, "If(...) call visible", P.instrPos(s.Op), "")
			continue
		}
		alts := sliceAlternatives(s.If.Call.Args[0], 6)
		getValue := F(P.Func("pkg/etcdutil", "GetValue"))
		okAll := len(alts) > 0
		detail := ""
		for ai, alt := range alts {
			has := false
			for _, e := range alt {
				vals := pathAlternatives(P, s.Fn, e, s.If, 3) // as they are when the transaction is built
				allKey := len(vals) > 0
				for _, v := range vals {
					isKeyCmp := false
					for _, cm := range P.resolveCmp(v, 1) {
						if cm.Key == nil || !sameVal(cm.Key, s.Key) || cm.Op != "=" {
							continue
						}
						if cm.Target == "CreateRevision" {
							if z, okz := constInt(cm.Val); okz && z == 0 {
								isKeyCmp = true
							}
						}
						if cm.Target == "Value" && derivesFrom(cm.Val, resultOfCall(getValue), 4) {
							isKeyCmp = true
						}
					}
					if !isKeyCmp {
						allKey = false
					}
				}
				if allKey {
					has = true
				}
			}
			if !has {
				okAll = false
				detail = fmt.Sprintf("comparator alternative #%d (of %d) has no compare on the alloc_id key", ai+1, len(alts))
			}
		}
		c.Check(okAll, c.Prop+"/id-cas", construct+" (compare-and-swap)", "on every path the If compares the alloc_id key: CreateRevision == 0 when absent, Value == the bytes that were loaded otherwise (racing allocators lose)", P.instrPos(s.If), detail)
	}
}

func failDesc(fails []pathFail) string {
	if len(fails) == 0 {
		return ""
	}
	return fails[0].State + " via " + fails[0].Trace
}

func ruleSingleAllocator(c *Ctx) {
	P := c.P
	rule := c.Prop + "/single-allocator"
	newAlloc := P.Func("server/id", "NewAllocator")
	sites, escapes := c.nonScaffoldCallers(newAlloc)
	c.Check(len(sites) == 1 && len(escapes) == 0, rule, "callers of id.NewAllocator", "exactly one allocator instance is created per server", P.pos(newAlloc.Pos()), fmt.Sprintf("%d call sites, %d function-value uses", len(sites), len(escapes)))
	// every id consumer reaches allocatorImpl.Alloc through the interface; the concrete type has no other constructor
	impl := P.named("server/id", "allocatorImpl")
	n := 0
	for _, fn := range P.Funcs {
		if P.isScaffold(fn) {
			continue
		}
		for _, b := range fn.Blocks {
			for _, ins := range b.Instrs {
				if a, ok := ins.(*ssa.Alloc); ok {
					if nn := namedOf(a.Type()); nn != nil && nn.Obj() == impl.Obj() {
						n++
						c.Check(fn == newAlloc, rule, "construction of allocatorImpl in "+fnName(fn), "only NewAllocator constructs the allocator", P.instrPos(a), "")
					}
				}
			}
		}
	}
	if n == 0 {
		c.Undec(rule, "construction of allocatorImpl", "found", "", "")
	}
}

// ruleIDsDelivered: ids drawn from the allocator are used only after the
// error test and each batch lives in its own buffer.
func ruleIDsDelivered(c *Ctx) {
	P := c.P
	rule := c.Prop + "/ids-delivered"
	allocI := P.IMethod("server/id", "Allocator", "Alloc")
	allocID := P.IMethod("server/schedule/opt", "Cluster", "AllocID")
	n := 0
	for _, fn := range P.Funcs {
		if P.isScaffold(fn) || fnPkgPath(fn) == modPath+"/server/id" {
			continue
		}
		calls := callsIn(fn, false, allocI, allocID)
		if len(calls) == 0 {
			continue
		}
		n++
		c.saw(fnName(fn))
		bad := sharedBufferInLoop(fn)
		pos := P.pos(fn.Pos())
		detail := ""
		if len(bad) > 0 {
			pos = P.instrPos(bad[0])
			detail = "a buffer allocated outside the loop is filled and retained inside it: all retained batches alias one backing array, earlier ids are lost and later ones delivered twice"
		}
		c.Check(len(bad) == 0, rule, "id batches in "+fnName(fn), "each batch of freshly allocated ids is stored in its own buffer", pos, detail)
		// result used only on the success edge
		for i, ci := range calls {
			call, ok := ci.(*ssa.Call)
			if !ok {
				continue
			}
			idv := resultOf(call, 0)
			if idv == nil || idv.Referrers() == nil {
				continue
			}
			okE := newOkEv(fn, "ok(Alloc)", func(x *ssa.Call) bool { return x == call })
			var uses []ssa.Instruction
			for _, r := range *idv.Referrers() {
				if _, isRet := r.(*ssa.Return); isRet {
					continue // returned together with the error: the caller tests it
				}
				if st, isSt := r.(*ssa.Store); isSt {
					if _, isIdx := st.Addr.(*ssa.IndexAddr); isIdx {
						continue // written into the batch slot, tested right after (if x[i], err = Alloc(); err != nil)
					}
				}
				if _, isPhi := r.(*ssa.Phi); isPhi {
					continue
				}
				uses = append(uses, r)
			}
			if len(uses) == 0 {
				continue
			}
			isUse := func(x ssa.Instruction) bool {
				for _, u := range uses {
					if u == x {
						return true
					}
				}
				return false
			}
			_, fails := requireAt(P, fn, 0, []Ev{okE}, isUse, all)
			c.Check(len(fails) == 0, rule, fmt.Sprintf("use of allocated id in %s #%d", fnName(fn), i+1), "an id is used only after the allocation error was tested", P.instrPos(call), failDesc(fails))
		}
	}
	if n < 4 {
		c.Undec(rule, "id consumers", "at least 4 consumer functions", "", fmt.Sprint(n))
	}
	// a failed allocation fails the request: an id slot left at 0 by an Alloc whose error was
	// overwritten by the next one would be delivered, and delivered again by the next request
	m := 0
	for _, fn := range P.Funcs {
		if P.isScaffold(fn) || fnPkgPath(fn) == modPath+"/server/id" || fn.Parent() != nil {
			continue
		}
		res := fn.Signature.Results()
		if res.Len() == 0 || !isErrorType(res.At(res.Len()-1).Type()) {
			continue
		}
		var evs []Ev
		for _, k := range []Callee{allocI, allocID} {
			if len(callsIn(fn, false, k)) > 0 {
				evs = append(evs, newSettledEv(fn, k.CName(), callMatcher(k)))
			}
		}
		if len(evs) == 0 {
			continue
		}
		m++
		c.needOnSuccess(rule, fn, evs, all, "success is reported only when every id allocation made so far returned a nil error (none overwritten untested)")
	}
	if m < 3 {
		c.Undec(rule, "id consumers that return an error", "at least 3", "", fmt.Sprint(m))
	}
}

// rulePlannedPeerIDs: a peer that an operator will *create* gets its id from
// the allocator unless the requester named one. Two places decide that:
// the builder's target description is fixed by its configuration methods and
// read-only while planning (a planner that writes a normalised existing peer
// back into it makes a later "needs an id" test see a non-zero id), and the
// merge helper describes the target placement by store and role only (handing
// over the other region's peers would reuse their ids).
func rulePlannedPeerIDs(c *Ctx) {
	P := c.P
	rule := c.Prop + "/ids-delivered"
	const opk = "server/schedule/operator"
	target := P.Field(opk, "Builder", "targetPeers")
	set := P.Method(opk, "peersMap", "Set")
	allowed := map[string]bool{
		"(*server/schedule/operator.Builder).AddPeer": true, "(*server/schedule/operator.Builder).RemovePeer": true,
		"(*server/schedule/operator.Builder).PromoteLearner": true, "(*server/schedule/operator.Builder).DemoteVoter": true,
		"(*server/schedule/operator.Builder).SetPeers": true, "server/schedule/operator.NewBuilder": true,
	}
	n := 0
	for _, fn := range P.Funcs {
		if fnPkgPath(fn) != modPath+"/"+opk || P.isScaffold(fn) {
			continue
		}
		for _, b := range fn.Blocks {
			for _, ins := range b.Instrs {
				var m ssa.Value
				switch x := ins.(type) {
				case *ssa.MapUpdate:
					m = x.Map
				case *ssa.Call:
					if bi, ok := x.Call.Value.(*ssa.Builtin); ok && bi.Name() == "delete" && len(x.Call.Args) == 2 {
						m = x.Call.Args[0]
					}
				}
				if m == nil || !isLoadOf(m, target) {
					continue
				}
				n++
				name := fnName(outer(fn))
				c.Check(allowed[name], rule, "change of the target peers in "+name, "only the builder's configuration methods edit the target description; planning reads it", P.instrPos(ins), "")
			}
		}
	}
	for _, m := range []*ssa.Function{set} {
		sites, _ := c.nonScaffoldCallers(m)
		for _, s := range sites {
			recv := callRecv(s.Instr.Common())
			if recv == nil || !isLoadOf(recv, target) {
				continue
			}
			n++
			name := fnName(outer(s.Caller))
			c.Check(allowed[name], rule, "change of the target peers in "+name, "only the builder's configuration methods edit the target description; planning reads it", P.instrPos(s.Instr), "")
		}
	}
	for name, accs := range P.writersOf(target) {
		c.Check(allowed[name], rule, "assignment of the target peers in "+name, "only the builder's configuration methods", P.instrPos(accs[0].Ins), "")
	}
	if n < 3 {
		c.Undec(rule, "edits of Builder.targetPeers", "at least 3", "", fmt.Sprint(n))
	}
	// merge: the map given to SetPeers holds fresh peers without an id
	merge := P.Func(opk, "CreateMergeRegionOperator")
	setPeers := F(P.Method(opk, "Builder", "SetPeers"))
	peerID := P.Field("github.com/pingcap/kvproto/pkg/metapb", "Peer", "Id")
	k := 0
	for _, ci := range callsIn(merge, false, setPeers) {
		a := callArgs(ci.Common())
		if len(a) != 1 {
			continue
		}
		for _, b := range merge.Blocks {
			for _, ins := range b.Instrs {
				mu, ok := ins.(*ssa.MapUpdate)
				if !ok || !sameVal(mu.Map, a[0]) {
					continue
				}
				k++
				al, isFresh := mu.Value.(*ssa.Alloc)
				idSet := false
				if isFresh {
					for _, r := range *al.Referrers() {
						if fa, ok := r.(*ssa.FieldAddr); ok && fieldOfAddr(fa) == peerID {
							idSet = true
						}
					}
				}
				c.Check(isFresh && !idSet, rule, "target description in "+fnName(merge), "each entry is a fresh peer naming store and role only (its id is allocated by the builder)", P.instrPos(mu), "")
			}
		}
	}
	if k == 0 {
		c.Undec(rule, "peers map in "+fnName(merge), "found", P.pos(merge.Pos()), "")
	}
}

func init() {
	register("C04", "Allocated ids are unique forever", func(c *Ctx) {
		c.Group("C04/id-window", "premises of the invariant base <= end <= stored end: base++ only below end or after a successful rebase; end/base installed only after the window transaction was applied, with the value that was put; lock held", func() { ruleIDAllocator(c) })
		c.Group("C04/single-allocator", "one allocator instance per server", func() { ruleSingleAllocator(c) })
		c.Group("C04/ids-delivered", "allocated ids are used only after the error test and every batch has its own buffer", func() { ruleIDsDelivered(c); rulePlannedPeerIDs(c); ruleNewPeersAreFresh(c) })
		c.Group("C04/leader-guarded-write", "(shared with C03) the id-window write carries the leader comparator", func() { ruleLeaderOnlyKeys(c, "id window") })
		c.Group("C04/serve-after-init", "(shared with C03) a new leader rebases the id window before it serves", func() { ruleStepUpDown(c) })
		c.Group("C04/not-leader-refused", "(shared with C03) id allocation is refused by a non-leader", func() { ruleHandlersValidate(c) })
	})
}

// ruleNewPeersAreFresh: a peer that a scheduler, checker or the scatterer asks
// the operator builder to create on a chosen store is a fresh literal without
// an id (the builder then draws one from the allocator) — or carries an id that
// came out of the allocator. A struct copy of an existing peer with the store
// replaced keeps the id of a live peer.
func ruleNewPeersAreFresh(c *Ctx) {
	P := c.P
	rule := c.Prop + "/planned-peer-ids"
	mpb := "github.com/pingcap/kvproto/pkg/metapb"
	peerT := P.named(mpb, "Peer")
	storeID := P.Field(mpb, "Peer", "StoreId")
	idF := P.Field(mpb, "Peer", "Id")
	getPeerID := F(P.Method(mpb, "Peer", "GetId"))
	scope := map[string]bool{modPath + "/server/schedule": true, modPath + "/server/schedule/checker": true, modPath + "/server/schedulers": true, modPath + "/server/cluster": true}
	fromAlloc := func(v ssa.Value) bool {
		return derivesFrom(v, func(w ssa.Value) bool {
			cl, _ := callOf(w)
			if cl == nil {
				return false
			}
			name := ""
			if cl.Call.IsInvoke() {
				name = cl.Call.Method.Name()
			} else if f := cl.Call.StaticCallee(); f != nil {
				name = f.Name()
			}
			return name == "AllocID" || name == "Alloc"
		}, 6)
	}
	n := 0
	for _, fn := range P.Funcs {
		if P.isScaffold(fn) || !scope[fnPkgPath(fn)] {
			continue
		}
		k := 0
		for _, b := range fn.Blocks {
			for _, ins := range b.Instrs {
				al, ok := ins.(*ssa.Alloc)
				if !ok {
					continue
				}
				if nn := namedOf(al.Type()); nn == nil || nn.Obj() != peerT.Obj() {
					continue
				}
				hasStore, copied, badID := false, false, false
				for _, ref := range *al.Referrers() {
					switch r := ref.(type) {
					case *ssa.Store:
						if r.Addr == ssa.Value(al) {
							if _, isZero := r.Val.(*ssa.Const); !isZero {
								copied = true
							}
						}
					case *ssa.FieldAddr:
						for _, rr := range *r.Referrers() {
							st, ok := rr.(*ssa.Store)
							if !ok || st.Addr != ssa.Value(r) {
								continue
							}
							switch fieldOfAddr(r) {
							case storeID:
								hasStore = true
							case idF:
								// the id of another, existing peer
								if !fromAlloc(st.Val) && derivesFrom(st.Val, orPred(loadOfField(idF), resultOfCall(getPeerID)), 4) {
									badID = true
								}
							}
						}
					}
				}
				if !hasStore {
					continue
				}
				k++
				n++
				c.saw(fnName(outer(fn)))
				c.Check(!copied && !badID, rule, fmt.Sprintf("peer built for a chosen store #%d in %s", k, fnName(fn)), "a fresh literal whose id is unset (allocated by the builder) or comes from the allocator — never a copy of an existing peer", P.instrPos(al), map[bool]string{true: "struct copy of an existing peer", false: "id of an existing peer"}[copied])
			}
		}
	}
	if n < 8 {
		c.Undec(rule, "peers built for chosen stores in schedulers, checkers, scatterer and cluster", "at least 8", "", fmt.Sprint(n))
	}
}
