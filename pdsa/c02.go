package main

import (
	"fmt"
	"go/token"
	"go/types"
	"strings"

	"golang.org/x/tools/go/ssa"
)

// cellOf: if v is a load of a local cell (closure-captured / address-taken
// local), return the cell.
func cellOf(v ssa.Value) *ssa.Alloc {
	u, ok := strip(v).(*ssa.UnOp)
	if !ok || u.Op != token.MUL {
		return nil
	}
	a, _ := u.X.(*ssa.Alloc)
	return a
}

// isMethodOn: call of method `name` of package-path/type (for std types such
// as time.Time) — resolved through the callee's receiver type, not text.
func isStdMethod(c *ssa.Call, pkg, typ, name string) bool {
	f := c.Call.StaticCallee()
	if f == nil || f.Name() != name || f.Signature.Recv() == nil {
		return false
	}
	n := namedOf(f.Signature.Recv().Type())
	return n != nil && n.Obj().Pkg() != nil && n.Obj().Pkg().Path() == pkg && n.Obj().Name() == typ
}

// ruleSaveTimestampShape: the time-window key has one writer; it is a
// leader-guarded transaction; lastSavedTime is recorded only after the
// transaction is known to have been applied, with the value that was put.
func ruleSaveTimestampShape(c *Ctx) {
	P := c.P
	rule := c.Prop + "/window-txn"
	tsKey := P.obj("server/tso", "timestampKey").(*types.Const)
	keyConst := strings.Trim(tsKey.Val().ExactString(), "\"")
	lastSaved := P.Field("server/tso", "timestampOracle", "lastSavedTime")
	var sites []*TxnSite
	for _, s := range P.txnSites() {
		if s.KeyAtoms.Consts[keyConst] {
			sites = append(sites, s)
		}
	}
	if len(sites) == 0 {
		undecidedf("no etcd write of the %q key found", keyConst)
	}
	for i, s := range sites {
		construct := fmt.Sprintf("%s of time-window key in %s", s.Kind, fnName(s.Fn))
		c.saw(fnName(s.Fn))
		c.Check(i == 0, rule, "writer #"+fmt.Sprint(i+1)+" of the time-window key: "+fnName(s.Fn), "the time-window key has exactly one write site", P.instrPos(s.Op), "additional writer")
		g, why := s.leaderGuarded(P)
		c.Check(g, rule, construct, "transaction is conditional on the leader record (leader comparator in If)", P.instrPos(s.Op), why)
		if s.Commit == nil {
			c.Undec(rule, construct, "Commit of the transaction found", P.instrPos(s.Op), "")
			continue
		}
		// every store of lastSavedTime in this function is dominated by commit success
		evs := s.committedEvents()
		isStoreLast := func(ins ssa.Instruction) bool {
			ci, ok := ins.(*ssa.Call)
			if !ok {
				return false
			}
			f := ci.Call.StaticCallee()
			return f != nil && f.Name() == "Store" && len(ci.Call.Args) >= 1 && fieldOfAddr(ci.Call.Args[0]) == lastSaved
		}
		c.need(rule, s.Fn, "lastSavedTime.Store", isStoreLast, evs, all, "recorded only after Commit returned nil and resp.Succeeded is true")
		// successful return only after commit success
		c.need(rule, s.Fn, "successful return", func(ins ssa.Instruction) bool {
			r, ok := ins.(*ssa.Return)
			return ok && retIsNilErr(r)
		}, evs, all, "nil is returned only when the window was really stored")
		// value recorded == value put
		for _, b := range s.Fn.Blocks {
			for _, ins := range b.Instrs {
				if isStoreLast(ins) {
					stored := ins.(*ssa.Call).Call.Args[1]
					var srcParam *ssa.Parameter
					for _, p := range s.Fn.Params {
						if derivesFrom(stored, func(v ssa.Value) bool { return v == ssa.Value(p) }, 4) {
							srcParam = p
						}
					}
					okSame := srcParam != nil && len(s.Op.Call.Args) > 1 && derivesFrom(s.Op.Call.Args[1], func(v ssa.Value) bool { return v == ssa.Value(srcParam) }, 8)
					c.Check(okSame, rule, "value recorded in lastSavedTime in "+fnName(s.Fn), "is the same timestamp that was written to the key", P.instrPos(ins), "recorded value and put value do not derive from the same parameter")
				}
			}
		}
	}
	// lastSavedTime has no other writer
	for _, fn := range P.Funcs {
		if P.isScaffold(fn) {
			continue
		}
		for _, b := range fn.Blocks {
			for _, ins := range b.Instrs {
				ci, ok := ins.(*ssa.Call)
				if !ok {
					continue
				}
				f := ci.Call.StaticCallee()
				if f != nil && f.Name() == "Store" && len(ci.Call.Args) >= 1 && fieldOfAddr(ci.Call.Args[0]) == lastSaved {
					inSite := false
					for _, s := range sites {
						if s.Fn == fn {
							inSite = true
						}
					}
					c.Check(inSite, rule, "lastSavedTime.Store in "+fnName(fn), "only the function that commits the window records it", P.instrPos(ins), "")
				}
			}
		}
	}
}

// ruleSaveBeforeAdvance: every advance of the in-memory physical time to x is
// dominated by a successful save of x+saveInterval, or by the window guard
// telling that the stored window is still more than the guard ahead of x.
func ruleSaveBeforeAdvance(c *Ctx) {
	P := c.P
	rule := c.Prop + "/save-before-advance"
	const tso = "server/tso"
	setPhys := P.Method(tso, "timestampOracle", "setTSOPhysical")
	save := F(P.Method(tso, "timestampOracle", "saveTimestamp"))
	phys := P.Field(tso, "tsoObject", "physical")
	saveInterval := P.Field(tso, "timestampOracle", "saveInterval")
	lastSaved := P.Field(tso, "timestampOracle", "lastSavedTime")
	subReal := F(P.Func("pkg/typeutil", "SubRealTimeByWallClock"))
	zero := P.obj("pkg/typeutil", "ZeroTime")
	guardConst, ok := constIntObj(P.obj(tso, "UpdateTimestampGuard"))
	if !ok {
		undecidedf("UpdateTimestampGuard is not a constant")
	}
	type target struct {
		fn  *ssa.Function
		ins ssa.Instruction
		x   ssa.Value
	}
	var targets []target
	sites, _ := c.nonScaffoldCallers(setPhys)
	for _, s := range sites {
		args := callArgs(s.Instr.Common())
		if len(args) == 1 {
			targets = append(targets, target{s.Caller, s.Instr.(ssa.Instruction), args[0]})
		}
	}
	for _, accs := range P.writersOf(phys) {
		for _, a := range accs {
			if a.Fn == setPhys {
				continue
			}
			for _, st := range storesToField(a.Fn, phys) {
				if isGlobalLoad(st.Val, zero) {
					continue
				}
				dup := false
				for _, t := range targets {
					if t.ins == ssa.Instruction(st) {
						dup = true
					}
				}
				if !dup {
					targets = append(targets, target{a.Fn, st, st.Val})
				}
			}
		}
	}
	if len(targets) < 3 {
		c.Undec(rule, "advance sites", "at least 3 advance sites (sync, update, user reset)", "", fmt.Sprintf("found %d", len(targets)))
	}
	for i, t := range targets {
		x := t.x
		cell := cellOf(x)
		isSaveOfX := func(call *ssa.Call) bool {
			if !save.Match(call.Common()) {
				return false
			}
			args := callArgs(call.Common())
			if len(args) != 2 {
				return false
			}
			add, ok := strip(args[1]).(*ssa.Call)
			if !ok || !isStdMethod(add, "time", "Time", "Add") || len(add.Call.Args) != 2 {
				return false
			}
			return sameVal(add.Call.Args[0], x) && isLoadOf(add.Call.Args[1], saveInterval)
		}
		okSave := newOkEv(t.fn, "ok(saveTimestamp(x+saveInterval))", isSaveOfX)
		subOfX := func(v ssa.Value) bool {
			cl, _ := callOf(v)
			if cl == nil || !subReal.Match(cl.Common()) || len(cl.Call.Args) != 2 {
				return false
			}
			return sameVal(cl.Call.Args[1], x) && derivesFrom(cl.Call.Args[0], loadOfAddrField(lastSaved), 6)
		}
		window := guardRel("stored window − x > guard", ">", subOfX, isConstInt(guardConst))
		evs := []Ev{okSave, window}
		formula := anyOf
		if cell != nil {
			// x lives in a local cell (captured by a closure): two loads denote the same
			// value only if no store to the cell lies between them. Track, per use, that
			// the load feeding the save / the window test is still current at the advance.
			var saveLoads, winLoads []ssa.Instruction
			for _, b := range t.fn.Blocks {
				for _, ins := range b.Instrs {
					cl, ok := ins.(*ssa.Call)
					if !ok {
						continue
					}
					if isSaveOfX(cl) {
						add := strip(callArgs(cl.Common())[1]).(*ssa.Call)
						if l, ok := strip(add.Call.Args[0]).(ssa.Instruction); ok {
							saveLoads = append(saveLoads, l)
						}
					}
					if subOfX(cl) {
						if l, ok := strip(cl.Call.Args[1]).(ssa.Instruction); ok {
							winLoads = append(winLoads, l)
						}
					}
				}
			}
			isStoreCell := func(ins ssa.Instruction) bool {
				st, ok := ins.(*ssa.Store)
				return ok && st.Addr == ssa.Value(cell)
			}
			in := func(set []ssa.Instruction) func(ssa.Instruction) bool {
				return func(ins ssa.Instruction) bool {
					for _, l := range set {
						if l == ins {
							return true
						}
					}
					return false
				}
			}
			freshS := &calledEv{name: "saved value read after last assignment of x", match: in(saveLoads), reset: isStoreCell}
			freshW := &calledEv{name: "tested value read after last assignment of x", match: in(winLoads), reset: isStoreCell}
			evs = append(evs, freshS, freshW)
			formula = func(h []bool) bool { return (h[0] && h[2]) || (h[1] && h[3]) }
		}
		construct := fmt.Sprintf("advance of physical to x in %s #%d", fnName(t.fn), i+1)
		c.saw(fnName(t.fn))
		_, fails := requireAt(P, t.fn, 0, evs, func(ins ssa.Instruction) bool { return ins == t.ins }, formula)
		req := "dominated by ok(saveTimestamp(x.Add(saveInterval))) for the same x, or by the false edge of SubRealTimeByWallClock(lastSavedTime, x) <= UpdateTimestampGuard"
		if len(fails) > 0 {
			c.Viol(rule, construct, req, P.instrPos(t.ins), fails[0].State+" via "+fails[0].Trace)
		} else {
			c.OK(rule, construct, req, P.instrPos(t.ins))
		}
	}
}

// loadOfAddrField: v is (derived from) the address of field f — used for
// atomic.Value fields accessed through method calls.
func loadOfAddrField(f *types.Var) valPred {
	return func(v ssa.Value) bool {
		if fieldOfAddr(v) == f {
			return true
		}
		if c, ok := v.(*ssa.Call); ok && len(c.Call.Args) > 0 && fieldOfAddr(c.Call.Args[0]) == f {
			return true
		}
		return false
	}
}

// isDeferOf: ins is `defer f(...)` where f is one of fns, or a deferred
// closure / sync.Once.Do(closure) whose body calls one of fns.
func isDeferOf(ins ssa.Instruction, fns ...Callee) bool {
	d, ok := ins.(*ssa.Defer)
	if !ok {
		return false
	}
	for _, f := range fns {
		if f.Match(&d.Call) {
			return true
		}
	}
	check := func(v ssa.Value) bool {
		mc, ok := v.(*ssa.MakeClosure)
		if !ok {
			return false
		}
		g, ok := mc.Fn.(*ssa.Function)
		return ok && len(callsIn(g, true, fns...)) > 0
	}
	if check(d.Call.Value) {
		return true
	}
	for _, a := range d.Call.Args {
		if check(a) {
			return true
		}
	}
	return false
}

// ruleResetOnFailure: a failed window extension ends in a reset of the
// allocator; a leader whose allocator was initialised always resets it (and
// its leadership) when the campaign function returns.
func ruleResetOnFailure(c *Ctx) {
	P := c.P
	rule := c.Prop + "/reset-on-failure"
	const tso = "server/tso"
	am := func(m string) *ssa.Function { return P.Method(tso, "AllocatorManager", m) }
	resetGroup := F(am("ResetAllocatorGroup"))
	updateTSO := P.IMethod(tso, "Allocator", "UpdateTSO")
	initialize := P.IMethod(tso, "Allocator", "Initialize")
	isRet := func(ins ssa.Instruction) bool { _, ok := ins.(*ssa.Return); return ok }

	// updateAllocator: ¬ok(UpdateTSO) ⇒ ResetAllocatorGroup before returning
	upd := am("updateAllocator")
	settled := newSettledEv(upd, "UpdateTSO", callMatcher(updateTSO))
	reset := &calledEv{name: "ResetAllocatorGroup called", match: instrCallMatcher(resetGroup)}
	c.need(rule, upd, "return", isRet, []Ev{settled, reset}, anyOf,
		"if UpdateTSO returned an error the allocator group is reset before returning")
	if len(callsIn(upd, false, updateTSO)) == 0 {
		c.Undec(rule, "UpdateTSO call in "+fnName(upd), "found", "", "")
	}

	// campaign functions: once Initialize succeeded, every return has a deferred ResetAllocatorGroup registered
	for _, spec := range []struct {
		fn     *ssa.Function
		extra  []Callee
		extraN string
	}{
		{P.Method("server", "Server", "campaignLeader"), []Callee{F(P.Method("server/member", "Member", "ResetLeader"))}, "ResetLeader"},
		{am("campaignAllocatorLeader"), nil, ""},
	} {
		fn := spec.fn
		okInit := newOkEv(fn, "ok(Initialize)", callMatcher(initialize))
		okInit.sticky = true
		deferred := &calledEv{name: "defer ResetAllocatorGroup", match: func(ins ssa.Instruction) bool { return isDeferOf(ins, resetGroup) }}
		c.need(rule, fn, "return", isRet, []Ev{okInit, deferred}, func(h []bool) bool { return !h[0] || h[1] },
			"once the allocator was initialised, a deferred ResetAllocatorGroup is registered on every path to a return")
		if len(callsIn(fn, false, initialize)) == 0 {
			c.Undec(rule, "Initialize call in "+fnName(fn), "found", "", "")
		}
		if spec.extra != nil {
			// campaign success ⇒ deferred leadership reset
			camp := F(P.Method("server/member", "Member", "CampaignLeader"))
			okCamp := newOkEv(fn, "ok(CampaignLeader)", callMatcher(camp))
			okCamp.sticky = true
			d2 := &calledEv{name: "defer " + spec.extraN, match: func(ins ssa.Instruction) bool { return isDeferOf(ins, spec.extra...) }}
			c.need(rule, fn, "return (leadership)", isRet, []Ev{okCamp, d2}, func(h []bool) bool { return !h[0] || h[1] },
				"once the campaign succeeded, a deferred "+spec.extraN+" is registered on every path to a return")
		}
	}
}

// settledEv: no matching call is outstanding — every matching call executed so
// far was followed by the success edge of a test of its error. "If the call
// failed then X" is written  settled ∨ X : it also covers code that never
// tests the error at all (the call stays outstanding).
type settledEv struct {
	*okEv
	// sentinelOK: comparing the error with a sentinel (err == io.EOF, err == leveldb.ErrNotFound)
	// counts as having dealt with it
	sentinelOK bool
	// logOK: an error that was found non-nil and then reported through the logger is handled
	// (the repo's "log and carry on" idiom for best-effort steps)
	logOK bool
}

func newSettledEv(fn *ssa.Function, name string, isCall func(*ssa.Call) bool) *settledEv {
	return &settledEv{okEv: newOkEv(fn, name, isCall)}
}
func (s *settledEv) Name() string { return s.okEv.name + " not failed/untested" }
func (s *settledEv) Instr(st uint8, ins ssa.Instruction) uint8 {
	if s.logOK && st&bFAIL != 0 {
		if c, ok := ins.(*ssa.Call); ok {
			if f := c.Call.StaticCallee(); f != nil && f.Pkg != nil {
				switch f.Pkg.Pkg.Path() {
				case "github.com/pingcap/log", "go.uber.org/zap":
					return st &^ (bPEND | bFAIL)
				}
			}
		}
	}
	if c, ok := ins.(*ssa.Call); ok && s.isCall(c) {
		if st&bPEND != 0 && st&bFAIL == 0 {
			st |= bLOST // the previous call's error was never looked at (not even found non-nil, as in a retry) and is now out of reach
		}
		return (st | bPEND) &^ bFAIL
	}
	return st
}

// HoldsForwarded: the verdict at a `return err` that hands on the error of the
// latest matching call untested — that call is the caller's business, but no
// earlier one may have been overwritten unseen.
func (s *settledEv) HoldsForwarded(st uint8) bool { return st&bLOST == 0 }

// Carries: v may hold the error of a matching call.
func (s *settledEv) Carries(v ssa.Value) bool { return s.carriers[v] }
func (s *settledEv) Edge(st uint8, from *ssa.BasicBlock, succ int) uint8 {
	if st&bPEND == 0 {
		return st
	}
	if iff, ok := from.Instrs[len(from.Instrs)-1].(*ssa.If); ok {
		if s.sentinelOK {
			if cond, _ := ifCond(iff, true); cond != nil {
				if bo, isCmp := cond.(*ssa.BinOp); isCmp && (bo.Op == token.EQL || bo.Op == token.NEQ) {
					isSentinel := func(v ssa.Value) bool {
						u, ok := v.(*ssa.UnOp)
						if !ok || u.Op != token.MUL {
							return false
						}
						_, isG := u.X.(*ssa.Global)
						return isG
					}
					if (s.carriers[bo.X] && isSentinel(bo.Y)) || (s.carriers[bo.Y] && isSentinel(bo.X)) {
						return st &^ (bPEND | bFAIL)
					}
				}
			}
		}
		if tested, isNil, ok := nilTest(iff, succ == 0); ok && s.carriers[tested] && s.carriers[resolved(tested)] {
			// (a variable shared with other calls settles this one only if, on this path, it holds this call's error)
			if isNil {
				if s.sameCallFailed(st, tested) {
					return stInfeasible // this very error was already found non-nil on this path
				}
				return st &^ bPEND
			}
			st |= bFAIL
		}
	}
	return st
}
func (s *settledEv) Holds(st uint8) bool { return st&(bPEND|bLOST) == 0 }

// failEv: the error edge of a matching call was taken (the dual of okEv).
type failEv struct{ *okEv }

func (f *failEv) Name() string { return f.okEv.name }
func (f *failEv) Edge(st uint8, from *ssa.BasicBlock, succ int) uint8 {
	if st&bPEND != 0 {
		if iff, ok := from.Instrs[len(from.Instrs)-1].(*ssa.If); ok {
			cond, pos := ifCond(iff, succ == 0)
			if b, ok := cond.(*ssa.BinOp); ok && (b.Op == token.EQL || b.Op == token.NEQ) {
				var tested ssa.Value
				if isNilConst(b.Y) {
					tested = b.X
				} else if isNilConst(b.X) {
					tested = b.Y
				}
				if tested != nil && f.carriers[tested] {
					isNil := (b.Op == token.EQL) == pos
					if !isNil {
						st |= bEST
					}
				}
			}
		}
	}
	return st
}

// ruleLoadTimestampMax: the loader keeps the maximum over all stored windows.
func ruleLoadTimestampMax(c *Ctx) {
	P := c.P
	rule := c.Prop + "/load-max-window"
	load := P.Method("server/tso", "timestampOracle", "loadTimestamp")
	subReal := F(P.Func("pkg/typeutil", "SubRealTimeByWallClock"))
	c.saw(fnName(load))
	found, _ := guardControlsReturn(load, relMatcher(">", resultOfCall(subReal), isConstInt(0)), func(*ssa.Return) bool { return true })
	c.Check(found, rule, "SubRealTimeByWallClock(window, max) > 0 in "+fnName(load), "the running maximum is replaced only by a strictly later window", P.pos(load.Pos()), "comparison not found")
	// on the edge the comparison names: the running maximum (a φ round the loop over the stored windows) takes a parsed
	// window only where SubRealTimeByWallClock(that window, running maximum) > 0 was found
	parse := F(P.Func("pkg/typeutil", "ParseTimestamp"))
	nMax := 0
	for _, b := range load.Blocks {
		for _, ins := range b.Instrs {
			phi, ok := ins.(*ssa.Phi)
			if !ok {
				break
			}
			for i, e := range phi.Edges {
				if i >= len(b.Preds) || !derivesFrom(e, resultOfCall(parse), 2) {
					continue
				}
				if _, isPhi := e.(*ssa.Phi); isPhi {
					continue
				}
				nMax++
				win := e
				later := &guardEv{name: "SubRealTimeByWallClock(window, running maximum) > 0", match: func(cond ssa.Value, pos bool) bool {
					r, ok := relOf(cond, pos)
					if !ok {
						return false
					}
					cl, _ := callOf(r.X)
					k, isC := constInt(r.Y)
					if cl == nil || !isC || !subReal.Match(cl.Common()) || len(cl.Call.Args) != 2 {
						return false
					}
					fwd := sameVal(cl.Call.Args[0], win)
					rev := sameVal(cl.Call.Args[1], win)
					switch {
					case fwd:
						return (r.Op == token.GTR && k >= 0) || (r.Op == token.GEQ && k >= 1)
					case rev:
						return (r.Op == token.LSS && k <= 0) || (r.Op == token.LEQ && k <= -1)
					}
					return false
				}}
				last := b.Preds[i].Instrs[len(b.Preds[i].Instrs)-1]
				c.need(rule, load, fmt.Sprintf("running maximum replaced #%d", nMax), func(x ssa.Instruction) bool { return x == last }, []Ev{later}, all,
					"the largest stored window is kept: a window replaces the running maximum only if it is later")
			}
		}
	}
	if nMax == 0 {
		c.Undec(rule, "running maximum in "+fnName(load), "a local that takes the parsed windows", P.pos(load.Pos()), "")
	}
	// prefix scan: EtcdKVGet is called with WithPrefix
	get := F(P.Func("pkg/etcdutil", "EtcdKVGet"))
	okPrefix := false
	for _, ci := range callsIn(load, false, get) {
		args := ci.Common().Args
		if len(args) >= 3 {
			elems, _ := sliceElems(args[len(args)-1], map[ssa.Value]bool{})
			for _, e := range elems {
				if oc, ok := strip(e).(*ssa.Call); ok && isClientv3Func(&oc.Call, "WithPrefix") {
					okPrefix = true
				}
			}
		}
	}
	c.Check(okPrefix, rule, "EtcdKVGet in "+fnName(load), "scans all windows under the root path (WithPrefix)", P.pos(load.Pos()), "no prefix scan")
	// ... and the prefix is the allocators' common root (every dc-location's window lies under it), not this allocator's own key
	rootPath := P.Field("server/tso", "timestampOracle", "rootPath")
	okRoot := false
	for _, ci := range callsIn(load, false, get) {
		args := ci.Common().Args
		if len(args) >= 2 && isLoadOf(args[1], rootPath) {
			okRoot = true
		}
	}
	c.Check(okRoot, rule, "prefix of the scan in "+fnName(load), "the root path shared by the global and all local allocators", P.pos(load.Pos()), "")
}

// ruleWallClockHelpers: the window test "stored window − next physical" and the
// fall-back guard compare *wall-clock* readings: typeutil's two helpers subtract
// UnixNano() values. time.Time.Sub would use the monotonic readings of values
// taken with time.Now(), which do not follow a stepped wall clock — and the
// stored window is a wall-clock value.
func ruleWallClockHelpers(c *Ctx) {
	P := c.P
	rule := c.Prop + "/wall-clock-helpers"
	for _, name := range []string{"SubRealTimeByWallClock", "SubTSOPhysicalByWallClock"} {
		fn := P.Func("pkg/typeutil", name)
		c.saw(fnName(fn))
		usesSub, okShape := false, false
		for _, b := range fn.Blocks {
			for _, ins := range b.Instrs {
				if cl, ok := ins.(*ssa.Call); ok && (isStdMethod(cl, "time", "Time", "Sub") || isStdMethod(cl, "time", "Time", "Since")) {
					usesSub = true
				}
				if r, ok := ins.(*ssa.Return); ok && len(r.Results) == 1 {
					okShape = derivesFrom(retVal(r, 0), func(v ssa.Value) bool {
						bo, ok := v.(*ssa.BinOp)
						if !ok || bo.Op != token.SUB {
							return false
						}
						isUnix := func(x ssa.Value) bool {
							return derivesFrom(x, func(y ssa.Value) bool {
								cl, _ := callOf(y)
								return cl != nil && isStdMethod(cl, "time", "Time", "UnixNano")
							}, 3)
						}
						return isUnix(bo.X) && isUnix(bo.Y)
					}, 3)
				}
			}
		}
		c.Check(okShape && !usesSub, rule, name, "the difference of the two UnixNano() readings (wall clock), never time.Time.Sub (monotonic clock)", P.pos(fn.Pos()), "")
	}
}

// ruleResetGroupUnconditional: stepping down clears the in-memory timestamp of
// the dc-location whatever the lease says at that moment (the lease is closed
// first on the ordinary step-down path); a member that keeps its old timestamp
// answers from it between its next campaign and the following sync.
func ruleResetGroupUnconditional(c *Ctx) {
	P := c.P
	rule := c.Prop + "/reset-on-failure"
	fn := P.Method("server/tso", "AllocatorManager", "ResetAllocatorGroup")
	reset := P.IMethod("server/tso", "Allocator", "Reset")
	groups := P.Field("server/tso", "AllocatorManager", "mu", "allocatorGroups")
	absent := &guardEv{name: "no allocator group for the dc-location", match: func(cond ssa.Value, pos bool) bool {
		e, ok := strip(cond).(*ssa.Extract)
		if !ok || pos || e.Index != 1 {
			return false
		}
		lk, ok := e.Tuple.(*ssa.Lookup)
		return ok && isLoadOf(lk.X, groups)
	}}
	c.need(rule, fn, "return", func(x ssa.Instruction) bool { _, ok := x.(*ssa.Return); return ok },
		[]Ev{&calledEv{name: "allocator.Reset()", match: instrCallMatcher(reset)}, absent}, anyOf,
		"an existing allocator group is always reset (in-memory timestamp cleared), whatever its lease state")
}

func init() {
	register("C02", "Granted timestamps stay below the durably stored time window", func(c *Ctx) {
		c.Group("C02/sync-above-window", "a new leader starts at least the guard above the loaded window: tested with the operands in order, or just assigned last.Add(guard)", func() { ruleSyncAboveWindow(c) })
		c.Group("C02/save-critical-section", "the checks against the current time, the window save and the memory write of a reset are one critical section of the TSO mutex", func() { ruleTSOOneCriticalSection(c) })
		c.Group("C02/save-before-advance", "memory never advances past a window that was not stored first (every CFG path to an advance passes the success edge of saveTimestamp for the same value, or the window guard's 'still enough' edge)", func() { ruleSaveBeforeAdvance(c) })
		c.Group("C02/window-txn", "the window key has one writer, inside a leader-guarded transaction; the remembered window is updated only after the transaction is known applied", func() { ruleSaveTimestampShape(c) })
		c.Group("C02/reset-on-failure", "failure to extend the window resets the allocator; an initialised leader always resets on exit", func() { ruleResetOnFailure(c); ruleResetGroupUnconditional(c) })
		c.Group("C02/wall-clock-helpers", "the window arithmetic is done on wall-clock readings", func() { ruleWallClockHelpers(c) })
		c.Group("C02/load-max-window", "loading takes the maximum over all stored windows", func() { ruleLoadTimestampMax(c) })
	})
}

// ruleTSOOneCriticalSection: a function that writes the in-memory physical time under the TSO mutex does not let
// the mutex go between taking it and the write: the comparison with the current time and with the stored window
// that justified the write (and the save made for it) would otherwise be about a state another request has
// changed since — two overlapping resets each pass their checks, and the later save lowers the stored window
// below what the earlier one granted.
func ruleTSOOneCriticalSection(c *Ctx) {
	P := c.P
	const tso = "server/tso"
	rule := c.Prop + "/save-critical-section"
	lock := P.Field(tso, "tsoObject", "RWMutex")
	phys := P.Field(tso, "tsoObject", "physical")
	n := 0
	for _, fn := range P.Funcs {
		if P.isScaffold(fn) || fnPkgPath(fn) != modPath+"/"+tso {
			continue
		}
		for _, st := range storesToField(fn, phys) {
			takes := false
			for _, b := range fn.Blocks {
				for _, ins := range b.Instrs {
					if f, op, d := lockOp(ins); f == lock && op == "Lock" && !d {
						takes = true
					}
				}
			}
			if !takes {
				continue // the caller holds the mutex (checked by the lock rules)
			}
			n++
			target := ssa.Instruction(st)
			c.need(rule, fn, fmt.Sprintf("write of physical in %s", fnName(fn)), func(x ssa.Instruction) bool { return x == target },
				[]Ev{&staleReadEv{lock: lock, fields: []*types.Var{phys, P.Field(tso, "tsoObject", "logical")}}}, func(h []bool) bool { return !h[0] },
				"the current time read under the TSO mutex is still current when the physical time is written: the mutex is not released between that read and the write (checks, save and write are atomic with respect to other requests)")
		}
	}
	if n < 2 {
		c.Undec(rule, "functions that take the TSO mutex and write the physical time", "at least 2", "", fmt.Sprint(n))
	}
}

// staleReadEv holds once the mutex was released (explicitly, not by a deferred call) after one of the fields was
// read under it: what was read may have changed by the time the path goes on.
type staleReadEv struct {
	lock   *types.Var
	fields []*types.Var
}

func (e *staleReadEv) Name() string {
	return "the TSO mutex was released after the current time was read"
}
func (e *staleReadEv) Instr(st uint8, ins ssa.Instruction) uint8 {
	if u, ok := ins.(*ssa.UnOp); ok && u.Op == token.MUL {
		for _, f := range e.fields {
			if fieldOfAddr(u.X) == f {
				return st | bPEND
			}
		}
	}
	if f, op, d := lockOp(ins); f == e.lock && op == "Unlock" && !d {
		if st&bPEND != 0 {
			return (st | bEST) &^ bPEND
		}
	}
	return st
}
func (e *staleReadEv) Edge(st uint8, _ *ssa.BasicBlock, _ int) uint8 { return st }
func (e *staleReadEv) Holds(st uint8) bool                           { return st&bEST != 0 }

// ruleSyncAboveWindow: a new leader starts at max(now, last stored window +
// guard). In SyncTimestamp the value x that is saved (x+interval) and installed
// (setTSOPhysical(x)) is, on every path, either known to lie at least the guard
// above the loaded window (false edge of Sub(x, last) < guard, x first) or was
// just assigned last.Add(guard). Dropping the adjustment, adjusting from `now`
// instead of `last`, or swapping the operands of the test lets the first
// timestamps of a leader fall into the window its predecessor may have used.
func ruleSyncAboveWindow(c *Ctx) {
	P := c.P
	const tso = "server/tso"
	rule := c.Prop + "/sync-above-window"
	fn := P.Method(tso, "timestampOracle", "SyncTimestamp")
	setPhys := F(P.Method(tso, "timestampOracle", "setTSOPhysical"))
	save := F(P.Method(tso, "timestampOracle", "saveTimestamp"))
	load := F(P.Method(tso, "timestampOracle", "loadTimestamp"))
	subReal := F(P.Func("pkg/typeutil", "SubRealTimeByWallClock"))
	guardConst, ok := constIntObj(P.obj(tso, "UpdateTimestampGuard"))
	if !ok {
		undecidedf("UpdateTimestampGuard is not a constant")
	}
	fromLast := derived(resultOfCall(load), 4)
	for _, ci := range callsIn(fn, false, setPhys) {
		a := callArgs(ci.Common())
		if len(a) != 1 {
			continue
		}
		cell := cellOf(a[0])
		if cell == nil {
			c.Undec(rule, "start value in "+fnName(fn), "a local variable assigned now / last+guard", P.instrPos(ci), "the installed value is not a load of a local cell")
			continue
		}
		isLoadCell := func(v ssa.Value) bool { return cellOf(v) == cell }
		isStoreCell := func(x ssa.Instruction) bool {
			st, ok := x.(*ssa.Store)
			return ok && st.Addr == ssa.Value(cell)
		}
		above := &guardEv{name: "Sub(x, last) >= guard", invalidate: isStoreCell, match: func(cond ssa.Value, pos bool) bool {
			r, ok := relOf(cond, pos)
			if !ok || r.Op != token.GEQ && r.Op != token.GTR {
				return false
			}
			cl, _ := callOf(r.X)
			if cl == nil || !subReal.Match(cl.Common()) || len(cl.Call.Args) != 2 {
				return false
			}
			g, isC := constInt(r.Y)
			return isC && g >= guardConst && isLoadCell(cl.Call.Args[0]) && fromLast(cl.Call.Args[1])
		}}
		adjusted := &calledEv{name: "x = last.Add(guard)", reset: isStoreCell, match: func(x ssa.Instruction) bool {
			st, ok := x.(*ssa.Store)
			if !ok || st.Addr != ssa.Value(cell) {
				return false
			}
			add, _ := callOf(st.Val)
			if add == nil || !isStdMethod(add, "time", "Time", "Add") || len(add.Call.Args) != 2 {
				return false
			}
			g, isC := constInt(add.Call.Args[1])
			return isC && g >= guardConst && fromLast(add.Call.Args[0])
		}}
		c.need(rule, fn, "install/save of the start value", func(x ssa.Instruction) bool {
			cl, ok := x.(*ssa.Call)
			return ok && (setPhys.Match(cl.Common()) || save.Match(cl.Common()))
		}, []Ev{above, adjusted}, anyOf, "the start value is at least the guard above the loaded window: tested (x first, the window second), or just assigned last.Add(guard)")
	}
}
