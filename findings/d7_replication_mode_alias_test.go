package server

// Demonstration for the defect repaired by the fix: commit "hand out a copy of
// the replication mode config". Copy into /repo/server/ and run
//   go test -vet=off -count=1 -run TestD7 ./server/
// It fails on the tree before the fix and passes after it.
//
// The API handler confHandler.SetReplicationMode does
//     config := h.svr.GetReplicationModeConfig()
//     apiutil.ReadJSONRespondError(h.rd, w, r.Body, &config)   // json-decodes into *config
//     h.svr.SetReplicationModeConfig(*config)
// Before the fix GetReplicationModeConfig returned the pointer stored in
// PersistOptions, so decoding the request body edited the served configuration
// before validation; the rejected request (invalid mode) left it changed, and the
// setter's "old" snapshot was the already-edited object.

import (
	"encoding/json"
	"strings"
	"testing"

	"github.com/tikv/pd/server/config"
)

func TestD7RejectedReplicationModeLeavesServedConfigUnchanged(t *testing.T) {
	cfg := config.NewConfig()
	cfg.ReplicationMode.ReplicationMode = "majority"
	s := &Server{persistOptions: config.NewPersistOptions(cfg)}
	// what the handler does with the request body {"replication-mode":"bogus"}
	c := s.GetReplicationModeConfig()
	if err := json.NewDecoder(strings.NewReader(`{"replication-mode":"bogus"}`)).Decode(&c); err != nil {
		t.Fatal(err)
	}
	if err := s.SetReplicationModeConfig(*c); err == nil {
		t.Fatal("invalid replication mode accepted")
	}
	if got := s.persistOptions.GetReplicationModeConfig().ReplicationMode; got != "majority" {
		t.Fatalf("rejected change altered the served configuration: replication-mode = %q", got)
	}
}
