package core

// D9 (C15): fails on the tree before edda813, passes after it.
// Copy to server/core/ and run: go test -vet=off -count=1 -run TestD9 ./server/core/

import (
	"math"
	"testing"
	"time"

	"github.com/tikv/pd/server/kv"
)

func TestD9GCWorkerAlias(t *testing.T) {
	s := NewStorage(kv.NewMemoryKV())
	if _, err := s.LoadMinServiceGCSafePoint(time.Now()); err != nil { // creates gc_worker
		t.Fatal(err)
	}
	if err := s.SaveServiceGCSafePoint(&ServiceSafePoint{ServiceID: "gc_worker", SafePoint: 100, ExpiredAt: math.MaxInt64}); err != nil {
		t.Fatal(err)
	}
	if err := s.SaveServiceGCSafePoint(&ServiceSafePoint{ServiceID: "gc_worker/", SafePoint: 100, ExpiredAt: time.Now().Unix() + 10}); err == nil {
		v, _ := s.Load("gc/safe_point/service/gc_worker")
		t.Errorf("gc_worker's key overwritten with a finite lifetime: %s", v)
	}
	if err := s.RemoveServiceGCSafePoint("x/../gc_worker"); err == nil {
		if v, _ := s.Load("gc/safe_point/service/gc_worker"); v == "" {
			t.Errorf("gc_worker's entry was removed through the id x/../gc_worker")
		}
	}
}
