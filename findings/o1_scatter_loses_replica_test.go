package schedule

// Demonstration of known finding C11/O1 (unchanged tree): RegionScatterer can
// produce an operator that lowers the replica count. Copy into
// /repo/server/schedule/ and run
//   go test -vet=off -count=1 -run TestO1ScatterKeepsReplicaCount ./server/schedule/
// It FAILS on the unchanged tree (most runs: Go map iteration order decides).
//
// Scenario (found independently by a seeding sub-agent, reproduced here): 4 up
// stores; group "g" already has one scattered peer on stores 1, 3 and 4; a
// region on {1,2,3} is scattered. A peer processed early (store 1 or 3) may be
// moved onto store 2 — the store of a peer not yet processed; when that later
// peer (on store 2) then has no better candidate it "stays", and because the
// target map is keyed by store id it overwrites the earlier choice: the operator
// only removes a peer.

import (
	"context"
	"testing"

	"github.com/tikv/pd/pkg/mock/mockcluster"
	"github.com/tikv/pd/server/config"
	"github.com/tikv/pd/server/schedule/operator"
)

func TestO1ScatterKeepsReplicaCount(t *testing.T) {
	bad := 0
	for run := 0; run < 60; run++ {
		ctx, cancel := context.WithCancel(context.Background())
		opt := config.NewTestOptions()
		tc := mockcluster.NewCluster(ctx, opt)
		for i := uint64(1); i <= 4; i++ {
			tc.AddRegionStore(i, 0)
		}
		tc.AddLeaderRegion(1, 1, 2, 3)
		scatterer := NewRegionScatterer(ctx, tc)
		for _, s := range []uint64{1, 3, 4} {
			scatterer.ordinaryEngine.selectedPeer.Put(s, "g")
		}
		region := tc.GetRegion(1)
		op, err := scatterer.Scatter(region, "g")
		cancel()
		if err != nil || op == nil {
			continue
		}
		adds, removes := 0, 0
		for i := 0; i < op.Len(); i++ {
			switch op.Step(i).(type) {
			case operator.AddPeer, operator.AddLearner, operator.AddLightPeer, operator.AddLightLearner:
				adds++
			case operator.RemovePeer:
				removes++
			}
		}
		if removes > adds {
			bad++
			if bad == 1 {
				t.Logf("run %d: operator lowers the replica count: %s", run, op)
			}
		}
	}
	if bad > 0 {
		t.Fatalf("%d of 60 scatter operators remove more peers than they add", bad)
	}
}
