#!/usr/bin/env python3
"""keep_seed.py <Cnn> <variant> : copy a validated sub-agent seed from /tmp/seedout into /verif/seeded/<Cnn><variant>/ with meta.json"""
import json, os, shutil, sys, re
prop, v = sys.argv[1], sys.argv[2]
src = os.environ.get('SEEDROOT', '/tmp/seedout') + f'/{prop}/{v}'
dst = f'/verif/seeded/{prop}{v}'
val = None
lg = f'/tmp/seedval/{prop}_{v}.log'
for l in open(lg):
    if l.startswith('RESULT '):
        val = json.loads(l[7:])
assert val and val['valid'], f'not validated: {val}'
os.makedirs(dst, exist_ok=True)
for f in os.listdir(src):
    if f.endswith('.log'):
        continue
    if os.path.isdir(os.path.join(src, f)):
        shutil.copytree(os.path.join(src, f), os.path.join(dst, f), dirs_exist_ok=True)
        continue
    shutil.copy(os.path.join(src, f), os.path.join(dst, f))
notes = open(os.path.join(src, 'notes.md')).read() if os.path.exists(os.path.join(src, 'notes.md')) else ''
demo = open(os.path.join(src, 'demo.txt')).read()
meta = {
  'property': prop,
  'variant': v,
  'origin': 'independent sub-agent given only the property text and a scratch worktree',
  'needs_to_manifest': (re.search(r'(?is)(scenario|trigger|manifest)[^\n]*\n(.{0,900})', notes) or [None, None, notes[:900]])[2].strip(),
  'demonstration': demo.strip(),
  'validated_by_me': {
     'how': 'tools/validate_seed.py in a fresh scratch worktree of /repo HEAD: demo passes without patch, fails with patch; build of ./server/... ./pkg/... ./client/... clean; existing tests of touched packages pass with the patch',
     'result': val,
  },
}
json.dump(meta, open(os.path.join(dst, 'meta.json'), 'w'), indent=1)
print('kept', dst)
