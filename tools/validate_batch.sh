#!/bin/sh
# validate_batch.sh C09/a C09/b ... : sequentially validate seeds (one at a time: the server tests are flaky under contention)
exec 9>/tmp/seedval/.lock
flock 9
for s in "$@"; do /verif/tools/validate_seed.py ${SEEDROOT:-/tmp/seedout}/$s /tmp/seedval/$(echo $s | tr / _).log; done
