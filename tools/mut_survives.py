#!/usr/bin/env python3
"""mut_survives.py <go test packages...> < mutant.json : apply the edit to the scratch worktree /tmp/mywt, build and run the named packages' tests, undo. Tells whether the existing tests notice the edit."""
import json, sys, os, subprocess
ms = json.load(sys.stdin)
if isinstance(ms, dict): ms = [ms]
wt = '/tmp/mywt'
env = dict(os.environ, GOFLAGS='-mod=mod', GOPROXY='off', GOSUMDB='off', GOTOOLCHAIN='local')
env.pop('GOWORK', None)
try:
    for m in ms:
        p = os.path.join(wt, m['file']); s = open(p).read()
        assert s.count(m['find']) == 1, 'find count %d' % s.count(m['find'])
        open(p, 'w').write(s.replace(m['find'], m['replace']))
    r = subprocess.run(['go', 'test', '-vet=off', '-count=1'] + sys.argv[1:], cwd=wt, env=env, capture_output=True, text=True, timeout=900)
    out = r.stdout + r.stderr
    print('\n'.join(l for l in out.splitlines() if l.startswith(('ok', 'FAIL', '---', 'OOPS', 'PASS', '#')) or 'FAIL:' in l)[:1500])
    print('SURVIVES' if r.returncode == 0 else 'KILLED by existing tests')
finally:
    subprocess.run(['git', '-C', wt, 'checkout', '--', '.'])
