#!/usr/bin/env python3
"""probe.py <props> <go test packages...> < mutants.json
For each {"name","file","find","replace"} of the list: analyse it in memory against the clean scratch worktree;
if the checks stay quiet, apply it to the worktree and run the given packages' tests, to tell a real gap
(MISSED, survives the existing tests) from an edit the existing tests already catch."""
import json, sys, os, subprocess, tempfile
props, pkgs = sys.argv[1], sys.argv[2:]
ms = json.load(sys.stdin)
wt = '/tmp/mywt'
env = dict(os.environ, GOFLAGS='-mod=mod', GOPROXY='off', GOSUMDB='off', GOTOOLCHAIN='local'); env.pop('GOWORK', None)
for m in ms:
    p = os.path.join(wt, m['file']); s = open(p).read()
    if s.count(m['find']) != 1:
        print('%-55s STALE (find occurs %d times)' % (m['name'], s.count(m['find']))); continue
    t = tempfile.mktemp(suffix='.go'); open(t, 'w').write(s.replace(m['find'], m['replace']))
    r = subprocess.run([os.environ.get('PDSA', '/verif/bin/pdsa'), 'check', '-prop', props, '-repo', wt, '-verif', '/tmp/sweep-verif', '-overlay', p + '=' + t], capture_output=True, text=True)
    os.unlink(t)
    out = r.stdout + r.stderr
    hits = sorted({l.split('[')[1].split('|')[0] for l in out.splitlines() if l.startswith('MUTANT-VIOLATION') and '[' in l})
    if r.returncode == 1 and hits:
        print('%-55s DETECTED %s' % (m['name'], ' '.join(hits)[:120])); continue
    if r.returncode == 2:
        und = [l for l in out.splitlines() if 'UNDECIDED' in l or 'error' in l.lower()][:2]
        print('%-55s UNDECIDED/does not load: %s' % (m['name'], ' | '.join(und)[:200])); continue
    if not pkgs:
        print('%-55s MISSED (tests not run)' % m['name']); continue
    try:
        open(p, 'w').write(s.replace(m['find'], m['replace']))
        tr = subprocess.run(['go', 'test', '-vet=off', '-count=1'] + pkgs, cwd=wt, env=env, capture_output=True, text=True, timeout=1200)
        print('%-55s %s' % (m['name'], 'MISSED — survives the existing tests' if tr.returncode == 0 else 'missed, but killed by the existing tests'))
    finally:
        open(p, 'w').write(s)
