#!/usr/bin/env python3
"""try_mut.py <props> < mutant.json : analyse a find/replace edit in memory against a clean scratch worktree (/tmp/mywt), print non-OK lines.
The JSON is {"file":..., "find":..., "replace":...} or a list of such (several files/edits)."""
import json, sys, os, subprocess, tempfile
props = sys.argv[1]
ms = json.load(sys.stdin)
if isinstance(ms, dict):
    ms = [ms]
wt = os.environ.get('WT', '/tmp/mywt')
files = {}
for m in ms:
    p = os.path.join(wt, m['file'])
    s = files.get(p) or open(p).read()
    if s.count(m['find']) != 1:
        print('find text occurs', s.count(m['find']), 'times in', m['file']); sys.exit(3)
    files[p] = s.replace(m['find'], m['replace'])
pairs = []
tmp = tempfile.mkdtemp(prefix='trymut-')
for i, (p, s) in enumerate(files.items()):
    t = os.path.join(tmp, 'f%d.go' % i)
    open(t, 'w').write(s)
    pairs.append(p + '=' + t)
r = subprocess.run([os.environ.get('PDSA', '/verif/bin/pdsa'), 'check', '-prop', props, '-repo', wt, '-verif', '/tmp/sweep-verif', '-overlay', ','.join(pairs)], capture_output=True, text=True)
for l in (r.stdout + r.stderr).splitlines():
    if l.startswith(('VIOLATION ', 'UNDECIDED ', 'MUTANT', 'inline', 'load', 'type')) or 'error' in l.lower():
        print(l[:300])
print('exit', r.returncode)
subprocess.run(['rm', '-rf', tmp])
