#!/usr/bin/env python3
"""mutsurvive.py <quiet.json> [--no-server] : for each quiet mutant of tools/mutgen.py, apply it to the scratch
worktree $SWT (default /tmp/mgwt, created from /repo HEAD if missing), compile, and run the existing tests the
way tools/validate_seed.py does (the touched package if it is in the pinned baseline, then ./server for files
under server/). Prints SURVIVES / killed / does-not-build per mutant; the survivors are the audit's gap list."""
import json, os, subprocess, sys
ms = json.load(open(sys.argv[1]))
no_server = '--no-server' in sys.argv
wt = os.environ.get('SWT', '/tmp/mgwt')
env = dict(os.environ, GOFLAGS='-mod=mod', GOPROXY='off', GOSUMDB='off', GOTOOLCHAIN='local'); env.pop('GOWORK', None)
if not os.path.isdir(wt):
    subprocess.run(['git', '-C', '/repo', 'worktree', 'add', '-q', '--detach', wt, 'HEAD'], check=True)
stable = {t.split('::')[0].replace('github.com/tikv/pd', '.') + '/' for t in json.load(open('/root/.vp/BASELINE.json'))['stable_pass']}
def run(cmd, timeout=1500):
    try:
        r = subprocess.run(cmd, shell=True, cwd=wt, env=env, capture_output=True, text=True, timeout=timeout)
        return r.returncode, r.stdout + r.stderr
    except subprocess.TimeoutExpired:
        return 124, 'timeout'
for m in ms:
    p = os.path.join(wt, m['file']); s = open(p).read()
    if s.count(m['find']) != 1:
        print('%-60s STALE' % m['name'], flush=True); continue
    try:
        open(p, 'w').write(s.replace(m['find'], m['replace']))
        pkg = './' + os.path.dirname(m['file']) + '/'
        rc, o = run("go build %s && go test -vet=off -count=1 -run '^$' %s" % (pkg, pkg))
        if rc != 0:
            print('%-60s does not build' % m['name'], flush=True); continue
        verdict = 'SURVIVES'
        tests = [pkg] if pkg in stable else []
        if not no_server and m['file'].startswith('server/') and pkg != './server/':
            tests.append('./server/')
        for t in tests:
            ok = False
            for attempt in range(2 if t == './server/' else 1):
                rc, o = run('go test -vet=off -count=1 -timeout %s %s' % ('20m' if t == './server/' else '4m', t))
                if rc == 0:
                    ok = True; break
            if not ok:
                verdict = 'killed by ' + t; break
        print('%-60s %s%s' % (m['name'], verdict, '' if tests else ' (no baseline test touches it)'), flush=True)
    finally:
        open(p, 'w').write(s)
