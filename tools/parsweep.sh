#!/bin/sh
# parsweep.sh <worktree> <tag> <patch>... : each patch applied to the scratch worktree (git -C /repo worktree add --detach <worktree> HEAD), all properties (quick) with ${PDSA:-/verif/bin/pdsa};
# several of these can run side by side on different worktrees (not part of the registered checks: a development aid)
export GOFLAGS=-mod=mod GOPROXY=off GOSUMDB=off GOTOOLCHAIN=local; unset GOWORK
wt=$1; tag=$2; shift 2
vd=/tmp/par-verif-$tag; rm -rf $vd; mkdir -p $vd/evidence; cp /verif/known_findings.json /verif/properties.jsonl $vd/; cp -r /verif/baseline $vd/baseline
for f in "$@"; do
  git -C $wt status --porcelain | grep -q . && { echo "$f: $wt not clean"; git -C $wt checkout -- .; git -C $wt clean -fdq; }
  git -C $wt apply "$f" || { echo "$f PATCH DOES NOT APPLY"; continue; }
  out=$(${PDSA:-/verif/bin/pdsa} check -prop all -repo $wt -verif $vd 2>&1 | grep "^VIOLATION \|^UNDECIDED \|panic\|error:" | grep -v "^VIOLATION property\|^UNDECIDED property" | cut -c1-260)
  if [ -n "$out" ]; then echo "$f ALARM"; echo "$out" | head -6; else echo "$f quiet"; fi
  git -C $wt checkout -- . ; git -C $wt clean -fdq
done
echo SWEEP-DONE
