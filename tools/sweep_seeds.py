#!/usr/bin/env python3
"""Apply every kept seed to /repo in turn, run the quick check of its own property (and optionally all), record which rules fire, undo."""
import json, os, subprocess, sys
all_props = '--all' in sys.argv
only = [a for a in sys.argv[1:] if not a.startswith('--')]
seeds = sorted(d for d in os.listdir('/verif/seeded') if os.path.isdir('/verif/seeded/'+d) and d[0] == 'C' and d[1:3].isdigit())  # seeded/not_covered holds the seeds recorded as out of reach
assert subprocess.run('git -C /repo status --porcelain', shell=True, capture_output=True, text=True).stdout.strip() == '', '/repo not clean'
import shutil; os.makedirs('/tmp/sweep-verif', exist_ok=True); shutil.copy('/verif/known_findings.json', '/tmp/sweep-verif/known_findings.json')
summary = {}
for s in seeds:
    if only and s not in only: continue
    d = f'/verif/seeded/{s}'
    meta = json.load(open(f'{d}/meta.json'))
    prop = meta['property']
    if subprocess.run(f'git -C /repo apply {d}/patch.diff', shell=True).returncode != 0:
        summary[s] = 'PATCH DOES NOT APPLY'; continue
    try:
        props = 'all' if all_props else prop
        p = subprocess.run(f'/verif/bin/pdsa check -prop {props} -verif /tmp/sweep-verif', shell=True, capture_output=True, text=True)
        fired = sorted({l.split('[')[1].split(']')[0] for l in p.stdout.splitlines() if l.startswith('VIOLATION ') and '[' in l})
        own = [l for l in p.stdout.splitlines() if l.startswith('VIOLATION property=')]
        meta['detected_by'] = fired
        meta['detected'] = bool([f for f in fired if f.startswith(prop + '/')]) if not all_props else bool(fired)
        summary[s] = fired or 'MISSED'
    finally:
        subprocess.run('git -C /repo checkout -- .', shell=True)
    json.dump(meta, open(f'{d}/meta.json', 'w'), indent=1)
for k, v in summary.items(): print(k, v)
