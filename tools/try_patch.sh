#!/bin/sh
# usage: try_patch.sh <patch.diff> [props]   — apply to /repo, run the quick checks, undo; prints non-OK lines
p=$1; props=${2:-all}
git -C /repo status --porcelain | grep -q . && { echo "/repo not clean"; exit 3; }
git -C /repo apply "$p" || exit 3
/verif/bin/pdsa check -prop $props -verif /tmp/sweep-verif 2>&1 | grep "^VIOLATION \|^UNDECIDED \|^inline" | cut -c1-260
git -C /repo checkout -- . ; git -C /repo clean -fdq
