#!/usr/bin/env python3
"""mutgen.py <prop> [--state] : mechanical mutants inside the anchored line ranges of a property
(anchors.mechanism[].where, with --state also anchors.state[].where) of properties.jsonl, analysed in memory
against the clean scratch worktree $WT (default /tmp/mywt) with $PDSA (default /tmp/pdsa_new).

What a mutation-testing tool would do there: flip a relational or logical operator, delete a statement, swap a
boolean return, drop a "+ 1". The output lists, per mutant, whether the property's check reports it (FIRED),
whether it does not compile (STALE) or whether the check stays quiet (QUIET). Quiet mutants are candidates only:
many are equivalent, touch logging or are killed by the existing tests — tools/mutsurvive.py sorts those out.
Nothing here is part of the registered checks; it is an audit tool for finding rules that are missing."""
import json, os, re, subprocess, sys, shutil

prop = sys.argv[1]
with_state = '--state' in sys.argv
wt = os.environ.get('WT', '/tmp/mywt')
pdsa = os.environ.get('PDSA', '/tmp/pdsa_new')
P = None
for l in open('/verif/properties.jsonl'):
    p = json.loads(l)
    if p['id'] == prop:
        P = p
assert P, 'unknown property'

def ranges(where):
    """'a/b.go:10-20, 30-40, c/d.go:5-9' -> [(file, lo, hi)]; a bare file name is skipped (too wide)"""
    out, cur = [], None
    for part in [x.strip() for x in where.split(',')]:
        m = re.match(r'^([\w/\.\-]+\.go)(?::(\d+)(?:-(\d+))?)?$', part)
        if m:
            cur = m.group(1)
            if m.group(2):
                out.append((cur, int(m.group(2)), int(m.group(3) or m.group(2))))
            continue
        m = re.match(r'^(\d+)(?:-(\d+))?$', part)
        if m and cur:
            out.append((cur, int(m.group(1)), int(m.group(2) or m.group(1))))
    return out

rs = []
for a in P['anchors'].get('mechanism', []) + (P['anchors'].get('state', []) if with_state else []):
    rs += ranges(a.get('where', ''))
rs = sorted(set(rs))

SKIP = re.compile(r'^\s*(//|log\.|defer |zap\.|}|{|\)|$)|Counter|Gauge|WithLabelValues|\.Observe\(|failpoint\.')
FLIPS = [(' < ', ' <= '), (' <= ', ' < '), (' > ', ' >= '), (' >= ', ' > '), (' == ', ' != '), (' != ', ' == '), (' && ', ' || '), (' || ', ' && ')]
muts = []
for f, lo, hi in rs:
    path = os.path.join(wt, f)
    if not os.path.exists(path):
        continue
    lines = open(path).read().split('\n')
    src = '\n'.join(lines)
    def uniq(i, newline):
        """a find/replace pair for line i (0-based) made unique with preceding lines as context"""
        for k in range(0, 12):
            if i - k < 0:
                break
            find = '\n'.join(lines[i - k:i + 1]) + '\n'
            if src.count(find) == 1:
                pre = '\n'.join(lines[i - k:i])
                rep = (pre + '\n' if k else '') + (newline + '\n' if newline is not None else '')
                return find, rep
        return None
    for i in range(lo - 1, min(hi, len(lines))):
        ln = lines[i]
        if SKIP.search(ln) or 'log.' in ln:
            continue
        cands = []
        for a, b in FLIPS:
            if a in ln and '"' not in ln.split(a)[0][-1:]:
                cands.append(('%s->%s' % (a.strip(), b.strip()), ln.replace(a, b, 1)))
        st = ln.strip()
        # negation dropped (or added to a call used as a condition)
        for m in re.finditer(r'(if |&& |\|\| |return |\()!([A-Za-z_(])', ln):
            cands.append(('drop-not', ln[:m.start(2) - 1] + ln[m.start(2):]))
            break
        if st == 'return true':
            cands.append(('ret-false', ln.replace('true', 'false')))
        if st == 'return false':
            cands.append(('ret-true', ln.replace('false', 'true')))
        if ' + 1' in ln:
            cands.append(('drop+1', ln.replace(' + 1', '', 1)))
        if ' - 1' in ln:
            cands.append(('drop-1', ln.replace(' - 1', '', 1)))
        # statement deletion: a call statement, a plain assignment, an increment
        if re.match(r'^[A-Za-z_][\w\.\[\]]*(\(.*\))?(\.[A-Za-z_]\w*\(.*\))*$', st) and st.endswith(')') and st.count('(') == st.count(')') and not st.startswith(('return', 'go ', 'if ', 'for ', 'switch ', 'case ')):
            cands.append(('del-call', None))
        elif re.match(r'^[A-Za-z_][\w\.\[\]\(\)]* [+\-|&]?= .+[^{,(]$', st) and ':=' not in st and st.count('(') == st.count(')'):
            cands.append(('del-assign', None))
        elif re.match(r'^[A-Za-z_][\w\.\[\]]*(\+\+|--)$', st):
            cands.append(('del-incr', None))
        elif st == 'continue':
            cands.append(('del-continue', None))
        only = os.environ.get('MUTOPS')
        for kind, newline in cands:
            if only and kind not in only.split(','):
                continue
            u = uniq(i, newline)
            if u:
                muts.append({'name': '%s:%d %s' % (f, i + 1, kind), 'file': f, 'find': u[0], 'replace': u[1], 'expect': prop + '/'})

vd = '/tmp/mutgen-verif-' + os.environ.get('MUTTAG', '') + prop
shutil.rmtree(vd, ignore_errors=True)
os.makedirs(vd + '/mutants'); os.makedirs(vd + '/evidence')
for x in ('known_findings.json', 'properties.jsonl'):
    shutil.copy('/verif/' + x, vd + '/' + x)
shutil.copytree('/verif/baseline', vd + '/baseline')
json.dump(muts, open(vd + '/mutants/%s.json' % prop, 'w'), indent=1)
print('%s: %d ranges, %d mutants' % (prop, len(rs), len(muts)), flush=True)
r = subprocess.run([pdsa, 'check', '-prop', prop, '-tier', 'thorough', '-repo', wt, '-verif', vd], capture_output=True, text=True)
ev = json.load(open(vd + '/evidence/%s.json' % prop))
def find_mutants(o):
    if isinstance(o, dict):
        if 'mutants' in o and isinstance(o['mutants'], list):
            return o['mutants']
        for v in o.values():
            x = find_mutants(v)
            if x is not None:
                return x
    return None
res = find_mutants(ev) or []
quiet = []
nf = ns = 0
for m, r_ in zip(muts, res):
    if r_.get('stale'):
        ns += 1
    elif r_.get('fired'):
        nf += 1
    else:
        quiet.append(m)
print('%s: fired %d, do not compile %d, quiet %d' % (prop, nf, ns, len(quiet)))
json.dump(quiet, open('/tmp/mutgen-quiet%s-%s.json' % (os.environ.get('MUTTAG', ''), prop), 'w'), indent=1)
for m in quiet:
    print('  QUIET', m['name'])
shutil.rmtree(vd, ignore_errors=True)
