#!/usr/bin/env python3
"""Apply each behaviour-preserving refactoring patch under /verif/refactorings/<id>/r*.diff to /repo,
run ALL checks (quick), report any alarm (exit != 0 / VIOLATION / UNDECIDED), undo."""
import glob, os, subprocess, sys, shutil, re
args = sys.argv[1:]
root, pat = '/verif/refactorings', 'r*.diff'
if args and args[0] == '--features':
    root, pat = '/verif/features', 'f*.diff'; args = args[1:]
only = [a for a in args if not a.startswith('--pat=')]
for a in args:
    if a.startswith('--pat='): pat = a[6:]  # PATTERN override, e.g. --pat='r[6-9].diff'
assert subprocess.run('git -C /repo status --porcelain', shell=True, capture_output=True, text=True).stdout.strip() == '', '/repo not clean'
os.makedirs('/tmp/sweep-verif', exist_ok=True); shutil.copy('/verif/known_findings.json', '/tmp/sweep-verif/known_findings.json')
shutil.rmtree('/tmp/sweep-verif/baseline', ignore_errors=True); shutil.copytree('/verif/baseline', '/tmp/sweep-verif/baseline')
shutil.rmtree('/tmp/sweep-verif/mutants', ignore_errors=True)
bad = 0
for d in sorted(glob.glob(root + "/C*")):
    pid = os.path.basename(d)
    if only and pid not in only: continue
    for p in sorted(glob.glob(d + '/' + pat)):
        if subprocess.run(f'git -C /repo apply {p}', shell=True, capture_output=True).returncode != 0:
            print(pid, os.path.basename(p), 'PATCH DOES NOT APPLY'); continue
        try:
            r = subprocess.run('/verif/bin/pdsa check -prop all -verif /tmp/sweep-verif', shell=True, capture_output=True, text=True)
            alarms = [l[:260] for l in r.stdout.splitlines() if l.startswith(('VIOLATION ', 'UNDECIDED ')) and not l.startswith('VIOLATION property=')]
            ren = []
            print(pid, os.path.basename(p), 'exit', r.returncode, 'ALARMS' if alarms else 'quiet')
            for a in alarms: print('    ', a)
            if alarms or r.returncode != 0: bad += 1
        finally:
            subprocess.run('git -C /repo checkout -- . && git -C /repo clean -fdq server pkg client', shell=True)
print('refactorings that raised an alarm:', bad)
