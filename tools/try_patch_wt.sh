#!/bin/sh
# usage: try_patch_wt.sh <patch.diff> [props]  — like try_patch.sh, but against the scratch worktree /tmp/mywt and the binary $PDSA
# (default /tmp/pdsa_new): usable while a sweep occupies /repo and /verif/bin/pdsa.
p=$1; props=${2:-all}; bin=${PDSA:-/tmp/pdsa_new}
git -C /tmp/mywt status --porcelain | grep -q . && { echo "/tmp/mywt not clean"; exit 3; }
git -C /tmp/mywt apply "$p" || exit 3
$bin check -prop $props -repo /tmp/mywt -verif /tmp/sweep-verif 2>&1 | grep "^VIOLATION \|^UNDECIDED \|^inline" | cut -c1-260
git -C /tmp/mywt checkout -- . ; git -C /tmp/mywt clean -fdq
