#!/bin/sh
# usage: try_patch_wt.sh <patch.diff> [props]  — like try_patch.sh, but against the scratch worktree $wt and the binary $PDSA
# (default /tmp/pdsa_new): usable while a sweep occupies /repo and /verif/bin/pdsa.
p=$1; props=${2:-all}; bin=${PDSA:-/tmp/pdsa_new}; wt=${WT:-/tmp/mywt}
git -C $wt status --porcelain | grep -q . && { echo "$wt not clean"; exit 3; }
git -C $wt apply "$p" || exit 3
$bin check -prop $props -repo $wt -verif /tmp/sweep-verif 2>&1 | grep "^VIOLATION \|^UNDECIDED \|^inline" | cut -c1-260
git -C $wt checkout -- . ; git -C $wt clean -fdq
