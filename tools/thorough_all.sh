#!/bin/sh
# runs the thorough tier of every implemented property and prints mutant sensitivity per property
for p in $(/verif/bin/pdsa list | cut -d' ' -f1); do
  /verif/bin/pdsa check -prop $p -tier thorough > /tmp/thorough_$p.log 2>&1; rc=$?
  python3 - "$p" "$rc" <<'PY'
import json,sys
p,rc=sys.argv[1],sys.argv[2]
try:
    e=json.load(open('/verif/evidence/%s.json'%p)); c=e['coverage']
    bad=[m['name'] for m in c.get('mutants',[]) if not m['fired']]
    print(p,'exit',rc,'obligations',c['obligations'],'mutants',c.get('mutants_fired'),'/',c.get('mutants_total'),'stale',c.get('mutants_stale'),'NOT-FIRED' if bad else '',bad or '')
except Exception as ex:
    print(p,'exit',rc,'no evidence',ex)
PY
done
