#!/usr/bin/env python3
"""Validate one sub-agent seeded change in a scratch worktree of /repo.
usage: validate_seed.py <seeddir> <outlog>
seeddir holds patch.diff, demo.txt and the demonstration file(s).
Checks: demo passes without the patch, fails with it; with the patch the tree
builds and the existing tests of the touched packages pass."""
import os, re, subprocess, sys, shutil, tempfile, json
seed, out = sys.argv[1], sys.argv[2]
env = dict(os.environ, GOFLAGS='-mod=mod', GOPROXY='off', GOSUMDB='off', GOTOOLCHAIN='local')
env.pop('GOWORK', None)
log = open(out, 'w')
def sh(cmd, cwd, timeout=1500):
    log.write(f'$ {cmd}\n'); log.flush()
    p = subprocess.run(cmd, shell=True, cwd=cwd, env=env, stdout=subprocess.PIPE, stderr=subprocess.STDOUT, text=True, timeout=timeout)
    log.write(p.stdout[-6000:] + f'\n[exit {p.returncode}]\n'); log.flush()
    return p.returncode, p.stdout
wt = tempfile.mkdtemp(prefix='seedval-', dir='/tmp')
os.rmdir(wt)
res = {'seed': seed}
try:
    rc, _ = sh(f'git -C /repo worktree add -q --detach {wt} HEAD', '/')
    assert rc == 0
    demo_txt = open(os.path.join(seed, 'demo.txt')).read()
    demos = []
    for root, _, fs in os.walk(seed):
        for f in fs:
            if f.endswith('.go'):
                demos.append(os.path.relpath(os.path.join(root, f), seed))
    placed = []
    def pkgdir(pkgname):
        # unique directory of the tree declaring that package name
        cands = set()
        for top in ('server', 'pkg', 'client'):
            for root, _, fs in os.walk(os.path.join(wt, top)):
                for f in fs:
                    if f.endswith('.go') and not f.endswith('_test.go'):
                        try:
                            head = open(os.path.join(root, f)).read(4000)
                        except Exception:
                            continue
                        if re.search(r'^package %s$' % re.escape(pkgname), head, re.M):
                            cands.add(os.path.relpath(root, wt)); break
        return cands.pop() if len(cands) == 1 else None
    for rel in demos:
        f = os.path.basename(rel)
        d, target = None, f
        if os.path.dirname(rel):            # delivered under its tree-relative path
            d = os.path.dirname(rel)
        if d is None:
            m = re.search(re.escape(f) + r'\s*-+>\s*(?:<pd(?: tree)?>/)?((?:server|pkg|client)[\w/\-\.]*?)/([\w\-\.]+_test\.go)', demo_txt)
            if m:
                d, target = m.group(1), m.group(2)
        if d is None:
            m = re.search(r'((?:server|pkg|client|tests|tools)[\w/\-\.]*?)/' + re.escape(f), demo_txt)
            if m:
                d = m.group(1)
        if d is None:
            pk = re.search(r'^package (\w+)', open(os.path.join(seed, rel)).read(), re.M).group(1)
            d = pkgdir(pk[:-5] if pk.endswith('_test') else pk)
            if d is None:
                raise SystemExit(f'cannot place {f} (package {pk})')
        os.makedirs(os.path.join(wt, d), exist_ok=True)
        shutil.copy(os.path.join(seed, rel), os.path.join(wt, d, target)); placed.append(os.path.join(d, target))
    cmds = []
    for l in demo_txt.splitlines():
        t = l.strip().lstrip('#').strip().strip('`')
        t = re.sub(r'^(or:|run)\s*', '', t)
        if t.startswith('go test') or t.startswith('go run'):
            cmds.append(t)
    assert cmds, 'no go test command in demo.txt'
    cmd = ' && '.join(cmds[:1])
    rc_clean, _ = sh(cmd, wt)
    res['demo_without_patch'] = 'pass' if rc_clean == 0 else 'FAIL'
    rc, _ = sh(f'git apply {seed}/patch.diff', wt); assert rc == 0, 'patch does not apply'
    rc_mut, _ = sh(cmd, wt)
    res['demo_with_patch'] = 'fail' if rc_mut != 0 else 'PASS'
    for p in placed: os.remove(os.path.join(wt, p))
    rc, o = sh('go build ./server/... ./pkg/... ./client/... 2>&1 | grep -v uiserver | grep -v "^#" ; true', wt)
    res['build'] = 'ok' if not o.strip() else 'ERR: ' + o.strip()[:200]
    files = re.findall(r'^\+\+\+ b/(\S+)', open(os.path.join(seed, 'patch.diff')).read(), re.M)
    pkgs = sorted({'./' + os.path.dirname(f) + '/' for f in files if f.endswith('.go')})
    res['touched'] = pkgs
    tested = {}
    stable = {t.split('::')[0].replace('github.com/tikv/pd', '.') + '/' for t in json.load(open('/root/.vp/BASELINE.json'))['stable_pass']}
    if any(p.startswith('./server/') for p in pkgs) and './server/' not in pkgs:
        pkgs.append('./server/')
    for p in pkgs:
        if p not in stable:
            tested[p] = 'not in the 47-test baseline (skipped)'
            continue
        for attempt in range(3):  # ./server/ is flaky when other etcd-based tests share the machine
            rc, o = sh(f'go test -vet=off -count=1 -timeout 20m {p}', wt)
            if rc == 0:
                break
        if p.rstrip('/') in ('./server/api', './server/schedule') and rc != 0:
            tested[p] = 'baseline-failing suite (ignored)'
        else:
            tested[p] = 'ok' if rc == 0 else 'FAIL'
    res['existing_tests'] = tested
    good = res['demo_without_patch'] == 'pass' and res['demo_with_patch'] == 'fail' and res['build'] == 'ok' and all(v != 'FAIL' for v in tested.values())
    res['valid'] = good
except BaseException as e:
    res['error'] = repr(e); res['valid'] = False
finally:
    subprocess.run(f'git -C /repo worktree remove --force {wt}', shell=True)
    shutil.rmtree(wt, ignore_errors=True)
log.write('RESULT ' + json.dumps(res) + '\n'); log.close()
print(json.dumps(res))
